/-
S-expressions for the line protocol between the Go harness and the Lean driver.
Unverified IO glue (trusted base): a reader, a printer and accessors.  Atoms are
symbols or (possibly negative) decimal integers; strings cross the protocol as lists of
code points, never as text, so no quoting is needed.
-/
namespace RegexVerif

inductive Sexp where
  | atom : String → Sexp
  | list : List Sexp → Sexp
  deriving Repr, Inhabited

namespace Sexp

private def isDelim (c : Char) : Bool := c == '(' || c == ')' || c == ' ' || c == '\n' || c == '\t' || c == '\r'

/-- tokens: "(" , ")" , atoms -/
def tokenize (cs : List Char) : List String :=
  let rec go (cs : List Char) (cur : List Char) (acc : List String) : List String :=
    match cs with
    | [] => (if cur.isEmpty then acc else (String.ofList cur.reverse) :: acc).reverse
    | c :: rest =>
      if isDelim c then
        let acc := if cur.isEmpty then acc else (String.ofList cur.reverse) :: acc
        if c == '(' then go rest [] ("(" :: acc)
        else if c == ')' then go rest [] (")" :: acc)
        else go rest [] acc
      else go rest (c :: cur) acc
  go cs [] []

/-- parse one expression from a token list; returns the expression and the rest. -/
partial def parseTokens : List String → Option (Sexp × List String)
  | [] => none
  | "(" :: rest =>
    let rec items (ts : List String) (acc : List Sexp) : Option (Sexp × List String) :=
      match ts with
      | [] => none
      | ")" :: rest => some (Sexp.list acc.reverse, rest)
      | _ => match parseTokens ts with
        | none => none
        | some (e, rest) => items rest (e :: acc)
    items rest []
  | ")" :: _ => none
  | a :: rest => some (Sexp.atom a, rest)

def parse (s : String) : Option Sexp :=
  match parseTokens (tokenize s.toList) with
  | some (e, []) => some e
  | _ => none

partial def render : Sexp → String
  | atom a => a
  | list xs => "(" ++ " ".intercalate (xs.map render) ++ ")"

instance : ToString Sexp := ⟨Sexp.render⟩

def int? : Sexp → Option Int
  | atom a => a.toInt?
  | _ => none

def nat? : Sexp → Option Nat
  | atom a => a.toNat?
  | _ => none

def sym? : Sexp → Option String
  | atom a => some a
  | _ => none

def list? : Sexp → Option (List Sexp)
  | list xs => some xs
  | _ => none

def ints? (e : Sexp) : Option (List Int) :=
  match e with
  | list xs => xs.mapM int?
  | _ => none

def nats? (e : Sexp) : Option (List Nat) :=
  match e with
  | list xs => xs.mapM nat?
  | _ => none

/-- `(tag a b c)` ↦ `some [a,b,c]` when the head symbol is `tag` -/
def tagged? (tag : String) : Sexp → Option (List Sexp)
  | list (atom t :: rest) => if t == tag then some rest else none
  | _ => none

/-- head symbol of a list -/
def head? : Sexp → Option String
  | list (atom t :: _) => some t
  | _ => none

def args : Sexp → List Sexp
  | list (_ :: rest) => rest
  | _ => []

/-- look up `(key …)` among a list of tagged entries; returns the arguments -/
def lookup (key : String) : List Sexp → Option (List Sexp)
  | [] => none
  | e :: rest => match tagged? key e with
    | some a => some a
    | none => lookup key rest

def ofInt (i : Int) : Sexp := atom (ToString.toString i)
def ofNat (n : Nat) : Sexp := atom (ToString.toString n)
def ofBool (b : Bool) : Sexp := atom (if b then "1" else "0")
def ofInts (xs : List Int) : Sexp := list (xs.map ofInt)
def ofNats (xs : List Nat) : Sexp := list (xs.map ofNat)
def mk (tag : String) (xs : List Sexp) : Sexp := list (atom tag :: xs)

def bool? : Sexp → Option Bool
  | atom "1" => some true
  | atom "0" => some false
  | _ => none

end Sexp
end RegexVerif
