import RegexVerif.Model.Class
import RegexVerif.Lemmas.Class

/-!
C16 — character-class membership is exact set algebra.

`RegexVerif.Class` (Model/Class.lean) mirrors `syntax/charclass.go`; leg K ties it to the Go code
(structure of parsed classes, lookups, case equivalences).  The theorems below say that every lookup
path of the model computes the set-algebra specification `memAlg`, and that every normalisation and
building operation changes `memAlg` exactly as set algebra prescribes.  `cat` is the Unicode
category oracle (arbitrary), runes are `Nat`, `maxRune = 0x10FFFF`.
-/
namespace RegexVerif.Props.C16
open RegexVerif.Class

/-- a concrete class used to show that hypotheses are satisfiable: `[a-cf-hk-mp-rt-vx-z\p{7}-[b-[^\p{2}]]]`
(six ranges: the binary-search path; a category; two nested subtractions, the inner one negated) -/
def sample : Class :=
  .minus { ranges := [(97, 99), (102, 104), (107, 109), (112, 114), (116, 118), (120, 122)], cats := [(7, false)] }
    (.minus { ranges := [(98, 98)] } (.leaf { cats := [(2, false)], neg := true }))

/-- a toy oracle: category `id` holds the multiples of `id` -/
def sampleCat : Nat → Nat → Bool := fun id ch => ch % id == 0

/-- **The slow path computes set algebra.**  For a class whose range lists are sorted with
non-decreasing ends (every class the parser or `canonicalize` produces; see `canonicalize_canonical`)
`charInSlow` — linear scan for at most four ranges, binary search otherwise, the category loop,
`negate`, the recursive `!sub.CharIn` which may read the subtractor's bitmap — equals
((some range ∨ some category entry) xor negate) ∧ ¬ subtracted. -/
theorem memImpl_eq_memAlg (cat : Nat → Nat → Bool) (c : Class) (ch : Nat)
    (hl : Class.RangesOk c) (hb : BitmapOk cat c) : charInSlow cat c ch = memAlg cat c ch :=
  charInSlow_eq_memAlg cat c ch hl hb

example : Class.RangesOk sample ∧ BitmapOk sampleCat sample := by
  have hs : strip sample = sample := by decide
  refine ⟨⟨?_, ?_, ?_⟩, hs ▸ bitmapOk_strip sampleCat sample⟩ <;> (simp only [Class.RangesOk, LookupOk]; decide)

example : charInSlow sampleCat sample 121 = true ∧ charInSlow sampleCat sample 98 = false ∧
    charInSlow sampleCat sample 99 = true ∧ charInSlow sampleCat sample 100 = false ∧
    charInSlow sampleCat sample 14 = true ∧ charInSlow sampleCat sample 1001 = true := by decide

/-- **`CharIn` (fast path included) computes set algebra** whenever the bitmaps present are the ones
`prepareASCIIBitmap` built (`BitmapOk`). -/
theorem charIn_eq_memAlg (cat : Nat → Nat → Bool) (c : Class) (ch : Nat)
    (hl : Class.RangesOk c) (hb : BitmapOk cat c) : charIn cat c ch = memAlg cat c ch := by
  rw [charIn_eq_charInSlow cat c ch hb]; exact charInSlow_eq_memAlg cat c ch hl hb

/-- **The ASCII bitmap is exact.**  After `prepareASCIIBitmap` (subtractor first, then 128 calls of
`charInSlow`) the class has a bitmap, every bitmap in it agrees with the slow path, and `CharIn`
answers every rune — below 128 from the bitmap, otherwise from the slow path — as the slow path
of the class before preparation did. -/
theorem bitmap_eq (cat : Nat → Nat → Bool) (c : Class) (hb : BitmapOk cat c) :
    BitmapOk cat (prepare cat c) ∧ (prepare cat c).flat.ascii ≠ none ∧
      ∀ ch, charIn cat (prepare cat c) ch = charInSlow cat c ch := by
  obtain ⟨h1, h2, h3⟩ := prepare_spec cat c hb
  exact ⟨h1, h3, fun ch => by rw [charIn_eq_charInSlow cat _ ch h1]; exact h2 ch⟩

/-- the same, read at the level of bits: bit `ch` of the bitmap of a prepared class is set-algebra
membership of `ch` (for classes with sorted range lists) -/
theorem bitmap_bit_eq_memAlg (cat : Nat → Nat → Bool) (c : Class) (hl : Class.RangesOk c)
    (bm : Nat × Nat) (h : (prepare cat (strip c)).flat.ascii = some bm) (ch : Nat) (hch : ch < 128) :
    bitTest bm ch = memAlg cat (strip c) ch := by
  have hb := bitmapOk_strip cat c
  obtain ⟨h1, _, h3⟩ := bitmap_eq cat (strip c) hb
  have hl' : Class.RangesOk (strip c) := rangesOk_strip c hl
  have := h3 ch
  rw [charInSlow_eq_memAlg cat _ ch hl' hb] at this
  rw [← this]
  unfold charIn viaBitmap
  simp [hch, h]

set_option maxRecDepth 20000 in
example : (prepare sampleCat sample).flat.ascii = some (9295997013522923649, 5185679234845122624) := by decide

/-- **The category loop is a disjunction** (after commit 4abd18d): `charInCategories` answers true
exactly when some entry accepts the rune — a positive entry whose category contains it or a negated
entry whose category does not. -/
theorem catLoop_is_disjunction (cat : Nat → Nat → Bool) (cs : List (Nat × Bool)) (ch : Nat) :
    catLoop cat cs ch = true ↔ ∃ c ∈ cs, cat c.1 ch ≠ c.2 := by
  rw [catLoop_eq_inCats]
  simp [inCats, catAccepts, List.any_eq_true]

/-- `[\W\d]`-like witness of the old defect: a negated entry that rejects, then a positive one that accepts -/
example : catLoop sampleCat [(2, true), (3, false)] 6 = true := by decide

/-- **Singleton reduction (`reduceSet`).**  A class for which `IsSingleton` holds matches exactly
`SingletonChar`; one for which `IsSingletonInverse` holds matches exactly the other runes. -/
theorem singleton_reduce_mem (cat : Nat → Nat → Bool) (c : Class) :
    (c.isSingleton = true → ∃ x, c.singletonChar = some x ∧ ∀ ch, memAlg cat c ch = decide (ch = x)) ∧
    (c.isSingletonInverse = true → ∃ x, c.singletonChar = some x ∧ ∀ ch, memAlg cat c ch = !decide (ch = x)) := by
  cases c with
  | minus f s => simp [Class.isSingleton, Class.isSingletonInverse]
  | leaf f =>
    obtain ⟨ranges, cats, neg, anything, building, ascii⟩ := f
    constructor
    · intro h
      simp only [Class.isSingleton, Bool.and_eq_true, Bool.not_eq_true', List.isEmpty_iff] at h
      obtain ⟨⟨hn, hc⟩, hr⟩ := h
      match ranges, hr with
      | [r], hr =>
        simp only [beq_iff_eq] at hr
        refine ⟨r.1, rfl, fun ch => ?_⟩
        subst hn hc
        simp only [memAlg, Flat.memAlg, Flat.pos, inRanges_cons, inRanges_nil, inCats_nil, Bool.or_false, Bool.bne_false]
        apply bool_eq_of_iff
        rw [inRange_iff]; simp only [decide_eq_true_eq]; omega
    · intro h
      simp only [Class.isSingletonInverse, Bool.and_eq_true, List.isEmpty_iff] at h
      obtain ⟨⟨hn, hc⟩, hr⟩ := h
      match ranges, hr with
      | [r], hr =>
        simp only [beq_iff_eq] at hr
        refine ⟨r.1, rfl, fun ch => ?_⟩
        subst hn hc
        simp only [memAlg, Flat.memAlg, Flat.pos, inRanges_cons, inRanges_nil, inCats_nil, Bool.or_false, Bool.bne_true]
        congr 1
        apply bool_eq_of_iff
        rw [inRange_iff]; simp only [decide_eq_true_eq]; omega

example : (Class.leaf { ranges := [(65, 65)] }).isSingleton = true ∧
    (Class.leaf { ranges := [(65, 65)], neg := true }).isSingletonInverse = true := by decide

end RegexVerif.Props.C16
