import RegexVerif.Model.Class
import RegexVerif.Lemmas.Class
import RegexVerif.Lemmas.ClassCanon
import RegexVerif.Lemmas.ClassBuild
import RegexVerif.Generated.Class
import RegexVerif.Model.ClassQuery
import RegexVerif.Lemmas.ClassQuery
import RegexVerif.Generated.ClassQuery

/-!
C16 — character-class membership is exact set algebra.

`RegexVerif.Class` (Model/Class.lean) mirrors `syntax/charclass.go`; leg K ties it to the Go code
(structure of parsed classes, lookups, case equivalences).  The theorems below say that every lookup
path of the model computes the set-algebra specification `memAlg`, and that every normalisation and
building operation changes `memAlg` exactly as set algebra prescribes.  `cat` is the Unicode
category oracle (arbitrary), runes are `Nat`, `maxRune = 0x10FFFF`.
-/
namespace RegexVerif.Props.C16
open RegexVerif.Class

/-- a concrete class used to show that hypotheses are satisfiable: `[a-cf-hk-mp-rt-vx-z\p{7}-[b-[^\p{2}]]]`
(six ranges: the binary-search path; a category; two nested subtractions, the inner one negated) -/
def sample : Class :=
  .minus { ranges := [(97, 99), (102, 104), (107, 109), (112, 114), (116, 118), (120, 122)], cats := [(7, false)] }
    (.minus { ranges := [(98, 98)] } (.leaf { cats := [(2, false)], neg := true }))

/-- a toy oracle: category `id` holds the multiples of `id` -/
def sampleCat : Nat → Nat → Bool := fun id ch => ch % id == 0

/-- **The slow path computes set algebra.**  For a class whose range lists are sorted with
non-decreasing ends (every class the parser or `canonicalize` produces; see `canonicalize_canonical`)
`charInSlow` — linear scan for at most four ranges, binary search otherwise, the category loop,
`negate`, the recursive `!sub.CharIn` which may read the subtractor's bitmap — equals
((some range ∨ some category entry) xor negate) ∧ ¬ subtracted. -/
theorem memImpl_eq_memAlg (cat : Nat → Nat → Bool) (c : Class) (ch : Nat)
    (hl : Class.RangesOk c) (hb : BitmapOk cat c) : charInSlow cat c ch = memAlg cat c ch :=
  charInSlow_eq_memAlg cat c ch hl hb

example : Class.RangesOk sample ∧ BitmapOk sampleCat sample := by
  have hs : strip sample = sample := by decide
  refine ⟨⟨?_, ?_, ?_⟩, hs ▸ bitmapOk_strip sampleCat sample⟩ <;> (simp only [Class.RangesOk, LookupOk]; decide)

example : charInSlow sampleCat sample 121 = true ∧ charInSlow sampleCat sample 98 = false ∧
    charInSlow sampleCat sample 99 = true ∧ charInSlow sampleCat sample 100 = false ∧
    charInSlow sampleCat sample 14 = true ∧ charInSlow sampleCat sample 1001 = true := by decide

/-- **`CharIn` (fast path included) computes set algebra** whenever the bitmaps present are the ones
`prepareASCIIBitmap` built (`BitmapOk`). -/
theorem charIn_eq_memAlg (cat : Nat → Nat → Bool) (c : Class) (ch : Nat)
    (hl : Class.RangesOk c) (hb : BitmapOk cat c) : charIn cat c ch = memAlg cat c ch := by
  rw [charIn_eq_charInSlow cat c ch hb]; exact charInSlow_eq_memAlg cat c ch hl hb

/-- **The ASCII bitmap is exact.**  After `prepareASCIIBitmap` (subtractor first, then 128 calls of
`charInSlow`) the class has a bitmap, every bitmap in it agrees with the slow path, and `CharIn`
answers every rune — below 128 from the bitmap, otherwise from the slow path — as the slow path
of the class before preparation did. -/
theorem bitmap_eq (cat : Nat → Nat → Bool) (c : Class) (hb : BitmapOk cat c) :
    BitmapOk cat (prepare cat c) ∧ (prepare cat c).flat.ascii ≠ none ∧
      ∀ ch, charIn cat (prepare cat c) ch = charInSlow cat c ch := by
  obtain ⟨h1, h2, h3⟩ := prepare_spec cat c hb
  exact ⟨h1, h3, fun ch => by rw [charIn_eq_charInSlow cat _ ch h1]; exact h2 ch⟩

/-- the same, read at the level of bits: bit `ch` of the bitmap of a prepared class is set-algebra
membership of `ch` (for classes with sorted range lists) -/
theorem bitmap_bit_eq_memAlg (cat : Nat → Nat → Bool) (c : Class) (hl : Class.RangesOk c)
    (bm : Nat × Nat) (h : (prepare cat (strip c)).flat.ascii = some bm) (ch : Nat) (hch : ch < 128) :
    bitTest bm ch = memAlg cat (strip c) ch := by
  have hb := bitmapOk_strip cat c
  obtain ⟨h1, _, h3⟩ := bitmap_eq cat (strip c) hb
  have hl' : Class.RangesOk (strip c) := rangesOk_strip c hl
  have := h3 ch
  rw [charInSlow_eq_memAlg cat _ ch hl' hb] at this
  rw [← this]
  unfold charIn viaBitmap
  simp [hch, h]

set_option maxRecDepth 20000 in
example : (prepare sampleCat sample).flat.ascii = some (9295997013522923649, 5185679234845122624) := by decide

/-- **The category loop is a disjunction** (after commit 4abd18d): `charInCategories` answers true
exactly when some entry accepts the rune — a positive entry whose category contains it or a negated
entry whose category does not. -/
theorem catLoop_is_disjunction (cat : Nat → Nat → Bool) (cs : List (Nat × Bool)) (ch : Nat) :
    catLoop cat cs ch = true ↔ ∃ c ∈ cs, cat c.1 ch ≠ c.2 := by
  rw [catLoop_eq_inCats]
  simp [inCats, catAccepts, List.any_eq_true]

/-- `[\W\d]`-like witness of the old defect: a negated entry that rejects, then a positive one that accepts -/
example : catLoop sampleCat [(2, true), (3, false)] 6 = true := by decide

/-- **Singleton reduction (`reduceSet`).**  A class for which `IsSingleton` holds matches exactly
`SingletonChar`; one for which `IsSingletonInverse` holds matches exactly the other runes. -/
theorem singleton_reduce_mem (cat : Nat → Nat → Bool) (c : Class) :
    (c.isSingleton = true → ∃ x, c.singletonChar = some x ∧ ∀ ch, memAlg cat c ch = decide (ch = x)) ∧
    (c.isSingletonInverse = true → ∃ x, c.singletonChar = some x ∧ ∀ ch, memAlg cat c ch = !decide (ch = x)) := by
  cases c with
  | minus f s => simp [Class.isSingleton, Class.isSingletonInverse]
  | leaf f =>
    obtain ⟨ranges, cats, neg, anything, building, ascii⟩ := f
    constructor
    · intro h
      simp only [Class.isSingleton, Bool.and_eq_true, Bool.not_eq_true', List.isEmpty_iff] at h
      obtain ⟨⟨hn, hc⟩, hr⟩ := h
      match ranges, hr with
      | [r], hr =>
        simp only [beq_iff_eq] at hr
        refine ⟨r.1, rfl, fun ch => ?_⟩
        subst hn hc
        simp only [memAlg, Flat.memAlg, Flat.pos, inRanges_cons, inRanges_nil, inCats_nil, Bool.or_false, Bool.bne_false]
        apply bool_eq_of_iff
        rw [inRange_iff]; simp only [decide_eq_true_eq]; omega
    · intro h
      simp only [Class.isSingletonInverse, Bool.and_eq_true, List.isEmpty_iff] at h
      obtain ⟨⟨hn, hc⟩, hr⟩ := h
      match ranges, hr with
      | [r], hr =>
        simp only [beq_iff_eq] at hr
        refine ⟨r.1, rfl, fun ch => ?_⟩
        subst hn hc
        simp only [memAlg, Flat.memAlg, Flat.pos, inRanges_cons, inRanges_nil, inCats_nil, Bool.or_false, Bool.bne_true]
        congr 1
        apply bool_eq_of_iff
        rw [inRange_iff]; simp only [decide_eq_true_eq]; omega

example : (Class.leaf { ranges := [(65, 65)] }).isSingleton = true ∧
    (Class.leaf { ranges := [(65, 65)], neg := true }).isSingletonInverse = true := by decide

/-! ## `canonicalize` -/

/-- **`canonicalize` does not change membership** of any valid rune: sorting, merging overlapping or
abutting ranges (including the early exit once a range reaches U+10FFFF), and the three normal forms
("everything but a gap" → negated gap; one range covering everything → `anything`, categories
dropped; ranges omit one character and there are categories → `anything` or negated singleton,
decided by asking the categories about that character) all preserve
(ranges ∨ categories) xor negate.  `hasSub` says whether the class has a subtractor (the normal forms
are then skipped); the subtractor itself is untouched, so membership of the whole class is unchanged
too (`canonicalize_mem_class`). -/
theorem canonicalize_mem (cat : Nat → Nat → Bool) (hasSub : Bool) (f : Flat) (ch : Nat) (hch : ch ≤ maxRune) :
    (f.canonicalize cat hasSub).memAlg cat ch = f.memAlg cat ch :=
  Flat.canonicalize_mem cat hasSub f ch hch

theorem canonicalize_mem_class (cat : Nat → Nat → Bool) (c : Class) (ch : Nat) (hch : ch ≤ maxRune) :
    memAlg cat (c.withFlat (c.flat.canonicalize cat c.hasSub)) ch = memAlg cat c ch := by
  cases c with
  | leaf f => exact Flat.canonicalize_mem cat false f ch hch
  | minus f s => simp only [Class.withFlat, Class.flat, Class.hasSub, memAlg, Flat.canonicalize_mem cat true f ch hch]

/-- the normal forms at work: `[\x00-ac-\x{10FFFF}]` becomes `[^b]`, and `[\x00-46-\x{10FFFF}\p{5}]`
(toy category 5 = multiples of 5, and '5' = 53 is not one) becomes `[^5]` -/
example : (({ ranges := [(99, maxRune), (0, 97)] } : Flat).canonicalize sampleCat false) = { ranges := [(98, 98)], neg := true } := by
  decide
example : (({ ranges := [(54, maxRune), (0, 52)], cats := [(5, false)] } : Flat).canonicalize sampleCat false)
    = { ranges := [(53, 53)], neg := true } := by decide
example : (({ ranges := [(56, maxRune), (0, 54)], cats := [(5, false)] } : Flat).canonicalize sampleCat false)
    = { ranges := [(0, maxRune)], anything := true } := by decide

/-- **`canonicalize` produces the canonical form** the lookups rely on: if every range is a
non-empty interval, the resulting list is sorted, its ranges neither overlap nor abut, and are
non-empty — in particular it satisfies the precondition of `memImpl_eq_memAlg`. -/
theorem canonicalize_canonical (cat : Nat → Nat → Bool) (hasSub : Bool) (f : Flat)
    (hw : ∀ r ∈ f.ranges, r.1 ≤ r.2) :
    Canon (f.canonicalize cat hasSub).ranges ∧ LookupOk (f.canonicalize cat hasSub).ranges :=
  ⟨Flat.canonicalize_canon cat hasSub f hw, (Flat.canonicalize_canon cat hasSub f hw).lookupOk⟩

example : (({ ranges := [(99, 102), (97, 100), (120, 120), (103, 103), (0x10FFFF, 0x10FFFF), (50, 0x10FFFF)] } : Flat).canonicalize sampleCat true).ranges
    = [(50, 0x10FFFF)] := by decide
example : (({ ranges := [(99, 102), (97, 100), (120, 120), (103, 103)] } : Flat).canonicalize sampleCat false).ranges
    = [(97, 103), (120, 120)] := by decide

/-! ## building operations -/

/-- **`addRange` adds exactly the range to the positive side** (`addChar` is the case `lo = hi`):
membership afterwards is ((old ranges ∨ categories ∨ lo ≤ ch ≤ hi) xor negate), whatever normal form
`canonicalize` then chooses. -/
theorem addRange_mem (cat : Nat → Nat → Bool) (hasSub : Bool) (f : Flat) (lo hi ch : Nat) (hch : ch ≤ maxRune) :
    (f.addRange cat hasSub lo hi).memAlg cat ch = ((f.pos cat ch || inRange (lo, hi) ch) != f.neg) := by
  unfold Flat.addRange
  rw [Flat.canonicalize_mem cat hasSub _ ch hch]
  simp only [Flat.memAlg, Flat.pos, inRanges_append, inRanges_cons, inRanges_nil, Bool.or_false]
  cases inRanges f.ranges ch <;> cases inCats cat f.cats ch <;> simp

/-- **The complement construction of `addNegativeRanges` is exact** on ascending, disjoint,
non-empty ranges none of which ends at U+10FFFE: over the valid runes the constructed list contains
exactly the runes outside the given ranges.  (The code tests `hi < MaxRune` strictly, so a list ending
at U+10FFFE would lose U+10FFFF — see the counter-instance below; `posix_tables_ok` shows that no
table in the source is of that kind.) -/
theorem negatedRanges_mem (rs : List (Nat × Nat)) (hok : NegOk rs) (ch : Nat) (hch : ch ≤ maxRune) :
    inRanges (negGo 0 rs) ch = !inRanges rs ch := by
  rw [negGo_mem ch hch rs 0 (by decide) (fun _ _ => Nat.zero_le _) hok]
  simp

example : negGo 0 [(65, 90), (97, 122)] = [(0, 64), (91, 96), (123, maxRune)] := by decide
/-- the latent off-by-one: the complement of `[\x00-\x{10FFFE}]` comes out empty -/
example : negGo 0 [(0, maxRune - 1)] = [] ∧ ¬ NegOk [(0, maxRune - 1)] := by decide

/-- **Facts regenerated from the source on every run:** every POSIX table of `addNamedASCII`
satisfies the precondition of `negatedRanges_mem`, consists of non-empty intervals, and the
linear-scan threshold of `charInSlow` is the one the model uses. -/
theorem posix_tables_ok :
    (∀ t ∈ RegexVerif.Generated.posixTables, NegOk t.2) ∧ RegexVerif.Generated.linearScanMax = 4 := by decide

/-- **`scanCharSet` builds the union of its items.**  For a class `[` (`^`)? item… (`-[sub]`)? `]`
read without IgnoreCase — every item added with `addRange` / `addRanges` / `addNegativeRanges` /
`addCategories` while the class is marked `building`, then one full `canonicalize` — the head
`CharSet` matches a valid rune exactly when (some item matches it) xor (`^` was written).
Holds for every item list; `[:^name:]` tables must satisfy `NegOk` (they do: `posix_tables_ok`).
Before commit 493eae7 this was false (`[\D5]` under ECMAScript). -/
theorem build_mem (cat : Nat → Nat → Bool) (neg : Bool) (items : List Item) (hasSub : Bool)
    (hok : ∀ it ∈ items, it.Ok) (ch : Nat) (hch : ch ≤ maxRune) :
    (build cat neg items hasSub).memAlg cat ch = (items.any (fun it => it.mem cat ch) != neg) := by
  have h0 : BuildInv cat neg ({ neg := neg, building := true } : Flat) :=
    ⟨rfl, rfl, fun h => by cases h⟩
  obtain ⟨hinv, hpos⟩ := foldl_addItem_spec cat neg items _ h0 hok
  unfold build Flat.finish
  rw [Flat.canonicalize_mem cat hasSub _ ch hch]
  have := hpos ch hch
  unfold buildItems
  simp only [Flat.memAlg]
  show ((List.foldl (Flat.addItem cat) _ items).pos cat ch != (List.foldl (Flat.addItem cat) _ items).neg) = _
  rw [this, hinv.negEq]
  simp [Flat.pos]

/-- the class's ranges come out canonical (so the lookups are exact on it) when the items' ranges are
non-empty intervals -/
theorem build_canonical (cat : Nat → Nat → Bool) (neg : Bool) (items : List Item) (hasSub : Bool)
    (hok : ∀ it ∈ items, it.Wf ∧ it.Ok) :
    Canon (build cat neg items hasSub).ranges ∧ LookupOk (build cat neg items hasSub).ranges := by
  have hw : (buildItems cat neg items).Wf :=
    foldl_addItem_wf cat items _ (by intro r hr; cases hr) hok
  exact canonicalize_canonical cat hasSub _ hw

/-- ECMAScript `[\D5]`: `\D` is the pair of ranges around 0-9; the class must contain '5' (53), and
`[^\p{2}\P{2}]` (a category and its negation) must be empty -/
example : (build sampleCat false [.ranges [(0, 47), (58, maxRune)], .range 53 53] false) = { ranges := [(0, 47), (53, 53), (58, maxRune)] } ∧
    (build sampleCat false [.ranges [(0, 47), (58, maxRune)]] false) = { ranges := [(48, 57)], neg := true } ∧
    (build sampleCat false [.ranges [(0, 47), (58, maxRune)], .range 53 53] false).memAlg sampleCat 53 = true ∧
    (build sampleCat true [.cats [(2, false)], .cats [(2, true)]] false).memAlg sampleCat 7 = false := by decide

/-- **End to end (no IgnoreCase): a written class, parsed, prepared and looked up, is set algebra over
its parts.**  For every class expression with nested subtractions, every item list (ranges
non-empty, `[:^name:]` tables as in the source), every category oracle and every valid rune: parse
each level as `scanCharSet` does, build the ASCII bitmaps as `Compile` does, look the rune up with
`CharIn` (bitmap below 128, linear or binary search above) — the answer is
((some item of the level matches) xor `^`) and not (the same for the subtracted class). -/
theorem parsed_class_exact (cat : Nat → Nat → Bool) (a : Ast) (hok : ∀ it ∈ a.items, it.Wf ∧ it.Ok)
    (ch : Nat) (hch : ch ≤ maxRune) :
    charIn cat (prepare cat (strip (Ast.parse cat a))) ch = Ast.mem cat a ch ∧
    charInSlow cat (strip (Ast.parse cat a)) ch = Ast.mem cat a ch := by
  have hr : Class.RangesOk (Ast.parse cat a) ∧ memAlg cat (Ast.parse cat a) ch = Ast.mem cat a ch := by
    induction a with
    | leaf neg items =>
      have h1 : ∀ it ∈ items, it.Wf ∧ it.Ok := fun it hit => hok it hit
      exact ⟨(build_canonical cat neg items false h1).2, build_mem cat neg items false (fun it hit => (h1 it hit).2) ch hch⟩
    | minus neg items sub ih =>
      have h1 : ∀ it ∈ items, it.Wf ∧ it.Ok := fun it hit => hok it (List.mem_append_left _ hit)
      obtain ⟨ih1, ih2⟩ := ih (fun it hit => hok it (List.mem_append_right _ hit))
      refine ⟨⟨(build_canonical cat neg items true h1).2, ih1⟩, ?_⟩
      simp only [Ast.parse, memAlg, Ast.mem, ih2, build_mem cat neg items true (fun it hit => (h1 it hit).2) ch hch]
  have hb := bitmapOk_strip cat (Ast.parse cat a)
  have hslow : charInSlow cat (strip (Ast.parse cat a)) ch = Ast.mem cat a ch := by
    rw [charInSlow_eq_memAlg cat _ ch (rangesOk_strip _ hr.1) hb, memAlg_strip, hr.2]
  exact ⟨by rw [(bitmap_eq cat _ hb).2.2 ch, hslow], hslow⟩

/-- `[a-f\p{7}-[d-[^\p{2}]]]` (toy categories: multiples): 'd' (100, even) is not in the inner
`[^\p{2}]`, so it is subtracted; 'c' (99) is in; 'p' (112 = 7·16) is in through the category -/
example :
    let a : Ast := .minus false [.range 97 102, .cats [(7, false)]] (.minus false [.range 100 100] (.leaf true [.cats [(2, false)]]))
    (∀ it ∈ a.items, it.Wf ∧ it.Ok) ∧ Ast.mem sampleCat a 99 = true ∧ Ast.mem sampleCat a 100 = false ∧
      Ast.mem sampleCat a 98 = true ∧ Ast.mem sampleCat a 112 = true ∧ Ast.mem sampleCat a 103 = false := by
  refine ⟨?_, by decide⟩
  intro it hit
  simp [Ast.items] at hit
  rcases hit with rfl | rfl | rfl | rfl <;> simp [Item.Wf, Item.Ok]

/-- **`addSet` is union** on the positive side (callers require both classes un-negated and
subtraction-free, `IsMergeable`): with truthful `anything` flags, membership afterwards is
((own ranges ∨ own categories ∨ the other's ranges ∨ the other's categories) xor own negate). -/
theorem addSet_mem (cat : Nat → Nat → Bool) (hasSub : Bool) (f s : Flat) (hf : f.AnyOk cat) (hs : s.AnyOk cat)
    (ch : Nat) (hch : ch ≤ maxRune) :
    (f.addSet cat hasSub s).memAlg cat ch = ((f.pos cat ch || s.pos cat ch) != f.neg) :=
  Flat.addSet_mem cat hasSub f s hf hs ch hch

example : (({ ranges := [(97, 99)], cats := [(7, false)] } : Flat).addSet sampleCat false { ranges := [(98, 104)], cats := [(7, true)] })
    = { ranges := [(0, maxRune)], anything := true } := by decide

/-- **`addCaseEquivalences` closes every level under case equivalence** (`orbit i` = the other
members of `i`'s `SimpleFold` orbit): afterwards a valid rune is in the class exactly when, level
by level, ((it or a rune it is an equivalent of lies in a range, or a category entry accepts it) xor
negate) and it is not in the likewise folded subtractor — the subtractor is folded too (commit
ec20cf4), and the normal forms are taken only afterwards (commit d62d6ac). -/
theorem caseEquiv_mem (cat : Nat → Nat → Bool) (orbit : Nat → List Nat) (c : Class) (hc : Class.AnyOk cat c)
    (ch : Nat) (hch : ch ≤ maxRune) :
    memAlg cat (Class.addCaseEquivalences cat orbit c) ch = memAlgFold cat orbit c ch ∧
    (∀ rs, foldHit orbit rs ch = true ↔ ∃ r ∈ rs, ∃ i, r.1 ≤ i ∧ i ≤ r.2 ∧ ch ∈ orbit i) :=
  ⟨Class.addCaseEquivalences_mem cat orbit c hc ch hch, fun rs => foldHit_iff orbit rs ch⟩

/-- `(?i)[a-z-[b]]` with a toy orbit (letter ↔ letter ∓ 32): 'B' (66) and 'b' are both removed -/
example :
    let orbit : Nat → List Nat := fun i => if 97 ≤ i ∧ i ≤ 122 then [i - 32] else if 65 ≤ i ∧ i ≤ 90 then [i + 32] else []
    let c := Class.addCaseEquivalences sampleCat orbit (.minus { ranges := [(97, 122)] } (.leaf { ranges := [(98, 98)] }))
    memAlg sampleCat c 66 = false ∧ memAlg sampleCat c 98 = false ∧ memAlg sampleCat c 67 = true := by decide

/-! ========================================================================================
## The query functions (`Model/ClassQuery.lean`; leg Kq)

The rewrites and the prefix analyses never ask only "is r a member": they ask `MayOverlap`, `Equals`,
`IsSingleton`, `GetSetChars`, … .  Each theorem below states what an answer of the modelled function
means for MEMBERSHIP (`memAlg`, which the theorems above tie to every lookup path).
======================================================================================== -/

/-- the constants of the source: the three category names are parameters (symbolic), the rune tables are the
regenerated ones -/
def srcConsts (space word nd : Nat) : Consts :=
  { space := space, word := word, nd := nd, ecmaSpace := RegexVerif.Generated.ecmaSpace,
    ecmaWord := RegexVerif.Generated.ecmaWord, ecmaDigit := RegexVerif.Generated.ecmaDigit,
    whitespaceChars := RegexVerif.Generated.whitespaceChars }

/-- a toy oracle for the examples: category 0 = {32}, category 1 = letters a-z, category 2 = digits 0-9 -/
def toyCat : Nat → Nat → Bool := fun id ch =>
  if id = 0 then ch == 32 else if id = 1 then decide (97 ≤ ch ∧ ch ≤ 122) else decide (48 ≤ ch ∧ ch ≤ 57)

/-- **Facts regenerated from the source on every run (query functions).**  `knownDistinctSets` compares its
first argument with `SpaceClass`/`ECMASpaceClass` and its second with
`DigitClass`/`WordClass`/`ECMADigitClass`/`ECMAWordClass` (what `Class.knownDistinctSets` mirrors); these six
constant classes are constructed as `Consts.*Class` constructs them; and the ECMAScript space table is
disjoint from the ECMAScript word and digit tables (`TableFacts`). -/
theorem query_constants_expected :
    RegexVerif.Generated.knownDistinctFirst = ["SpaceClass", "ECMASpaceClass"] ∧
    RegexVerif.Generated.knownDistinctSecond = ["DigitClass", "WordClass", "ECMADigitClass", "ECMAWordClass"] ∧
    RegexVerif.Generated.categoryClasses =
      [("WordClass", false, false, [RegexVerif.Generated.wordCategoryText]),
       ("NotWordClass", true, false, [RegexVerif.Generated.wordCategoryText]),
       ("SpaceClass", false, false, [RegexVerif.Generated.spaceCategoryText]),
       ("NotSpaceClass", true, false, [RegexVerif.Generated.spaceCategoryText]),
       ("DigitClass", false, false, ["Nd"]), ("NotDigitClass", false, true, ["Nd"])] ∧
    (RegexVerif.Generated.oldStringClasses.filter (fun c => c.1 = "ECMASpaceClass" ∨ c.1 = "ECMAWordClass" ∨ c.1 = "ECMADigitClass")) =
      [("ECMAWordClass", RegexVerif.Generated.ecmaWord, false), ("ECMASpaceClass", RegexVerif.Generated.ecmaSpace, false),
       ("ECMADigitClass", RegexVerif.Generated.ecmaDigit, false)] ∧
    ∀ s w n, TableFacts (srcConsts s w n) := by
  refine ⟨by decide, by decide, by decide, by decide, fun s w n => ⟨?_, ?_⟩⟩
  · show rangesDisjoint (fromOldString RegexVerif.Generated.ecmaSpace false).ranges (fromOldString RegexVerif.Generated.ecmaWord false).ranges = true
    decide
  · show rangesDisjoint (fromOldString RegexVerif.Generated.ecmaSpace false).ranges (fromOldString RegexVerif.Generated.ecmaDigit false).ranges = true
    decide

/-- the ECMAScript tables as classes: `\s` = 9-13, 32, 160, 5760, 8192-8202, 8232-8233, 8239, 8287, 12288, 65279 -/
example : (fromOldString RegexVerif.Generated.ecmaSpace false).ranges =
    [(9, 13), (32, 32), (160, 160), (5760, 5760), (8192, 8202), (8232, 8233), (8239, 8239), (8287, 8287), (12288, 12288), (65279, 65279)] ∧
    (fromOldString RegexVerif.Generated.ecmaWord true).ranges = [(0, 47), (58, 64), (91, 94), (96, 96), (123, maxRune)] ∧
    (fromOldString [0] false) = { ranges := [(0, maxRune)], anything := true } ∧
    -- the sizing quirk: an odd-length text starting with 0, negated, leaves a zero range at the end
    (fromOldString [0, 5, 9] true).ranges = [(5, 8), (0, 0)] := by decide

/-- **`MayOverlap` is sound: a `false` answer means the two classes share no rune.**  For ALL pairs of
classes (sorted range lists and truthful bitmaps, as every compiled class has): the inverse case (one
negated, one not, everything else equal — `!set1.equals(set2, true)`), the table of known distinct classes
(`\s` against `\d`/`\w`, default and ECMAScript — under the stated facts about the category oracle, which leg
`Kq-facts` checks against Go's `unicode` tables over all code points, and the regenerated table facts), and
the enumeration of the category-free side through `CharIn` of the other.  This is the side condition under
which `canBeMadeAtomic` makes a set loop atomic in front of a set (C05: `loop_atomic_disjoint`). -/
theorem mayOverlap_sound (cat : Nat → Nat → Bool) (k : Consts) (hk : OracleFacts cat k) (ht : TableFacts k)
    (a b : Class) (ha : Class.RangesOk a) (hab : BitmapOk cat a) (hb : Class.RangesOk b) (hbb : BitmapOk cat b)
    (h : mayOverlap cat k a b = false) (r : Nat) (hr : r ≤ maxRune) :
    ¬ (memAlg cat a r = true ∧ memAlg cat b r = true) := by
  unfold mayOverlap at h
  split at h
  · cases h
  split at h
  · cases h
  simp only [] at h
  split at h
  · -- one negated, one not: everything else is equal
    rename_i hneg
    have he : Class.equalsGo a b true = true := by simpa using h
    obtain ⟨_, _, h3, h4, _, h6⟩ := equalsGo_spec cat a b true he
    rintro ⟨ma, mb⟩
    rw [memAlg_split] at ma mb
    simp only [Bool.and_eq_true] at ma mb
    have hp : a.flat.pos cat r = b.flat.pos cat r := by simp [Flat.pos, h3, h4]
    have hn : a.flat.neg ≠ b.flat.neg := by simpa [Class.isNegated] using hneg
    have h1 := ma.1
    have h2 := mb.1
    simp only [Flat.memAlg, hp] at h1 h2
    revert h1 h2 hn
    cases b.flat.pos cat r <;> cases a.flat.neg <;> cases b.flat.neg <;> simp
  · rename_i hneg
    split at h
    · cases h
    rename_i hna
    have hna' : a.flat.neg = false := by simpa [Class.isNegated] using hna
    have hnb' : b.flat.neg = false := by
      have : a.flat.neg = b.flat.neg := by simpa [Class.isNegated] using hneg
      rw [← this]; exact hna'
    split at h
    · -- the table of known distinct classes
      rename_i hkd
      rw [Bool.or_eq_true] at hkd
      rcases hkd with hkd | hkd
      · exact knownDistinct_sound cat k hk ht a b hkd r hr
      · intro ⟨ma, mb⟩
        exact knownDistinct_sound cat k hk ht b a hkd r hr ⟨mb, ma⟩
    split at h
    · -- enumerate b, look up in a
      rename_i hcond
      simp only [Bool.and_eq_true, Bool.not_eq_true', List.isEmpty_iff] at hcond
      rintro ⟨ma, mb⟩
      rw [memAlg_ranges_only cat b hnb' hcond.1 hcond.2] at mb
      have := enum_false cat a b h r mb
      rw [charIn_eq_memAlg cat a r ha hab, ma] at this
      cases this
    split at h
    · rename_i hcond
      simp only [Bool.and_eq_true, Bool.not_eq_true', List.isEmpty_iff] at hcond
      rintro ⟨ma, mb⟩
      rw [memAlg_ranges_only cat a hna' hcond.1 hcond.2] at ma
      have := enum_false cat b a h r ma
      rw [charIn_eq_memAlg cat b r hb hbb, mb] at this
      cases this
    · cases h

/-- the toy oracle satisfies the facts; `\s` vs `\d` (known distinct), `[^abc]` vs `[abc]` (inverse), `[a-f]` vs
`[g-k]` (enumeration) are declared disjoint; `[a-f]` vs `[f-k]` and `\w` vs `\d` are not -/
example : OracleFacts toyCat (srcConsts 0 1 2) ∧
    mayOverlap toyCat (srcConsts 0 1 2) (.leaf { cats := [(0, false)] }) (.leaf { cats := [(2, false)] }) = false ∧
    mayOverlap toyCat (srcConsts 0 1 2) (.leaf { ranges := [(97, 99)], neg := true }) (.leaf { ranges := [(97, 99)] }) = false ∧
    mayOverlap toyCat (srcConsts 0 1 2) (.leaf { ranges := [(97, 102)] }) (.leaf { ranges := [(103, 107)] }) = false ∧
    mayOverlap toyCat (srcConsts 0 1 2) (.leaf { ranges := [(97, 102)] }) (.leaf { ranges := [(102, 107)] }) = true ∧
    mayOverlap toyCat (srcConsts 0 1 2) (.leaf { cats := [(1, false)] }) (.leaf { cats := [(2, false)] }) = true := by
  refine ⟨⟨?_, ?_, ?_, ?_, ?_, ?_⟩, by decide, by decide, by decide, by decide, by decide⟩
  · intro r _ h; simp [toyCat, srcConsts] at h ⊢; omega
  · intro r _ h; simp [toyCat, srcConsts] at h ⊢; omega
  · intro r _ h
    have : (fromOldString (srcConsts 0 1 2).ecmaSpace false).ranges = [(9, 13), (32, 32), (160, 160), (5760, 5760), (8192, 8202), (8232, 8233), (8239, 8239), (8287, 8287), (12288, 12288), (65279, 65279)] := by decide
    rw [this] at h
    simp [inRange] at h
    simp [toyCat, srcConsts]; omega
  · intro r _ h
    have : (fromOldString (srcConsts 0 1 2).ecmaSpace false).ranges = [(9, 13), (32, 32), (160, 160), (5760, 5760), (8192, 8202), (8232, 8233), (8239, 8239), (8287, 8287), (12288, 12288), (65279, 65279)] := by decide
    rw [this] at h
    simp [inRange] at h
    simp [toyCat, srcConsts]; omega
  · intro r _ h
    have : (fromOldString (srcConsts 0 1 2).ecmaWord false).ranges = [(48, 57), (65, 90), (95, 95), (97, 122)] := by decide
    rw [this] at h
    simp [inRange] at h
    simp [toyCat, srcConsts]; omega
  · intro r _ h
    have : (fromOldString (srcConsts 0 1 2).ecmaDigit false).ranges = [(48, 57)] := by decide
    rw [this] at h
    simp [inRange] at h
    simp [toyCat, srcConsts]; omega

/-- **What `MayOverlap = true` means on the enumeration path: a common rune exists** (the answer is exact
there, not merely conservative): both classes un-negated, not equal, no `anything` flag, not in the table,
and `set2` without categories and subtraction. -/
theorem mayOverlapByEnumeration_complete (cat : Nat → Nat → Bool) (a b : Class)
    (ha : Class.RangesOk a) (hab : BitmapOk cat a) (hn : b.flat.neg = false) (hs : b.hasSub = false) (hc : b.flat.cats = [])
    (h : mayOverlapByEnumeration cat a b = true) : ∃ r, memAlg cat a r = true ∧ memAlg cat b r = true := by
  obtain ⟨ch, h1, h2⟩ := enum_true cat a b h
  exact ⟨ch, by rw [← charIn_eq_memAlg cat a ch ha hab]; exact h2, by rw [memAlg_ranges_only cat b hn hs hc]; exact h1⟩

example : mayOverlapByEnumeration toyCat (.leaf { cats := [(1, false)] }) (.leaf { ranges := [(90, 97)] }) = true := by decide

/-- **`Equals` implies equal membership**, for every rune and every pair of classes (no precondition: the
comparison is structural — `negate`, `anything`, ranges, categories, recursively the subtractor).  It is what
`reduceConcatenationWithAdjacentLoops`, the writer's set table and `knownDistinctSets` rely on. -/
theorem equals_spec (cat : Nat → Nat → Bool) (a b : Class) (h : a.equals b = true) (r : Nat) :
    memAlg cat a r = memAlg cat b r :=
  equalsGo_false_mem cat a b h r

/-- **`equals(c2, ignoreNegate = true)`**: the two classes have the same positive part and equal
subtractors; with equal `negate` they are the same set, with different `negate` the first is the complement
of the second's head, minus the common subtractor — in particular they are disjoint. -/
theorem equalsIgnoreNegate_spec (cat : Nat → Nat → Bool) (a b : Class) (h : Class.equalsGo a b true = true) (r : Nat) :
    (a.flat.neg = b.flat.neg → memAlg cat a r = memAlg cat b r) ∧
    (a.flat.neg ≠ b.flat.neg → memAlg cat a r = (!(b.flat.memAlg cat r) && !(b.subMem cat r))) := by
  obtain ⟨_, _, h3, h4, _, h6⟩ := equalsGo_spec cat a b true h
  have hp : a.flat.pos cat r = b.flat.pos cat r := by simp [Flat.pos, h3, h4]
  rw [memAlg_split cat a, memAlg_split cat b, h6 r]
  simp only [Flat.memAlg, hp]
  constructor
  · intro hn; rw [hn]
  · intro hn
    revert hn
    cases a.flat.neg <;> cases b.flat.neg <;> simp

example : Class.equalsGo (.minus { ranges := [(97, 122)], neg := true } (.leaf { ranges := [(101, 101)] }))
      (.minus { ranges := [(97, 122)] } (.leaf { ranges := [(101, 101)] })) true = true ∧
    (Class.leaf { ranges := [(97, 122)], neg := true }).equals (.leaf { ranges := [(97, 122)] }) = false ∧
    -- a different subtractor is not ignored
    Class.equalsGo (.minus { ranges := [(97, 122)], neg := true } (.leaf { ranges := [(101, 101)] }))
      (.minus { ranges := [(97, 122)] } (.leaf { ranges := [(102, 102)] })) true = false := by decide

/-- **`IsSingleton` ⇒ exactly one rune is a member, and it is `SingletonChar`.**  (`reduceSet` turns the set
into `One`; the runner's `forwardcharnext` short-cut.) -/
theorem isSingleton_spec (cat : Nat → Nat → Bool) (c : Class) (h : c.isSingleton = true) :
    ∃ x, c.singletonChar = some x ∧ memAlg cat c x = true ∧ ∀ r, memAlg cat c r = true → r = x := by
  obtain ⟨x, hx, hm⟩ := (singleton_reduce_mem cat c).1 h
  exact ⟨x, hx, by simp [hm], fun r hr => by simpa [hm] using hr⟩

/-- **`IsSingletonInverse` ⇒ exactly one rune is NOT a member, and it is `SingletonChar`** (`reduceSet` →
`Notone`). -/
theorem isSingletonInverse_spec (cat : Nat → Nat → Bool) (c : Class) (h : c.isSingletonInverse = true) :
    ∃ x, c.singletonChar = some x ∧ memAlg cat c x = false ∧ ∀ r, memAlg cat c r = false → r = x := by
  obtain ⟨x, hx, hm⟩ := (singleton_reduce_mem cat c).2 h
  exact ⟨x, hx, by simp [hm], fun r hr => by simpa [hm] using hr⟩

/-- **`SingletonChar` is defined whenever one of the two tests holds** (it indexes `ranges[0]` unguarded) and
is then the first bound of the only range. -/
theorem singletonChar_spec (c : Class) (h : c.isSingleton = true ∨ c.isSingletonInverse = true) :
    ∃ x, c.singletonChar = some x ∧ c.flat.ranges = [(x, x)] := by
  cases c with
  | minus f s => simp [Class.isSingleton, Class.isSingletonInverse] at h
  | leaf f =>
    have : ∃ r, f.ranges = [r] ∧ r.1 = r.2 := by
      rcases h with h | h <;>
        (simp only [Class.isSingleton, Class.isSingletonInverse, Bool.and_eq_true] at h
         obtain ⟨_, hr⟩ := h
         match hf : f.ranges, hr with
         | [r], hr => exact ⟨r, rfl, by simpa using hr⟩)
    obtain ⟨r, h1, h2⟩ := this
    refine ⟨r.1, by simp [Class.singletonChar, Class.flat, h1], ?_⟩
    simp only [Class.flat, h1]
    congr 1
    exact Prod.ext rfl h2.symm

example : (Class.leaf { ranges := [(65, 65)] }).isSingleton = true ∧ (Class.leaf { ranges := [(65, 65)] }).singletonChar = some 65 ∧
    (Class.leaf { ranges := [(65, 66)] }).isSingleton = false ∧
    (Class.minus { ranges := [(65, 65)] } (.leaf {})).isSingleton = false := by decide

/-- **`IsEmpty` ⇒ no rune is a member — of the un-negated class** (membership of every rune is `negate`:
a negated class without ranges, categories and subtraction matches everything).  `computeFirstCharClass`
reads the flag as "no first character". -/
theorem isEmpty_spec (cat : Nat → Nat → Bool) (c : Class) (h : c.isEmpty = true) (r : Nat) :
    memAlg cat c r = c.isNegated := by
  cases c with
  | minus f s => simp [Class.isEmpty, Class.hasSub] at h
  | leaf f =>
    simp only [Class.isEmpty, Class.flat, Class.hasSub, Bool.and_eq_true, List.isEmpty_iff] at h
    simp [memAlg, Flat.memAlg, Flat.pos, h.1.1, h.1.2, Class.isNegated, Class.flat]

example : (Class.leaf {}).isEmpty = true ∧ (Class.leaf { neg := true }).isEmpty = true ∧
    memAlg toyCat (Class.leaf { neg := true }) 5 = true := by decide

/-- **`IsAnything` ⇒ every rune is a member — for an un-negated class without subtraction whose flag is
truthful** (`AnyOk`: set only by `makeAnything` and `getCharSetFromOldString`, preserved by the building
operations — `addSet_mem`, `caseEquiv_mem` take it as hypothesis).  The flag alone does not imply it: see the
example (`[^\s\S]`); all callers use the flag conservatively (`MayOverlap` answers true, the prefix analysis
drops the set). -/
theorem isAnything_spec (cat : Nat → Nat → Bool) (c : Class) (h : c.isAnything = true) (hok : Class.AnyOk cat c)
    (hn : c.isNegated = false) (hs : c.hasSubtraction = false) (r : Nat) (hr : r ≤ maxRune) :
    memAlg cat c r = true := by
  cases c with
  | minus f s => simp [Class.hasSubtraction, Class.hasSub] at hs
  | leaf f =>
    simp only [Class.isAnything, Class.flat] at h
    simp only [Class.isNegated, Class.flat] at hn
    have := hok h r hr
    simp [memAlg, Flat.memAlg, this, hn]

/-- `[^\s\S]`: the base collapsed to `anything` while the class was parsed, `negate` stays: the flag is set
and the class is empty -/
example : (Class.leaf (({ neg := true } : Flat).addCategories [(0, false), (0, true)])).isAnything = true ∧
    memAlg toyCat (Class.leaf (({ neg := true } : Flat).addCategories [(0, false), (0, true)])) 32 = false := by decide

/-- **`IsMergeable` is what the alternation merge needs**: both classes un-negated and subtraction-free ⇒
membership is the positive part alone, and `addSet` (what `reduceSingleLetterAndNestedAlternations` and the
first-character analysis do with two mergeable classes) is exactly the union. -/
theorem isMergeable_spec (cat : Nat → Nat → Bool) (a b : Class) (ha : a.isMergeable = true) (hb : b.isMergeable = true)
    (hoa : a.flat.AnyOk cat) (hob : b.flat.AnyOk cat) (r : Nat) (hr : r ≤ maxRune) :
    memAlg cat a r = a.flat.pos cat r ∧
    memAlg cat (.leaf (a.flat.addSet cat false b.flat)) r = (memAlg cat a r || memAlg cat b r) := by
  have key : ∀ c : Class, c.isMergeable = true → memAlg cat c r = c.flat.pos cat r ∧ c.flat.neg = false := by
    intro c hc
    simp only [Class.isMergeable, Class.isNegated, Class.hasSubtraction, Bool.and_eq_true, Bool.not_eq_true'] at hc
    cases c with
    | minus f s => simp [Class.hasSub] at hc
    | leaf f =>
      simp only [Class.flat] at hc
      simp [memAlg, Flat.memAlg, Class.flat, hc.1]
  obtain ⟨h1, h2⟩ := key a ha
  obtain ⟨h3, _⟩ := key b hb
  refine ⟨h1, ?_⟩
  rw [h1, h3]
  show (a.flat.addSet cat false b.flat).memAlg cat r = _
  rw [Flat.addSet_mem cat false a.flat b.flat hoa hob r hr, h2]
  simp

example : (Class.leaf { ranges := [(97, 99)] }).isMergeable = true ∧ (Class.leaf { ranges := [(97, 99)], neg := true }).isMergeable = false ∧
    (Class.minus { ranges := [(97, 99)] } (.leaf {})).isMergeable = false ∧
    (({ ranges := [(97, 99)] } : Flat).addSet toyCat false { cats := [(2, false)] }) = { ranges := [(97, 99)], cats := [(2, false)] } := by decide

/-- **`GetSetChars`: a non-nil answer lists exactly the members — exactly the NON-members when
`IsNegated`** — with the subtraction factored in (a negated class with a subtraction is refused), at most
`maxChars` of them, in strictly ascending order on canonical ranges.  These lists become the published
first-character sets, the multi-prefix alternatives and the `IndexOfAny` arguments of the finders (C04/C03). -/
theorem getSetChars_spec (cat : Nat → Nat → Bool) (c : Class) (k : Nat) (chars : List Nat)
    (hl : Class.RangesOk c) (hb : BitmapOk cat c) (h : getSetChars cat c k = some chars) :
    chars.length ≤ k ∧ (∀ r, r ∈ chars ↔ (memAlg cat c r != c.isNegated) = true) ∧
      (Canon c.flat.ranges → chars.Pairwise (· < ·)) := by
  obtain ⟨hc, hns, hlen, hch⟩ := getSetChars_some cat c k chars h
  refine ⟨hlen, fun r => ?_, fun hcan => hch ▸ enumChars_sorted _ _ hcan⟩
  rw [hch, mem_enumChars, charIn_eq_memAlg cat c r hl hb]
  cases c with
  | leaf f =>
    simp only [Class.flat] at hc
    simp only [Class.hasSubtraction, Class.hasSub, Class.flat, Class.isNegated, memAlg, Flat.memAlg, Flat.pos, hc,
      inCats_nil, Bool.or_false, Bool.false_and, Bool.not_false, and_true]
    cases inRanges f.ranges r <;> cases f.neg <;> simp
  | minus f s =>
    simp only [Class.flat] at hc
    have hn : f.neg = false := by
      cases hfn : f.neg
      · rfl
      · have := hns (by simp [Class.isNegated, Class.flat, hfn])
        simp [Class.hasSubtraction, Class.hasSub] at this
    simp only [Class.hasSubtraction, Class.hasSub, Class.flat, Class.isNegated, memAlg, Flat.memAlg, Flat.pos, hc, hn,
      inCats_nil, Bool.or_false, Bool.true_and, Bool.not_not, Bool.bne_false]
    cases inRanges f.ranges r <;> simp

/-- `[a-e-[bd]]` → a, c, e; `[^x]` → x (to be read as "everything but"); a category, too many characters,
negation together with subtraction → nil; work is counted before the subtraction is applied -/
example : getSetChars toyCat (.minus { ranges := [(97, 101)] } (.leaf { ranges := [(98, 98), (100, 100)] })) 5 = some [97, 99, 101] ∧
    getSetChars toyCat (.leaf { ranges := [(120, 120)], neg := true }) 5 = some [120] ∧
    getSetChars toyCat (.leaf { ranges := [(120, 120)], cats := [(1, false)] }) 5 = none ∧
    getSetChars toyCat (.leaf { ranges := [(97, 102)] }) 5 = none ∧
    getSetChars toyCat (.minus { ranges := [(97, 101)], neg := true } (.leaf { ranges := [(98, 98)] })) 5 = none ∧
    getSetChars toyCat (.minus { ranges := [(97, 101)] } (.leaf { ranges := [(98, 98), (100, 100)] })) 4 = none ∧
    getSetChars toyCat (.leaf {}) 5 = some [] := by decide

/-- **`GetIfNRanges(n)`: a non-nil answer is the whole range list, of length `n`, and the class is exactly
those ranges — their complement when `IsNegated`** (no categories, no subtraction). -/
theorem getIfNRanges_spec (cat : Nat → Nat → Bool) (c : Class) (n : Nat) (rs : List (Nat × Nat))
    (h : getIfNRanges c n = some rs) :
    rs = c.flat.ranges ∧ rs.length = n ∧ ∀ r, inRanges rs r = (memAlg cat c r != c.isNegated) := by
  unfold getIfNRanges at h
  split at h
  · cases h
  rename_i h1
  split at h
  · cases h
  rename_i h2
  split at h
  · rename_i h3
    simp only [Option.some.injEq] at h
    have hrs : rs = c.flat.ranges := by rw [← h, ← h3, List.take_length]
    refine ⟨hrs, by rw [hrs]; exact h3, fun r => ?_⟩
    cases c with
    | minus f s => simp [Class.hasSub] at h2
    | leaf f =>
      simp only [Class.flat, Bool.not_eq_true', List.isEmpty_iff, Bool.not_eq_false] at h1
      have hc : f.cats = [] := by simpa using h1
      simp only [hrs, Class.flat, Class.isNegated, memAlg, Flat.memAlg, Flat.pos, hc, inCats_nil, Bool.or_false]
      cases inRanges f.ranges r <;> cases f.neg <;> rfl
  · cases h

example : getIfNRanges (.leaf { ranges := [(97, 102)], neg := true }) 1 = some [(97, 102)] ∧
    getIfNRanges (.leaf { ranges := [(97, 102)] }) 2 = none ∧
    getIfNRanges (.leaf { ranges := [(97, 102)], cats := [(1, false)] }) 1 = none ∧
    getIfNRanges (.minus { ranges := [(97, 102)] } (.leaf {})) 1 = none := by decide

/-- **`containsAsciiIgnoreCaseCharacter`: `true` ⇒ the class is exactly `{C, c}` for one ASCII letter**, and
the slice it returns is `[C, c]` (upper case first: `TryGetOrdinalCaseInsensitiveString` writes
`twoChars[0] | 0x20`, the multi-prefix analysis `setChars[1]`).  `isLetter` is `unicode.IsLetter`, assumed to
be A-Z, a-z below U+007F (leg `Kq-facts`); the range list is canonical.  The published ordinal
case-insensitive prefix is sound only because of this (cf. the seeded change C03-ascii-pair-nonletters: without
the letter test `[@`]`, `[\[{]` would qualify). -/
theorem containsAsciiIgnoreCaseCharacter_spec (cat : Nat → Nat → Bool) (isLetter : Nat → Bool) (c : Class)
    (hl : Class.RangesOk c) (hb : BitmapOk cat c) (hcan : Canon c.flat.ranges)
    (hL : ∀ r, r < maxASCII → isLetter r = asciiLetter r)
    (h : (containsAsciiIgnoreCaseCharacter cat isLetter c).1 = true) :
    ∃ u, 65 ≤ u ∧ u ≤ 90 ∧ (containsAsciiIgnoreCaseCharacter cat isLetter c).2 = some [u, u + 32] ∧
      ∀ r, memAlg cat c r = true ↔ (r = u ∨ r = u + 32) := by
  unfold containsAsciiIgnoreCaseCharacter at h ⊢
  split at h
  · cases h
  rename_i hneg
  simp only [hneg, Bool.false_eq_true, ↓reduceIte]
  simp only [] at h
  split at h
  · rename_i a b hg
    simp only [Bool.and_eq_true, decide_eq_true_eq, beq_iff_eq] at h
    obtain ⟨⟨⟨⟨ha, hb'⟩, hor⟩, hla⟩, hlb⟩ := h
    obtain ⟨_, hmem, hsorted⟩ := getSetChars_spec cat c 3 [a, b] hl hb hg
    have hlt : a < b := by
      have := hsorted hcan
      simpa using this
    rw [hL a ha] at hla
    rw [hL b hb'] at hlb
    obtain ⟨h1, h2, h3⟩ := ascii_pair a b hla hlb hlt hor
    refine ⟨a, h1, h2, by rw [hg, h3], fun r => ?_⟩
    have := hmem r
    have hn : c.isNegated = false := by simpa using hneg
    simp only [hn, Bool.bne_false, List.mem_cons, List.not_mem_nil, or_false] at this
    rw [← this, h3]
  · cases h

/-- `[Kk]` qualifies, with the upper-case letter first; `[@`]` (same `| 0x20`, not letters), `[k]`, `[^Kk]`,
`[Kkx]` do not -/
example :
    let isL : Nat → Bool := asciiLetter
    containsAsciiIgnoreCaseCharacter toyCat isL (.leaf { ranges := [(75, 75), (107, 107)] }) = (true, some [75, 107]) ∧
    (containsAsciiIgnoreCaseCharacter toyCat isL (.leaf { ranges := [(64, 64), (96, 96)] })).1 = false ∧
    (containsAsciiIgnoreCaseCharacter toyCat isL (.leaf { ranges := [(107, 107)] })).1 = false ∧
    containsAsciiIgnoreCaseCharacter toyCat isL (.leaf { ranges := [(75, 75), (107, 107)], neg := true }) = (false, none) ∧
    (containsAsciiIgnoreCaseCharacter toyCat isL (.leaf { ranges := [(75, 75), (107, 107), (120, 120)] })).1 = false ∧
    Canon [(75, 75), (107, 107)] := by
  refine ⟨by decide, by decide, by decide, by decide, by decide, ?_⟩
  simp [Canon]

/-- **`IsUnicodeCategoryOfSmallCharCount`: `isSmall` ⇒ the characters are exactly the members — the
non-members when `negated`.**  For the white-space classes this needs that `whitespaceChars` is the white-space
category (checked by leg `Kq-facts` against `unicode.IsSpace` over all code points). -/
theorem isUnicodeCategoryOfSmallCharCount_spec (cat : Nat → Nat → Bool) (k : Consts) (c : Class)
    (hws : ∀ r, r ≤ maxRune → (r ∈ k.whitespaceChars ↔ cat k.space r = true))
    (chars : List Nat) (negated : Bool) (d : Nat)
    (h : isUnicodeCategoryOfSmallCharCount k c = some (chars, negated, d)) (r : Nat) (hr : r ≤ maxRune) :
    r ∈ chars ↔ (memAlg cat c r != negated) = true := by
  unfold isUnicodeCategoryOfSmallCharCount at h
  split at h
  · rename_i h1
    obtain ⟨x, hx, hm⟩ := (singleton_reduce_mem cat c).1 h1
    simp only [hx, Option.getD_some, Option.some.injEq, Prod.mk.injEq] at h
    obtain ⟨rfl, rfl, _⟩ := h
    simp [hm]
  split at h
  · rename_i h1
    obtain ⟨x, hx, hm⟩ := (singleton_reduce_mem cat c).2 h1
    simp only [hx, Option.getD_some, Option.some.injEq, Prod.mk.injEq] at h
    obtain ⟨rfl, rfl, _⟩ := h
    simp [hm]
  split at h
  · rename_i h1
    simp only [Option.some.injEq, Prod.mk.injEq] at h
    obtain ⟨rfl, rfl, _⟩ := h
    rw [mem_of_equals_cat cat c k.space h1 r, hws r hr]
    simp
  split at h
  · rename_i h1
    simp only [Option.some.injEq, Prod.mk.injEq] at h
    obtain ⟨rfl, rfl, _⟩ := h
    rw [equals_spec cat c _ h1 r, hws r hr]
    simp [Consts.notSpaceClass, memAlg, Flat.memAlg, Flat.pos, fromCategoryString, inCats, catAccepts]
  · cases h

example : isUnicodeCategoryOfSmallCharCount (srcConsts 0 1 2) (.leaf { cats := [(0, false)], neg := true }) =
      some (RegexVerif.Generated.whitespaceChars, true, 1) ∧
    isUnicodeCategoryOfSmallCharCount (srcConsts 0 1 2) (.leaf { ranges := [(65, 65)], neg := true }) = some ([65], true, 0) ∧
    isUnicodeCategoryOfSmallCharCount (srcConsts 0 1 2) (.leaf { cats := [(2, false)] }) = none := by decide

/-- **`GetIfOnlyUnicodeCategories`: a non-nil answer `(cats, negate)` reads "in one of the listed categories,
xor `negate`" — when the entries are un-negated or there is exactly one.**  For SEVERAL negated entries the
class is a union of complements while the answer reads as the complement of a union: see
`getIfOnlyUnicodeCategories_two_negated`.  (No caller inside the engine.) -/
theorem getIfOnlyUnicodeCategories_spec (cat : Nat → Nat → Bool) (k : Consts) (c : Class)
    (cats : List (Nat × Bool)) (negate : Bool) (h : getIfOnlyUnicodeCategories k c = some (cats, negate))
    (hshape : (∀ ct ∈ cats, ct.2 = false) ∨ cats.length = 1) (r : Nat) :
    memAlg cat c r = (cats.any (fun ct => cat ct.1 r) != negate) := by
  unfold getIfOnlyUnicodeCategories at h
  split at h
  · cases h
  rename_i h1
  split at h
  · cases h
  rename_i h2
  split at h
  · cases h
  rename_i c0 rest hcs
  simp only [] at h
  split at h
  · cases h
  rename_i hall
  simp only [Option.some.injEq, Prod.mk.injEq] at h
  obtain ⟨rfl, rfl⟩ := h
  cases c with
  | minus f s => simp [Class.hasSub] at h1
  | leaf f =>
    simp only [Class.flat] at hcs h2 hall hshape ⊢
    have hr : f.ranges = [] := by simpa using h2
    simp only [memAlg, Flat.memAlg, Flat.pos, hr, inRanges_nil, Bool.false_or]
    rcases hshape with hs | hs
    · have key : ∀ (l : List (Nat × Bool)), (∀ ct ∈ l, ct.2 = false) → inCats cat l r = l.any (fun ct => cat ct.1 r) := by
        intro l
        induction l with
        | nil => intro _; rfl
        | cons x xs ih =>
          intro hx
          simp only [inCats_cons, List.any_cons, catAccepts]
          rw [ih (fun ct hct => hx ct (List.mem_cons_of_mem _ hct)), hx x (List.mem_cons_self ..)]
          simp
      have := key f.cats hs
      have h0 : c0.2 = false := hs c0 (by rw [hcs]; exact List.mem_cons_self ..)
      rw [this, h0]; simp
    · rw [hcs] at hs ⊢
      have : rest = [] := by simpa using hs
      subst this
      simp only [inCats, catAccepts, List.any_cons, List.any_nil, Bool.or_false]
      cases cat c0.1 r <;> cases c0.2 <;> cases f.neg <;> rfl

/-- the counter-instance: `[\P{1}\P{2}]` (toy categories 1 = a-z, 2 = 0-9) contains every rune (none is in
both), the answer `([\P{1}, \P{2}], negate = true)` read as "not in category 1 or 2" excludes `a` -/
theorem getIfOnlyUnicodeCategories_two_negated :
    getIfOnlyUnicodeCategories (srcConsts 0 100 2) (.leaf { cats := [(1, true), (2, true)] }) = some ([(1, true), (2, true)], true) ∧
    memAlg toyCat (.leaf { cats := [(1, true), (2, true)] }) 97 = true ∧
    (([(1, true), (2, true)] : List (Nat × Bool)).any (fun ct => toyCat ct.1 97) != true) = false := by decide

example : getIfOnlyUnicodeCategories (srcConsts 0 100 2) (.leaf { cats := [(1, false), (2, false)], neg := true }) = some ([(1, false), (2, false)], true) ∧
    getIfOnlyUnicodeCategories (srcConsts 0 100 2) (.leaf { cats := [(0, false)] }) = none ∧
    getIfOnlyUnicodeCategories (srcConsts 0 100 2) (.leaf { cats := [(1, false), (2, true)] }) = none := by decide

/-- **The serialisation round trip: `NewCharSetRuntime(Hash(c))` is `c`** — structurally (every level's
`negate`, `anything`, ranges and categories; as `Copy()` it carries neither the `building` mark nor the bitmap)
and therefore with the same membership — for classes whose range endpoints are Unicode scalar values (the hash
writes them with `WriteRune`, i.e. as UTF-8), whose category names are at most 127 bytes long and not empty
when negated (the `int8` length carries `Negate` in its sign), with fewer than 2³¹ ranges and categories.
`nameOf`/`idOf` spell category names out and back; `fuel` is the recursion budget of the model (the driver
uses the length of the hash, which always suffices: `hash_length`).  The writer keys its set table by this
string and the code generator reads classes back from it. -/
theorem hash_roundtrip (cat : Nat → Nat → Bool) (nameOf : Nat → List Nat) (idOf : List Nat → Nat) (c : Class)
    (hok : Class.HashOk nameOf idOf c) :
    newCharSetRuntime idOf (Class.hash nameOf c).length (Class.hash nameOf c) = c.copy ∧
    ∀ r, memAlg cat (newCharSetRuntime idOf (Class.hash nameOf c).length (Class.hash nameOf c)) r = memAlg cat c r := by
  have h := newCharSetRuntime_hash nameOf idOf c _ hok (hash_length nameOf c)
  exact ⟨h, fun r => by rw [h, memAlg_copy]⟩

/-- `[^a-cé-[\p{7}x]]` with the name of category 7 spelled "Lu": the hash and the way back -/
example :
    let nameOf : Nat → List Nat := fun _ => [76, 117]
    let idOf : List Nat → Nat := fun _ => 7
    let c : Class := .minus { ranges := [(97, 99), (233, 233)], neg := true } (.leaf { ranges := [(120, 120)], cats := [(7, true)] })
    Class.HashOk nameOf idOf c ∧
    Class.hash nameOf c = [1, 2, 0, 0, 0, 0, 0, 0, 0, 97, 99, 195, 169, 195, 169, 0, 1, 0, 0, 0, 1, 0, 0, 0, 120, 120, 254, 76, 117] ∧
    newCharSetRuntime idOf 29 (Class.hash nameOf c) = c := by
  refine ⟨⟨⟨by decide, by decide, ?_, by simp⟩, ⟨by decide, by decide, ?_, ?_⟩⟩, by decide, by decide⟩
  · intro r hr; simp at hr; rcases hr with rfl | rfl <;> simp [Scalar, maxRune]
  · intro r hr; simp at hr; subst hr; simp [Scalar, maxRune]
  · intro ct hct; simp at hct; subst hct; simp [CatOk]

/-- **The scalar-value hypothesis is needed (D48): a surrogate endpoint does not survive the hash.**
`[\uD800]` and `[\uD801]` have the same hash (both endpoints are written as U+FFFD), the round trip yields
`[�]`, and membership of U+D800 is lost. -/
theorem hash_surrogate_counterexample :
    let nameOf : Nat → List Nat := fun _ => []
    let idOf : List Nat → Nat := fun _ => 0
    let c1 : Class := .leaf { ranges := [(0xD800, 0xD800)] }
    let c2 : Class := .leaf { ranges := [(0xD801, 0xD801)] }
    Class.hash nameOf c1 = Class.hash nameOf c2 ∧
    newCharSetRuntime idOf 20 (Class.hash nameOf c1) = .leaf { ranges := [(0xFFFD, 0xFFFD)] } ∧
    memAlg toyCat c1 0xD800 = true ∧ memAlg toyCat (newCharSetRuntime idOf 20 (Class.hash nameOf c1)) 0xD800 = false := by
  decide

/-- **`Copy()` keeps membership and every query answer that depends on the structure** (`negate`, `anything`,
ranges, categories at every level): the copy `Equals` the original.  (That the copy shares no storage with
the original — what the callers want it for — is not expressible in this value-level model; the slices are
rebuilt with `append(nil…, …)` and the subtractor is copied recursively, leg Kq compares the dumps.) -/
theorem copy_spec (cat : Nat → Nat → Bool) (c : Class) :
    c.copy.equals c = true ∧ ∀ r, memAlg cat c.copy r = memAlg cat c r := by
  refine ⟨?_, fun r => memAlg_copy cat c r⟩
  induction c with
  | leaf f => simp [Class.copy, Flat.copy, Class.equals, Class.equalsGo, Flat.eqFields]
  | minus f s ih =>
    simp only [Class.equals] at ih
    simp [Class.copy, Flat.copy, Class.equals, Class.equalsGo, Flat.eqFields, ih]

example : (Class.minus { ranges := [(97, 99)], building := true, ascii := some (1, 2) } (.leaf { cats := [(1, true)] })).copy =
    .minus { ranges := [(97, 99)] } (.leaf { cats := [(1, true)] }) := by decide

/-- **Every written class meets the structural hypotheses of the query theorems**: parsed as `scanCharSet`
does (no IgnoreCase, nested subtraction, items with non-empty ranges and the source's POSIX tables) it has
sorted range lists on every level, no (hence no untruthful) bitmap — `MayOverlap` runs while the tree is
reduced, before `prepareASCIIBitmap` — and its membership is set algebra over its parts. -/
theorem parsed_class_wellformed (cat : Nat → Nat → Bool) (a : Ast) (hok : ∀ it ∈ a.items, it.Wf ∧ it.Ok) :
    Class.RangesOk (strip (Ast.parse cat a)) ∧ BitmapOk cat (strip (Ast.parse cat a)) ∧
      ∀ ch, ch ≤ maxRune → memAlg cat (strip (Ast.parse cat a)) ch = Ast.mem cat a ch := by
  have hr : Class.RangesOk (Ast.parse cat a) ∧ ∀ ch, ch ≤ maxRune → memAlg cat (Ast.parse cat a) ch = Ast.mem cat a ch := by
    induction a with
    | leaf neg items =>
      have h1 : ∀ it ∈ items, it.Wf ∧ it.Ok := fun it hit => hok it hit
      exact ⟨(build_canonical cat neg items false h1).2, fun ch hch => build_mem cat neg items false (fun it hit => (h1 it hit).2) ch hch⟩
    | minus neg items sub ih =>
      have h1 : ∀ it ∈ items, it.Wf ∧ it.Ok := fun it hit => hok it (List.mem_append_left _ hit)
      obtain ⟨ih1, ih2⟩ := ih (fun it hit => hok it (List.mem_append_right _ hit))
      refine ⟨⟨(build_canonical cat neg items true h1).2, ih1⟩, fun ch hch => ?_⟩
      simp only [Ast.parse, memAlg, Ast.mem, ih2 ch hch, build_mem cat neg items true (fun it hit => (h1 it hit).2) ch hch]
  exact ⟨rangesOk_strip _ hr.1, bitmapOk_strip cat _, fun ch hch => by rw [memAlg_strip, hr.2 ch hch]⟩

/-- **End to end for written classes: two class expressions for which `MayOverlap` of their parsed forms is
`false` have no rune in common — in the set algebra of their written parts.**  No hypothesis about the
`CharSet`s is left; what remains are the facts about the category oracle and the regenerated tables. -/
theorem mayOverlap_sound_parsed (cat : Nat → Nat → Bool) (k : Consts) (hk : OracleFacts cat k) (ht : TableFacts k)
    (a b : Ast) (hoka : ∀ it ∈ a.items, it.Wf ∧ it.Ok) (hokb : ∀ it ∈ b.items, it.Wf ∧ it.Ok)
    (h : mayOverlap cat k (strip (Ast.parse cat a)) (strip (Ast.parse cat b)) = false) (r : Nat) (hr : r ≤ maxRune) :
    ¬ (Ast.mem cat a r = true ∧ Ast.mem cat b r = true) := by
  obtain ⟨a1, a2, a3⟩ := parsed_class_wellformed cat a hoka
  obtain ⟨b1, b2, b3⟩ := parsed_class_wellformed cat b hokb
  rw [← a3 r hr, ← b3 r hr]
  exact mayOverlap_sound cat k hk ht _ _ a1 a2 b1 b2 h r hr

/-- `[a-fx]` and `[g-z-[x]]` are declared disjoint (enumeration of the first inside the second) -/
example :
    let a : Ast := .leaf false [.range 97 102, .range 120 120]
    let b : Ast := .minus false [.range 103 122] (.leaf false [.range 120 120])
    (∀ it ∈ a.items, it.Wf ∧ it.Ok) ∧ (∀ it ∈ b.items, it.Wf ∧ it.Ok) ∧
    mayOverlap toyCat (srcConsts 0 1 2) (strip (Ast.parse toyCat a)) (strip (Ast.parse toyCat b)) = false := by
  refine ⟨?_, ?_, by decide⟩
  · intro it hit; simp [Ast.items] at hit; rcases hit with rfl | rfl <;> simp [Item.Wf, Item.Ok]
  · intro it hit; simp [Ast.items] at hit; rcases hit with rfl | rfl <;> simp [Item.Wf, Item.Ok]

end RegexVerif.Props.C16
