/-
C16 — property theorems (stub: not built yet).
-/
namespace RegexVerif.Props.C16
end RegexVerif.Props.C16
