/-
C06 — RE2-mode adapter agrees with Go's regexp package (iteration part).

What is proved here is the part of C06 that is about the adapter's own code: its find-all
iteration (`forEachStringMatch`, and `FindAllStringIndex`/`FindAllIndex` through regexp2's
`findAllRunesIndex`) against the loop of the standard library (`(*Regexp).allMatches`), including
the rule for empty matches next to a previous match, the limit `n` and nil-ness; and the `-1` pairs
of the submatch index conversion. Both loops are modelled in `RegexVerif.Model.Scan` over the same
abstract single-position matcher. That the two ENGINES agree on single matches is not a theorem
(the standard library is an oracle): it is explored by leg G, which also checks, on the standard
library's own single-position matches, that the `stdAll` model reproduces `regexp.FindAllStringIndex`
and the `compatAll`/`findAll` models reproduce the adapter.
-/
import RegexVerif.Lemmas.Scan

namespace RegexVerif.Props.C06
open RegexVerif RegexVerif.Scan RegexVerif.Lemmas.Scan

/-- **The adapter's find-all loops deliver what the standard library's loop delivers.** Take a
    left-to-right pattern without `\G` (RE2 syntax has neither right-to-left nor `\G`), i.e. a
    matcher whose single-position attempts `attempt` do not depend on the search origin, with sound
    accelerators. Let the standard library search with `findFrom pos` = "the first position ≥ pos at
    which an attempt succeeds, with that attempt's match". Then for every limit `k` (negative: all)
    * `forEachStringMatch` (behind `FindAllString`, `FindAllStringSubmatch(Index)`) and
    * `findAllRunesIndex` (behind `FindAllStringIndex`, `FindAllIndex`)
    return exactly the list of `(start, end)` pairs that `allMatches` delivers — same empty matches
    dropped next to a previous match, same truncation, and `nil` in the same cases. -/
theorem compat_all_eq_std (attempt : Nat → Option (Nat × Nat)) (n : Nat) (hS : AttemptShape false n attempt)
    (E : Engine) (hE : E.Sound false n) (hG : ∀ ts, E.attempt ts = attempt) (k : Int) :
    compatAll E false n k = stdAll (findFromOf attempt n) n k ∧
    findAll E false n k = stdAll (findFromOf attempt n) n k := by
  have hstd : stdAll (findFromOf attempt n) n k = findAllSpec false k (iterate E false n) := by
    unfold stdAll findAllSpec iterate firstMatch
    have hfirst : scanAt E false n (firstStart false n) (-1) = hitFrom attempt n 0 := by
      have := scanAt_ltr E n hE attempt hG 0 (-1) (Nat.zero_le n)
      simpa [firstStart] using this
    have hcnt : CntRel n (if k < 0 then n + 1 else k.toNat) 0 0 k := by
      by_cases hk : k < 0
      · right; simp [hk]
      · left; simp only [hk, if_false]; omega
    have := stdLoop_eq attempt n hS E hE hG (if k < 0 then n + 1 else k.toNat) (n + 1) 0 (n + 2) (n + 2) 0 none k
      (by omega) (by omega) (by omega) (by simp [prevEndOf]) hcnt
    simp only [prevEndOf] at this
    rw [this, hfirst]
    simp
  rw [hstd]
  exact ⟨compatAll_eq_spec E false n k, findAll_eq_spec E false n k⟩

-- `a*` on "baa": hypotheses are satisfiable, and the common answer drops the empty match at 3
example : AttemptShape false 3 exL := exL_shape
example : (exEngine exL).Sound false 3 := exEngine_sound false 3 exL exL_shape
example : stdAll (findFromOf exL 3) 3 (-1) = some [(0, 0), (1, 3)] := by decide
example : compatAll (exEngine exL) false 3 (-1) = some [(0, 0), (1, 3)] := by decide
example : stdAll (findFromOf exL 3) 3 1 = some [(0, 0)] := by decide
example : stdAll (findFromOf exL 3) 3 0 = none := by decide
-- an empty match beyond pos (`b*` on "ab": attempts: 0 ↦ empty, 1 ↦ "b", 2 ↦ empty) and no match at all
example : stdAll (findFromOf (fun p => if p = 1 then some (1, 1) else if p ≤ 2 then some (p, 0) else none) 2) 2 (-1)
    = some [(0, 0), (1, 2)] := by decide
example : stdAll (findFromOf (fun _ => none) 2) 2 3 = none := by decide

/-- **Unset groups are `-1` pairs.** In the index slice the adapter builds for a match
    (`matchIndexes`, `matchRuneIndexes`), group `j` occupies entries `2j, 2j+1`: both are `-1` exactly
    when the group has no capture, otherwise they are the byte offsets of the capture's two ends
    (which are never negative). -/
theorem unset_group_minus_one (off : Nat → Nat) (groups : List (Option (Nat × Nat))) :
    (matchIndexes off groups).length = 2 * groups.length ∧
    ∀ j, j < groups.length →
      match groups[j]? with
      | some none => (matchIndexes off groups)[2 * j]? = some (-1) ∧ (matchIndexes off groups)[2 * j + 1]? = some (-1)
      | some (some (i, l)) =>
          (matchIndexes off groups)[2 * j]? = some (off i : Int) ∧ (matchIndexes off groups)[2 * j + 1]? = some (off (i + l) : Int)
      | none => False := by
  induction groups with
  | nil => simp [matchIndexes]
  | cons g gs ih =>
    obtain ⟨ihl, ihj⟩ := ih
    constructor
    · cases g with
      | none => simp [matchIndexes, ihl]; omega
      | some p => obtain ⟨i, l⟩ := p; simp [matchIndexes, ihl]; omega
    · intro j hj
      cases j with
      | zero =>
        cases g with
        | none => simp [matchIndexes]
        | some p => obtain ⟨i, l⟩ := p; simp [matchIndexes]
      | succ j =>
        have hj' : j < gs.length := by simp at hj; omega
        have := ihj j hj'
        have e1 : 2 * (j + 1) = 2 * j + 1 + 1 := by omega
        have e2 : 2 * (j + 1) + 1 = 2 * j + 1 + 1 + 1 := by omega
        cases g with
        | none => simpa [matchIndexes, e1, e2] using this
        | some p => obtain ⟨i, l⟩ := p; simpa [matchIndexes, e1, e2] using this

example : matchIndexes (fun r => 2 * r) [some (1, 2), none, some (3, 0)] = [2, 6, -1, -1, 6, 6] := by decide

end RegexVerif.Props.C06
