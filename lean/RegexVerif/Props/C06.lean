/-
C06 — property theorems (stub: not built yet).
-/
namespace RegexVerif.Props.C06
end RegexVerif.Props.C06
