/-
C06 — RE2-mode adapter agrees with Go's regexp package (iteration part).

What is proved here is the part of C06 that is about the adapter's own code: its find-all
iteration (`forEachStringMatch`, and `FindAllStringIndex`/`FindAllIndex` through regexp2's
`findAllRunesIndex`) against the loop of the standard library (`(*Regexp).allMatches`), including
the rule for empty matches next to a previous match, the limit `n` and nil-ness; and the `-1` pairs
of the submatch index conversion. Both loops are modelled in `RegexVerif.Model.Scan` over the same
abstract single-position matcher. That the two ENGINES agree on single matches is not a theorem
(the standard library is an oracle): it is explored by leg G, which also checks, on the standard
library's own single-position matches, that the `stdAll` model reproduces `regexp.FindAllStringIndex`
and the `compatAll`/`findAll` models reproduce the adapter.
-/
import RegexVerif.Lemmas.Scan
import RegexVerif.Lemmas.Compat

namespace RegexVerif.Props.C06
open RegexVerif RegexVerif.Scan RegexVerif.Lemmas.Scan

/-- **The adapter's find-all loops deliver what the standard library's loop delivers.** Take a
    left-to-right pattern without `\G` (RE2 syntax has neither right-to-left nor `\G`), i.e. a
    matcher whose single-position attempts `attempt` do not depend on the search origin, with sound
    accelerators. Let the standard library search with `findFrom pos` = "the first position ≥ pos at
    which an attempt succeeds, with that attempt's match". Then for every limit `k` (negative: all)
    * `forEachStringMatch` (behind `FindAllString`, `FindAllStringSubmatch(Index)`) and
    * `findAllRunesIndex` (behind `FindAllStringIndex`, `FindAllIndex`)
    return exactly the list of `(start, end)` pairs that `allMatches` delivers — same empty matches
    dropped next to a previous match, same truncation, and `nil` in the same cases. -/
theorem compat_all_eq_std (attempt : Nat → Option (Nat × Nat)) (n : Nat) (hS : AttemptShape false n attempt)
    (E : Engine) (hE : E.Sound false n) (hG : ∀ ts, E.attempt ts = attempt) (k : Int) :
    compatAll E false n k = stdAll (findFromOf attempt n) n k ∧
    findAll E false n k = stdAll (findFromOf attempt n) n k := by
  have hstd : stdAll (findFromOf attempt n) n k = findAllSpec false k (iterate E false n) := by
    unfold stdAll findAllSpec iterate firstMatch
    have hfirst : scanAt E false n (firstStart false n) (-1) = hitFrom attempt n 0 := by
      have := scanAt_ltr E n hE attempt hG 0 (-1) (Nat.zero_le n)
      simpa [firstStart] using this
    have hcnt : CntRel n (if k < 0 then n + 1 else k.toNat) 0 0 k := by
      by_cases hk : k < 0
      · right; simp [hk]
      · left; simp only [hk, if_false]; omega
    have := stdLoop_eq attempt n hS E hE hG (if k < 0 then n + 1 else k.toNat) (n + 1) 0 (n + 2) (n + 2) 0 none k
      (by omega) (by omega) (by omega) (by simp [prevEndOf]) hcnt
    simp only [prevEndOf] at this
    rw [this, hfirst]
    simp
  rw [hstd]
  exact ⟨compatAll_eq_spec E false n k, findAll_eq_spec E false n k⟩

-- `a*` on "baa": hypotheses are satisfiable, and the common answer drops the empty match at 3
example : AttemptShape false 3 exL := exL_shape
example : (exEngine exL).Sound false 3 := exEngine_sound false 3 exL exL_shape
example : stdAll (findFromOf exL 3) 3 (-1) = some [(0, 0), (1, 3)] := by decide
example : compatAll (exEngine exL) false 3 (-1) = some [(0, 0), (1, 3)] := by decide
example : stdAll (findFromOf exL 3) 3 1 = some [(0, 0)] := by decide
example : stdAll (findFromOf exL 3) 3 0 = none := by decide
-- an empty match beyond pos (`b*` on "ab": attempts: 0 ↦ empty, 1 ↦ "b", 2 ↦ empty) and no match at all
example : stdAll (findFromOf (fun p => if p = 1 then some (1, 1) else if p ≤ 2 then some (p, 0) else none) 2) 2 (-1)
    = some [(0, 0), (1, 2)] := by decide
example : stdAll (findFromOf (fun _ => none) 2) 2 3 = none := by decide

/-- **Unset groups are `-1` pairs.** In the index slice the adapter builds for a match
    (`matchIndexes`, `matchRuneIndexes`), group `j` occupies entries `2j, 2j+1`: both are `-1` exactly
    when the group has no capture, otherwise they are the byte offsets of the capture's two ends
    (which are never negative). -/
theorem unset_group_minus_one (off : Nat → Nat) (groups : List (Option (Nat × Nat))) :
    (matchIndexes off groups).length = 2 * groups.length ∧
    ∀ j, j < groups.length →
      match groups[j]? with
      | some none => (matchIndexes off groups)[2 * j]? = some (-1) ∧ (matchIndexes off groups)[2 * j + 1]? = some (-1)
      | some (some (i, l)) =>
          (matchIndexes off groups)[2 * j]? = some (off i : Int) ∧ (matchIndexes off groups)[2 * j + 1]? = some (off (i + l) : Int)
      | none => False := by
  induction groups with
  | nil => simp [matchIndexes]
  | cons g gs ih =>
    obtain ⟨ihl, ihj⟩ := ih
    constructor
    · cases g with
      | none => simp [matchIndexes, ihl]; omega
      | some p => obtain ⟨i, l⟩ := p; simp [matchIndexes, ihl]; omega
    · intro j hj
      cases j with
      | zero =>
        cases g with
        | none => simp [matchIndexes]
        | some p => obtain ⟨i, l⟩ := p; simp [matchIndexes]
      | succ j =>
        have hj' : j < gs.length := by simp at hj; omega
        have := ihj j hj'
        have e1 : 2 * (j + 1) = 2 * j + 1 + 1 := by omega
        have e2 : 2 * (j + 1) + 1 = 2 * j + 1 + 1 + 1 := by omega
        cases g with
        | none => simpa [matchIndexes, e1, e2] using this
        | some p => obtain ⟨i, l⟩ := p; simpa [matchIndexes, e1, e2] using this

example : matchIndexes (fun r => 2 * r) [some (1, 2), none, some (3, 0)] = [2, 6, -1, -1, 6, 6] := by decide

/-! ## The adapter, method by method (`Model/Compat.lean`)

`compat/regexp.go` is modelled line by line as functions of ONE engine answer `a : Ans` (regexp2's
sequence `FindStringMatch, FindNextMatch, …` with groups, in rune indices, and the error channel), of
the input as decoding steps `(rune, bytes)` (a `[]byte` argument may be nil) and of the limit `n`;
leg Gm ties these functions to the real methods.  The specification `Compat.Std` is Go's `regexp`
package: its 21 methods as functions of its own search `ff pos` (leftmost match at or after byte
position `pos`, byte offsets), `FindAll*` through the loop `allMatches`.  The single hypothesis is
`EnginesAgree d a ff` — no match-time error, left-to-right, regexp2's matches lie inside the input, and
from position 0 the standard library walks through regexp2's sequence seen in byte offsets
(`Walk`).  Under it every adapter method returns (does not panic) and its result EQUALS the
standard library's, including nil-ness.

Sample used by the `example`s: the pattern `a(.)|(é)|y*` on "xa\xffé" — `x`, `a`, the invalid byte
0xFF (one rune U+FFFD of one byte) and the two-byte rune `é` (`Lemmas.Compat.exSegs`, `exAns`, `exFF`;
`exAgree : EnginesAgree …` shows the hypothesis is satisfiable, `exSegs_wf` the decoding contract). -/

open RegexVerif.Compat RegexVerif.Utf8 RegexVerif.Lemmas.Compat

example : WF (decoded exSegs) := exSegs_wf
example : EnginesAgree (decoded exSegs) exAns exFF := exAgree

/-- **The loops of this model are the loops of C07's model.**  When regexp2's sequence is the
    `iterate` of a `Scan.Engine` (the scan loop of `Runner.scan` iterated by `FindNextMatch`), what
    `forEachStringMatch` hands to its callback is `Scan.compatAll` and what regexp2's
    `FindAllRunesIndex` returns is `Scan.findAll` — so `compat_all_eq_std` and C07's theorems about
    `iterate` speak about the sequence the method theorems below start from. -/
theorem find_all_loops_eq_scan_model (E : Engine) (n : Nat) (a : Ans) (he : a.err = false)
    (h : a.ms.map (hitOf a.rtl) = iterate E a.rtl n) (k : Int) :
    (forEachStringMatch a k fun m => Res.ok (m.index, m.index + m.len)).map nilIfEmpty = .ok (compatAll E a.rtl n k) ∧
    must (r2FindAllRunesIndex a k) = .ok (findAll E a.rtl n k) := by
  have hd := delivered_eq_scan E a.rtl n a.ms h k
  have hmap : (delivered a.rtl a.ms k).map (fun m => (m.index, m.index + m.len)) =
      (compatForEach E a.rtl n k).map fun m => (m.index, m.index + m.len) := by
    rw [← hd, List.map_map]; rfl
  constructor
  · rw [forEach_closed a he k _ (fun m => (m.index, m.index + m.len)) (fun _ _ => rfl), map_ok, hmap]
    unfold compatAll
    by_cases hk : k = 0
    · subst hk
      have : compatForEach E a.rtl n 0 = [] := by rw [← hd, delivered_zero]; rfl
      simp [this, nilIfEmpty_nil]
    · rw [if_neg hk]; rfl
  · unfold r2FindAllRunesIndex
    rw [r2FindAll_closed a he, hmap, Lemmas.Scan.findAll_eq_spec, ← Lemmas.Scan.compatAll_eq_spec]
    unfold compatAll
    by_cases hk : k = 0
    · subst hk
      have : compatForEach E a.rtl n 0 = [] := by rw [← hd, delivered_zero]; rfl
      simp [this, nilIfEmpty_nil]
    · rw [if_neg hk]; rfl

-- `a*` on "baa", left to right: the sequence of `exEngine exL` is (0,0), (1,2), (3,0)
example : ([⟨0, 0, []⟩, ⟨1, 2, []⟩, ⟨3, 0, []⟩] : List RMatch).map (hitOf false) = iterate (Lemmas.Scan.exEngine Lemmas.Scan.exL) false 3 := by
  decide

/-- **`Match`, `MatchString`.**  "Reports whether the byte slice / string contains any match": the
    adapter answers what the standard library answers. -/
theorem match_methods_eq_std (d : List (Int × Nat)) (a : Ans) (ff : Nat → Option SMatch) (h : EnginesAgree d a ff) :
    Compat.Match a = .ok (Std.Match ff) ∧ Compat.MatchString a = .ok (Std.Match ff) := by
  have h0 := walk_head d ff a.ms h.walk
  have : Compat.MatchString a = .ok (Std.Match ff) := by
    unfold Compat.MatchString Std.Match
    rw [isMatch_eq a h.noErr, h0]; simp
  exact ⟨this, this⟩

example : Compat.MatchString exAns = .ok true ∧ Std.Match exFF = true := by decide

/-- **`FindIndex`, `FindStringIndex`, `Find`, `FindString`.**  The location is the byte pair of the
    leftmost match, `nil` when there is none; the text is `b[loc[0]:loc[1]]` — the bytes of the input
    between the two offsets, invalid bytes included, never a re-encoding; `Find` returns nil for no
    match and for a nil `b`, an empty non-nil slice for an empty match in a non-nil `b`; `FindString`
    returns `""` for no match. -/
theorem find_methods_eq_std (b : Option (List (Int × List Nat))) (hwf : WF (decoded (segsOf b))) (a : Ans)
    (ff : Nat → Option SMatch) (h : EnginesAgree (decoded (segsOf b)) a ff) :
    Compat.FindIndex a b = .ok (Std.FindIndex ff) ∧
    Compat.FindStringIndex a (segsOf b) = .ok (Std.FindIndex ff) ∧
    Compat.Find a b = .ok (Std.Find ff (bytesOfB b)) ∧
    Compat.FindString a (segsOf b) = .ok (Std.FindString ff (bytesOf (segsOf b))) := by
  have h0 := walk_head _ ff a.ms h.walk
  have hv : ∀ m ∈ a.ms, m.Valid (segsOf b).length := by
    intro m hm; have := h.valid m hm; rwa [decoded_length] at this
  have hI : Compat.FindStringIndex a (segsOf b) = .ok (Std.FindIndex ff) := by
    rw [FindStringIndex_closed a _ hwf h.noErr hv]
    unfold Std.FindIndex
    rw [h0]; cases a.ms.head? <;> rfl
  refine ⟨hI, hI, ?_, ?_⟩
  · rw [Find_closed a b hwf h.noErr hv]
    unfold Std.Find
    rw [h0]; cases a.ms.head? <;> rfl
  · rw [FindString_closed a _ hwf h.noErr hv]
    unfold Std.FindString
    rw [h0]; cases a.ms.head? <;> rfl

-- the first match of the sample is the empty match at 0: empty non-nil slice, `""`, `[0 0]`
example : Compat.Find exAns (some exSegs) = .ok (some []) ∧ Compat.FindIndex exAns (some exSegs) = .ok (some [0, 0]) := by
  decide
-- … and on the rest of the sequence (as if the search had started behind it): "a\xff" is the bytes 97, 255
example : Compat.Find { exAns with ms := exAns.ms.tail } (some exSegs) = .ok (some [97, 255]) ∧
    Compat.FindString { exAns with ms := exAns.ms.tail } exSegs = .ok [97, 255] ∧
    Compat.FindIndex { exAns with ms := exAns.ms.tail } (some exSegs) = .ok (some [1, 3]) := by decide
-- no match: nil, `""`, nil; nil slice: nil even for an (empty) match
example : Compat.Find ⟨false, [], false⟩ (some exSegs) = .ok none ∧ Compat.FindString ⟨false, [], false⟩ exSegs = .ok [] ∧
    Compat.Find ⟨false, [⟨0, 0, []⟩], false⟩ none = .ok none ∧ Compat.Find ⟨false, [⟨0, 0, []⟩], false⟩ (some []) = .ok (some []) := by
  decide

/-- **`FindSubmatchIndex`, `FindStringSubmatchIndex`, `FindSubmatch`, `FindStringSubmatch`.**
    `result[2*n:2*n+2]` is the byte pair of group `n` (group 0 = the match), `-1, -1` for a group that
    did not participate; the texts are the corresponding bytes of the input, a nil element (`""` in the
    string version) for such a group; `nil` when there is no match. -/
theorem find_submatch_methods_eq_std (b : Option (List (Int × List Nat))) (hwf : WF (decoded (segsOf b))) (a : Ans)
    (ff : Nat → Option SMatch) (h : EnginesAgree (decoded (segsOf b)) a ff) :
    Compat.FindSubmatchIndex a b = .ok (Std.FindSubmatchIndex ff) ∧
    Compat.FindStringSubmatchIndex a (segsOf b) = .ok (Std.FindSubmatchIndex ff) ∧
    Compat.FindSubmatch a b = .ok (Std.FindSubmatch ff (bytesOfB b)) ∧
    Compat.FindStringSubmatch a (segsOf b) = .ok (Std.FindStringSubmatch ff (bytesOf (segsOf b))) := by
  have h0 := walk_head _ ff a.ms h.walk
  have hv : ∀ m ∈ a.ms, m.Valid (segsOf b).length := by
    intro m hm; have := h.valid m hm; rwa [decoded_length] at this
  have hI : Compat.FindStringSubmatchIndex a (segsOf b) = .ok (Std.FindSubmatchIndex ff) := by
    rw [FindStringSubmatchIndex_closed a _ hwf h.noErr hv]
    unfold Std.FindSubmatchIndex
    rw [h0]; cases a.ms.head? <;> rfl
  refine ⟨hI, hI, ?_, ?_⟩
  · rw [FindSubmatch_closed a b hwf h.noErr hv]
    unfold Std.FindSubmatch
    rw [h0]; cases a.ms.head? <;> rfl
  · rw [FindStringSubmatch_closed a _ hwf h.noErr hv]
    unfold Std.FindStringSubmatch
    rw [h0]; cases a.ms.head? <;> rfl

-- "a\xff" with group 1 = the invalid byte, group 2 unset: `[1 3 2 3 -1 -1]`, texts [97 255], [255], nil / ""
example : Compat.FindSubmatchIndex { exAns with ms := exAns.ms.tail } (some exSegs) = .ok (some [1, 3, 2, 3, -1, -1]) ∧
    Compat.FindSubmatch { exAns with ms := exAns.ms.tail } (some exSegs) = .ok (some [some [97, 255], some [255], none]) ∧
    Compat.FindStringSubmatch { exAns with ms := exAns.ms.tail } exSegs = .ok (some [[97, 255], [255], []]) := by decide

/-- **`MatchReader`, `FindReaderIndex`, `FindReaderSubmatchIndex`.**  `readRunes` keeps what the
    reader delivered — runes and sizes exactly as `ReadRune` reported them, for an invalid byte the
    `(U+FFFD, 1)` a `strings.Reader` reports — and treats ANY error of `ReadRune` as the end of the
    text (`r.fail` is irrelevant, the `must` behind it never panics).  Offsets are byte offsets into
    what was READ: `offsets[i]` = the sum of the first `i` reported sizes (`off r.items`), whatever the
    sizes are — no decoding contract is assumed.  If the engines agree on the text read (`d := r.items`)
    the three methods return what the standard library returns. -/
theorem reader_methods_eq_std (r : Reader) (a : Ans) (ff : Nat → Option SMatch) (h : EnginesAgree r.items a ff) :
    Compat.MatchReader a r = .ok (Std.Match ff) ∧
    Compat.FindReaderIndex a r = .ok (Std.FindIndex ff) ∧
    Compat.FindReaderSubmatchIndex a r = .ok (Std.FindSubmatchIndex ff) := by
  have h0 := walk_head _ ff a.ms h.walk
  refine ⟨?_, ?_, ?_⟩
  · rw [MatchReader_closed a r h.noErr]; unfold Std.Match; rw [h0]; simp
  · rw [FindReaderIndex_closed a r h.noErr h.valid]
    unfold Std.FindIndex
    rw [h0]; cases a.ms.head? <;> rfl
  · rw [FindReaderSubmatchIndex_closed a r h.noErr h.valid]
    unfold Std.FindSubmatchIndex
    rw [h0]; cases a.ms.head? <;> rfl

/-- … spelled out: the pair `FindReaderIndex` returns for the first match `m` is the sum of the sizes
    reported for the runes before `m` and before its end. -/
theorem reader_offsets_are_sums_of_reported_sizes (r : Reader) (a : Ans) (m : RMatch) (rest : List RMatch)
    (he : a.err = false) (hms : a.ms = m :: rest) (hv : ∀ m ∈ a.ms, m.Valid r.items.length) :
    Compat.FindReaderIndex a r =
      .ok (some [((((r.items.map (·.2)).take m.index).sum : Nat) : Int),
                 ((((r.items.map (·.2)).take (m.index + m.len)).sum : Nat) : Int)]) := by
  rw [FindReaderIndex_closed a r he hv, hms]
  rfl

-- a reader over the sample that reports the sizes 1, 2, 1, 5 (and ends with a non-EOF error): "a?" at rune 1..3
example : Compat.FindReaderIndex ⟨false, [⟨1, 2, []⟩], false⟩ ⟨[(120, 1), (97, 2), (0xFFFD, 1), (98, 5)], true⟩ = .ok (some [1, 4]) := by
  decide
example : Compat.FindReaderSubmatchIndex { exAns with ms := exAns.ms.tail } ⟨decoded exSegs, false⟩ = .ok (some [1, 3, 2, 3, -1, -1]) := by
  decide

/-- **What `allMatches` delivers, as documented.**  Under `EnginesAgree` the standard library's loop
    delivers regexp2's sequence (in byte offsets) minus the "empty matches abutting a preceding
    match", truncated to "at most n matches" — all of them for a negative `n`, none for `n = 0`. -/
theorem all_matches_as_documented (d : List (Int × Nat)) (hwf : WF d) (a : Ans) (ff : Nat → Option SMatch)
    (h : EnginesAgree d a ff) (n : Int) :
    Std.allMatches ff d n = (takeK n (dropAbutting false none a.ms)).map (toStd d) ∧
    (n = 0 → Std.allMatches ff d n = []) ∧
    (n < 0 → Std.allMatches ff d n = (dropAbutting false none a.ms).map (toStd d)) ∧
    (n > 0 → Std.allMatches ff d n = ((dropAbutting false none a.ms).take n.toNat).map (toStd d)) := by
  have := allMatches_eq d hwf a ff h n
  unfold delivered at this
  refine ⟨this, ?_, ?_, ?_⟩
  · intro hn; rw [this, hn, takeK_zero]; rfl
  · intro hn; rw [this]; simp [takeK, hn]
  · intro hn; rw [this]; have : ¬ n < 0 := by omega
    simp [takeK, this]

-- the empty match at rune 4 abuts "é" (3..4) and is dropped; the empty match at 0 is kept
example : dropAbutting false none exAns.ms = exAns.ms.take 3 := by decide
example : Std.allMatches exFF (decoded exSegs) (-1) = (exAns.ms.take 3).map (toStd (decoded exSegs)) := by decide
example : Std.allMatches exFF (decoded exSegs) 2 = (exAns.ms.take 2).map (toStd (decoded exSegs)) := by decide

/-- **`FindAllIndex`, `FindAllStringIndex`** (regexp2's `findAllRunesIndex` behind both, with the
    `bytesToRunesAndOffsets` table resp. the `newStringByteMapper` delta table for the offsets): for
    every `n` — positive, zero, negative — the byte pairs of exactly the matches `allMatches`
    delivers, `nil` when there is none. -/
theorem find_all_index_methods_eq_std (b : Option (List (Int × List Nat))) (hwf : WF (decoded (segsOf b))) (a : Ans)
    (ff : Nat → Option SMatch) (h : EnginesAgree (decoded (segsOf b)) a ff) (n : Int) :
    Compat.FindAllIndex a b n = .ok (Std.FindAllIndex ff (decoded (segsOf b)) n) ∧
    Compat.FindAllStringIndex a (segsOf b) n = .ok (Std.FindAllIndex ff (decoded (segsOf b)) n) := by
  have hv : ∀ m ∈ a.ms, m.Valid (segsOf b).length := by
    intro m hm; have := h.valid m hm; rwa [decoded_length] at this
  have hS : Std.FindAllIndex ff (decoded (segsOf b)) n =
      nilIfEmpty ((delivered false a.ms n).map (spanB (decoded (segsOf b)))) := by
    unfold Std.FindAllIndex
    rw [allMatches_eq _ hwf a ff h n, List.map_map]; rfl
  rw [hS, ← h.ltr]
  exact ⟨FindAllIndex_closed a b h.noErr hv n, FindAllStringIndex_closed a _ hwf h.noErr hv n⟩

example : Compat.FindAllIndex exAns (some exSegs) (-1) = .ok (some [[0, 0], [1, 3], [3, 5]]) ∧
    Compat.FindAllStringIndex exAns exSegs (-1) = .ok (some [[0, 0], [1, 3], [3, 5]]) ∧
    Std.FindAllIndex exFF (decoded exSegs) (-1) = some [[0, 0], [1, 3], [3, 5]] := by decide
example : Compat.FindAllIndex exAns (some exSegs) 0 = .ok none ∧ Compat.FindAllIndex exAns (some exSegs) 2 = .ok (some [[0, 0], [1, 3]]) ∧
    Compat.FindAllIndex ⟨false, [], false⟩ (some exSegs) 2 = .ok none := by decide

/-- **`FindAll`, `FindAllString`**: the texts of the same matches, each the bytes of the input between
    its two offsets (a nil element only for a nil `b`); `nil` when nothing is delivered — in particular
    for `n = 0` and for no match, never an empty non-nil slice. -/
theorem find_all_text_methods_eq_std (b : Option (List (Int × List Nat))) (hwf : WF (decoded (segsOf b))) (a : Ans)
    (ff : Nat → Option SMatch) (h : EnginesAgree (decoded (segsOf b)) a ff) (n : Int) :
    Compat.FindAll a b n = .ok (Std.FindAll ff (decoded (segsOf b)) (bytesOfB b) n) ∧
    Compat.FindAllString a (segsOf b) n = .ok (Std.FindAllString ff (decoded (segsOf b)) (bytesOf (segsOf b)) n) := by
  have hv : ∀ m ∈ a.ms, m.Valid (segsOf b).length := by
    intro m hm; have := h.valid m hm; rwa [decoded_length] at this
  constructor
  · rw [FindAll_closed a b h.noErr hv n, h.ltr]
    unfold Std.FindAll
    rw [allMatches_eq _ hwf a ff h n, List.map_map]; rfl
  · rw [FindAllString_closed a _ hwf h.noErr hv n, h.ltr]
    unfold Std.FindAllString
    rw [allMatches_eq _ hwf a ff h n, List.map_map]; rfl

example : Compat.FindAll exAns (some exSegs) (-1) = .ok (some [some [], some [97, 255], some [195, 169]]) ∧
    Compat.FindAllString exAns exSegs (-1) = .ok (some [[], [97, 255], [195, 169]]) ∧
    Compat.FindAllString exAns exSegs 0 = .ok none ∧ Compat.FindAllString ⟨false, [], false⟩ exSegs 3 = .ok none := by decide

/-- **`FindAllSubmatchIndex`, `FindAllStringSubmatchIndex`, `FindAllSubmatch`,
    `FindAllStringSubmatch`** (`forEachStringMatch`): per delivered match the full index slice with
    `-1` pairs resp. the texts with nil / `""` elements, for every `n`; `nil` when nothing is delivered. -/
theorem find_all_submatch_methods_eq_std (b : Option (List (Int × List Nat))) (hwf : WF (decoded (segsOf b))) (a : Ans)
    (ff : Nat → Option SMatch) (h : EnginesAgree (decoded (segsOf b)) a ff) (n : Int) :
    Compat.FindAllSubmatchIndex a b n = .ok (Std.FindAllSubmatchIndex ff (decoded (segsOf b)) n) ∧
    Compat.FindAllStringSubmatchIndex a (segsOf b) n = .ok (Std.FindAllSubmatchIndex ff (decoded (segsOf b)) n) ∧
    Compat.FindAllSubmatch a b n = .ok (Std.FindAllSubmatch ff (decoded (segsOf b)) (bytesOfB b) n) ∧
    Compat.FindAllStringSubmatch a (segsOf b) n =
      .ok (Std.FindAllStringSubmatch ff (decoded (segsOf b)) (bytesOf (segsOf b)) n) := by
  have hv : ∀ m ∈ a.ms, m.Valid (segsOf b).length := by
    intro m hm; have := h.valid m hm; rwa [decoded_length] at this
  have hI : Compat.FindAllStringSubmatchIndex a (segsOf b) n = .ok (Std.FindAllSubmatchIndex ff (decoded (segsOf b)) n) := by
    rw [FindAllStringSubmatchIndex_closed a _ hwf h.noErr hv n, h.ltr]
    unfold Std.FindAllSubmatchIndex
    rw [allMatches_eq _ hwf a ff h n, List.map_map]; rfl
  refine ⟨hI, hI, ?_, ?_⟩
  · rw [FindAllSubmatch_closed a b hwf h.noErr hv n, h.ltr]
    unfold Std.FindAllSubmatch
    rw [allMatches_eq _ hwf a ff h n, List.map_map]; rfl
  · rw [FindAllStringSubmatch_closed a _ hwf h.noErr hv n, h.ltr]
    unfold Std.FindAllStringSubmatch
    rw [allMatches_eq _ hwf a ff h n, List.map_map]; rfl

example : Compat.FindAllSubmatchIndex exAns (some exSegs) (-1) =
      .ok (some [[0, 0, -1, -1, -1, -1], [1, 3, 2, 3, -1, -1], [3, 5, -1, -1, 3, 5]]) ∧
    Compat.FindAllSubmatch exAns (some exSegs) 2 = .ok (some [[some [], none, none], [some [97, 255], some [255], none]]) ∧
    Compat.FindAllStringSubmatch exAns exSegs 3 = .ok (some [[[], [], []], [[97, 255], [255], []], [[195, 169], [], [195, 169]]]) ∧
    Std.FindAllSubmatchIndex exFF (decoded exSegs) (-1) = some [[0, 0, -1, -1, -1, -1], [1, 3, 2, 3, -1, -1], [3, 5, -1, -1, 3, 5]] := by
  decide

/-- **The text of a capture is the input's own bytes.**  `captureString` (behind `FindString`,
    `FindAllString`, `FindStringSubmatch`, `FindAllStringSubmatch`) returns exactly the bytes of the
    decoding steps `c.1 … c.1+c.2-1` of the input — an invalid byte stays that byte, it is not
    re-encoded as the three bytes of U+FFFD (what `string(runes)` would give; /repo fix 5bf4388). -/
theorem captured_text_is_input_bytes (segs : List (Int × List Nat)) (hwf : WF (decoded segs)) (c : Nat × Nat)
    (h : c.1 + c.2 ≤ segs.length) :
    captureString segs c = .ok (bytesOf ((segs.drop c.1).take c.2)) := by
  rw [captureString_eq segs hwf c h, textS_span]

example : captureString exSegs (1, 3) = .ok [97, 255, 195, 169] := by decide

/-- **The adapter panics only with a match-time error.**  For ANY engine answer without error whose
    matches lie inside the input — either direction, agreement with the standard library not assumed —
    none of the 21 methods panics: no slice expression and no table lookup of the adapter goes out of
    range, and every `must` sees a nil error (readers: also when the reader ends with a non-EOF error). -/
theorem adapter_returns_without_engine_error (b : Option (List (Int × List Nat))) (hwf : WF (decoded (segsOf b)))
    (a : Ans) (he : a.err = false) (hv : ∀ m ∈ a.ms, m.Valid (segsOf b).length)
    (r : Reader) (hr : ∀ m ∈ a.ms, m.Valid r.items.length) (n : Int) :
    Compat.Match a ≠ .panic ∧ Compat.MatchString a ≠ .panic ∧ Compat.MatchReader a r ≠ .panic ∧
    Compat.Find a b ≠ .panic ∧ Compat.FindIndex a b ≠ .panic ∧ Compat.FindString a (segsOf b) ≠ .panic ∧
    Compat.FindStringIndex a (segsOf b) ≠ .panic ∧ Compat.FindReaderIndex a r ≠ .panic ∧
    Compat.FindSubmatch a b ≠ .panic ∧ Compat.FindSubmatchIndex a b ≠ .panic ∧
    Compat.FindStringSubmatch a (segsOf b) ≠ .panic ∧ Compat.FindStringSubmatchIndex a (segsOf b) ≠ .panic ∧
    Compat.FindReaderSubmatchIndex a r ≠ .panic ∧
    Compat.FindAll a b n ≠ .panic ∧ Compat.FindAllIndex a b n ≠ .panic ∧ Compat.FindAllString a (segsOf b) n ≠ .panic ∧
    Compat.FindAllStringIndex a (segsOf b) n ≠ .panic ∧ Compat.FindAllSubmatch a b n ≠ .panic ∧
    Compat.FindAllSubmatchIndex a b n ≠ .panic ∧ Compat.FindAllStringSubmatch a (segsOf b) n ≠ .panic ∧
    Compat.FindAllStringSubmatchIndex a (segsOf b) n ≠ .panic := by
  have hM : Compat.MatchString a ≠ .panic := by
    unfold Compat.MatchString; rw [isMatch_eq a he]; exact fun h => nomatch h
  refine ⟨hM, hM, ?_, ?_, ?_, ?_, ?_, ?_, ?_, ?_, ?_, ?_, ?_, ?_, ?_, ?_, ?_, ?_, ?_, ?_, ?_⟩
  · rw [MatchReader_closed a r he]; exact fun h => nomatch h
  · rw [Find_closed a b hwf he hv]; exact fun h => nomatch h
  · unfold Compat.FindIndex; rw [FindStringIndex_closed a _ hwf he hv]; exact fun h => nomatch h
  · rw [FindString_closed a _ hwf he hv]; exact fun h => nomatch h
  · rw [FindStringIndex_closed a _ hwf he hv]; exact fun h => nomatch h
  · rw [FindReaderIndex_closed a r he hr]; exact fun h => nomatch h
  · rw [FindSubmatch_closed a b hwf he hv]; exact fun h => nomatch h
  · unfold Compat.FindSubmatchIndex; rw [FindStringSubmatchIndex_closed a _ hwf he hv]; exact fun h => nomatch h
  · rw [FindStringSubmatch_closed a _ hwf he hv]; exact fun h => nomatch h
  · rw [FindStringSubmatchIndex_closed a _ hwf he hv]; exact fun h => nomatch h
  · rw [FindReaderSubmatchIndex_closed a r he hr]; exact fun h => nomatch h
  · rw [FindAll_closed a b he hv n]; exact fun h => nomatch h
  · rw [FindAllIndex_closed a b he hv n]; exact fun h => nomatch h
  · rw [FindAllString_closed a _ hwf he hv n]; exact fun h => nomatch h
  · rw [FindAllStringIndex_closed a _ hwf he hv n]; exact fun h => nomatch h
  · rw [FindAllSubmatch_closed a b hwf he hv n]; exact fun h => nomatch h
  · unfold Compat.FindAllSubmatchIndex; rw [FindAllStringSubmatchIndex_closed a _ hwf he hv n]; exact fun h => nomatch h
  · rw [FindAllStringSubmatch_closed a _ hwf he hv n]; exact fun h => nomatch h
  · rw [FindAllStringSubmatchIndex_closed a _ hwf he hv n]; exact fun h => nomatch h

-- right-to-left `a*` on "baa" (D11): sequence (1,2), (1,0), (0,0); the empty match at 1 abuts the start of (1,2)
example : Compat.FindAllStringIndex ⟨true, [⟨1, 2, []⟩, ⟨1, 0, []⟩, ⟨0, 0, []⟩], false⟩ [(98, [98]), (97, [97]), (97, [97])] (-1) =
    .ok (some [[1, 3], [0, 0]]) := by decide

/-- **… and with one it does panic** (`must`): when the engine's first call returns an error, every
    method panics — except the find-all methods with `n = 0`, which return nil without asking the
    engine.  (Later in the sequence: an error behind the `n`-th delivered match is never seen, the loops
    stop before the next call; see the example.) -/
theorem engine_error_panics (b : Option (List (Int × List Nat))) (a : Ans) (hms : a.ms = []) (he : a.err = true)
    (r : Reader) (n : Int) :
    Compat.Match a = .panic ∧ Compat.MatchString a = .panic ∧ Compat.MatchReader a r = .panic ∧
    Compat.Find a b = .panic ∧ Compat.FindIndex a b = .panic ∧ Compat.FindString a (segsOf b) = .panic ∧
    Compat.FindStringIndex a (segsOf b) = .panic ∧ Compat.FindReaderIndex a r = .panic ∧
    Compat.FindSubmatch a b = .panic ∧ Compat.FindSubmatchIndex a b = .panic ∧
    Compat.FindStringSubmatch a (segsOf b) = .panic ∧ Compat.FindStringSubmatchIndex a (segsOf b) = .panic ∧
    Compat.FindReaderSubmatchIndex a r = .panic ∧
    (Compat.FindAll a b n = if n = 0 then .ok none else .panic) ∧
    (Compat.FindAllIndex a b n = if n = 0 then .ok none else .panic) ∧
    (Compat.FindAllString a (segsOf b) n = if n = 0 then .ok none else .panic) ∧
    (Compat.FindAllStringIndex a (segsOf b) n = if n = 0 then .ok none else .panic) ∧
    (Compat.FindAllSubmatch a b n = if n = 0 then .ok none else .panic) ∧
    (Compat.FindAllSubmatchIndex a b n = if n = 0 then .ok none else .panic) ∧
    (Compat.FindAllStringSubmatch a (segsOf b) n = if n = 0 then .ok none else .panic) ∧
    (Compat.FindAllStringSubmatchIndex a (segsOf b) n = if n = 0 then .ok none else .panic) := by
  have hF : findFirst a = .panic := by simp [findFirst, nextCall, hms, he, must]
  have hI : must (r2IsMatch a) = .panic := by simp [r2IsMatch, nextCall, hms, he, must, Call.map]
  have hL : ∀ mk, must (r2FindAll a mk n) = if n = 0 then .ok none else .panic := by
    intro mk
    unfold r2FindAll
    by_cases hn : n = 0
    · simp [hn, must]
    · simp [hn, hms, he, r2FindAllLoop, must, Call.map]
  have hE : ∀ {β : Type} (f : RMatch → Res β), forEachStringMatch a n f = .panic := by
    intro β f; simp [forEachStringMatch, hms, he, forEachLoop]
  have hAI : Compat.FindAllIndex a b n = if n = 0 then .ok none else .panic := by
    unfold Compat.FindAllIndex r2FindAllRunesIndex
    simp only []
    rw [hL]; split <;> rfl
  have hSI : Compat.FindAllStringSubmatchIndex a (segsOf b) n = if n = 0 then .ok none else .panic := by
    unfold Compat.FindAllStringSubmatchIndex; rw [hE]; split <;> rfl
  refine ⟨hI, hI, ?_, ?_, ?_, ?_, ?_, ?_, ?_, ?_, ?_, ?_, ?_, ?_, hAI, ?_, ?_, ?_, hSI, ?_, hSI⟩
  · unfold Compat.MatchReader; rw [readRunesR_eq, bind_ok, hI]
  · unfold Compat.Find Compat.FindIndex Compat.FindStringIndex; rw [hF]; rfl
  · unfold Compat.FindIndex Compat.FindStringIndex; rw [hF]; rfl
  · unfold Compat.FindString; rw [hF]; rfl
  · unfold Compat.FindStringIndex; rw [hF]; rfl
  · unfold Compat.FindReaderIndex; rw [readRunesR_eq, bind_ok, hF]; rfl
  · unfold Compat.FindSubmatch Compat.FindSubmatchIndex Compat.FindStringSubmatchIndex; rw [hF]; rfl
  · unfold Compat.FindSubmatchIndex Compat.FindStringSubmatchIndex; rw [hF]; rfl
  · unfold Compat.FindStringSubmatch; rw [hF]; rfl
  · unfold Compat.FindStringSubmatchIndex; rw [hF]; rfl
  · unfold Compat.FindReaderSubmatchIndex; rw [readRunesR_eq, bind_ok, hF]; rfl
  · unfold Compat.FindAll; rw [hAI]; split <;> rfl
  · unfold Compat.FindAllString; rw [hE]; split <;> rfl
  · unfold Compat.FindAllStringIndex r2FindAllStringIndex
    simp only []
    rw [hL]; split <;> rfl
  · unfold Compat.FindAllSubmatch Compat.FindAllSubmatchIndex; rw [hSI]; split <;> rfl
  · unfold Compat.FindAllStringSubmatch; rw [hE]; split <;> rfl

-- an error after the second match: `n = 2` stops before the failing call, `n = 3` and `n = -1` reach it
example : Compat.FindAllString { exAns with ms := exAns.ms.take 2, err := true } exSegs 2 = .ok (some [[], [97, 255]]) ∧
    Compat.FindAllString { exAns with ms := exAns.ms.take 2, err := true } exSegs 3 = .panic ∧
    Compat.FindAllStringIndex { exAns with ms := exAns.ms.take 2, err := true } exSegs (-1) = .panic ∧
    Compat.FindString { exAns with ms := exAns.ms.take 2, err := true } exSegs = .ok [] := by decide

end RegexVerif.Props.C06
