/-
C11 — property theorems (stub: not built yet).
-/
namespace RegexVerif.Props.C11
end RegexVerif.Props.C11
