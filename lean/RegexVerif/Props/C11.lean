/-
C11 — Concurrent use of a Regexp equals sequential use.   (PARTIAL, see below)

What is proved here: for the interleaving semantics of `Model/Interleave.lean` -- G goroutines, each
executing the step script of one call on a shared Regexp, the runner pool / buffer pool / replacement
cache touched only through atomic get/put/lookup/insert operations, every item owned exclusively by
the goroutine that got it until it puts it back -- every call returns under every schedule (and every
choice `sync.Pool` makes) exactly what it returns alone.  The proof combines
  * history independence (the C12 theorems: whichever runner, buffer or cache state a call is
    handed, its result is that of a new runner / new buffer / plain parse), and
  * ownership exclusivity (a step of another goroutine does not touch what this goroutine owns),
and `writeset_expected` ties the "touched only through atomic operations" premise to the Go source:
the regenerated list of all assignments to shared objects contains only the synchronised ones.
The abstract theorems take the laws of the runner / buffer / parse operations as a record (`Laws`);
section `runnerInstance` instantiates them with the C12 models (`runnerSem`) and a *proved* value of the
record (`runnerLaws`): `runner_interleaving_eq_sequential`, `runner_step_independent_of_shared_state`.

What is NOT proved (explored by legs S and R instead): that the Go implementation realises this
semantics at the level of the Go memory model -- that `sync.Pool`, `sync.Mutex` and the atomics give
the atomicity and visibility assumed, that no shared object is written through a local alias of a
slice or map, and the behaviour of the timeout clock goroutine.  Those are checked dynamically with
the race detector and by comparing concurrent results with precomputed sequential ones.
-/
import RegexVerif.Lemmas.Interleave
import RegexVerif.Lemmas.RunnerSem
import RegexVerif.Generated.Fields

namespace RegexVerif.Props.C11
open RegexVerif RegexVerif.Interleave RegexVerif.Lemmas.Interleave

variable {R B O Args Res κ ν : Type} [DecidableEq κ]

/-! ### the schedule-level argument -/

/-- **Ownership exclusivity.**  A move of goroutine `g'` leaves the local state of every other goroutine
    -- the runner, buffer and replacement data it currently owns, and its progress -- untouched. -/
theorem ownership_exclusive (M : Sem R B O Args Res κ ν) (calls : Nat → Call Args κ) (g g' ch : Nat)
    (σ : State R B Res κ ν) (h : g ≠ g') : (exec1 M calls (g', ch) σ).locals g = σ.locals g := by
  simp [exec1, h]

/-- **A step does not depend on the shared state it finds.**  Under the invariants (pooled runners
    satisfy the pool invariant, the cache holds parses of its keys), one step of a goroutine -- whatever
    the shared state holds and whatever `sync.Pool` picks -- changes the *relevant* part of its local state
    (`α`: progress, observable runner state, visible buffer contents, parsed replacement, result) by a
    function `absStep` that mentions neither; and the invariants are kept. -/
theorem step_independent_of_shared_state (M : Sem R B O Args Res κ ν) (W : Laws M) (c : Call Args κ) (ch : Nat)
    (S : Shared R B κ ν) (L : Local R B Res ν) (hS : SharedInv M W S) (hL : LocalGood M W c L) :
    α M (stepG M c ch S L).2 = absStep M W c (α M L) ∧
    SharedInv M W (stepG M c ch S L).1 ∧ LocalGood M W c (stepG M c ch S L).2 :=
  stepG_abs M W c ch S L hS hL

/-- **Every interleaving equals the sequential execution.**  Let any number of goroutines each execute
    one call (`calls g`) on the same Regexp, starting from *any* shared state that satisfies the
    invariants (i.e. after any history of earlier calls), under *any* schedule `sch` -- which also
    fixes what `sync.Pool` hands out at every `get`.  If goroutine `g` has finished its call, its result
    is the result of the same call executed alone on brand-new shared state. -/
theorem interleaving_eq_sequential (M : Sem R B O Args Res κ ν) (W : Laws M) (calls : Nat → Call Args κ)
    (S0 : Shared R B κ ν) (hS0 : SharedInv M W S0) (sch : Schedule) (g : Nat) (maxSize : Nat)
    (hfin : ((exec M calls sch (initState calls S0)).locals g).todo = []) :
    ((exec M calls sch (initState calls S0)).locals g).res = alone M (calls g) maxSize := by
  have hinit : GInv M W calls (initState calls S0) := ⟨hS0, fun g => localGood_init M W (calls g)⟩
  obtain ⟨_, hc⟩ := exec_abs M W calls sch _ hinit
  have hS1 : SharedInv M W ({ runners := [], bufs := [], cache := LRU.empty maxSize } : Shared R B κ ν) :=
    ⟨(by intro r h; cases h), ⟨(by simp [LRU.empty, LRU.keys]), (by intro _; simp [LRU.empty])⟩,
     (by intro k v h; simp [LRU.empty, LRU.lookup] at h)⟩
  have hinit1 : GInv M W (fun _ => calls g) (initState (fun _ => calls g) _) :=
    ⟨hS1, fun _ => localGood_init M W (calls g)⟩
  obtain ⟨_, ha⟩ := exec_abs M W (fun _ => calls g) (List.replicate (script (calls g)).length (0, 0)) _ hinit1
  have hcg := hc g
  have hag := ha 0
  rw [moves_replicate] at hag
  -- the abstraction of the initial local state is the same on both sides
  have hA0 : α M ((initState calls S0).locals g) = α M ((initState (fun _ => calls g)
      ({ runners := [], bufs := [], cache := LRU.empty maxSize } : Shared R B κ ν)).locals 0) := rfl
  -- `g` has made at least as many moves as its script is long
  have htodo : (α M ((exec M calls sch (initState calls S0)).locals g)).todo = [] := hfin
  rw [hcg, iterate_todo] at htodo
  have hlen : (script (calls g)).length ≤ moves g sch := by
    have h0 : (α M ((initState calls S0).locals g)).todo = script (calls g) := rfl
    rw [h0] at htodo
    exact List.drop_eq_nil_iff.mp htodo
  obtain ⟨k, hk⟩ := Nat.exists_eq_add_of_le hlen
  -- after the script is finished further moves change nothing
  have hdone : (iter (absStep M W (calls g)) (script (calls g)).length (α M ((initState calls S0).locals g))).todo = [] := by
    rw [iterate_todo]; exact List.drop_eq_nil_iff.mpr (Nat.le_refl _)
  have hres : (α M ((exec M calls sch (initState calls S0)).locals g)).res =
      (α M ((exec M (fun _ => calls g) (List.replicate (script (calls g)).length (0, 0))
        (initState (fun _ => calls g) { runners := [], bufs := [], cache := LRU.empty maxSize })).locals 0)).res := by
    rw [hcg, hag, hk, iterate_add, iterate_done M W (calls g) k _ hdone, hA0]
  exact hres

/-! ### the hypotheses are the C12 theorems -/

section concrete
open RegexVerif.RunnerReuse
/-- **The runner laws assumed above hold for the runner model of C12.**  With `InvR := PoolInv re`,
    `Own := RunInv re`, `startR := scanInit ∘ (program selection)`, `putR := put`, `obs := observe`: a new
    runner satisfies the pool invariant, the pool invariant implies the ownership facts, starting a scan on
    any pooled runner gives the observable state a new runner gives, starting keeps the ownership facts,
    and `put` re-establishes the pool invariant.  (The complete record, including "the interpreter and
    `finish` read only `observe`" and "decode overwrites", is `Lemmas.RunnerSem.runnerLaws`; see section
    `runnerInstance` below.) -/
theorem runner_laws_from_C12 (re : Re) (a : ScanArgs) (quick : Bool) :
    PoolInv re Runner.fresh ∧
    (∀ r, PoolInv re r → RunInv re r) ∧
    (∀ r, PoolInv re r →
        observe (scanInit re a (if quick then selectQuick re r else r)) =
        observe (scanInit re a (if quick then selectQuick re Runner.fresh else Runner.fresh))) ∧
    (∀ r, RunInv re r → RunInv re (scanInit re a (if quick then selectQuick re r else r))) ∧
    (∀ r, RunInv re r → PoolInv re (put r)) := by
  refine ⟨(Props.C12.put_resets_code re Runner.fresh (RegexVerif.Lemmas.RunnerReuse.runInv_fresh re)).2.2.2.1,
    fun r h => h.2.2.2, fun r h => (Props.C12.scanInit_resets re a quick r h).1, ?_,
    fun r h => (Props.C12.put_resets_code re r h).1⟩
  intro r h
  have hsel : RunInv re (if quick then selectQuick re r else r) := by
    cases quick
    · exact h
    · simp only [selectQuick, if_true]; cases re.hasQuick <;> exact h
  exact (Props.C12.put_resets_code re _ hsel).2.2.2.2 a

end concrete

/-! ### non-vacuity: a small instance -/
section toy

/-- a toy instance: runners are (junk, accumulator) pairs -- `put` clears the accumulator and leaves junk,
    `start` overwrites the accumulator and keeps the junk, steps change both, only the accumulator is
    observable; buffers are (backing array, length) with stale cells beyond the decoded prefix;
    parsing a replacement `k` gives `k + 100`. -/
def toy : Sem (Nat × Nat) (List Int × Nat) Nat Nat Nat Nat Nat where
  freshR := (0, 0)
  startR := fun a t r => (r.1, a + t.length)
  stepR := fun _ t r => (r.1 + 1, r.2 * 2 + t.length)
  finishR := fun _ d r => r.2 + d.getD 0
  putR := fun r => (r.1 + r.2, 0)
  obs := fun r => r.2
  freshB := fun a => (List.replicate a 0, a)
  fits := fun a b => decide (a ≤ b.1.length)
  decodeB := fun a b => ((List.range a).map Int.ofNat ++ b.1.drop a, a)
  visB := fun b => b.1.take b.2
  putB := fun b => (b.1, 0)
  parse := fun k => some (k + 100)

def toyLaws : Laws toy where
  InvR := fun r => r.2 = 0
  Own := fun _ => True
  stepO := fun _ t o => o * 2 + t.length
  finishO := fun _ d o => o + d.getD 0
  fresh_inv := rfl
  inv_own := fun _ _ => trivial
  start_obs := fun _ _ _ _ => rfl
  start_own := fun _ _ _ _ => trivial
  step_obs := fun _ _ _ _ => rfl
  step_own := fun _ _ _ _ => trivial
  finish_obs := fun _ _ _ _ => rfl
  put_inv := fun _ _ => rfl
  decode_vis := by
    intro a b _
    simp only [toy]
    rw [List.take_left' (by simp), List.take_left' (by simp)]

def toyCalls : Nat → Call Nat Nat
  | 0 => { args := 3, repl := some 7, nsteps := 2 }
  | 1 => { args := 5, repl := none, nsteps := 1 }
  | _ => { args := 2, repl := some 7, nsteps := 0 }

/-- shared state left behind by earlier calls: a pooled runner full of junk, a stale 6-cell buffer, a
    cache that already holds key 7 -/
def toyS0 : Shared (Nat × Nat) (List Int × Nat) Nat Nat :=
  { runners := [(41, 0)], bufs := [([7, 7, 7, 7, 7, 7], 0)], cache := { entries := [(7, 107)], maxSize := 1 } }

/-- an interleaving of the three calls (goroutine, `sync.Pool` choice) -/
def toySchedule : Schedule :=
  [(0, 0), (1, 0), (2, 0), (0, 0), (2, 5), (1, 0), (1, 0), (0, 5), (2, 0), (0, 0), (2, 0), (1, 0), (0, 0), (2, 0),
   (1, 0), (0, 0), (2, 0), (1, 0), (0, 0), (2, 0), (1, 0), (0, 0), (0, 0), (0, 0), (2, 0), (2, 0), (1, 0)]

example : SharedInv toy toyLaws toyS0 :=
  ⟨by intro r h; simp [toyS0] at h; subst h; rfl,
   ⟨by simp [toyS0, LRU.keys], by intro _; simp [toyS0]⟩,
   by intro k v h; simp only [toyS0, LRU.lookup] at h; split at h <;> simp_all [toy] <;> omega⟩

/-- all three goroutines finish, and each gets what it gets alone; the pooled runner really was handed
    out (the junk 41 shows up in the runner goroutine 0 put back) -/
example :
    let σ := exec toy toyCalls toySchedule (initState toyCalls toyS0)
    ((σ.locals 0).todo, (σ.locals 1).todo, (σ.locals 2).todo) = ([], [], []) ∧
    ((σ.locals 0).res, (σ.locals 1).res, (σ.locals 2).res) =
      (alone toy (toyCalls 0) 16, alone toy (toyCalls 1) 16, alone toy (toyCalls 2) 16) ∧
    (alone toy (toyCalls 0) 16, alone toy (toyCalls 1) 16, alone toy (toyCalls 2) 16) = (some 140, some 25, some 111) ∧
    σ.shared.runners.map (·.1) ≠ [0, 0, 0] := by
  decide

end toy

/-! ### ===== the laws are theorems for the C12 models: `runnerSem`, `runnerLaws` =====

`Model/RunnerSem.lean` instantiates the abstract semantics with the C12 models (`RunnerReuse` runner with
`scanInit` / `put` / `observe`, the Match builder on its real arrays, `ensureStorage` on the real
backtracking stack; `Pool` buffers and `decode`; the `LRU` cache), `Lemmas/RunnerSem.lean` proves every
field of `Laws` for it (`runnerLaws`).  The theorems below are the two abstract theorems at that
instance: no `Laws` hypothesis is left. -/
section runnerInstance
open RegexVerif.RunnerReuse RegexVerif.RunnerSem RegexVerif.Lemmas.RunnerSem RegexVerif.Lemmas.RunnerReuse

/-- invariant of the shared state, written out for the C12 models: every pooled runner satisfies
    `PoolInv` (what `putRunner` establishes) and the ownership facts `OwnR` (`RunInv`, every slot of its result
    object well formed, backtracking stack within its limit); the cache has no duplicate keys, respects its
    bound and holds parses of its keys.  Pooled buffers are unconstrained. -/
def RunnerSharedInv (re : Re) (parse : κ → Option ν) (S : Shared RunSt Pool.Buf κ ν) : Prop :=
  (∀ s ∈ S.runners, PoolInv re s.r ∧ OwnR re s.r) ∧ Props.C12.CacheInv S.cache ∧
  (∀ k v, LRU.lookup k S.cache.entries = some v → parse k = some v)

/-- invariant of a goroutine's local state, written out -/
def RunnerLocalGood (re : Re) (parse : κ → Option ν) (c : Call CallArgs κ)
    (L : Local RunSt Pool.Buf (RunnerSem.Res ν) ν) : Prop :=
  (∀ s, L.runner = some s → OwnR re s.r ∧ (L.started = false → PoolInv re s.r ∧ OwnR re s.r)) ∧
  (∀ k v, c.repl = some k → L.data = some v → parse k = some v)

/-- **The interpreter of the C12 models reads only the observable state.**  Two runners of this Regexp
    (`OwnR`) with the same `observe` -- they may differ in stack capacities, dead stack cells, array cells at
    or above `2*matchcount`, the scratch fields -- and the same error flag: after one interpreter step
    (any control function, any text) they again have the same `observe` and error flag, the step keeps
    `OwnR`, and the results built from them are equal.  (`step_obs`, `step_own`, `finish_obs` of `Laws`.) -/
theorem runner_step_reads_only_observable (re : Re) (a : CallArgs) (t : List Int) (s s' : RunSt)
    (h : OwnR re s.r) (h' : OwnR re s'.r) (ho : observe s.r = observe s'.r) (he : s.err = s'.err) :
    observe (stepSt re a t s).r = observe (stepSt re a t s').r ∧ (stepSt re a t s).err = (stepSt re a t s').err ∧
    OwnR re (stepSt re a t s).r ∧ ∀ d : Option ν, finishSt d s = finishSt d s' := by
  have h1 := (stepSt_obs re a t s h).1
  have h2 := (stepSt_obs re a t s' h').1
  rw [ho, he, ← h2] at h1
  simp only [Prod.mk.injEq] at h1
  refine ⟨h1.1, h1.2, (stepSt_obs re a t s h).2, ?_⟩
  intro d
  rw [finishSt_obs, finishSt_obs, ho, he]

/-- why `OwnR` (well-formed slots) is needed -- and why `Laws.step_obs` carries the premise `Own r`: two
    slots with the same view `(1, [0, -5])`; the negative cell is not a reference that points below itself,
    so `matchLength` follows it to cell 2, which lies above `2*matchcount`, and returns the stale 7 resp. 99.
    Such slots violate `Slot.WF` and are not reachable (`builder_never_reads_stale`, `transfer_interval_nonneg`). -/
example :
    viewS { count := 1, arr := [0, -5, 7, 8] } = viewS { count := 1, arr := [0, -5, 99, 8] } ∧
    Slot.matchLengthWith rdAny { count := 1, arr := [0, -5, 7, 8] } = some 7 ∧
    Slot.matchLengthWith rdAny { count := 1, arr := [0, -5, 99, 8] } = some 99 := by decide

/-- **A step of a call on the C12 models does not depend on the shared state it finds** --
    `step_independent_of_shared_state` at `runnerSem` / `runnerLaws`. -/
theorem runner_step_independent_of_shared_state (re : Re) (sizes : List Nat) (parse : κ → Option ν)
    (c : Call CallArgs κ) (ch : Nat) (S : Shared RunSt Pool.Buf κ ν) (L : Local RunSt Pool.Buf (RunnerSem.Res ν) ν)
    (hS : RunnerSharedInv re parse S) (hL : RunnerLocalGood re parse c L) :
    α (runnerSem re sizes parse) (stepG (runnerSem re sizes parse) c ch S L).2 =
      absStep (runnerSem re sizes parse) (runnerLaws re sizes parse) c (α (runnerSem re sizes parse) L) ∧
    RunnerSharedInv re parse (stepG (runnerSem re sizes parse) c ch S L).1 ∧
    RunnerLocalGood re parse c (stepG (runnerSem re sizes parse) c ch S L).2 :=
  step_independent_of_shared_state (runnerSem re sizes parse) (runnerLaws re sizes parse) c ch S L hS hL

/-- the same, without the abstract step: two shared states (any pooled runners, buffers, cache contents
    satisfying the invariant) and two picks of `sync.Pool` lead to the same relevant local state -/
theorem runner_step_same_for_all_shared_states (re : Re) (sizes : List Nat) (parse : κ → Option ν)
    (c : Call CallArgs κ) (ch ch' : Nat) (S S' : Shared RunSt Pool.Buf κ ν) (L : Local RunSt Pool.Buf (RunnerSem.Res ν) ν)
    (hS : RunnerSharedInv re parse S) (hS' : RunnerSharedInv re parse S') (hL : RunnerLocalGood re parse c L) :
    α (runnerSem re sizes parse) (stepG (runnerSem re sizes parse) c ch S L).2 =
    α (runnerSem re sizes parse) (stepG (runnerSem re sizes parse) c ch' S' L).2 := by
  rw [(runner_step_independent_of_shared_state re sizes parse c ch S L hS hL).1,
      (runner_step_independent_of_shared_state re sizes parse c ch' S' L hS' hL).1]

/-- **Every interleaving of calls on the C12 models equals the sequential execution** --
    `interleaving_eq_sequential` at `runnerSem` / `runnerLaws`: any number of goroutines, any prior shared
    state satisfying `RunnerSharedInv`, any schedule and any picks of `sync.Pool`; a finished call's result
    (error flag, groups after `tidy`, text position, parsed replacement) is the one it has alone on empty
    pools and an empty cache. -/
theorem runner_interleaving_eq_sequential (re : Re) (sizes : List Nat) (parse : κ → Option ν)
    (calls : Nat → Call CallArgs κ) (S0 : Shared RunSt Pool.Buf κ ν) (hS0 : RunnerSharedInv re parse S0)
    (sch : Schedule) (g : Nat) (maxSize : Nat)
    (hfin : ((exec (runnerSem re sizes parse) calls sch (initState calls S0)).locals g).todo = []) :
    ((exec (runnerSem re sizes parse) calls sch (initState calls S0)).locals g).res =
      alone (runnerSem re sizes parse) (calls g) maxSize :=
  interleaving_eq_sequential (runnerSem re sizes parse) (runnerLaws re sizes parse) calls S0 hS0 sch g maxSize hfin

/-! non-vacuity: Regexp `exRe` of C12 (2 capture slots, 3 backtracking instructions, stack limit 1000, a
    bool-only program), pool classes 4 and 16, `parse k = k + 100`.  The shared state holds the runner C12's
    example left behind (`put exUsed`: stacks grown to 80/40 cells and partly full, a result object with
    counts, stale balancing references `-3 -4` above them, `balancing` set; error flag set), a stale class-4
    buffer full of 7s and a full cache.  Goroutine 0 runs a `Replace`-like call on "hi!" (gets the pooled
    runner and the stale buffer), goroutine 1 a bool-only call on a 2-rune / 5-byte input. -/

/-- the calls' program: position, two captures and a balancing reference on slot 1, the three reads of
    slot 1 (the next position depends on what they return), a capture on slot 0, then `goTo(0)` -/
def exCtl (t : List Int) (o : Obs) : Prim :=
  let n := match o.matchView with
    | some mv => (mv.1.map (·.1)).foldl (· + ·) 0
    | none => 0
  if o.runtextpos = 0 then .act (.setpos 1)
  else match n with
    | 0 => .act (.capture 1 0 t.length)
    | 1 => .act (.capture 1 1 2)
    | 2 => .act (.balance 1)
    | 3 => if o.runtextpos = 1 then
             .read 1 (fun m i l => match m, i, l with
               | some true, some i, some l => .setpos (2 + i + l)
               | _, _, _ => .setpos (-1))
           else .act (.capture 0 0 o.runtextpos.toNat)
    | _ => .act (.enter 7 false false)

def exCallArgs (quick : Bool) (rt : Nat) (runes : List Int) (needed : Nat) (h : runes.length ≤ needed) : CallArgs :=
  { quick := quick, rt := rt, textInfo := some rt, textstart := 0, timeout := 5, noTimeout := false,
    newDeadline := 999, runes := runes, needed := needed, hn := h, maxPool := -1, ctl := exCtl }

def exCalls : Nat → Call CallArgs Nat
  | 0 => { args := exCallArgs false 8 [104, 105, 33] 3 (by decide), repl := some 7, nsteps := 7 }
  | _ => { args := exCallArgs true 9 [233, 26085] 5 (by decide), repl := none, nsteps := 4 }

def exSem : Sem RunSt Pool.Buf (Obs × Bool) CallArgs (RunnerSem.Res Nat) Nat Nat :=
  runnerSem Props.C12.exRe [4, 16] (fun k => some (k + 100))

def exS0 : Shared RunSt Pool.Buf Nat Nat :=
  { runners := [{ r := put Props.C12.exUsed, err := true }],
    bufs := [{ data := [7, 7, 7, 7], len := 0 }],
    cache := { entries := [(7, 107)], maxSize := 1 } }

/-- (goroutine, `sync.Pool` pick): goroutine 0 is handed the pooled runner and the stale buffer;
    goroutine 1 finds the pools empty at its `get`s -/
def exSchedule : Schedule :=
  [(0, 0), (1, 0), (0, 0), (1, 0), (0, 0), (0, 0), (1, 0), (0, 0), (1, 0), (0, 0), (1, 0), (0, 0), (1, 0), (0, 0),
   (1, 0), (0, 0), (1, 0), (0, 0), (1, 0), (0, 0), (0, 0), (0, 0), (0, 0)]

theorem exUsed_own : OwnR Props.C12.exRe Props.C12.exUsed := by
  refine ⟨⟨fun _ => by decide, ?_⟩, ?_, ⟨by decide, by intro _; decide⟩⟩
  · intro m h; simp [Props.C12.exUsed, Runner.fresh] at h; subst h; rfl
  · intro m h
    simp only [Props.C12.exUsed, Runner.fresh, Option.some.injEq] at h
    subst h
    intro s hs
    simp only [List.mem_cons, List.mem_nil_iff, or_false] at hs
    rcases hs with rfl | rfl <;> exact wf_of_check _ (by decide) (by decide) (by decide)

/-- the shared state of the example satisfies the invariant -/
theorem exS0_inv : RunnerSharedInv Props.C12.exRe (fun k => some (k + 100)) exS0 := by
  refine ⟨?_, ⟨by simp [exS0, LRU.keys], by intro _; simp [exS0]⟩, ?_⟩
  · intro s hs
    simp only [exS0, List.mem_cons, List.mem_nil_iff, or_false] at hs
    subst hs
    exact ⟨(Props.C12.put_resets_code _ _ exUsed_own.1).1, ownR_put _ _ exUsed_own⟩
  · intro k v h
    simp only [exS0, LRU.lookup] at h
    split at h <;> simp_all <;> omega

set_option maxRecDepth 100000 in
/-- both goroutines finish; each gets what it gets alone (evaluated on both sides); the results are the
    expected ones (no error; groups `(0,5)` and -- after compaction of the balancing reference -- `(0,3)`
    resp. the raw bool-only state); the pooled runner really was used and went back (stack of 80 cells) -/
example :
    let σ := exec exSem exCalls exSchedule (initState exCalls exS0)
    ((σ.locals 0).todo, (σ.locals 1).todo) = ([], []) ∧
    ((σ.locals 0).res, (σ.locals 1).res) = (alone exSem (exCalls 0) 16, alone exSem (exCalls 1) 16) ∧
    alone exSem (exCalls 0) 16 = some ⟨false, some [(1, [0, 5]), (1, [0, 3])], 5, some 107⟩ ∧
    alone exSem (exCalls 1) 16 = some ⟨false, some [(0, []), (1, [0, 2])], 1, none⟩ ∧
    σ.shared.runners.map (fun s => s.r.runtrack.length) = [64, 80] := by
  decide

/-- the hypotheses of `runner_step_reads_only_observable` are satisfiable by two different runners: the
    recycled one and a new one after `scanInit` have the same `observe`, both satisfy `OwnR`, and they differ
    (stack capacity 80 vs 64) -/
example :
    OwnR Props.C12.exRe (scanInit Props.C12.exRe Props.C12.exArgs (put Props.C12.exUsed)) ∧
    OwnR Props.C12.exRe (scanInit Props.C12.exRe Props.C12.exArgs Runner.fresh) ∧
    observe (scanInit Props.C12.exRe Props.C12.exArgs (put Props.C12.exUsed)) =
      observe (scanInit Props.C12.exRe Props.C12.exArgs Runner.fresh) ∧
    (scanInit Props.C12.exRe Props.C12.exArgs (put Props.C12.exUsed)).runtrack.length ≠
      (scanInit Props.C12.exRe Props.C12.exArgs Runner.fresh).runtrack.length :=
  ⟨ownR_scanInit _ _ _ (ownR_put _ _ exUsed_own), ownR_scanInit _ _ _ (ownR_fresh _),
   (Props.C12.scanInit_resets _ _ false _ (Props.C12.put_resets_code _ _ exUsed_own.1).1).1, by decide⟩

end runnerInstance

/-! ### the premise "shared state is touched only through synchronised operations", against the source -/
section writeset

/-- why a write to an object that goroutines may share is not a race -/
inductive Sync where
  | compileTime   -- in a function that is not reachable from any match-time entry point: the object is
                  --   still being built by Compile / MustCompile / RegisterEngine / UnmarshalText
  | mutex         -- under a mutex held by the function (cache `mu`, clock `mu`, `enginesMu`)
  | poolOwned     -- `*p = …` on a buffer pointer the caller owns between `sync.Pool.Get` and `Put`
  | callLocal     -- `*p = …` where `p` points into an object owned by the current call (its runner's
                  --   stack fields, its output list)
  | parseLocal    -- `syntax` functions reachable only through the replacement parser, which mutates
                  --   the tree and sets *it* is building
  | lazyInit      -- `initCaches` via `getRunner` when `runnerPool == nil`: dead for every Regexp made by
                  --   `Compile`/`MustCompile` (both constructors call `initCaches`, see `initCaches_callers`)
  | testOnly      -- documented debug/test API (`SetTimeoutCheckPeriod`)
  deriving DecidableEq, Repr

/-- every assignment to a shared object in the sources: (function, target, reachable at match time,
    why it is not a race) -/
def expectedSharedWrites : List (String × String × Bool × Sync) := [
  ("bufferpool.go:pooledSliceBuffers.put", "*regexp2.T", true, .poolOwned),
  ("bufferpool.go:putPooledReplaceBuffer", "*?pooled", true, .poolOwned),
  ("fastclock.go:extendClock", "var regexp2.fast.running", true, .mutex),
  ("fastclock.go:extendClock", "var regexp2.fast.start", true, .mutex),
  ("fastclock.go:runClock", "var regexp2.fast.running", true, .mutex),
  ("regexp.go:Regexp.FindAllStringIndex", "*?pooledInput", true, .poolOwned),
  ("regexp.go:Regexp.UnmarshalText", "*regexp2.Regexp", false, .compileTime),
  ("regexp.go:Regexp.initCaches", "regexp2.Regexp.replaceCache", true, .lazyInit),
  ("regexp.go:Regexp.initCaches", "regexp2.Regexp.runnerPool", true, .lazyInit),
  ("regexp.go:Regexp.matchStringAt", "*?pooledInput", true, .poolOwned),
  ("regexp.go:SetTimeoutCheckPeriod", "var regexp2.clockPeriod", false, .testOnly),
  ("regexp.go:makeQuickCode", "syntax.Code.Codes", false, .compileTime),
  ("regexp.go:makeQuickCode", "syntax.Code.QuickCodes", false, .compileTime),
  ("regexp.go:replacerDataCache.add", "regexp2.replacerDataCache.cache[]", true, .mutex),
  ("regexp.go:replacerDataCache.add", "regexp2.replacerDataCacheEntry.data", true, .mutex),
  ("regexp_codegen.go:RegisterEngine", "var regexp2.engines[]", false, .mutex),
  ("replace.go:replacementImplRTL", "*?al", true, .callLocal),
  ("runner.go:doubleIntSlice", "*?pos", true, .callLocal),
  ("runner.go:doubleIntSlice", "*?s", true, .callLocal),
  ("syntax/charclass.go:CharSet.addCaseEquivalences", "syntax.CharSet.ranges", true, .parseLocal),
  ("syntax/charclass.go:CharSet.addCategories", "syntax.CharSet.categories", true, .parseLocal),
  ("syntax/charclass.go:CharSet.addLowercase", "syntax.CharSet.ranges[]", false, .compileTime),
  ("syntax/charclass.go:CharSet.addLowercaseRange", "syntax.CharSet.ranges", false, .compileTime),
  ("syntax/charclass.go:CharSet.addNegativeRanges", "syntax.CharSet.ranges", false, .compileTime),
  ("syntax/charclass.go:CharSet.addRange", "syntax.CharSet.ranges", true, .parseLocal),
  ("syntax/charclass.go:CharSet.addRanges", "syntax.CharSet.ranges", false, .compileTime),
  ("syntax/charclass.go:CharSet.addSet", "syntax.CharSet.ranges", true, .parseLocal),
  ("syntax/charclass.go:CharSet.addSubtraction", "syntax.CharSet.sub", false, .compileTime),
  ("syntax/charclass.go:CharSet.canonicalize", "syntax.CharSet.categories", true, .parseLocal),
  ("syntax/charclass.go:CharSet.canonicalize", "syntax.CharSet.negate", true, .parseLocal),
  ("syntax/charclass.go:CharSet.canonicalize", "syntax.CharSet.ranges", true, .parseLocal),
  ("syntax/charclass.go:CharSet.canonicalize", "syntax.CharSet.ranges[]", true, .parseLocal),
  ("syntax/charclass.go:CharSet.makeAnything", "syntax.CharSet.anything", true, .parseLocal),
  ("syntax/charclass.go:CharSet.makeAnything", "syntax.CharSet.categories", true, .parseLocal),
  ("syntax/charclass.go:CharSet.makeAnything", "syntax.CharSet.ranges", true, .parseLocal),
  ("syntax/charclass.go:CharSet.prepareASCIIBitmap", "syntax.CharSet.ascii", false, .compileTime),
  ("syntax/optimizations.go:newFindOptimizations", "?positiveLookaheadOpts.MaxPossibleLength", false, .compileTime),
  ("syntax/optimizations.go:newFindOptimizations", "?positiveLookaheadOpts.MinRequiredLength", false, .compileTime),
  ("syntax/parser.go:parser.scanCharSet", "syntax.CharSet.building", false, .compileTime),
  ("syntax/parser.go:parser.scanCharSet", "syntax.CharSet.negate", false, .compileTime),
  ("syntax/prefixanalyzer.go:findFixedDistanceSets", "syntax.FixedDistanceSet.Chars", false, .compileTime),
  ("syntax/prefixanalyzer.go:findFixedDistanceSets", "syntax.FixedDistanceSet.Negated", false, .compileTime),
  ("syntax/prefixanalyzer.go:findFixedDistanceSets", "syntax.FixedDistanceSet.Range", false, .compileTime),
  ("syntax/prefixanalyzer.go:findPrefixesCore", "*bytes.Buffer", false, .compileTime),
  ("syntax/prefixanalyzer.go:tryFindFirstCharClass", "*syntax.CharSet", false, .compileTime),
  ("syntax/prefixanalyzer.go:tryFindFirstCharClass", "syntax.CharSet.negate", false, .compileTime),
  ("syntax/prefixanalyzer.go:tryFindRawFixedSets", "*?distance", false, .compileTime),
  ("syntax/prefixanalyzer.go:tryFindRawFixedSets", "*syntax.FixedDistanceSet", false, .compileTime),
  ("syntax/tree.go:RegexNode.TryGetJoinableLengthCheckChildRange", "*?exclusiveEnd", false, .compileTime),
  ("syntax/tree.go:RegexNode.TryGetJoinableLengthCheckChildRange", "*?requiredLength", false, .compileTime),
  ("syntax/writer.go:Write", "?code.QuickCodes", false, .compileTime),
  ("syntax/writer.go:writer.codeFromTree", "?prefix.PrefixStr", false, .compileTime)]

/-- **The shared write-set is exactly the expected one.**  The list of all assignments (`=`, `op=`,
    increment and decrement, element assignments, `delete`, `copy`, `*p = …`) whose target is a package-level variable
    or lies in an object reachable from a `*Regexp` (fields of `Regexp`, `syntax.Code`, `syntax.CharSet`,
    `syntax.FindOptimizations`, `Prefix`, `BmPrefix`, the cache, the pools, the clock), regenerated from the
    Go source on every run together with a match-time reachability estimate, equals the list above.  A
    new unsynchronised write to a `Regexp` field at match time changes the list and breaks this obligation. -/
theorem writeset_expected :
    Generated.sharedWrites = expectedSharedWrites.map (fun e => (e.1, e.2.1, e.2.2.1)) := by decide

/-- every write that can happen while another goroutine uses the same Regexp is of a synchronised or
    exclusively-owned kind; the unsynchronised kinds occur only in functions unreachable at match time -/
theorem writeset_synchronised :
    expectedSharedWrites.all (fun e =>
      if e.2.2.1 then e.2.2.2 != .compileTime && e.2.2.2 != .testOnly
      else e.2.2.2 == .compileTime || e.2.2.2 == .testOnly || e.2.2.2 == .mutex) = true := by decide

/-- what the *regenerated* synchronisation evidence (`Generated.sharedWriteSync`: kind, mutex) has to be for
    an annotation: a `mutex` write lies lexically inside `Lock()`…`Unlock()` of one of the three mutexes in
    every occurrence (or in a plain function all of whose call sites do: `extendClock`); `poolOwned` and
    `callLocal` writes are stores through a pointer.  The other annotations do not claim a synchronisation
    primitive (`compileTime`/`testOnly`: unreachable at match time; `parseLocal`/`lazyInit`: see `Sync`). -/
def Sync.evidenceOK : Sync → String × String → Bool
  | .mutex, (k, m) => (k == "lock" || k == "callerlock") && (m == "fast.mu" || m == "c.mu" || m == "enginesMu")
  | .poolOwned, (k, _) => k == "deref"
  | .callLocal, (k, _) => k == "deref"
  | _, _ => true

/-- **The `Sync` column agrees with evidence regenerated from the source.**  The extractor records for
    every shared write how it is synchronised syntactically -- inside a `mu.Lock()`…`Unlock()` region (and of
    which mutex), in a function only ever called inside such a region, through a pointer dereference, or
    none of these -- on every run.  (1) The regenerated table lists the same writes in the same order as
    the annotated one; (2) every annotation is backed by the regenerated evidence (`Sync.evidenceOK`);
    (3) a write reachable at match time whose regenerated evidence is `plain` (no lock, no dereference)
    is annotated `parseLocal` or `lazyInit` -- the two kinds whose safety rests on other arguments (the
    replacement parser mutates only the tree it is building; `initCaches_callers`); (4) lock evidence
    occurs only on entries annotated `mutex`.  Removing the `Lock()` around a cache or clock write, or
    adding an unlocked second write to the same target, flips the evidence to `plain` and breaks this
    obligation. -/
theorem writeset_synchronised_regenerated :
    Generated.sharedWriteSync.map (fun e => (e.1, e.2.1)) = expectedSharedWrites.map (fun e => (e.1, e.2.1)) ∧
    (List.zip expectedSharedWrites Generated.sharedWriteSync).all
      (fun p => Sync.evidenceOK p.1.2.2.2 (p.2.2.2.1, p.2.2.2.2)) = true ∧
    (List.zip expectedSharedWrites Generated.sharedWriteSync).all
      (fun p => !(p.1.2.2.1 && p.2.2.2.1 == "plain") || p.1.2.2.2 == .parseLocal || p.1.2.2.2 == .lazyInit) = true ∧
    (List.zip expectedSharedWrites Generated.sharedWriteSync).all
      (fun p => !(p.2.2.2.1 == "lock" || p.2.2.2.1 == "callerlock") || p.1.2.2.2 == .mutex) = true := by
  decide

/-- non-vacuity: the regenerated table does contain lock evidence for the three mutexes and the
    caller-holds-lock case -/
example :
    ("fastclock.go:extendClock", "var regexp2.fast.start", "callerlock", "fast.mu") ∈ Generated.sharedWriteSync ∧
    ("fastclock.go:runClock", "var regexp2.fast.running", "lock", "fast.mu") ∈ Generated.sharedWriteSync ∧
    ("regexp.go:replacerDataCache.add", "regexp2.replacerDataCache.cache[]", "lock", "c.mu") ∈ Generated.sharedWriteSync ∧
    ("regexp_codegen.go:RegisterEngine", "var regexp2.engines[]", "lock", "enginesMu") ∈ Generated.sharedWriteSync := by
  decide

/-- both constructors call `initCaches`, so the lazy call in `getRunner` never fires for a usable Regexp -/
theorem initCaches_callers :
    Generated.initCachesCallers = ["regexp.go:compile", "regexp_codegen.go:newEngineRegexp", "runner.go:Regexp.getRunner"] := by
  decide

/-- the shared structures have exactly the fields the model accounts for: the cache (`mu`, `maxSize`,
    `ll`, `cache`), the pools (`sizes`, `pools`), the clock (`current`, `clockEnd` atomics; `mu`, `start`,
    `running` under `mu`), and `Regexp` (read-only after Compile except `runnerPool`/`replaceCache`
    contents, which are the synchronised structures) -/
theorem shared_fields_accounted :
    Generated.replacerDataCacheFields = ["mu", "maxSize", "ll", "cache"] ∧
    Generated.pooledSliceBuffersFields = ["sizes", "pools"] ∧
    Generated.fastclockFields = ["current", "clockEnd", "mu", "start", "running"] ∧
    Generated.regexpFields = ["MatchTimeout", "pattern", "options", "debug", "caps", "capnames", "capslist", "capsize",
      "code", "optimizations", "runnerPool", "replaceCache", "findFirstChar", "execute", "executeQuick",
      "stringPrefixFilter", "quickCode"] := by decide

end writeset
end RegexVerif.Props.C11
