/-
C01 — first match and captures follow leftmost priority-ordered backtracking.

The property's definition is `Spec.find` (Model/Spec.lean): ordered list of successes of the
pattern, head of that list at the first position in scan order where it is non-empty.  Leg S
compares the Go engine with it on every case.  The theorems here establish that this definition
is what it claims to be and that the executable matcher the driver runs is that definition.
-/
import RegexVerif.Lemmas.Spec
import RegexVerif.Lemmas.Backtrack

namespace RegexVerif.Props.C01
open RegexVerif RegexVerif.Spec

/-- **The executable backtracking matcher is the specification.**  For every pattern, direction,
    state and continuation, the depth-first continuation-passing matcher returns the continuation's
    answer on the first (highest-priority) success of the list-of-successes semantics that the
    continuation accepts.  With `k = some` this is "the highest-priority way to match". -/
theorem backtrack_eq_spec (e : Env) (p : Pat) (rtl : Bool) {α : Type} (st : St) (k : St → Option α) :
    run e p rtl st k = (m e p rtl st).findSome? k :=
  run_eq e p rtl st k

/-- the driver's find is the specification's find -/
theorem findRun_eq_find (e : Env) (p : Pat) (rtl : Bool) (start : Nat) :
    findRun e p rtl start = find e p rtl start :=
  findRun_eq e p rtl start

/-- left-to-right scan order: exactly the positions `start ≤ i ≤ n` -/
theorem mem_scanOrder_ltr (start n i : Nat) : i ∈ scanOrder false start n ↔ start ≤ i ∧ i ≤ n := by
  simp only [scanOrder, Bool.false_eq_true, if_false]
  constructor
  · intro h
    have h1 := List.mem_range.mp (List.mem_of_mem_drop h)
    obtain ⟨k, hk, hk2⟩ := List.getElem_of_mem h
    simp only [List.getElem_drop, List.getElem_range] at hk2
    omega
  · intro ⟨h1, h2⟩
    rw [List.mem_iff_getElem]
    refine ⟨i - start, by simp; omega, ?_⟩
    simp only [List.getElem_drop, List.getElem_range]; omega

/-- right-to-left scan order: exactly the positions `i ≤ start` -/
theorem mem_scanOrder_rtl (start n i : Nat) : i ∈ scanOrder true start n ↔ i ≤ start := by
  simp only [scanOrder, if_true, List.mem_reverse, List.mem_range]; omega

/-- left-to-right scan order is ascending, right-to-left descending (strictly) -/
theorem scanOrder_sorted (rtl : Bool) (start n : Nat) :
    (scanOrder rtl start n).Pairwise (fun a b => if rtl then b < a else a < b) := by
  cases rtl
  · simp only [scanOrder, Bool.false_eq_true, if_false]
    exact List.Pairwise.sublist (List.drop_sublist _ _) (List.pairwise_lt_range)
  · simp only [scanOrder, if_true, List.pairwise_reverse]
    exact List.pairwise_lt_range

/-- **find returns the attempt at the first position in scan order at which an attempt succeeds.** -/
theorem find_eq_some_iff (e : Env) (p : Pat) (rtl : Bool) (start : Nat) (st : St) :
    find e p rtl start = some st ↔
      ∃ before i after, scanOrder rtl start e.n = before ++ i :: after ∧
        attempt e p rtl i = some st ∧ ∀ j ∈ before, attempt e p rtl j = none := by
  unfold find
  rw [List.findSome?_eq_some_iff]

/-- **find reports no match exactly when the search finds none**: no position in scan order has a
    success. -/
theorem find_eq_none_iff (e : Env) (p : Pat) (rtl : Bool) (start : Nat) :
    find e p rtl start = none ↔ ∀ i ∈ scanOrder rtl start e.n, m e (.cap 0 p) rtl { pos := i, caps := [] } = [] := by
  unfold find attempt
  rw [List.findSome?_eq_none_iff]
  constructor
  · intro h i hi; have := h i hi; simpa [List.head?_eq_none_iff] using this
  · intro h i hi; rw [h i hi]; rfl

/-- **Every result is well-formed**: the end position and every capture of every group lie inside
    the input. -/
theorem spec_wf (e : Env) (p : Pat) (rtl : Bool) (start : Nat) (hs : start ≤ e.n) (st : St)
    (h : find e p rtl start = some st) : st.pos ≤ e.n ∧ ∀ c ∈ st.caps, c.2.1 + c.2.2 ≤ e.n := by
  obtain ⟨before, i, after, hso, hat, _⟩ := (find_eq_some_iff e p rtl start st).mp h
  have hi : i ∈ scanOrder rtl start e.n := by rw [hso]; simp
  have hin : i ≤ e.n := by
    cases rtl
    · exact ((mem_scanOrder_ltr start e.n i).mp hi).2
    · have := (mem_scanOrder_rtl start e.n i).mp hi; omega
  unfold attempt at hat
  have hmem : st ∈ m e (.cap 0 p) rtl { pos := i, caps := [] } := List.mem_of_mem_head? hat
  exact m_wf e (.cap 0 p) rtl { pos := i, caps := [] } ⟨hin, by simp⟩ st hmem

/-- **Group 0 is the match**: the last capture of a result is group 0 and spans from the attempt
    position to the end position (normalised to `(min, |Δ|)`, so right-to-left matches are ordinary
    spans). -/
theorem attempt_group0 (e : Env) (p : Pat) (rtl : Bool) (i : Nat) (st : St)
    (h : attempt e p rtl i = some st) :
    ∃ caps, st.caps = caps ++ [(0, min i st.pos, max i st.pos - min i st.pos)] := by
  unfold attempt at h
  have hmem := List.mem_of_mem_head? h
  simp only [m, List.mem_map] at hmem
  obtain ⟨y, _, rfl⟩ := hmem
  exact ⟨y.caps, rfl⟩

/-- n-ary alternation is the right nesting of the binary one (either nesting gives the same list) -/
theorem alt_assoc (e : Env) (a b c : Pat) (rtl : Bool) (st : St) :
    m e (.alt (.alt a b) c) rtl st = m e (.alt a (.alt b c)) rtl st := by
  simp [m, List.append_assoc]

/-- n-ary concatenation likewise, in both directions -/
theorem seq_assoc (e : Env) (a b c : Pat) (rtl : Bool) (st : St) :
    m e (.seq (.seq a b) c) rtl st = m e (.seq a (.seq b c)) rtl st := by
  cases rtl <;> simp [m, List.flatMap_assoc]

/-- an alternation tries its branches in order: the first branch's successes come first -/
theorem alt_priority (e : Env) (a b : Pat) (rtl : Bool) (st : St) (x : St) (h : (m e a rtl st).head? = some x) :
    (m e (.alt a b) rtl st).head? = some x := by
  simp only [m]
  cases hm : m e a rtl st with
  | nil => rw [hm] at h; simp at h
  | cons y ys => rw [hm] at h; simpa using h

/-! ### non-vacuity: a concrete pattern, input and result -/

/-- `(a|ab)(c|bcd)?` on "abcd": the first alternative that lets the rest succeed wins, captures
    are reported per group, group 0 last -/
def demoEnv : Env := { text := [97, 98, 99, 100], textstart := 0, named := [], word := [], fold := [] }
def demoPat : Pat :=
  .seq (.cap 1 (.alt (.chr (.one 97 false)) (.seq (.chr (.one 97 false)) (.chr (.one 98 false)))))
       (.quant false 0 (some 1) (.cap 2 (.alt (.chr (.one 99 false))
          (.seq (.chr (.one 98 false)) (.seq (.chr (.one 99 false)) (.chr (.one 100 false)))))))

example : find demoEnv demoPat false 0 = some { pos := 4, caps := [(1, 0, 1), (2, 1, 3), (0, 0, 4)] } := by decide
example : findRun demoEnv demoPat false 0 = find demoEnv demoPat false 0 := by decide
example : find demoEnv (.chr (.one 120 false)) false 0 = none := by decide

end RegexVerif.Props.C01
