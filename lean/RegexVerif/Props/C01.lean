/-
C01 — property theorems (stub: not built yet).
-/
namespace RegexVerif.Props.C01
end RegexVerif.Props.C01
