/-
C01 — first match and captures follow leftmost priority-ordered backtracking.

The property's definition is `Spec.find` (Model/Spec.lean): ordered list of successes of the
pattern, head of that list at the first position in scan order where it is non-empty.  Leg S
compares the Go engine with it on every case.  The theorems here establish that this definition
is what it claims to be and that the executable matcher the driver runs is that definition.
-/
import RegexVerif.Lemmas.Spec
import RegexVerif.Lemmas.Backtrack
import RegexVerif.Lemmas.Writer
import RegexVerif.Lemmas.CompileTop
import RegexVerif.Lemmas.Reduce

namespace RegexVerif.Props.C01
open RegexVerif RegexVerif.Spec

/-- **The executable backtracking matcher is the specification.**  For every pattern, direction,
    state and continuation, the depth-first continuation-passing matcher returns the continuation's
    answer on the first (highest-priority) success of the list-of-successes semantics that the
    continuation accepts.  With `k = some` this is "the highest-priority way to match". -/
theorem backtrack_eq_spec (e : Env) (p : Pat) (rtl : Bool) {α : Type} (st : St) (k : St → Option α) :
    run e p rtl st k = (m e p rtl st).findSome? k :=
  run_eq e p rtl st k

/-- the driver's find is the specification's find -/
theorem findRun_eq_find (e : Env) (p : Pat) (rtl : Bool) (start : Nat) :
    findRun e p rtl start = find e p rtl start :=
  findRun_eq e p rtl start

/-- left-to-right scan order: exactly the positions `start ≤ i ≤ n` -/
theorem mem_scanOrder_ltr (start n i : Nat) : i ∈ scanOrder false start n ↔ start ≤ i ∧ i ≤ n := by
  simp only [scanOrder, Bool.false_eq_true, if_false]
  constructor
  · intro h
    have h1 := List.mem_range.mp (List.mem_of_mem_drop h)
    obtain ⟨k, hk, hk2⟩ := List.getElem_of_mem h
    simp only [List.getElem_drop, List.getElem_range] at hk2
    omega
  · intro ⟨h1, h2⟩
    rw [List.mem_iff_getElem]
    refine ⟨i - start, by simp; omega, ?_⟩
    simp only [List.getElem_drop, List.getElem_range]; omega

/-- right-to-left scan order: exactly the positions `i ≤ start` -/
theorem mem_scanOrder_rtl (start n i : Nat) : i ∈ scanOrder true start n ↔ i ≤ start := by
  simp only [scanOrder, if_true, List.mem_reverse, List.mem_range]; omega

/-- left-to-right scan order is ascending, right-to-left descending (strictly) -/
theorem scanOrder_sorted (rtl : Bool) (start n : Nat) :
    (scanOrder rtl start n).Pairwise (fun a b => if rtl then b < a else a < b) := by
  cases rtl
  · simp only [scanOrder, Bool.false_eq_true, if_false]
    exact List.Pairwise.sublist (List.drop_sublist _ _) (List.pairwise_lt_range)
  · simp only [scanOrder, if_true, List.pairwise_reverse]
    exact List.pairwise_lt_range

/-- **find returns the attempt at the first position in scan order at which an attempt succeeds.** -/
theorem find_eq_some_iff (e : Env) (p : Pat) (rtl : Bool) (start : Nat) (st : St) :
    find e p rtl start = some st ↔
      ∃ before i after, scanOrder rtl start e.n = before ++ i :: after ∧
        attempt e p rtl i = some st ∧ ∀ j ∈ before, attempt e p rtl j = none := by
  unfold find
  rw [List.findSome?_eq_some_iff]

/-- **find reports no match exactly when the search finds none**: no position in scan order has a
    success. -/
theorem find_eq_none_iff (e : Env) (p : Pat) (rtl : Bool) (start : Nat) :
    find e p rtl start = none ↔ ∀ i ∈ scanOrder rtl start e.n, m e (.cap 0 p) rtl { pos := i, caps := [] } = [] := by
  unfold find attempt
  rw [List.findSome?_eq_none_iff]
  constructor
  · intro h i hi; have := h i hi; simpa [List.head?_eq_none_iff] using this
  · intro h i hi; rw [h i hi]; rfl

/-- **Every result is well-formed**: the end position and every capture of every group lie inside
    the input. -/
theorem spec_wf (e : Env) (p : Pat) (rtl : Bool) (start : Nat) (hs : start ≤ e.n) (st : St)
    (h : find e p rtl start = some st) : st.pos ≤ e.n ∧ ∀ c ∈ st.caps, c.2.1 + c.2.2 ≤ e.n := by
  obtain ⟨before, i, after, hso, hat, _⟩ := (find_eq_some_iff e p rtl start st).mp h
  have hi : i ∈ scanOrder rtl start e.n := by rw [hso]; simp
  have hin : i ≤ e.n := by
    cases rtl
    · exact ((mem_scanOrder_ltr start e.n i).mp hi).2
    · have := (mem_scanOrder_rtl start e.n i).mp hi; omega
  unfold attempt at hat
  have hmem : st ∈ m e (.cap 0 p) rtl { pos := i, caps := [] } := List.mem_of_mem_head? hat
  exact m_wf e (.cap 0 p) rtl { pos := i, caps := [] } ⟨hin, by simp⟩ st hmem

/-- **Group 0 is the match**: the last capture of a result is group 0 and spans from the attempt
    position to the end position (normalised to `(min, |Δ|)`, so right-to-left matches are ordinary
    spans). -/
theorem attempt_group0 (e : Env) (p : Pat) (rtl : Bool) (i : Nat) (st : St)
    (h : attempt e p rtl i = some st) :
    ∃ caps, st.caps = caps ++ [(0, min i st.pos, max i st.pos - min i st.pos)] := by
  unfold attempt at h
  have hmem := List.mem_of_mem_head? h
  simp only [m, List.mem_map] at hmem
  obtain ⟨y, _, rfl⟩ := hmem
  exact ⟨y.caps, rfl⟩

/-- n-ary alternation is the right nesting of the binary one (either nesting gives the same list) -/
theorem alt_assoc (e : Env) (a b c : Pat) (rtl : Bool) (st : St) :
    m e (.alt (.alt a b) c) rtl st = m e (.alt a (.alt b c)) rtl st := by
  simp [m, List.append_assoc]

/-- n-ary concatenation likewise, in both directions -/
theorem seq_assoc (e : Env) (a b c : Pat) (rtl : Bool) (st : St) :
    m e (.seq (.seq a b) c) rtl st = m e (.seq a (.seq b c)) rtl st := by
  cases rtl <;> simp [m, List.flatMap_assoc]

/-- an alternation tries its branches in order: the first branch's successes come first -/
theorem alt_priority (e : Env) (a b : Pat) (rtl : Bool) (st : St) (x : St) (h : (m e a rtl st).head? = some x) :
    (m e (.alt a b) rtl st).head? = some x := by
  simp only [m]
  cases hm : m e a rtl st with
  | nil => rw [hm] at h; simp at h
  | cons y ys => rw [hm] at h; simpa using h

/-! ### non-vacuity: a concrete pattern, input and result -/

/-- `(a|ab)(c|bcd)?` on "abcd": the first alternative that lets the rest succeed wins, captures
    are reported per group, group 0 last -/
def demoEnv : Env := { text := [97, 98, 99, 100], textstart := 0, named := [], word := [], fold := [] }
def demoPat : Pat :=
  .seq (.cap 1 (.alt (.chr (.one 97 false)) (.seq (.chr (.one 97 false)) (.chr (.one 98 false)))))
       (.quant false 0 (some 1) (.cap 2 (.alt (.chr (.one 99 false))
          (.seq (.chr (.one 98 false)) (.seq (.chr (.one 99 false)) (.chr (.one 100 false)))))))

example : find demoEnv demoPat false 0 = some { pos := 4, caps := [(1, 0, 1), (2, 1, 3), (0, 0, 4)] } := by decide
example : findRun demoEnv demoPat false 0 = find demoEnv demoPat false 0 := by decide
example : find demoEnv (.chr (.one 120 false)) false 0 = none := by decide

/-! ## writer — the bytecode writer `syntax/writer.go` (Model/Writer.lean, tied to `syntax.Write` by leg Wr)

`Writer.emit ti root` is the program `syntax.Write` produces for a reduced tree (`Codes`, string and set
tables, `TrackCount`, `Capsize`, `Caps`), `Writer.emitNode cfg a tb n` the instructions of the sub-tree
`n` when its first word is at code offset `a`.  Leg Wr compares `emit` with the Go writer word for
word on every explored pattern; the theorems below hold for every tree. -/
section writer
open RegexVerif.Writer RegexVerif.Generated.Opcodes

/-- **(a) Sizes are structural.**  The code of a sub-tree has exactly `size cfg n` words wherever it is
    placed and whatever the tables contain: `size` is what the counting pass of `codeFromTree` adds to
    `w.count`, so every offset the writer patches into a jump is a sum of sizes. -/
theorem emit_size (cfg : Cfg) (n : GoNode) (a : Nat) (tb : Tables) :
    (flatten (emitNode cfg a tb n).1).length = size cfg n := by
  rw [flatten_length]; exact emitNode_size cfg n a tb

/-- the whole program: `Lazybranch` (2 words), the root's fragment, `Stop` -/
theorem emit_size_program (ti : TreeInfo) (root : GoNode) :
    (emit ti root).codes.size = size (mainCfg ti) root + 3 := by
  simp only [emit, List.size_toArray, flatten_length]
  exact codeFromTree_len _ _

/-- **(b) The code of a node is a fixed frame around the code of its children, placed at the
    consecutive offsets.**  `Concatenate` is the concatenation of its children's code; `Alternate` frames
    every branch but the last by `Lazybranch next … Goto end`; `Loop`/`Lazyloop`, `Capture`, the lookarounds,
    `Atomic` and the conditionals put their head before and their tail after the child code, whose own
    offset is the node's offset plus the head length. -/
theorem emit_compositional (cfg : Cfg) (a : Nat) (tb : Tables) :
    (∀ c cs, (emitNode cfg a tb (.concat (c :: cs))).1 =
        (emitNode cfg a tb c).1 ++ (emitNode cfg (a + size cfg c) (emitNode cfg a tb c).2 (.concat cs)).1) ∧
    (∀ c d ds fin, (emitAlt cfg a fin tb (c :: d :: ds)).1 =
        [i1 opLazybranch ((a + 2 + size cfg c + 2 : Nat) : Int)] ++ (emitNode cfg (a + 2) tb c).1 ++ [i1 opGoto (fin : Int)] ++
          (emitAlt cfg (a + 2 + size cfg c + 2) fin (emitNode cfg (a + 2) tb c).2 (d :: ds)).1) ∧
    (∀ cs, (emitNode cfg a tb (.alt cs)).1 = (emitAlt cfg a (a + size cfg (.alt cs)) tb cs).1) ∧
    (∀ m n c, emitCapture cfg m n = true → (emitNode cfg a tb (.capture m n c)).1 =
        [i0 opSetmark] ++ (emitNode cfg (a + 1) tb c).1 ++ [i2 opCapturemark (mapCapnum cfg m) (mapCapnum cfg n)]) ∧
    (∀ m n c, emitCapture cfg m n = false → emitNode cfg a tb (.capture m n c) = emitNode cfg a tb c) ∧
    (∀ c, emitNode cfg a tb (.group c) = emitNode cfg a tb c) ∧
    (∀ c, (emitNode cfg a tb (.poslook c)).1 =
        [i0 opSetjump, i0 opSetmark] ++ (emitNode cfg (a + 2) tb c).1 ++ [i0 opGetmark, i0 opForejump]) ∧
    (∀ c, (emitNode cfg a tb (.neglook c)).1 =
        [i0 opSetjump, i1 opLazybranch ((a + 3 + size cfg c + 1 : Nat) : Int)] ++ (emitNode cfg (a + 3) tb c).1 ++
          [i0 opBackjump, i0 opForejump]) ∧
    (∀ c, (emitNode cfg a tb (.atomic c)).1 = [i0 opSetjump] ++ (emitNode cfg (a + 1) tb c).1 ++ [i0 opForejump]) ∧
    (∀ lzy n c, n < maxInt32 → (emitNode cfg a tb (.loop lzy 0 n c)).1 =
        [i1 opNullcount 0, i1 opGoto ((a + 4 + size cfg c : Nat) : Int)] ++ (emitNode cfg (a + 4) tb c).1 ++
          [i2 (opBranchcount + (if lzy then 1 else 0)) ((a + 4 : Nat) : Int) n]) ∧
    (∀ lzy c, (emitNode cfg a tb (.loop lzy 0 maxInt32 c)).1 =
        [i0 opNullmark, i1 opGoto ((a + 3 + size cfg c : Nat) : Int)] ++ (emitNode cfg (a + 3) tb c).1 ++
          [i1 (opBranchmark + (if lzy then 1 else 0)) ((a + 3 : Nat) : Int)]) ∧
    (∀ lzy c, (emitNode cfg a tb (.loop lzy 1 maxInt32 c)).1 =
        [i0 opSetmark] ++ (emitNode cfg (a + 1) tb c).1 ++ [i1 (opBranchmark + (if lzy then 1 else 0)) ((a + 1 : Nat) : Int)]) ∧
    (∀ m y n, (emitNode cfg a tb (.backrefcond2 m y n)).1 =
        [i0 opSetjump, i1 opLazybranch ((a + 6 + size cfg y + 2 : Nat) : Int), i1 opTestref (mapCapnum cfg m), i0 opForejump] ++
          (emitNode cfg (a + 6) tb y).1 ++ [i1 opGoto ((a + 6 + size cfg y + 3 + size cfg n : Nat) : Int), i0 opForejump] ++
          (emitNode cfg (a + 6 + size cfg y + 3) (emitNode cfg (a + 6) tb y).2 n).1) ∧
    (∀ c y n, (emitNode cfg a tb (.exprcond3 c y n)).1 =
        [i0 opSetjump, i0 opSetmark, i1 opLazybranch ((a + 4 + size cfg c + 2 + size cfg y + 2 : Nat) : Int)] ++
          (emitNode cfg (a + 4) tb c).1 ++ [i0 opGetmark, i0 opForejump] ++
          (emitNode cfg (a + 4 + size cfg c + 2) (emitNode cfg (a + 4) tb c).2 y).1 ++
          [i1 opGoto ((a + 4 + size cfg c + 2 + size cfg y + 4 + size cfg n : Nat) : Int), i0 opGetmark, i0 opForejump] ++
          (emitNode cfg (a + 4 + size cfg c + 2 + size cfg y + 4)
            (emitNode cfg (a + 4 + size cfg c + 2) (emitNode cfg (a + 4) tb c).2 y).2 n).1) := by
  refine ⟨?_, ?_, ?_, ?_, ?_, ?_, ?_, ?_, ?_, ?_, ?_, ?_, ?_, ?_⟩
  · intro c cs; simp [emitNode, emitList]
  · intro c d ds fin; simp [emitAlt]
  · intro cs; simp [emitNode, size]
  · intro m n c h; simp [emitNode, h]
  · intro m n c h; simp [emitNode, h]
  · intro c; simp [emitNode]
  · intro c; simp [emitNode]
  · intro c; simp [emitNode]
  · intro c; simp [emitNode]
  · intro lzy n c h
    have hc : counted 0 n = true := by simp [counted, h]
    have hne : n ≠ maxInt32 := by omega
    simp [emitNode, hc, loopHeadLen, repArg, hne]
  · intro lzy c
    have hc : counted 0 maxInt32 = false := by decide
    simp [emitNode, hc, loopHeadLen]
  · intro lzy c
    have hc : counted 1 maxInt32 = false := by decide
    simp [emitNode, hc, loopHeadLen]
  · intro m y n; simp [emitNode]
  · intro c y n; simp [emitNode]

/-- **(b, locality) Jumps stay inside the fragment and land on its instruction boundaries.**  For a tree the
    writer accepts, every jump operand emitted for the sub-tree `n` placed at `a` is the first word of an
    instruction of that same fragment or the offset just behind it — in particular it lies in
    `[a, a + size n]`.  A fragment can therefore be relocated or reasoned about without knowing its
    surroundings. -/
theorem emit_jumps_local (cfg : Cfg) (n : GoNode) (a : Nat) (tb : Tables) (h : n.ok = true) :
    ∀ i ∈ (emitNode cfg a tb n).1, ∀ t ∈ i.targets,
      ∃ k : Nat, t = (k : Int) ∧ k ∈ starts a (emitNode cfg a tb n).1 ∧ a ≤ k ∧ k ≤ a + size cfg n := by
  intro i hi t ht
  obtain ⟨k, hk, e⟩ := emitNode_jumps cfg n a tb h i hi t ht
  have hb := mem_starts_bounds _ a k hk
  rw [emitNode_size] at hb
  exact ⟨k, e, hk, hb.1, hb.2⟩

/-- **(c, instruction level) The emitted program is well-formed.**  For a tree with known node types and
    group numbers that map into the capture array (`GoNode.ok`, `capsOk`: two of the three clauses of the
    `treeWf` that leg Wr evaluates on every parsed tree): every instruction has the operand count
    `opcodeSize` gives its opcode (so `Codes` splits into exactly these instructions), string / set
    operands index the emitted tables, capture operands are slots below `Capsize` (or −1 where the
    interpreter allows it), every jump operand is the first word of an instruction of the program, the first
    instruction is `Lazybranch` and the last is `Stop`. -/
theorem emit_wf_instructions (ti : TreeInfo) (root : GoNode) (hok : root.ok = true)
    (hcaps : capsOk (mainCfg ti) (capsize ti) root = true) :
    (∀ i ∈ mainCode ti root,
      i.localOk (emit ti root).strings.size (emit ti root).nsets (emit ti root).capsize = true) ∧
    (∀ i ∈ mainCode ti root, ∀ t ∈ i.targets, ∃ k ∈ istarts 0 (mainCode ti root), t = (k : Int)) ∧
    ((mainCode ti root).head?.map Instr.opcode = some opLazybranch) ∧
    ((mainCode ti root).getLast?.map Instr.opcode = some opStop) ∧
    (emit ti root).codes.toList = flatten (mainCode ti root) := by
  refine ⟨?_, ?_, ?_, ?_, ?_⟩
  · intro i hi
    have := codeFromTree_local (mainCfg ti) (capsize ti) root hok hcaps i hi
    simpa [emit] using this
  · exact codeFromTree_jumps (mainCfg ti) root hok
  · simp only [mainCode, codeFromTree, List.cons_append, List.nil_append, List.head?_cons, Option.map_some]; rfl
  · simp only [mainCode, codeFromTree, List.getLast?_concat, Option.map_some]; rfl
  · simp [emit, mainCode]

/-- **(c) `emit_wf`: the program of every well-formed tree passes the executable check `wfProg`.**  Under the
    tree well-formedness the parser guarantees (`treeWf`, evaluated by leg Wr on every parsed tree):
    `Code.Prog.boundaries` succeeds (every opcode known, no truncated instruction), string / set operands are
    in range, capture operands are below `Capsize` (or −1), every jump target is an instruction boundary,
    the program starts with `Lazybranch` and ends with `Stop`.  (For the bool-only program the same check is
    evaluated by leg Wr on every explored pattern; its proof needs in addition that both writers build the
    same tables.) -/
theorem emit_wf (ti : TreeInfo) (root : GoNode) (h : treeWf ti root = true) : wfProg (emit ti root) = true := by
  simp only [treeWf, Bool.and_eq_true] at h
  obtain ⟨⟨hok, hcaps⟩, _⟩ := h
  obtain ⟨h1, h2, h3, h4, _⟩ := emit_wf_instructions ti root hok hcaps
  exact wfProg_progOf (mainCode ti root) _ _ _ _ _ _ h1 h2 h3 h4

/-- **(d) `TrackCount` is the number of backtracking instructions, and `Nullmark` is paid for by `Goto`.**
    Decoding `Codes` with the regenerated `opcodeSize` table (C13's `Capacity.decode`) succeeds, the
    number of decoded opcodes with `opcodeBacktracks` is exactly `TrackCount`, and there are at least as many
    `Goto` as `Nullmark` instructions — the hypothesis `hpair` of `Props.C13.potential_le_need`, here for
    every program the writer emits. -/
theorem emit_trackcount (ti : TreeInfo) (root : GoNode) (hok : root.ok = true)
    (hcaps : capsOk (mainCfg ti) (capsize ti) root = true) :
    ∃ ops, Capacity.decode (emit ti root).codes.size (emit ti root).codes.toList = some ops ∧
      Capacity.trackCount ops = (emit ti root).trackcount ∧
      Capacity.count opNullmark ops ≤ Capacity.count opGoto ops := by
  refine ⟨(mainCode ti root).map Instr.opcode, ?_, ?_, ?_⟩
  · have hl := codeFromTree_local (mainCfg ti) (capsize ti) root hok hcaps
    have ha : ∀ i ∈ mainCode ti root, i.arityOk = true := by
      intro i hi
      have := hl i hi
      simp only [Instr.localOk, Bool.and_eq_true] at this
      exact this.1.1.1.1
    simp only [emit, List.size_toArray]
    refine decode_flatten _ _ ha ?_
    rw [flatten_length]
    exact (by
      have : ∀ c : Code, c.length ≤ codeLen c := by
        intro c; induction c with
        | nil => simp
        | cons i r ih => simp only [List.length_cons, codeLen_cons]; omega
      exact this _)
  · simp only [emit]; exact trackCount_map _
  · exact codeFromTree_pairing (mainCfg ti) root hok

/-- **(e) The bool-only program is the main writer run on the tree with the unobservable captures
    stripped.**  `QuickCodes` (when present) is word for word the code the main writer emits for
    `stripTree`, the tree in which every `Capture` whose mark pair `emitCapture` drops has become a plain
    group — the tree-level image of `Spec.stripCaps` (Model/Quick.lean); nothing else differs, tables and
    offsets included. -/
theorem emitQuick_eq_emit_strip (ti : TreeInfo) (root : GoNode) (q : List Int) (h : quickCodes ti root = some q) :
    q = (emit ti (stripTree (quickCfg ti root) root)).codes.toList ∧
      (codeFromTree (quickCfg ti root) root).2 = (codeFromTree (mainCfg ti) (stripTree (quickCfg ti root) root)).2 := by
  simp only [quickCodes] at h
  split at h
  · simp only [Option.some.injEq] at h
    subst h
    simp only [emit, codeFromTree, quickCfg, mainCfg]
    rw [emitNode_strip, size_strip]
    simp
  · simp at h

/-- the mark pair of an ordinary capture survives in the bool-only program exactly when its slot is in use
    (or lies outside the slot table); balancing captures always survive -/
theorem emitQuick_keeps (caps : Option (List (Int × Int))) (q : List Bool) (m n : Int) :
    emitCapture ⟨caps, some q⟩ m n =
      (mapCapnum ⟨caps, none⟩ n != -1 ||
        (mapCapnum ⟨caps, none⟩ m ≥ 0 &&
          (mapCapnum ⟨caps, none⟩ m ≥ q.length || q.getD (mapCapnum ⟨caps, none⟩ m).toNat false))) := by
  simp only [emitCapture]
  rw [mapCapnum_quick caps (some q) n, mapCapnum_quick caps (some q) m]
  by_cases h : mapCapnum ⟨caps, none⟩ n = -1 <;> simp [h]

/-! ### non-vacuity (writer): two concrete trees -/

/-- `(?:a|(b))*cd\1` with `\1` case-insensitive: root capture, loop with minimum 0 over an alternation, a
    string, a back-reference -/
def wrDemo : GoNode :=
  .capture 0 (-1) (.concat [.loop false 0 maxInt32 (.alt [.char opOne false false 97, .capture 1 (-1) (.char opOne false false 98)]),
    .multi false false [99, 100], .ref false true 1])
def wrDemoInfo : TreeInfo := { captop := 2, capnumlist := none, caps := [(0, 0), (1, 5)], rtl := false }

/-- sparse numbering (groups 0, 2, 5), a set, a lazy counted loop over a set loop, a negative lookbehind:
    group 5 and group 2 are never referenced, so a bool-only program exists -/
def wrDemo2 : GoNode :=
  .capture 0 (-1) (.concat [.capture 5 (-1) (.set false false [0, 1, 2]),
    .loop true 2 5 (.capture 2 (-1) (.setloop opSetloop false false [0, 1, 2] 1 maxInt32)), .neglook (.multi true false [97, 98])])
def wrDemoInfo2 : TreeInfo := { captop := 6, capnumlist := some [0, 2, 5], caps := [(0, 0), (2, 7), (5, 3)], rtl := false }

example : (emit wrDemoInfo wrDemo).codes.toList =
    [23, 27, 31, 30, 38, 18, 23, 12, 9, 97, 38, 18, 31, 9, 98, 32, 1, -1, 24, 6, 12, 0, 525, 1, 32, 0, -1, 40] := by decide
example : size (mainCfg wrDemoInfo) wrDemo = 25 ∧ (emit wrDemoInfo wrDemo).trackcount = 9 := by decide
example : wrDemo.ok = true ∧ capsOk (mainCfg wrDemoInfo) (capsize wrDemoInfo) wrDemo = true ∧ treeWf wrDemoInfo wrDemo = true := by decide
example : wfProg (emit wrDemoInfo wrDemo) = true := by decide
example : (emit wrDemoInfo2 wrDemo2).codes.toList =
    [23, 34, 31, 31, 11, 0, 32, 2, -1, 27, -1, 31, 2, 0, 1, 5, 0, 2147483647, 32, 1, -1, 29, 11, 3, 34, 23, 30,
     76, 0, 35, 36, 32, 0, -1, 40] ∧ (emit wrDemoInfo2 wrDemo2).caps = [(0, 0), (2, 1), (5, 2)] := by decide
example : treeWf wrDemoInfo2 wrDemo2 = true ∧ wfProg (emit wrDemoInfo2 wrDemo2) = true := by decide
example : quickCodes wrDemoInfo2 wrDemo2 =
    some [23, 26, 31, 11, 0, 27, -1, 2, 0, 1, 5, 0, 2147483647, 29, 7, 3, 34, 23, 22, 76, 0, 35, 36, 32, 0, -1, 40] := by decide
example : (emit wrDemoInfo2 (stripTree (quickCfg wrDemoInfo2 wrDemo2) wrDemo2)).codes.toList =
    [23, 26, 31, 11, 0, 27, -1, 2, 0, 1, 5, 0, 2147483647, 29, 7, 3, 34, 23, 22, 76, 0, 35, 36, 32, 0, -1, 40] := by decide
/-- a jump of the demo program and its target: the `Goto` at 4 goes to the `Branchmark` at 18 -/
example : (i1 opGoto 18) ∈ mainCode wrDemoInfo wrDemo ∧ (i1 opGoto 18).targets = [18] ∧ 18 ∈ istarts 0 (mainCode wrDemoInfo wrDemo) := by
  decide

end writer

/-! ## compiler correctness — the interpreter model running the writer model's program computes the specification

(C01 "stage 3", on a fragment.)  `Writer.emit ti t` is the program `syntax.Write` produces for the reduced tree `t`
(leg Wr: word-for-word equality), `VM.step` one iteration of `executeDefault` (leg W: step-by-step equality of
traces), `Compile.toPat` the translation of a reduced tree into the specification's pattern AST (the Lean port of
`gen.FromGoTree`; leg Cc compares the two on every explored tree).  The theorems say: for every tree of the fragment,
every text shorter than 2³¹ runes, every start position and `\G` origin, and all oracles that describe the same
input on both sides (`Compile.EnvRel`), the interpreter started as `executeDefault` starts it halts at `Stop` — no
fault of any kind, no fuel exhaustion — and its final state carries the verdict, the end position and every capture
of every group of `Spec.attempt`.

Full statement aimed at (`compile_correct`, NOT proved): the same for every tree `syntax.Parse` can produce, i.e.
`InFrag 8` extended by balancing groups, both directions.  Proved: the tiers 1–8 below (general loops, `UpdateBumpalong`,
backreferences, conditionals, lookbehind and RightToLeft included), i.e. every node type the specification has a
pattern for, in both directions. -/
section compiler
open RegexVerif.Compile RegexVerif.Writer RegexVerif.Generated.Opcodes

/-- **`compile_correct_T3`** — fragment of tier 3: Empty, Nothing, the anchors `^ $ \A \z \Z \G \b \B`, One, Notone, Set,
    Multi, Concatenate, Alternate, Capture, Group (tier 1); the single-character loops `Oneloop/Notoneloop/Setloop`,
    their lazy and atomic forms with any bounds (tier 2); Atomic, positive and negative lookahead (tier 3); all
    left-to-right, case-insensitivity only as the parser compiles it (into sets).

    For such a tree `t` with `treeWf` (what the parser guarantees; leg Wr evaluates it), `pat` its translation, an
    input of fewer than 2³¹ runes and related oracles: `init` succeeds, and there is a number of iterations `n`
    such that with any fuel `≥ n` the run of the emitted program ends in `Final.done s` — the interpreter reached
    `Stop`; it did not fault and did not run out of fuel — where (`Compile.Agrees`)
     * `matched s` (Go: `runmatch.matchcount[0] > 0`) iff `Spec.attempt` succeeds at `i`;
     * on success `s.textpos` is the end of the match, and
     * the capture arrays denote the specification's chronological capture log (`CapRep`): for every slot `c` the
       count is the number of captures of the groups mapped to `c` and the live prefix of `matches[c]` is exactly
       their `(index, length)` pairs in order — so every capture of every group, group 0 included, agrees. -/
theorem compile_correct_T3 (ti : TreeInfo) (t : GoNode) (TPx : TP) (env : VM.Env) (se : Spec.Env) (pat : Pat) (i : Nat)
    (hfrag : InFrag 3 TPx ti t = true) (hwf : treeWf ti t = true) (hpat : toPatRoot TPx false t = some pat)
    (hrel : EnvRel TPx (codeFromTree (mainCfg ti) t).2.sets env se) (hi : i ≤ se.n) (hlen : se.n ≤ 2147483647) :
    ∃ s0 s n, VM.init (emit ti t) (i : Int) = .ok s0 ∧
      (∀ fuel, n ≤ fuel → (VM.run (emit ti t) env fuel s0).1 = .done s) ∧ Agrees ti se pat i s :=
  compile_correct_upto 3 (by decide) ti t TPx env se pat i hfrag hwf (by rw [inFrag_ltr (by decide) hfrag]; exact hpat) hrel hi hlen
    (by omega) (by omega)

/-- tier 2 (no Atomic, no lookaround): a special case of tier 3 -/
theorem compile_correct_T2 (ti : TreeInfo) (t : GoNode) (TPx : TP) (env : VM.Env) (se : Spec.Env) (pat : Pat) (i : Nat)
    (hfrag : InFrag 2 TPx ti t = true) (hwf : treeWf ti t = true) (hpat : toPatRoot TPx false t = some pat)
    (hrel : EnvRel TPx (codeFromTree (mainCfg ti) t).2.sets env se) (hi : i ≤ se.n) (hlen : se.n ≤ 2147483647) :
    ∃ s0 s n, VM.init (emit ti t) (i : Int) = .ok s0 ∧
      (∀ fuel, n ≤ fuel → (VM.run (emit ti t) env fuel s0).1 = .done s) ∧ Agrees ti se pat i s :=
  compile_correct_T3 ti t TPx env se pat i (inFrag_mono (by decide) hfrag) hwf hpat hrel hi hlen

/-- tier 1 (no loops at all) -/
theorem compile_correct_T1 (ti : TreeInfo) (t : GoNode) (TPx : TP) (env : VM.Env) (se : Spec.Env) (pat : Pat) (i : Nat)
    (hfrag : InFrag 1 TPx ti t = true) (hwf : treeWf ti t = true) (hpat : toPatRoot TPx false t = some pat)
    (hrel : EnvRel TPx (codeFromTree (mainCfg ti) t).2.sets env se) (hi : i ≤ se.n) (hlen : se.n ≤ 2147483647) :
    ∃ s0 s n, VM.init (emit ti t) (i : Int) = .ok s0 ∧
      (∀ fuel, n ≤ fuel → (VM.run (emit ti t) env fuel s0).1 = .done s) ∧ Agrees ti se pat i s :=
  compile_correct_T3 ti t TPx env se pat i (inFrag_mono (by decide) hfrag) hwf hpat hrel hi hlen

/-- **the result does not depend on the fuel**: two runs of the same attempt that both end at `Stop` end in the same
    state (`step` is a function), so `compile_correct_T3` fixes the outcome of every sufficiently long run -/
theorem run_done_unique (p : Code.Prog) (env : VM.Env) (s0 s s' : VM.VMState) (f f' : Nat)
    (h : (VM.run p env f s0).1 = .done s) (h' : (VM.run p env f' s0).1 = .done s') : s = s' := by
  induction f generalizing f' s0 with
  | zero => simp [VM.run] at h
  | succ f ih =>
    cases f' with
    | zero => simp [VM.run] at h'
    | succ f' =>
      unfold VM.run at h h'
      cases hst : VM.step p env s0 with
      | fault e => rw [hst] at h; simp at h
      | stop t => rw [hst] at h h'; simp at h h'; rw [← h, ← h']
      | next t chk => rw [hst] at h h'; simp at h h'; exact ih t f' h h'

/-- **the scan**, for any proved tier `k`: under the hypotheses of `compile_correct_upto` for every start position, "the
    first position in scan order at which the compiled program matches" is `Spec.find`: the specification's find
    succeeds exactly when some attempt of the program in scan order ends matched, and the position it reports is the
    first such one.  (The engine's `scan` is this naive scan up to the accelerations of C03.) -/
theorem compile_correct_find_upto (k : Nat) (hk : k ≤ maxTier) (ti : TreeInfo) (t : GoNode) (TPx : TP) (env : VM.Env)
    (se : Spec.Env) (pat : Pat)
    (start : Nat) (hstart : start ≤ se.n) (hfrag : InFrag k TPx ti t = true) (hwf : treeWf ti t = true)
    (hpat : toPatRoot TPx ti.rtl t = some pat) (hrel : EnvRel TPx (codeFromTree (mainCfg ti) t).2.sets env se)
    (hlen : se.n ≤ 2147483647) (hlenS : 4 ≤ k → se.n < 2147483647) (hecma : 6 ≤ k → env.ecma = false) (st : St) :
    Spec.find se pat ti.rtl start = some st ↔
      ∃ (before : List Nat) (i : Nat) (after : List Nat), scanOrder ti.rtl start se.n = before ++ i :: after ∧
        (∃ s0 s n, VM.init (emit ti t) (i : Int) = .ok s0 ∧
          (∀ fuel, n ≤ fuel → (VM.run (emit ti t) env fuel s0).1 = .done s) ∧ VM.matched s = true ∧
          s.textpos = (st.pos : Int) ∧ CapRep (slotOf ti) (capsize ti) s.cap st.caps ∧
          Spec.attempt se pat ti.rtl i = some st) ∧
        ∀ j ∈ before, ∃ s0 s n, VM.init (emit ti t) (j : Int) = .ok s0 ∧
          (∀ fuel, n ≤ fuel → (VM.run (emit ti t) env fuel s0).1 = .done s) ∧ VM.matched s = false := by
  have hatt := fun j (hj : j ≤ se.n) =>
    compile_correct_upto k hk ti t TPx env se pat j hfrag hwf hpat hrel hj hlen hlenS hecma
  rw [find_eq_some_iff]
  have hpos : ∀ j ∈ scanOrder ti.rtl start se.n, j ≤ se.n := fun j hj => by
    cases hr : ti.rtl with
    | false => rw [hr] at hj; exact ((mem_scanOrder_ltr start se.n j).mp hj).2
    | true => rw [hr] at hj; have := (mem_scanOrder_rtl start se.n j).mp hj; omega
  constructor
  · rintro ⟨before, i, after, hso, hat, hbef⟩
    refine ⟨before, i, after, hso, ?_, ?_⟩
    · obtain ⟨s0, s, n, h1, h2, hag⟩ := hatt i (hpos i (by rw [hso]; simp))
      exact ⟨s0, s, n, h1, h2, by rw [hag.verdict, hat]; rfl, hag.pos st hat, hag.caps st hat, hat⟩
    · intro j hj
      obtain ⟨s0, s, n, h1, h2, hag⟩ := hatt j (hpos j (by rw [hso]; simp [hj]))
      exact ⟨s0, s, n, h1, h2, by rw [hag.verdict, hbef j hj]; rfl⟩
  · rintro ⟨before, i, after, hso, ⟨_, _, _, _, _, _, _, _, hat⟩, hbef⟩
    refine ⟨before, i, after, hso, hat, ?_⟩
    intro j hj
    obtain ⟨s0, s, n, h1, h2, hm⟩ := hbef j hj
    obtain ⟨s0', s', n', h1', h2', hag⟩ := hatt j (hpos j (by rw [hso]; simp [hj]))
    have hs0 : s0 = s0' := by rw [h1] at h1'; exact Except.ok.inj h1'
    subst hs0
    have hss : s = s' := run_done_unique _ env s0 s s' _ _ (h2 (max n n') (by omega)) (h2' (max n n') (by omega))
    subst hss
    rw [hag.verdict] at hm
    cases hatt' : Spec.attempt se pat ti.rtl j with
    | none => rfl
    | some x => rw [hatt'] at hm; simp at hm

/-- the scan on the fragment of tier 3 (left to right, texts up to `MaxInt32` runes) -/
theorem compile_correct_find_T3 (ti : TreeInfo) (t : GoNode) (TPx : TP) (env : VM.Env) (se : Spec.Env) (pat : Pat)
    (start : Nat) (hfrag : InFrag 3 TPx ti t = true) (hwf : treeWf ti t = true)
    (hpat : toPatRoot TPx false t = some pat) (hrel : EnvRel TPx (codeFromTree (mainCfg ti) t).2.sets env se)
    (hlen : se.n ≤ 2147483647) (st : St) :
    Spec.find se pat false start = some st ↔
      ∃ (before : List Nat) (i : Nat) (after : List Nat), scanOrder false start se.n = before ++ i :: after ∧
        (∃ s0 s n, VM.init (emit ti t) (i : Int) = .ok s0 ∧
          (∀ fuel, n ≤ fuel → (VM.run (emit ti t) env fuel s0).1 = .done s) ∧ VM.matched s = true ∧
          s.textpos = (st.pos : Int) ∧ CapRep (slotOf ti) (capsize ti) s.cap st.caps ∧
          Spec.attempt se pat false i = some st) ∧
        ∀ j ∈ before, ∃ s0 s n, VM.init (emit ti t) (j : Int) = .ok s0 ∧
          (∀ fuel, n ≤ fuel → (VM.run (emit ti t) env fuel s0).1 = .done s) ∧ VM.matched s = false := by
  have hr := inFrag_ltr (by decide) hfrag
  by_cases hstart : start ≤ se.n
  · have := compile_correct_find_upto 3 (by decide) ti t TPx env se pat start hstart hfrag hwf (by rw [hr]; exact hpat) hrel hlen
      (by omega) (by omega) st
    rw [hr] at this
    exact this
  · -- beyond the end of the text there is no position to try
    have hso : scanOrder false start se.n = [] := by
      simp only [scanOrder, Bool.false_eq_true, if_false]
      exact List.drop_eq_nil_of_le (by simp; omega)
    constructor
    · intro h
      rw [find_eq_some_iff, hso] at h
      obtain ⟨before, i', after, h', _⟩ := h
      simp at h'
    · rintro ⟨before, i', after, h', _⟩
      rw [hso] at h'
      simp at h'

/-- **`compile_correct_T4a`** — tier 4 = tier 3 + the general loops `Loop` / `Lazyloop` around ANY body of the fragment
    (`Setmark|Nullmark … Branchmark|Lazybranchmark`; counted: `Setcount|Nullcount … Branchcount|Lazybranchcount`, all
    `|Back` and `|Back2` cases), the interpreter's empty-iteration rule included: a body that can match the empty
    string is allowed, and the iteration that does not move ends the loop exactly as `Spec.iter` says
    (`st'.pos == st.pos && lo ≤ cnt + 1`).  Same conclusion as `compile_correct_T3`; the text must be strictly shorter
    than `MaxInt32` runes (an unbounded loop with a minimum `≥ 2` counts its iterations up to `MaxInt32`). -/
theorem compile_correct_T4a (ti : TreeInfo) (t : GoNode) (TPx : TP) (env : VM.Env) (se : Spec.Env) (pat : Pat) (i : Nat)
    (hfrag : InFrag 4 TPx ti t = true) (hwf : treeWf ti t = true) (hpat : toPatRoot TPx false t = some pat)
    (hrel : EnvRel TPx (codeFromTree (mainCfg ti) t).2.sets env se) (hi : i ≤ se.n) (hlen : se.n < 2147483647) :
    ∃ s0 s n, VM.init (emit ti t) (i : Int) = .ok s0 ∧
      (∀ fuel, n ≤ fuel → (VM.run (emit ti t) env fuel s0).1 = .done s) ∧ Agrees ti se pat i s :=
  compile_correct_upto 4 (by decide) ti t TPx env se pat i hfrag hwf (by rw [inFrag_ltr (by decide) hfrag]; exact hpat) hrel hi
    (by omega) (fun _ => hlen) (by omega)

/-- **`compile_correct_T4b`** — tier 5 = tier 4 + `UpdateBumpalong` (the node the parser puts behind a leading `.*`-like
    loop; its instruction raises the BOTTOM slot of the backtracking stack — the text position the `Lazybranch` at
    code position 0 saved, from which a failed attempt tells the scan where to resume — to the current text position).
    The simulation is carried out "up to the bottom slot" (`Compile.Delivers` quantifies it existentially at every
    state and universally at every later failure): no instruction of a fragment other than `UpdateBumpalong` reads or
    writes it, and the conclusion shows that it influences neither the verdict, nor the end position, nor any capture
    of the attempt. -/
theorem compile_correct_T4b (ti : TreeInfo) (t : GoNode) (TPx : TP) (env : VM.Env) (se : Spec.Env) (pat : Pat) (i : Nat)
    (hfrag : InFrag 5 TPx ti t = true) (hwf : treeWf ti t = true) (hpat : toPatRoot TPx false t = some pat)
    (hrel : EnvRel TPx (codeFromTree (mainCfg ti) t).2.sets env se) (hi : i ≤ se.n) (hlen : se.n < 2147483647) :
    ∃ s0 s n, VM.init (emit ti t) (i : Int) = .ok s0 ∧
      (∀ fuel, n ≤ fuel → (VM.run (emit ti t) env fuel s0).1 = .done s) ∧ Agrees ti se pat i s :=
  compile_correct_upto 5 (by decide) ti t TPx env se pat i hfrag hwf (by rw [inFrag_ltr (by decide) hfrag]; exact hpat) hrel hi
    (by omega) (fun _ => hlen) (by omega)

/-- **`compile_correct_T4c`** — tier 6 = tier 5 + backreferences and conditionals: `Ref` (case-sensitive: `refmatch`
    against `Spec.refMatch` on the LAST capture of the group, read from the capture arrays through `CapRep`),
    `BackRefCond` (`Setjump; Lazybranch; Testref; Forejump …`: the `yes` branch iff the group has a capture) and
    `ExprCond` (`Setjump; Setmark; Lazybranch; ⟨cond⟩; Getmark; Forejump …`: the captures of the condition's first
    success are kept, its position is not, nothing of it is retried), each with one or two branches.
    Two extra hypotheses: the engine is not in ECMAScript mode (`env.ecma = false`: there a reference to a group
    without capture matches the empty string, the specification has no such rule), and — part of `InFrag 6` for trees
    that contain such nodes — the writer uses group numbers as capture slots (no `Caps` map, i.e. the group numbers
    are dense; otherwise two groups could share the slot the interpreter tests). -/
theorem compile_correct_T4c (ti : TreeInfo) (t : GoNode) (TPx : TP) (env : VM.Env) (se : Spec.Env) (pat : Pat) (i : Nat)
    (hfrag : InFrag 6 TPx ti t = true) (hwf : treeWf ti t = true) (hpat : toPatRoot TPx false t = some pat)
    (hrel : EnvRel TPx (codeFromTree (mainCfg ti) t).2.sets env se) (hi : i ≤ se.n) (hlen : se.n < 2147483647)
    (henv : env.ecma = false) :
    ∃ s0 s n, VM.init (emit ti t) (i : Int) = .ok s0 ∧
      (∀ fuel, n ≤ fuel → (VM.run (emit ti t) env fuel s0).1 = .done s) ∧ Agrees ti se pat i s :=
  compile_correct_upto 6 (by decide) ti t TPx env se pat i hfrag hwf (by rw [inFrag_ltr (by decide) hfrag]; exact hpat) hrel hi
    (by omega) (fun _ => hlen) (fun _ => henv)

/-- **`compile_correct_T4d`** — tier 7 = tier 6 + right to left: lookbehind `(?<=…)`, `(?<!…)` (a lookaround whose body's
    leaves carry the RightToLeft bit) and whole patterns compiled with the option RightToLeft.  The interpreter takes
    the direction from each instruction word's Rtl bit, the specification takes it as the parameter of `Spec.m`
    (`ti.rtl` at the top, the body's direction under a lookaround) and matches a concatenation last-to-first there;
    `toPat` reverses the stored children of a Concatenate as `gen.FromGoTree` does.  Proved for every node type of
    the tiers 1–6 in either direction — One/Notone/Set, Multi, Ref (`forwardcharnext`, `runematch`, `refmatch` with the
    bit set), all anchors, Concatenate, Alternate, Capture (start > end), general loops, Atomic, lookaround, the
    conditionals — EXCEPT the single-character loops `Oneloop…Setloopatomic` with the Rtl bit (tier 8).
    The conclusion speaks about `Spec.attempt se pat ti.rtl i` (`Compile.Agrees`). -/
theorem compile_correct_T4d (ti : TreeInfo) (t : GoNode) (TPx : TP) (env : VM.Env) (se : Spec.Env) (pat : Pat) (i : Nat)
    (hfrag : InFrag 7 TPx ti t = true) (hwf : treeWf ti t = true) (hpat : toPatRoot TPx ti.rtl t = some pat)
    (hrel : EnvRel TPx (codeFromTree (mainCfg ti) t).2.sets env se) (hi : i ≤ se.n) (hlen : se.n < 2147483647)
    (henv : env.ecma = false) :
    ∃ s0 s n, VM.init (emit ti t) (i : Int) = .ok s0 ∧
      (∀ fuel, n ≤ fuel → (VM.run (emit ti t) env fuel s0).1 = .done s) ∧ Agrees ti se pat i s :=
  compile_correct_upto 7 (by decide) ti t TPx env se pat i hfrag hwf hpat hrel hi (by omega) (fun _ => hlen) (fun _ => henv)

/-- **`compile_correct_T4e`** — tier 8 = tier 7 + the single-character loops with the Rtl bit (`Onerep…Setrep`,
    `Oneloop…Setloopatomic`, their `|Back` cases: `forwardchars` = the text position, `forwardcharnext` reads the rune
    before it, `bump` = −1).  The specification side is obtained from the left-to-right description of a character
    loop through the mirror theorem of C15 (`Lemmas/SpecMirror.lean`).  With this every node type the specification has a
    pattern for is covered in both directions. -/
theorem compile_correct_T4e (ti : TreeInfo) (t : GoNode) (TPx : TP) (env : VM.Env) (se : Spec.Env) (pat : Pat) (i : Nat)
    (hfrag : InFrag 8 TPx ti t = true) (hwf : treeWf ti t = true) (hpat : toPatRoot TPx ti.rtl t = some pat)
    (hrel : EnvRel TPx (codeFromTree (mainCfg ti) t).2.sets env se) (hi : i ≤ se.n) (hlen : se.n < 2147483647)
    (henv : env.ecma = false) :
    ∃ s0 s n, VM.init (emit ti t) (i : Int) = .ok s0 ∧
      (∀ fuel, n ≤ fuel → (VM.run (emit ti t) env fuel s0).1 = .done s) ∧ Agrees ti se pat i s :=
  compile_correct_upto 8 (by decide) ti t TPx env se pat i hfrag hwf hpat hrel hi (by omega) (fun _ => hlen) (fun _ => henv)

/-- **the scan on the whole proved fragment** (tier 8, either direction): `Spec.find` in the direction of the tree is
    the first attempt of the compiled program in scan order that ends matched -/
theorem compile_correct_find_T4e (ti : TreeInfo) (t : GoNode) (TPx : TP) (env : VM.Env) (se : Spec.Env) (pat : Pat)
    (start : Nat) (hstart : start ≤ se.n) (hfrag : InFrag 8 TPx ti t = true) (hwf : treeWf ti t = true)
    (hpat : toPatRoot TPx ti.rtl t = some pat) (hrel : EnvRel TPx (codeFromTree (mainCfg ti) t).2.sets env se)
    (hlen : se.n < 2147483647) (henv : env.ecma = false) (st : St) :
    Spec.find se pat ti.rtl start = some st ↔
      ∃ (before : List Nat) (i : Nat) (after : List Nat), scanOrder ti.rtl start se.n = before ++ i :: after ∧
        (∃ s0 s n, VM.init (emit ti t) (i : Int) = .ok s0 ∧
          (∀ fuel, n ≤ fuel → (VM.run (emit ti t) env fuel s0).1 = .done s) ∧ VM.matched s = true ∧
          s.textpos = (st.pos : Int) ∧ CapRep (slotOf ti) (capsize ti) s.cap st.caps ∧
          Spec.attempt se pat ti.rtl i = some st) ∧
        ∀ j ∈ before, ∃ s0 s n, VM.init (emit ti t) (j : Int) = .ok s0 ∧
          (∀ fuel, n ≤ fuel → (VM.run (emit ti t) env fuel s0).1 = .done s) ∧ VM.matched s = false :=
  compile_correct_find_upto 8 (by decide) ti t TPx env se pat start hstart hfrag hwf hpat hrel (by omega) (fun _ => hlen)
    (fun _ => henv) st

/-! ### non-vacuity (compiler correctness): four concrete trees inside the fragments, the hypotheses of the theorems
met, and both sides of the conclusion evaluated -/

/-- `(a|ab)(c|bcd)` on "abcd" (tier 1): the first alternative `a` wins, then `bcd`; captures per group -/
example : InFrag 1 ccTP (ccInfo 3) ccT1 = true ∧ treeWf (ccInfo 3) ccT1 = true ∧
    (toPatRoot ccTP false ccT1).isSome = true := by decide
example : ccRun (ccInfo 3) ccT1 (ccEnv [] (ccSe [97, 98, 99, 100])) 0 60 = some (true, 4, [[0, 4], [0, 1], [1, 3]]) := by
  decide
example : (toPatRoot ccTP false ccT1).map (fun p => Spec.attempt (ccSe [97, 98, 99, 100]) p false 0) =
    some (some { pos := 4, caps := [(1, 0, 1), (2, 1, 3), (0, 0, 4)] }) := by decide
/-- the hypotheses of `compile_correct_T1` hold for this tree and input, so its conclusion does -/
example : ∃ s0 s n, VM.init (emit (ccInfo 3) ccT1) (0 : Nat) = .ok s0 ∧
    (∀ fuel, n ≤ fuel → (VM.run (emit (ccInfo 3) ccT1) (ccEnv [] (ccSe [97, 98, 99, 100])) fuel s0).1 = .done s) ∧
    VM.matched s = true :=
  match h : toPatRoot ccTP false ccT1 with
  | some pat =>
    let ⟨s0, s, n, h1, h2, hag⟩ := compile_correct_T1 (ccInfo 3) ccT1 ccTP _ (ccSe [97, 98, 99, 100]) pat 0 (by decide) (by decide) h
      (ccRel _ _) (by decide) (by decide)
    ⟨s0, s, n, h1, h2, by
      rw [hag.verdict]
      have : (toPatRoot ccTP false ccT1).map (fun p => (Spec.attempt (ccSe [97, 98, 99, 100]) p false 0).isSome) = some true := by
        decide
      rw [h] at this
      simpa [ccInfo] using this⟩
  | none => absurd h (by decide)

/-- `a*ab` on "aaab" (tier 2, not tier 1): the greedy loop gives one `a` back -/
example : InFrag 1 ccTP (ccInfo 1) ccT2 = false ∧ InFrag 2 ccTP (ccInfo 1) ccT2 = true ∧ treeWf (ccInfo 1) ccT2 = true := by
  decide
example : ccRun (ccInfo 1) ccT2 (ccEnv [] (ccSe [97, 97, 97, 98])) 0 60 = some (true, 4, [[0, 4]]) := by decide
example : (toPatRoot ccTP false ccT2).map (fun p => Spec.attempt (ccSe [97, 97, 97, 98]) p false 0) =
    some (some { pos := 4, caps := [(0, 0, 4)] }) := by decide

/-- `(?>a+)b` on "aab" (tier 3, not tier 2) -/
example : InFrag 2 ccTP (ccInfo 1) ccT3 = false ∧ InFrag 3 ccTP (ccInfo 1) ccT3 = true ∧ treeWf (ccInfo 1) ccT3 = true := by
  decide
example : ccRun (ccInfo 1) ccT3 (ccEnv [] (ccSe [97, 97, 98])) 0 60 = some (true, 3, [[0, 3]]) := by decide
example : (toPatRoot ccTP false ccT3).map (fun p => Spec.attempt (ccSe [97, 97, 98]) p false 0) =
    some (some { pos := 3, caps := [(0, 0, 3)] }) := by decide

/-- `(?=a)[a-z]` on "ab" (tier 3, one set whose payload `readSet` reads as `[a-z]`): matches at 0, fails at 1 -/
example : InFrag 3 ccTP (ccInfo 1) ccT4 = true ∧ treeWf (ccInfo 1) ccT4 = true ∧
    (codeFromTree (mainCfg (ccInfo 1)) ccT4).2.sets = [ccAZ] := by decide
example : ccRun (ccInfo 1) ccT4 (ccEnv [ccAZ] (ccSe [97, 98])) 0 60 = some (true, 1, [[0, 1]]) ∧
    ccRun (ccInfo 1) ccT4 (ccEnv [ccAZ] (ccSe [97, 98])) 1 60 = some (false, 1, [[]]) := by decide
example : (toPatRoot ccTP false ccT4).map (fun p => (Spec.attempt (ccSe [97, 98]) p false 0, Spec.attempt (ccSe [97, 98]) p false 1)) =
    some (some { pos := 1, caps := [(0, 0, 1)] }, none) := by decide
/-- `EnvRel` is satisfiable with a non-trivial set table -/
example : EnvRel ccTP (codeFromTree (mainCfg (ccInfo 1)) ccT4).2.sets
    (ccEnv (codeFromTree (mainCfg (ccInfo 1)) ccT4).2.sets (ccSe [97, 98])) (ccSe [97, 98]) := ccRel _ _
/-- `(?:ab|c)+d` on "abcabd" (tier 4, not tier 3): a greedy uncounted loop around an alternation -/
example : InFrag 3 ccTP (ccInfo 1) ccT5 = false ∧ InFrag 4 ccTP (ccInfo 1) ccT5 = true ∧ treeWf (ccInfo 1) ccT5 = true := by
  decide
example : ccRun (ccInfo 1) ccT5 (ccEnv [] (ccSe [97, 98, 99, 97, 98, 100])) 0 200 = some (true, 6, [[0, 6]]) := by decide
example : (toPatRoot ccTP false ccT5).map (fun p => Spec.attempt (ccSe [97, 98, 99, 97, 98, 100]) p false 0) =
    some (some { pos := 6, caps := [(0, 0, 6)] }) := by decide

/-- `(?:a{2}b){1,3}?c` on "aabaabc" (tier 4): a lazy counted loop, two iterations needed -/
example : InFrag 4 ccTP (ccInfo 1) ccT6 = true ∧ treeWf (ccInfo 1) ccT6 = true := by decide
example : ccRun (ccInfo 1) ccT6 (ccEnv [] (ccSe [97, 97, 98, 97, 97, 98, 99])) 0 200 = some (true, 7, [[0, 7]]) := by decide
example : (toPatRoot ccTP false ccT6).map (fun p => Spec.attempt (ccSe [97, 97, 98, 97, 97, 98, 99]) p false 0) =
    some (some { pos := 7, caps := [(0, 0, 7)] }) := by decide

/-- `(a*)+b` on "aab" (tier 4): the body can match the empty string; the second iteration is empty and ends the loop,
    its capture `(1, 2, 0)` is kept — on both sides -/
example : InFrag 4 ccTP (ccInfo 2) ccT7 = true ∧ treeWf (ccInfo 2) ccT7 = true := by decide
example : ccRun (ccInfo 2) ccT7 (ccEnv [] (ccSe [97, 97, 98])) 0 200 = some (true, 3, [[0, 3], [0, 2, 2, 0]]) := by decide
example : (toPatRoot ccTP false ccT7).map (fun p => Spec.attempt (ccSe [97, 97, 98]) p false 0) =
    some (some { pos := 3, caps := [(1, 0, 2), (1, 2, 0), (0, 0, 3)] }) := by decide
/-- the hypotheses of `compile_correct_T4a` hold for this tree and input, so its conclusion does -/
example : ∃ s0 s n, VM.init (emit (ccInfo 2) ccT7) (0 : Nat) = .ok s0 ∧
    (∀ fuel, n ≤ fuel → (VM.run (emit (ccInfo 2) ccT7) (ccEnv [] (ccSe [97, 97, 98])) fuel s0).1 = .done s) ∧
    VM.matched s = true :=
  match h : toPatRoot ccTP false ccT7 with
  | some pat =>
    let ⟨s0, s, n, h1, h2, hag⟩ := compile_correct_T4a (ccInfo 2) ccT7 ccTP _ (ccSe [97, 97, 98]) pat 0 (by decide) (by decide) h
      (ccRel _ _) (by decide) (by decide)
    ⟨s0, s, n, h1, h2, by
      rw [hag.verdict]
      have : (toPatRoot ccTP false ccT7).map (fun p => (Spec.attempt (ccSe [97, 97, 98]) p false 0).isSome) = some true := by
        decide
      rw [h] at this
      simpa [ccInfo] using this⟩
  | none => absurd h (by decide)

/-- `.*ab` as the parser leaves it: `Notoneloop(\n)*; UpdateBumpalong; Multi "ab"` (tier 5, not tier 4) on "xabab":
    the greedy loop runs to the end and gives back until the LAST "ab" -/
example : InFrag 4 ccTP (ccInfo 1) ccT8 = false ∧ InFrag 5 ccTP (ccInfo 1) ccT8 = true ∧ treeWf (ccInfo 1) ccT8 = true := by
  decide
example : ccRun (ccInfo 1) ccT8 (ccEnv [] (ccSe [120, 97, 98, 97, 98])) 0 200 = some (true, 5, [[0, 5]]) := by decide
example : (toPatRoot ccTP false ccT8).map (fun p => Spec.attempt (ccSe [120, 97, 98, 97, 98]) p false 0) =
    some (some { pos := 5, caps := [(0, 0, 5)] }) := by decide
/-- a failing attempt of the same program ends at `Stop` unmatched (its text position is the raised bottom slot) -/
example : ccRun (ccInfo 1) ccT8 (ccEnv [] (ccSe [120, 97, 97])) 0 200 = some (false, 3, [[]]) := by decide

/-- `(a)\1` on "aa" (tier 6, not tier 5) and on "ab" (no match) -/
example : InFrag 5 ccTP (ccInfo 2) ccT9 = false ∧ InFrag 6 ccTP (ccInfo 2) ccT9 = true ∧ treeWf (ccInfo 2) ccT9 = true := by
  decide
example : ccRun (ccInfo 2) ccT9 (ccEnv [] (ccSe [97, 97])) 0 200 = some (true, 2, [[0, 2], [0, 1]]) ∧
    ccRun (ccInfo 2) ccT9 (ccEnv [] (ccSe [97, 98])) 0 200 = some (false, 0, [[], []]) := by decide
example : (toPatRoot ccTP false ccT9).map (fun p => (Spec.attempt (ccSe [97, 97]) p false 0, Spec.attempt (ccSe [97, 98]) p false 0)) =
    some (some { pos := 2, caps := [(1, 0, 1), (0, 0, 2)] }, none) := by decide

/-- `(a)?(?(1)b|c)` on "ab" (group 1 set: the `yes` branch) and on "c" (not set: the `no` branch) -/
example : InFrag 6 ccTP (ccInfo 2) ccT10 = true ∧ treeWf (ccInfo 2) ccT10 = true := by decide
example : ccRun (ccInfo 2) ccT10 (ccEnv [] (ccSe [97, 98])) 0 200 = some (true, 2, [[0, 2], [0, 1]]) ∧
    ccRun (ccInfo 2) ccT10 (ccEnv [] (ccSe [99])) 0 200 = some (true, 1, [[0, 1], []]) := by decide
example : (toPatRoot ccTP false ccT10).map (fun p => (Spec.attempt (ccSe [97, 98]) p false 0, Spec.attempt (ccSe [99]) p false 0)) =
    some (some { pos := 2, caps := [(1, 0, 1), (0, 0, 2)] }, some { pos := 1, caps := [(0, 0, 1)] }) := by decide

/-- `(?(?=(a))ab|c)` on "ab": the capture made inside the condition is kept, its position is not -/
example : InFrag 6 ccTP (ccInfo 2) ccT11 = true ∧ treeWf (ccInfo 2) ccT11 = true := by decide
example : ccRun (ccInfo 2) ccT11 (ccEnv [] (ccSe [97, 98])) 0 200 = some (true, 2, [[0, 2], [0, 1]]) ∧
    ccRun (ccInfo 2) ccT11 (ccEnv [] (ccSe [99])) 0 200 = some (true, 1, [[0, 1], []]) := by decide
example : (toPatRoot ccTP false ccT11).map (fun p => Spec.attempt (ccSe [97, 98]) p false 0) =
    some (some { pos := 2, caps := [(1, 0, 1), (0, 0, 2)] }) := by decide
/-- the hypotheses of `compile_correct_T4c` hold for `(a)\1` on "aa", so its conclusion does -/
example : ∃ s0 s n, VM.init (emit (ccInfo 2) ccT9) (0 : Nat) = .ok s0 ∧
    (∀ fuel, n ≤ fuel → (VM.run (emit (ccInfo 2) ccT9) (ccEnv [] (ccSe [97, 97])) fuel s0).1 = .done s) ∧
    VM.matched s = true :=
  match h : toPatRoot ccTP false ccT9 with
  | some pat =>
    let ⟨s0, s, n, h1, h2, hag⟩ := compile_correct_T4c (ccInfo 2) ccT9 ccTP _ (ccSe [97, 97]) pat 0 (by decide) (by decide) h
      (ccRel _ _) (by decide) (by decide) rfl
    ⟨s0, s, n, h1, h2, by
      rw [hag.verdict]
      have : (toPatRoot ccTP false ccT9).map (fun p => (Spec.attempt (ccSe [97, 97]) p false 0).isSome) = some true := by
        decide
      rw [h] at this
      simpa [ccInfo] using this⟩
  | none => absurd h (by decide)

/-- `(?<=ab)c` on "abc" (tier 7, not tier 6): matches at 2, not at 0 -/
example : InFrag 6 ccTP (ccInfo 1) ccT12 = false ∧ InFrag 7 ccTP (ccInfo 1) ccT12 = true ∧ treeWf (ccInfo 1) ccT12 = true := by
  decide
example : ccRun (ccInfo 1) ccT12 (ccEnv [] (ccSe [97, 98, 99])) 2 200 = some (true, 3, [[2, 1]]) ∧
    ccRun (ccInfo 1) ccT12 (ccEnv [] (ccSe [97, 98, 99])) 0 200 = some (false, 0, [[]]) := by decide
example : (toPatRoot ccTP false ccT12).map (fun p => (Spec.attempt (ccSe [97, 98, 99]) p false 2, Spec.attempt (ccSe [97, 98, 99]) p false 0)) =
    some (some { pos := 3, caps := [(0, 2, 1)] }, none) := by decide

/-- `(?:ab|c)+d` compiled with the option RightToLeft (the parser stores the concatenation reversed: `d`, then the
    loop) on "cabd", attempt at 4: `d`, then `ab`, then `c`, leftwards; the match is [0, 4) -/
example : InFrag 7 ccTP (ccInfoR 1) ccT13 = true ∧ InFrag 6 ccTP (ccInfoR 1) ccT13 = false ∧ treeWf (ccInfoR 1) ccT13 = true := by
  decide
example : ccRun (ccInfoR 1) ccT13 (ccEnv [] (ccSe [99, 97, 98, 100])) 4 200 = some (true, 0, [[0, 4]]) := by decide
example : (toPatRoot ccTP true ccT13).map (fun p => Spec.attempt (ccSe [99, 97, 98, 100]) p true 4) =
    some (some { pos := 0, caps := [(0, 0, 4)] }) := by decide
/-- the hypotheses of `compile_correct_T4d` hold for it, so its conclusion does -/
example : ∃ s0 s n, VM.init (emit (ccInfoR 1) ccT13) (4 : Nat) = .ok s0 ∧
    (∀ fuel, n ≤ fuel → (VM.run (emit (ccInfoR 1) ccT13) (ccEnv [] (ccSe [99, 97, 98, 100])) fuel s0).1 = .done s) ∧
    VM.matched s = true :=
  match h : toPatRoot ccTP true ccT13 with
  | some pat =>
    let ⟨s0, s, n, h1, h2, hag⟩ := compile_correct_T4d (ccInfoR 1) ccT13 ccTP _ (ccSe [99, 97, 98, 100]) pat 4 (by decide) (by decide) h
      (ccRel _ _) (by decide) (by decide) rfl
    ⟨s0, s, n, h1, h2, by
      rw [hag.verdict]
      have : (toPatRoot ccTP true ccT13).map (fun p => (Spec.attempt (ccSe [99, 97, 98, 100]) p true 4).isSome) = some true := by
        decide
      rw [h] at this
      simpa [ccInfoR] using this⟩
  | none => absurd h (by decide)

/-- `a+b` compiled with the option RightToLeft (stored `b`, then `Oneloop(a)` with the Rtl bit; tier 8, not tier 7) on
    "caab", attempt at 4: `b`, then the `a`s leftwards; the match is [1, 4) -/
example : InFrag 7 ccTP (ccInfoR 1) ccT14 = false ∧ InFrag 8 ccTP (ccInfoR 1) ccT14 = true ∧ treeWf (ccInfoR 1) ccT14 = true := by
  decide
example : ccRun (ccInfoR 1) ccT14 (ccEnv [] (ccSe [99, 97, 97, 98])) 4 200 = some (true, 1, [[1, 3]]) := by decide
example : (toPatRoot ccTP true ccT14).map (fun p => Spec.attempt (ccSe [99, 97, 97, 98]) p true 4) =
    some (some { pos := 1, caps := [(0, 1, 3)] }) := by decide
/-- `(?<=a{2,}?)b`-like lookbehind with a lazy right-to-left loop: `(?<=ca*?)b` on "caab" at 3 -/
example : InFrag 8 ccTP (ccInfo 1) ccT15 = true ∧ treeWf (ccInfo 1) ccT15 = true := by decide
example : ccRun (ccInfo 1) ccT15 (ccEnv [] (ccSe [99, 97, 97, 98])) 3 300 = some (true, 4, [[3, 1]]) := by decide
example : (toPatRoot ccTP false ccT15).map (fun p => Spec.attempt (ccSe [99, 97, 97, 98]) p false 3) =
    some (some { pos := 4, caps := [(0, 3, 1)] }) := by decide
/-- the hypotheses of `compile_correct_T4e` hold for the RightToLeft `a+b`, so its conclusion does -/
example : ∃ s0 s n, VM.init (emit (ccInfoR 1) ccT14) (4 : Nat) = .ok s0 ∧
    (∀ fuel, n ≤ fuel → (VM.run (emit (ccInfoR 1) ccT14) (ccEnv [] (ccSe [99, 97, 97, 98])) fuel s0).1 = .done s) ∧
    VM.matched s = true :=
  match h : toPatRoot ccTP true ccT14 with
  | some pat =>
    let ⟨s0, s, n, h1, h2, hag⟩ := compile_correct_T4e (ccInfoR 1) ccT14 ccTP _ (ccSe [99, 97, 97, 98]) pat 4 (by decide) (by decide) h
      (ccRel _ _) (by decide) (by decide) rfl
    ⟨s0, s, n, h1, h2, by
      rw [hag.verdict]
      have : (toPatRoot ccTP true ccT14).map (fun p => (Spec.attempt (ccSe [99, 97, 97, 98]) p true 4).isSome) = some true := by
        decide
      rw [h] at this
      simpa [ccInfoR] using this⟩
  | none => absurd h (by decide)

/-- trees outside the proved tiers: an ECMAScript boundary is tier 9 (and has no pattern in the specification); a
    case-insensitive backreference and a balancing group are in no tier -/
example : InFrag 8 ccTP (ccInfo 1) (.capture 0 (-1) (.concat [.bare opECMABoundary, .char opOne false false 98])) = false ∧
    InFrag 9 ccTP (ccInfo 2) (.capture 0 (-1) (.concat [.capture 1 (-1) (.char opOne false false 97), .ref false true 1])) = false ∧
    InFrag 9 ccTP (ccInfo 2) (.capture 0 (-1) (.capture 1 1 (.char opOne false false 97))) = false := by
  decide

end compiler
/-! ################################################################################################
## pipeline — `compilePattern = emit ∘ reduceTree ∘ parse` (Model/Reduce.lean, leg Pl)

The reducer is ONE executable function from the parser's raw tree to the tree the writer reads; leg Pl
compares it (and the compiled program) with the Go compiler exactly, on every explored pattern.  Proved
here: the reducer never leaves the writer's domain, hence the compiler never fails after a successful parse;
the semantic laws of the reductions this slice adds to `RewriteDecisions`; and decided witnesses that the
nested-repeater multiplication of `reduceRep` is NOT meaning-preserving under the guards the Go code has.
################################################################################################ -/
section pipeline
open RegexVerif.Reduce RegexVerif.Writer

/-- **(i, proved part) The reduced tree of a well-formed raw tree is accepted by the writer.**  For every
    oracle, with and without the gated rewrites: if the raw tree has only known node types with the child
    counts the parser produces (`okRawTree`, decidable: `okN` except that a Concatenate / Alternate below the root may be
    childless, as in `(?:)`; leg Pl evaluates it on every parsed pattern), then the writer's stricter shape `okN` holds for
    the tree after every `reduce()` and `finalOptimize` — no reduction (the reused alternation / concatenation /
    atomic functions included: `fromR_ok` holds for EVERY `RNode`) produces a childless Concatenate / Alternate, a
    Loop / Capture / lookaround / Atomic without its child, a conditional with the wrong number of branches or
    an unknown node type.  This is the component `root.ok` of `Writer.treeWf`.

    Full statement (NOT proved): `Parser.wfTree t → Writer.treeWf (treeInfo rtl t) (reduceTree orc on t)`.
    Missing: `capsOk` (the reused functions never invent a Capture / Ref / BackRefCond: needs an "every wrapped
    node of the result is a wrapped node of the argument" lemma for each function of RewriteDecisions), `boundsOk`
    (`0 ≤ M ≤ N ≤ MaxInt32` through `reduceRep`'s clamped multiplication and the coalescing sums), and
    `Parser.wfTree t → okRawTree (ofRaw t.root)`.  Leg Pl evaluates `treeWf` on every reduced tree (`Pl:wf`). -/
theorem reduceTree_wf_partial (orc : Orc) (on : Bool) (t : Parser.RawTree) (h : okRawTree (ofRaw t.root) = true) :
    (reduceTree orc on t).ok = true :=
  reduceTree_ok orc on t h

/-- `reduce()` and `eliminateEndingBacktracking` one call at a time (what `reduceTree_wf_partial` iterates) -/
theorem reduce_keeps_shape (orc : Orc) (on : Bool) (fuel : Nat) (pa : Bool) (x : Node) (h : okN x = true) :
    okN (reduce orc on fuel pa x) = true ∧ okN (elim orc on fuel pa x) = true :=
  ⟨(reduce_elim_ok orc on fuel).1 pa x h, (reduce_elim_ok orc on fuel).2 pa x h⟩

/-- an oracle for the examples: nothing overlaps, every character is a word character -/
def plOrc : Orc := { charIn := fun _ _ => false, overlap := fun _ _ => false, isWord := fun _ => true, isEcmaWord := fun _ => true }

private def rawNode (t : Parser.NT) (m n : Int) (kids : List Parser.RNode) : Parser.RNode := .mk t {} 0 [] none m n kids
private def rawOne (c : Nat) : Parser.RNode := .mk .one {} c [] none 0 0 []
private def rawGroupOf (t : Parser.NT) (m n : Int) (body : List Parser.RNode) : Parser.RNode :=
  rawNode t m n [rawNode .alternate 0 0 [rawNode .concatenate 0 0 body]]

/-- the raw tree of `(?:(?:a)+b|(?:a)+c)*d` (what `VerifParseRaw` returns) -/
def plDemoRaw : Parser.RawTree :=
  { root := rawGroupOf .capture 0 (-1)
      [rawNode .loop 0 2147483647 [rawNode .group 0 0 [rawNode .alternate 0 0
        [rawNode .concatenate 0 0 [rawNode .loop 1 2147483647 [rawGroupOf .group 0 0 [rawOne 97]], rawOne 98],
         rawNode .concatenate 0 0 [rawNode .loop 1 2147483647 [rawGroupOf .group 0 0 [rawOne 97]], rawOne 99]]]],
       rawOne 100],
    tables := { caps := [0], capnumlist := none, captop := 1, capnames := none, caplist := none } }

/-- non-vacuity: the hypothesis holds on a raw tree with groups, nested loops and an alternation … -/
example : okRawTree (ofRaw plDemoRaw.root) = true := by decide
/-- `(?:){3}`: the empty Concatenate of the raw tree is allowed and repaired -/
example : okRawTree (ofRaw (rawGroupOf .capture 0 (-1) [rawNode .loop 3 3 [rawGroupOf .group 0 0 []]])) = true
    ∧ okN (ofRaw (rawGroupOf .capture 0 (-1) [rawNode .loop 3 3 [rawGroupOf .group 0 0 []]])) = false := by decide
/-- … and the conclusion, evaluated -/
example : (reduceTree plOrc true plDemoRaw).ok = true ∧ (reduceTree plOrc false plDemoRaw).ok = true := by decide

/-- **(iii, proved part) The compiler is total after the parser.**  If the parser returns a (well-shaped) tree,
    `compileStages` returns the program of `Writer.write` on `reduceTree` of that tree — never a writer error —
    for every oracle and either setting of the rewrite switch; `compilePattern` is `emit` of it.

    Full statement (NOT proved): for every `E`, `compilePattern orc E = .ok p ∧ wfProg p` or
    `compilePattern orc E = .error (.parse c)`.  Missing: `parse_total` (no fault / fuel outcome: proved for the
    scanner layer only, `Props.C10.scanners_total_partial`; leg Pr observes none) and `treeWf` of the reduced
    tree (`reduceTree_wf_partial` gives its first component), from which `Props.C01.emit_wf` gives `wfProg`. -/
theorem compilePattern_total_partial (orc : Orc) (E : Parser.Env) (t : Parser.RawTree)
    (hp : Parser.parse E = .ok t) (hw : okRawTree (ofRaw t.root) = true) :
    (∃ c, compileStages orc true E = .ok c ∧ c.tree = reduceTree orc true t ∧
        c.written.prog = emit (treeInfo E.opts.r t) (reduceTree orc true t)) ∧
    compilePattern orc E = .ok (emit (treeInfo E.opts.r t) (reduceTree orc true t)) := by
  have hok := reduceTree_ok orc true t hw
  have hcs : compileStages orc true E = .ok
      { raw := t, tree := reduceTree orc true t, info := treeInfo E.opts.r t,
        written := { prog := emit (treeInfo E.opts.r t) (reduceTree orc true t),
                     sets := (codeFromTree (mainCfg (treeInfo E.opts.r t)) (reduceTree orc true t)).2.sets,
                     slotInUse := slotsInUse (treeInfo E.opts.r t) (reduceTree orc true t),
                     quick := quickCodes (treeInfo E.opts.r t) (reduceTree orc true t) } } := by
    simp only [compileStages, hp, write, hok, if_true]
  refine ⟨⟨_, hcs, rfl, rfl⟩, ?_⟩
  simp only [compilePattern, hcs]
  rfl

/-- when moreover `treeWf` holds for the reduced tree (leg Pl: on every explored pattern), the compiled program
    is well-formed: everything the pipeline produces is in the domain of `emit_wf`, `emit_trackcount`, … -/
theorem compilePattern_wf (orc : Orc) (E : Parser.Env) (t : Parser.RawTree)
    (hw : treeWf (treeInfo E.opts.r t) (reduceTree orc true t) = true) :
    wfProg (emit (treeInfo E.opts.r t) (reduceTree orc true t)) = true :=
  emit_wf _ _ hw

example : treeWf (treeInfo false plDemoRaw) (reduceTree plOrc true plDemoRaw) = true := by decide

/-! ### (ii) the meaning of the added reductions

`reduceTree_sound` — `Spec.find (denotation (reduceRoot x)) = Spec.find (denotation x)` — is NOT proved, not
even on the part `RewriteDecisions` proves: its soundness theorems (`reduceAlt_sound`, `reduceAtomic_sound`, …)
ask the callback `red` to be sound on EVERY `RNode` (`RedSound`), and this file's `red` (= `toR ∘ reduce ∘ fromR`)
is denotation-faithful only on the image of `toR` (a wrapped node whose tag contradicts its payload is not);
besides, the compiler runs the duplicate-collapsing variant (`ll = true`), for which `Spec.m` is not preserved as
a list (`Props.C05.merge_overlapping_duplicates`).  The tie of the reducer to the meaning stays with legs R / Rw /
T.  Proved below: the laws of the reductions this slice adds, and the status of the one that has no law. -/

/-- `reduceLookaround`: a positive lookaround around Empty is Empty -/
theorem look_empty (e : Env) (behind rtl : Bool) (st : St) :
    m e (.look behind false .empty) rtl st = m e .empty rtl st := by
  simp [m]

/-- `reduceLookaround`: a negative lookaround around Empty — `(?!)` — is Nothing -/
theorem neglook_empty (e : Env) (behind rtl : Bool) (st : St) :
    m e (.look behind true .empty) rtl st = m e .nothing rtl st := by
  simp [m]

/-- `reduceExpressionConditional`: a positive lookahead used as the condition is the condition (left to
    right: the Go code tests `condition.Options & RightToLeft == 0`) -/
theorem exprCond_lookahead (e : Env) (c y n : Pat) (st : St) :
    m e (.exprCond (.look false false c) y n) false st = m e (.exprCond c y n) false st := by
  simp only [m]
  cases m e c false st <;> rfl

/-- `reduceRep`: repeating Empty is Empty — as the FIRST success (the list has the state twice when the
    minimum is 0: once from the empty iteration, once from stopping); `{0,0}` of anything is Empty -/
theorem quant_zero_zero' (e : Env) (lzy rtl : Bool) (p : Pat) (st : St) : m e (.quant lzy 0 (some 0) p) rtl st = [st] := by
  simp [m, iter, canGo]

def plEnv (t : List Nat) : Env := { text := t, textstart := 0, named := [], word := [97, 98, 99], fold := [] }
def plSt0 : St := { pos := 0, caps := [] }
private def pa' : Pat := .chr (.one 97 false)

/-- `(?:){3}`, `(?:)*`, `(?:)+?` -/
example : m (plEnv [97]) (.quant false 3 (some 3) .empty) false plSt0 = [plSt0]
    ∧ (m (plEnv [97]) (.quant false 0 none .empty) false plSt0).head? = some plSt0
    ∧ m (plEnv [97]) (.quant true 1 none .empty) false plSt0 = [plSt0] := by decide

/-- `reduceRep`, a single-character child: `(?:a){2,3}` is the Oneloop `a{2,3}` by definition of the denotation
    (`RewriteDecisions.cloopPat`) -/
theorem rep_of_char (lzy : Bool) (p : RewriteDecisions.CP) (lo : Nat) (hi : Option Nat) (o : Nat) (rtl : Bool) :
    RewriteDecisions.toPat rtl (.loop lzy lo hi (.chr o p)) =
      RewriteDecisions.toPat rtl (.cloop o (if lzy then .lzy else .greedy) p lo hi) := by
  cases lzy <;> rfl

/-- **The nested-repeater multiplication of `reduceRep` has no law under the guards of the Go code.**
    `(?:a{2,4}){1,2}` passes both guards (`u.M == 0 && child.M > 1` is false, `child.N < 2·child.M` is false)
    and is compiled as `a{2,8}`; on "aaaaa" the written pattern matches 4 letters (the first iteration takes
    four, the second cannot take two, one iteration is enough), the compiled one 5. -/
theorem rep_multiplication_changes_match :
    find (plEnv [97, 97, 97, 97, 97]) (.quant false 1 (some 2) (.quant false 2 (some 4) pa')) false 0 = some ⟨4, [(0, 0, 4)]⟩
    ∧ find (plEnv [97, 97, 97, 97, 97]) (.quant false 2 (some 8) pa') false 0 = some ⟨5, [(0, 0, 5)]⟩ := by decide

/-- … and the reducer does exactly that (`reduceRep`: the Loop disappears into its child) -/
example : let r := reduceRep 8 (.mk 26 0 0 [] none 1 2 [.mk 3 0 97 [] none 2 4 []])
    (r.t, r.ch, r.m, r.n, r.kids.length) = (3, 97, 2, 8, 0) := by decide

/-- **It can create a match.**  `(?:(?>a+)){2}`: the atomic loop takes every `a` and gives nothing back, the
    second iteration finds none — no match on "aa"; compiled as `(?>a{2,})` it matches (DESIGN §1.3, "observed"). -/
theorem rep_multiplication_creates_match :
    find (plEnv [97, 97]) (.quant false 2 (some 2) (.atomic (.quant false 1 none pa'))) false 0 = none
    ∧ find (plEnv [97, 97]) (.atomic (.quant false 2 none pa')) false 0 = some ⟨2, [(0, 0, 2)]⟩ := by decide

example : let r := reduceRep 8 (.mk 26 0 0 [] none 2 2 [.mk 43 0 97 [] none 1 2147483647 []])
    (r.t, r.ch, r.m, r.n, r.kids.length) = (43, 97, 2, 2147483647, 0) := by decide

/-- **Where it IS harmless** (decided instance of the side condition stated in design.d/C01-pipeline.md: same
    greediness, inner loop not atomic, inner minimum ≤ 1, hence no gap between `k` and `k+1` iterations and the
    greedy decomposition reaches the maximum): `(?:a{1,2}){1,2}` and `a{1,4}` have the same first success from
    every start, and the same successes up to later duplicates — the lists differ. -/
theorem rep_multiplication_harmless_instance :
    (∀ start, start ≤ 4 → find (plEnv [97, 97, 97, 98]) (.quant false 1 (some 2) (.quant false 1 (some 2) pa')) false start
        = find (plEnv [97, 97, 97, 98]) (.quant false 1 (some 4) pa') false start)
    ∧ (m (plEnv [97, 97, 97]) (.quant false 1 (some 2) (.quant false 1 (some 2) pa')) false plSt0).map (·.pos) = [3, 2, 3, 2, 1]
    ∧ (m (plEnv [97, 97, 97]) (.quant false 1 (some 4) pa') false plSt0).map (·.pos) = [3, 2, 1] := by decide

end pipeline

end RegexVerif.Props.C01
