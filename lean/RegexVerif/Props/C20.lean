/-
C20 — property theorems (stub: not built yet).
-/
namespace RegexVerif.Props.C20
end RegexVerif.Props.C20
