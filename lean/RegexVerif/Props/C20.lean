/-
C20 — case-insensitive matching ignores case.

Under IgnoreCase every character test of the pattern (literal, class, back-reference) is the `ci`
variant of the specification: it compares runes up to simple case partners, which come in as the
oracle table `Env.fold` (rows of Go's `unicode.SimpleFold` restricted to two-element orbits).  The
theorems here say that the specification `Spec.m` / `Spec.find` (what leg S-ci compares the Go
engine with) then really ignores case:

* input side — the ordered list of successes, hence the match found, its span and all captures, is
  the same on two inputs that differ only in the case of letters (`m_flip_invariant`,
  `find_flip_invariant`);
* pattern side — the case of a literal, and of the endpoints of a class range, may be changed
  without changing any result, also inside negated classes and subtractions
  (`pred_one_flip_pattern`, `pred_notone_flip_pattern`, `cls_range_flip_pattern`,
  `m_pattern_flip_invariant`, `find_pattern_flip_invariant`); the last section defines the re-cased
  pattern `Spec.recase e ch p` for an arbitrary choice `ch` of letters and proves, with no `PatTestEq`
  hypothesis, `recase_patTestEq`, `m_recase_invariant`, `find_recase_invariant`,
  `find_recase_and_flip` under the decidable range condition `RecaseOK`.

The only facts about the oracle tables that are used are collected in `Spec.FoldOK`: the partner
relation is an involution, `\b`'s word test agrees on partners, `'\n'` has no partner.  Closure of
the named classes (`\w`, `\d`, …) under partners is not needed: a `ci` class accepts a rune when it
or its partner is in the positive part.  `FoldOK` is implied by the executable check
`Spec.foldCheck` on the finite tables (`foldOK_of_foldCheck`).
-/
import RegexVerif.Lemmas.SpecFlip
import RegexVerif.Lemmas.Recase

namespace RegexVerif.Props.C20
open RegexVerif RegexVerif.Spec RegexVerif.Spec.FlipDemo

/- The `example`s use the concrete instance `Spec.FlipDemo` (end of Lemmas/SpecFlip.lean): tables with
   the case pairs a↔A, b↔B, the texts "abAB" / "ABab" and the pattern `(?i)(a)[a-b\p{0}-[a]]+?\1\B`
   (`demoPat`) with its upper-case spelling `demoPat'`. -/

/-! ### the relation "equal up to case" -/

/-- **Equality up to simple case partners is an equivalence relation** when the partner table is an
    involution.  This is what makes a case-insensitive back-reference meaningful: the captured
    slice and the compared slice may be re-cased independently. -/
theorem eqCi_equiv (e : Env) (hf : FoldOK e) :
    (∀ a, e.eqCi a a = true) ∧
    (∀ a b, e.eqCi a b = true → e.eqCi b a = true) ∧
    (∀ a b c, e.eqCi a b = true → e.eqCi b c = true → e.eqCi a c = true) :=
  ⟨eqCi_refl e, fun _ _ h => eqCi_symm hf h, fun _ _ _ h1 h2 => eqCi_trans hf h1 h2⟩

example : FoldOK (demoEnv demoText) ∧ (demoEnv demoText).eqCi 97 65 = true ∧ (demoEnv demoText).eqCi 97 66 = false :=
  ⟨demo_foldOK _, by decide, by decide⟩

/-- **`SameUpToCase` is what it says**: the two texts have the same length and at every position the
    runes are equal or the second is the simple case partner of the first. -/
theorem sameUpToCase_pointwise (e : Env) (t t' : List Nat) :
    SameUpToCase e t t' ↔
      t'.length = t.length ∧ ∀ (i a b : Nat), t[i]? = some a → t'[i]? = some b → (a = b ∨ e.partner a = some b) := by
  rw [sameUpToCase_iff]
  simp only [eqCi_iff]

example : SameUpToCase (demoEnv demoText) demoText demoText' ∧ ¬ SameUpToCase (demoEnv demoText) demoText [65, 65, 97, 98] := by
  refine ⟨demo_same, ?_⟩
  intro h
  have := ((sameUpToCase_pointwise _ _ _).mp h).2 1 98 65 rfl rfl
  revert this; decide

/-- "equal up to case" is symmetric: it does not matter which of the two inputs is the original -/
theorem sameUpToCase_symm (e : Env) (hf : FoldOK e) (t t' : List Nat) (h : SameUpToCase e t t') :
    SameUpToCase e t' t :=
  h.symm hf

example : SameUpToCase (demoEnv demoText) demoText' demoText := sameUpToCase_symm _ (demo_foldOK _) _ _ demo_same

/-- **The executable table check implies `FoldOK`**: when every row `(r, q)` of the fold table has the
    reverse lookup `q ↦ r` and `r`, `q` agree on word-ness, and `'\n'` has no row, the tables are
    closed under case partners.  (The harness supplies rows of `unicode.SimpleFold` for two-element
    orbits, both directions listed.) -/
theorem foldOK_of_foldCheck (e : Env) (h : foldCheck e = true) : FoldOK e := foldOK_of_check h

example : foldCheck (demoEnv demoText) = true := by decide
/-- the check rejects a table with a three-element orbit k → K → KELVIN SIGN → k -/
example : foldCheck { demoEnv demoText with fold := [(107, 75), (75, 8490), (8490, 107)] } = false := by decide

/-! ### input side -/

/-- **A case-insensitive character test does not distinguish case-equal runes**: a ci literal, a ci
    negated literal and a ci class (with negation, named classes and subtraction) give the same
    answer on `r` and on `r'` whenever `r'` is `r` or its case partner. -/
theorem pred_test_flip_invariant (e : Env) (hf : FoldOK e) (r r' : Nat) (h : e.eqCi r r' = true) (p : Pred)
    (hp : p.isCi = true) : p.test e r' = p.test e r :=
  pred_test_flip hf h p hp

example : (Pred.set (.diff (.base true [(97, 97)] [(0, false)]) (.base false [(98, 98)] [])) true).isCi = true ∧
    (demoEnv demoText).eqCi 98 66 = true := ⟨rfl, by decide⟩

/-- **Flip invariance of the specification's list of successes.**  If the tables are closed under
    case partners, `t'` is the input with the case of some letters changed, and every character test
    and back-reference of the pattern is case-insensitive, then for every direction and every start
    state the ordered list of all successes — end positions *and* capture logs
    `(group, start, length)` — on `t'` is the list on the original input.  For the Go engine
    (through leg S-ci): under IgnoreCase the priority order of the backtracking search, the spans and
    all group captures do not depend on the case of input letters. -/
theorem m_flip_invariant (e : Env) (hf : FoldOK e) (t' : List Nat) (ht : SameUpToCase e e.text t')
    (p : Pat) (hp : AllCi p) :
    ∀ (rtl : Bool) (st : St), m { e with text := t' } p rtl st = m e p rtl st :=
  m_flip hf ht p hp

example : FoldOK (demoEnv demoText) ∧ SameUpToCase (demoEnv demoText) (demoEnv demoText).text demoText' ∧
    AllCi demoPat ∧
    m (demoEnv demoText) demoPat false { pos := 0, caps := [] } = [{ pos := 3, caps := [(1, 0, 1)] }] ∧
    m { demoEnv demoText with text := demoText' } demoPat false { pos := 0, caps := [] } =
      [{ pos := 3, caps := [(1, 0, 1)] }] :=
  ⟨demo_foldOK _, demo_same, by decide, by decide, by decide⟩

/-- **Flip invariance of find.**  Under the same hypotheses the match found from any start position
    in either direction (`none`, or the end position with the capture log, group 0 included) is
    the same on both inputs. -/
theorem find_flip_invariant (e : Env) (hf : FoldOK e) (t' : List Nat) (ht : SameUpToCase e e.text t')
    (p : Pat) (hp : AllCi p) (rtl : Bool) (start : Nat) :
    find { e with text := t' } p rtl start = find e p rtl start :=
  find_flip hf ht p hp rtl start

example : find (demoEnv demoText) demoPat false 0 = some { pos := 3, caps := [(1, 0, 1), (0, 0, 3)] } ∧
    find (demoEnv demoText') demoPat false 0 = some { pos := 3, caps := [(1, 0, 1), (0, 0, 3)] } ∧
    find (demoEnv demoText) (.seq (.cap 1 (.chr (.one 97 true))) (.chr (.notone 97 true))) true 4 =
      some { pos := 2, caps := [(1, 2, 1), (0, 2, 2)] } ∧
    find (demoEnv demoText') (.seq (.cap 1 (.chr (.one 97 true))) (.chr (.notone 97 true))) true 4 =
      some { pos := 2, caps := [(1, 2, 1), (0, 2, 2)] } :=
  ⟨by decide, by decide, by decide, by decide⟩

/-- the hypothesis `AllCi` is needed: a case-sensitive literal tells the two inputs apart -/
example : find (demoEnv demoText) (.chr (.one 97 false)) false 0 ≠ find (demoEnv demoText') (.chr (.one 97 false)) false 0 := by
  decide

/-! ### pattern side -/

/-- **The case of a ci literal does not matter**: `(?i)a` and `(?i)A` accept the same runes. -/
theorem pred_one_flip_pattern (e : Env) (hf : FoldOK e) (c c' : Nat) (h : e.eqCi c c' = true) (r : Nat) :
    (Pred.one c' true).test e r = (Pred.one c true).test e r :=
  Spec.pred_one_flip_pattern hf h r

/-- **The case of a ci negated literal does not matter**: `(?i)[^a]` and `(?i)[^A]` accept the same
    runes. -/
theorem pred_notone_flip_pattern (e : Env) (hf : FoldOK e) (c c' : Nat) (h : e.eqCi c c' = true) (r : Nat) :
    (Pred.notone c' true).test e r = (Pred.notone c true).test e r :=
  Spec.pred_notone_flip_pattern hf h r

example : (demoEnv demoText).eqCi 97 65 = true ∧
    (Pred.one 65 true).test (demoEnv demoText) 97 = true ∧ (Pred.notone 65 true).test (demoEnv demoText) 97 = false :=
  ⟨by decide, by decide, by decide⟩

/-- **The case of the endpoints of a ci class range does not matter**: inside a ci class (negated or
    not, with any other ranges and named classes) a range `lo-hi` may be replaced by `lo'-hi'` when
    every rune of either range is case-equal to a rune of the other, e.g. `a-z` by `A-Z`. -/
theorem cls_range_flip_pattern (e : Env) (hf : FoldOK e) (neg : Bool) (rs₁ rs₂ : List (Nat × Nat))
    (ns : List (Nat × Bool)) (lo hi lo' hi' : Nat)
    (h1 : ∀ x, lo ≤ x → x ≤ hi → ∃ y, e.eqCi x y = true ∧ lo' ≤ y ∧ y ≤ hi')
    (h2 : ∀ y, lo' ≤ y → y ≤ hi' → ∃ x, e.eqCi y x = true ∧ lo ≤ x ∧ x ≤ hi) (r : Nat) :
    (Cls.base neg (rs₁ ++ (lo', hi') :: rs₂) ns).mem e true r =
      (Cls.base neg (rs₁ ++ (lo, hi) :: rs₂) ns).mem e true r :=
  Spec.cls_range_flip_pattern hf neg rs₁ rs₂ ns lo hi lo' hi' h1 h2 r

/-- **Flip invariance in the pattern.**  Replacing character tests of the pattern by tests that
    accept the same runes (`PatTestEq`: same shape, pointwise equal tests — by the three theorems
    above this covers re-casing ci literals and ci range endpoints, under negation and subtraction
    via `cls_diff_congr`) changes no list of successes. -/
theorem m_pattern_flip_invariant (e : Env) (p p' : Pat) (h : PatTestEq e p p') :
    ∀ (rtl : Bool) (st : St), m e p' rtl st = m e p rtl st :=
  m_congr_tests h

/-- **Flip invariance of find in the pattern**: same hypotheses, same match (span and captures). -/
theorem find_pattern_flip_invariant (e : Env) (p p' : Pat) (h : PatTestEq e p p') (rtl : Bool) (start : Nat) :
    find e p' rtl start = find e p rtl start :=
  find_congr_tests h rtl start

example : PatTestEq (demoEnv demoText) demoPat demoPat' ∧ demoPat ≠ demoPat' ∧
    find (demoEnv demoText) demoPat' false 0 = some { pos := 3, caps := [(1, 0, 1), (0, 0, 3)] } :=
  ⟨demo_patTestEq _, by simp [demoPat, demoPat'], by decide⟩

/-- **Both sides at once**: re-casing the input and the pattern of a case-insensitive search gives
    the same match. -/
theorem find_flip_both (e : Env) (hf : FoldOK e) (t' : List Nat) (ht : SameUpToCase e e.text t')
    (p p' : Pat) (hp : AllCi p) (h : PatTestEq e p p') (rtl : Bool) (start : Nat) :
    find { e with text := t' } p' rtl start = find e p rtl start := by
  have h' : PatTestEq { e with text := t' } p p' := h.text t'
  rw [find_congr_tests h', find_flip hf ht p hp]

example : find { demoEnv demoText with text := demoText' } demoPat' false 0 = find (demoEnv demoText) demoPat false 0 :=
  find_flip_both _ (demo_foldOK _) _ demo_same _ _ (by decide) (demo_patTestEq _) false 0

/-! ### pattern side, closed: the re-casing function (session 4)

`Spec.recase e ch p` (Model/Recase.lean) writes the letters of the case-insensitive tests of `p` in the
other case wherever the choice function `ch` says so: ci literals, ci negated literals, and the lower
and upper endpoint of every range of every ci class *independently* (single members are ranges
`(c, c)`), in negated classes and on both sides of subtractions.  `ch` is indexed by the path to the
letter, so every leaf-by-leaf re-casing of `p` is `recase e ch p` for some `ch`.  The theorems below
have no `PatTestEq` hypothesis; their side condition `RecaseOK e ch p` is decidable and concerns
ranges only: a range whose endpoints were changed must have kept its closure under case partners
(`Spec.rangeCiEq`).  That condition is exact (`range_recase_exact`), always holds for literals and
single class members (`member_recase_ok`) and for a range moved as a whole to the range of its
partners when the partner map is a shift on it (`range_recase_shift_up/down`: `[a-z]` ↦ `[A-Z]`), and
fails for mixed re-casings such as `[a-c]` ↦ `[A-c]` (decided counter-example below). -/

open RegexVerif.Spec.RecaseDemo in
/-- the examples use `Spec.RecaseDemo` (end of Lemmas/Recase.lean): pairs a↔A b↔B c↔C x↔X;
    `(?i)[a-c-[b]]x` re-cased everywhere is `(?i)[A-C-[B]]X`, and the side condition holds -/
example : recase (env tAx) all pat = patUpper ∧ pat ≠ patUpper ∧ RecaseOK (env tAx) all pat ∧
    recase (env tNeg) all negPat = negPatUpper ∧ RecaseOK (env tNeg) all negPat :=
  ⟨rfl, by simp [pat, patUpper], by decide, rfl, by decide⟩

/-- **The range condition is exact.**  `rangeCiEq e a b` (every rune of either range is case-equal to a
    rune of the other) holds if and only if the ci classes `[a]` and `[b]` — or `[^a]` and `[^b]` —
    accept the same runes. -/
theorem range_recase_exact (e : Env) (hf : FoldOK e) (neg : Bool) (a b : Nat × Nat) :
    rangeCiEq e a b = true ↔ ∀ r, (Cls.base neg [b] []).mem e true r = (Cls.base neg [a] []).mem e true r := by
  constructor
  · intro h r
    rw [cls_single_mem, cls_single_mem, rangeCiEq_sound hf h r]
  · intro h
    apply rangeCiEq_complete
    intro r
    have := h r
    rw [cls_single_mem, cls_single_mem] at this
    revert this
    cases ciRanges e [b] r <;> cases ciRanges e [a] r <;> cases neg <;> simp

open RegexVerif.Spec.RecaseDemo in
/-- the boundary: `[a-c]` ↦ `[A-C]` passes, the mixed `[a-c]` ↦ `[A-c]` does not (`[A-c]` contains `_`,
    `D`, …), and the re-cased pattern `(?i)[A-c-[b]]x` then really finds a different result on "_x" -/
example : rangeCiEq (env []) (97, 99) (65, 67) = true ∧ rangeCiEq (env []) (97, 99) (65, 99) = false ∧
    recase (env tUx) loOnly pat = patMixed ∧ ¬ RecaseOK (env tUx) loOnly pat ∧
    find (env tUx) pat false 0 = none ∧
    find (env tUx) patMixed false 0 = some { pos := 2, caps := [(0, 0, 2)] } :=
  ⟨by decide, by decide, rfl, by decide, by decide, by decide⟩

/-- **Literals and single class members may always be re-cased**: the range `(c, c)` with both
    endpoints re-cased by the same bit passes the range check, whatever the tables (`FoldOK`). -/
theorem member_recase_ok (e : Env) (hf : FoldOK e) (b : Bool) (c : Nat) :
    rangeOK e (c, c) (recaseRune e b c, recaseRune e b c) = true :=
  rangeOK_member hf b c

example : recaseRune (RecaseDemo.env []) true 98 = 66 ∧ recaseRune (RecaseDemo.env []) true 95 = 95 := ⟨by decide, by decide⟩

/-- **Patterns without proper ranges need no table condition**: when every class range of `p` is a
    single member `(c, c)` (`Pat.onlyMembers`) and the choice re-cases the two endpoints of a range
    together (`Choice.Paired`), `RecaseOK` holds by `FoldOK` alone — so for literals, negated literals
    and classes of single members (negated, subtracted) every such re-casing preserves all results. -/
theorem recaseOK_of_members (e : Env) (hf : FoldOK e) (ch : Choice) (p : Pat) (hch : ch.Paired)
    (hp : p.onlyMembers = true) : RecaseOK e ch p :=
  recaseOK_members hf p hch hp

/-- `(?i)a[^bc-[c]]` with all letters re-cased -/
example : RecaseDemo.all.Paired ∧
    (Pat.seq (.chr (.one 97 true)) (.chr (.set (.diff (.base true [(98, 98), (99, 99)] []) (.base false [(99, 99)] [])) true))).onlyMembers = true ∧
    RecaseDemo.pat.onlyMembers = false :=
  ⟨fun _ _ => rfl, rfl, rfl⟩

/-- **A range re-cased as a whole, upper to lower** (`[A-Z]` ↦ `[a-z]`): when every rune `x` of
    `lo … hi` has the case partner `x + d`, re-casing both endpoints gives `lo+d … hi+d` and passes. -/
theorem range_recase_shift_up (e : Env) (hf : FoldOK e) (lo hi d : Nat)
    (h : ∀ x, lo ≤ x → x ≤ hi → e.partner x = some (x + d)) (hlh : lo ≤ hi) :
    (recaseRune e true lo, recaseRune e true hi) = (lo + d, hi + d) ∧
    rangeOK e (lo, hi) (recaseRune e true lo, recaseRune e true hi) = true := by
  have h1 : recaseRune e true lo = lo + d := by simp [recaseRune, h lo (Nat.le_refl _) hlh]
  have h2 : recaseRune e true hi = hi + d := by simp [recaseRune, h hi hlh (Nat.le_refl _)]
  rw [h1, h2]
  refine ⟨rfl, ?_⟩
  unfold rangeOK
  rw [rangeCiEq_shift_up hf h]
  exact Bool.or_true _

/-- **A range re-cased as a whole, lower to upper** (`[a-z]` ↦ `[A-Z]`): every rune `x` of `lo … hi`
    has the case partner `x - d`. -/
theorem range_recase_shift_down (e : Env) (hf : FoldOK e) (lo hi d : Nat) (hd : d ≤ lo)
    (h : ∀ x, lo ≤ x → x ≤ hi → e.partner x = some (x - d)) (hlh : lo ≤ hi) :
    (recaseRune e true lo, recaseRune e true hi) = (lo - d, hi - d) ∧
    rangeOK e (lo, hi) (recaseRune e true lo, recaseRune e true hi) = true := by
  have h1 : recaseRune e true lo = lo - d := by simp [recaseRune, h lo (Nat.le_refl _) hlh]
  have h2 : recaseRune e true hi = hi - d := by simp [recaseRune, h hi hlh (Nat.le_refl _)]
  rw [h1, h2]
  refine ⟨rfl, ?_⟩
  unfold rangeOK
  rw [rangeCiEq_shift_down hf hd hlh h]
  exact Bool.or_true _

/-- the demo tables shift a-c down by 32 and A-C up by 32 -/
example : (∀ x, 97 ≤ x → x ≤ 99 → (RecaseDemo.env []).partner x = some (x - 32)) ∧
    (∀ x, 65 ≤ x → x ≤ 67 → (RecaseDemo.env []).partner x = some (x + 32)) := by
  constructor
  · intro x h1 h2
    have hx : x = 97 ∨ x = 98 ∨ x = 99 := by omega
    rcases hx with rfl | rfl | rfl <;> rfl
  · intro x h1 h2
    have hx : x = 65 ∨ x = 66 ∨ x = 67 := by omega
    rcases hx with rfl | rfl | rfl <;> rfl

/-- **A re-cased pattern has the same character tests.**  If the tables are closed under case
    partners and every range that `ch` changes passes the range check, then `recase e ch p` has the
    shape of `p` and each of its character tests accepts exactly the runes the corresponding test of
    `p` accepts — for ci literals, ci negated literals, ci classes with negation and subtraction. -/
theorem recase_patTestEq (e : Env) (hf : FoldOK e) (ch : Choice) (p : Pat) (hok : RecaseOK e ch p) :
    PatTestEq e p (recase e ch p) :=
  recase_patTestEq' hf p ch hok

/-- **Re-casing the pattern changes no list of successes** (no `PatTestEq` hypothesis): for every
    direction and start state, the ordered list of all successes of the re-cased pattern — end
    positions and capture logs — is that of the original pattern. -/
theorem m_recase_invariant (e : Env) (hf : FoldOK e) (ch : Choice) (p : Pat) (hok : RecaseOK e ch p) :
    ∀ (rtl : Bool) (st : St), m e (recase e ch p) rtl st = m e p rtl st :=
  m_congr_tests (recase_patTestEq' hf p ch hok)

open RegexVerif.Spec.RecaseDemo in
example : FoldOK (env tAx) ∧ RecaseOK (env tAx) all pat ∧
    m (env tAx) pat false { pos := 0, caps := [] } = [{ pos := 2, caps := [] }] ∧
    m (env tAx) (recase (env tAx) all pat) false { pos := 0, caps := [] } = [{ pos := 2, caps := [] }] ∧
    m (env tbx) pat false { pos := 0, caps := [] } = [] ∧
    m (env tbx) (recase (env tbx) all pat) false { pos := 0, caps := [] } = [] :=
  ⟨foldOK _, by decide, by decide, by decide, by decide, by decide⟩

/-- **Re-casing the pattern changes no match**: the match found from any start position in either
    direction (`none`, or end position and capture log) is the same for `(?i)[a-c-[b]]x` and
    `(?i)[A-C-[B]]X`, `(?i)[^a-b]+` and `(?i)[^A-B]+`, …  For the Go engine through leg S-ci. -/
theorem find_recase_invariant (e : Env) (hf : FoldOK e) (ch : Choice) (p : Pat) (hok : RecaseOK e ch p)
    (rtl : Bool) (start : Nat) :
    find e (recase e ch p) rtl start = find e p rtl start :=
  find_congr_tests (recase_patTestEq' hf p ch hok) rtl start

open RegexVerif.Spec.RecaseDemo in
example : find (env tAx) pat false 0 = some { pos := 2, caps := [(0, 0, 2)] } ∧
    find (env tAx) patUpper false 0 = some { pos := 2, caps := [(0, 0, 2)] } ∧
    find (env tbx) pat false 0 = none ∧ find (env tbx) patUpper false 0 = none ∧
    -- negated class: "xCaB", `(?i)[^a-b]+` and `(?i)[^A-B]+` both find "xC"
    find (env tNeg) negPat false 0 = some { pos := 2, caps := [(0, 0, 2)] } ∧
    find (env tNeg) (recase (env tNeg) all negPat) false 0 = some { pos := 2, caps := [(0, 0, 2)] } ∧
    find (env tNeg) negPat true 4 = some { pos := 0, caps := [(0, 0, 2)] } ∧
    find (env tNeg) negPatUpper true 4 = some { pos := 0, caps := [(0, 0, 2)] } :=
  ⟨by decide, by decide, by decide, by decide, by decide, by decide, by decide, by decide⟩

/-- **Pattern re-cased and input flipped**: a case-insensitive search finds the same match when the
    letters of the pattern are re-cased by `ch` *and* the case of input letters is changed. -/
theorem find_recase_and_flip (e : Env) (hf : FoldOK e) (t' : List Nat) (ht : SameUpToCase e e.text t')
    (ch : Choice) (p : Pat) (hp : AllCi p) (hok : RecaseOK e ch p) (rtl : Bool) (start : Nat) :
    find { e with text := t' } (recase e ch p) rtl start = find e p rtl start :=
  find_flip_both e hf t' ht p (recase e ch p) hp (recase_patTestEq' hf p ch hok) rtl start

open RegexVerif.Spec.RecaseDemo in
example : SameUpToCase (env tNeg) (env tNeg).text tNeg' ∧ AllCi negPat ∧ AllCi pat ∧
    find { env tNeg with text := tNeg' } (recase (env tNeg) all negPat) false 0 = some { pos := 2, caps := [(0, 0, 2)] } ∧
    find (env tNeg) negPat false 0 = some { pos := 2, caps := [(0, 0, 2)] } :=
  ⟨.cons (by decide) (.cons (by decide) (.cons (by decide) (.cons (by decide) .nil))), by decide, by decide,
   by decide, by decide⟩

/-- **`recase` covers every re-casing.**  `Recased e p p'` (Lemmas/Recase.lean) is the choice-free
    description: `p'` has the shape of `p` and every letter of a case-insensitive test (literal,
    negated literal, each endpoint of each class range, in negated classes and subtractions too) is,
    each occurrence on its own, the original rune or its simple case partner.  These are exactly
    the patterns `recase e ch p`, so the theorems above, quantified over all `ch`, speak about all
    re-casings of the pattern. -/
theorem recased_iff_recase (e : Env) (p p' : Pat) : Recased e p p' ↔ ∃ ch : Choice, p' = recase e ch p :=
  recased_iff_recase' e p p'

open RegexVerif.Spec.RecaseDemo in
/-- both the all-upper-case spelling and the mixed one are re-casings of `(?i)[a-c-[b]]x`; only the
    first passes `RecaseOK` -/
example : Recased (env []) pat patUpper ∧ Recased (env []) pat patMixed ∧ ¬ Recased (env []) pat negPat :=
  ⟨(recased_iff_recase _ _ _).mpr ⟨all, rfl⟩, (recased_iff_recase _ _ _).mpr ⟨loOnly, rfl⟩,
   fun h => by cases h⟩

/-! ### end of the re-casing section -/

end RegexVerif.Props.C20
