/-
C03 — property theorems (stub: not built yet).
-/
namespace RegexVerif.Props.C03
end RegexVerif.Props.C03
