/-
C03 — search acceleration never loses, adds or moves a match.

Model: `RegexVerif.Scan` mirrors `Runner.scan` over an abstract single-position attempt, an abstract
candidate finder and an abstract bump-along update (Model/Scan.lean).  The theorems say when the
accelerated scan is the naive scan, and reduce the soundness of every fact-driven candidate finder to
the truth of the fact at real matches (which is property C04).  Oracle N (leg of this property)
compares the real accelerated find with the naive-scan hook on the engine itself.
-/
import RegexVerif.Lemmas.Scan

namespace RegexVerif.Props.C03
open RegexVerif RegexVerif.Scan RegexVerif.Lemmas.Scan

/-- **Acceleration is transparent.**  With a candidate finder that only skips positions at which
    the program fails, a bump-along update with the same property, and a minimum-length fact that
    holds at every successful attempt, `Runner.scan` (start offset, previous-match length, either
    direction) returns exactly what the naive scan returns: the first successful attempt in scan
    order, resuming at the match's end. -/
theorem acceleration_transparent (finder : Nat → Bool × Nat) (after : Nat → Nat) (attempt : Nat → Option (Nat × Nat))
    (rtl : Bool) (n L : Nat)
    (hS : AttemptShape rtl n attempt) (hF : FinderSound rtl n finder attempt)
    (hA : AfterSound rtl n after attempt) (hM : MinLenSound rtl n L attempt)
    (start : Nat) (prevLen : Int) (hstart : start ≤ n) :
    scan finder after attempt start prevLen rtl n L = (naive attempt start prevLen rtl n).map (Hit.ofSpan rtl) :=
  scan_eq_naive finder after attempt rtl n L hS hF hA hM start prevLen hstart

/-- The shape of every fact-driven candidate finder: jump to the first position in scan order at
    which a *necessary condition* `C` of a match holds (the leading prefix occurs here; the rune at
    the fixed offset is in the set; the literal follows the leading loop; …). -/
def condFinder (C : Nat → Bool) (rtl : Bool) (n pos : Nat) : Bool × Nat :=
  match (scanOrder rtl n pos).find? C with
  | some q => (true, q)
  | none => (false, stopPos rtl n)

theorem find?_scanOrder_spec (C : Nat → Bool) (rtl : Bool) (n : Nat) :
    ∀ (d pos : Nat), dist rtl n pos = d → pos ≤ n →
      match (scanOrder rtl n pos).find? C with
      | some q => C q = true ∧ q ∈ scanOrder rtl n pos ∧
          ∀ p, p ∈ scanOrder rtl n pos → (if rtl then q < p else p < q) → C p = false
      | none => ∀ p, p ∈ scanOrder rtl n pos → C p = false := by
  intro d
  induction d with
  | zero =>
    intro pos hd hpos
    have hstop : pos = stopPos rtl n := by cases rtl <;> simp [dist, stopPos] at hd ⊢ <;> omega
    rw [scanOrder_step rtl n pos hpos, if_pos hstop]
    by_cases hc : C pos = true
    · simp only [List.find?_cons, hc]
      refine ⟨trivial, by simp, ?_⟩
      intro p hp hlt; simp at hp; subst hp; cases rtl <;> simp at hlt
    · simp only [List.find?_cons, hc, List.find?_nil]
      intro p hp; simp at hp; subst hp; simpa using hc
  | succ d ih =>
    intro pos hd hpos
    have hns : pos ≠ stopPos rtl n := by cases rtl <;> simp [dist, stopPos] at hd ⊢ <;> omega
    have hb : bump rtl pos ≤ n := by cases rtl <;> simp [bump, dist] at hd ⊢ <;> omega
    have hbd : dist rtl n (bump rtl pos) = d := by cases rtl <;> simp [bump, dist] at hd ⊢ <;> omega
    rw [scanOrder_step rtl n pos hpos, if_neg hns]
    by_cases hc : C pos = true
    · simp only [List.find?_cons, hc]
      refine ⟨trivial, by simp, ?_⟩
      intro p hp hlt
      simp only [List.mem_cons] at hp
      rcases hp with rfl | hp
      · cases rtl <;> simp at hlt
      · rw [mem_scanOrder] at hp
        cases rtl <;> simp [bump] at hp hlt <;> omega
    · have hcf : C pos = false := by simpa using hc
      simp only [List.find?_cons, hcf]
      have := ih (bump rtl pos) hbd hb
      cases hf : (scanOrder rtl n (bump rtl pos)).find? C with
      | none =>
        rw [hf] at this
        intro p hp
        simp only [List.mem_cons] at hp
        rcases hp with rfl | hp
        · exact hcf
        · exact this p hp
      | some q =>
        rw [hf] at this
        obtain ⟨h1, h2, h3⟩ := this
        refine ⟨h1, by simp [h2], ?_⟩
        intro p hp hlt
        simp only [List.mem_cons] at hp
        rcases hp with rfl | hp
        · exact hcf
        · exact h3 p hp hlt

/-- **A finder that jumps to the next position satisfying a necessary condition of a match is
    sound.**  If `C p` holds at every position where the program matches (that is: the published
    fact is true at every real match — property C04), then skipping to the first `C`-position loses
    nothing, and "no `C`-position left" means no match is left.  Both directions. -/
theorem condFinder_sound (C : Nat → Bool) (rtl : Bool) (n : Nat) (attempt : Nat → Option (Nat × Nat))
    (hC : ∀ p, p ≤ n → attempt p ≠ none → C p = true) :
    FinderSound rtl n (condFinder C rtl n) attempt := by
  intro pos hpos
  have hspec := find?_scanOrder_spec C rtl n (dist rtl n pos) pos rfl hpos
  have hfail : ∀ p, p ≤ n → C p = false → attempt p = none := by
    intro p hp hcp
    cases ha : attempt p with
    | none => rfl
    | some m => have := hC p hp (by rw [ha]; simp); rw [this] at hcp; simp at hcp
  unfold condFinder
  cases hf : (scanOrder rtl n pos).find? C with
  | none =>
    rw [hf] at hspec
    cases rtl
    · simp only [Bool.false_eq_true, if_false, stopPos]
      refine ⟨hpos, Nat.le_refl _, by simp, ?_⟩
      intro _ p h1 h2
      exact hfail p h2 (hspec p ((mem_scanOrder false n pos p).mpr (by simp; omega)))
    · simp only [if_true, stopPos]
      refine ⟨Nat.zero_le _, by simp, ?_⟩
      intro _ p _ h1
      exact hfail p (by omega) (hspec p ((mem_scanOrder true n pos p).mpr (by simp; omega)))
  | some q =>
    rw [hf] at hspec
    obtain ⟨_, hq, hbetween⟩ := hspec
    rw [mem_scanOrder] at hq
    cases rtl
    · simp only [Bool.false_eq_true, if_false] at hq ⊢
      refine ⟨hq.1, hq.2, ?_, by simp⟩
      intro _ p h1 h2
      exact hfail p (by omega) (hbetween p ((mem_scanOrder false n pos p).mpr (by simp; omega)) (by simpa using h2))
    · simp only [if_true] at hq ⊢
      refine ⟨hq, ?_, by simp⟩
      intro _ p h1 h2
      exact hfail p (by omega) (hbetween p ((mem_scanOrder true n pos p).mpr (by simpa using h2)) (by simpa using h1))

/-- Corollary: with fact-driven finding, no bump-along (`after = id`) and no length cut-off, the
    scan is the naive scan as soon as the fact holds at every real match. -/
theorem fact_driven_scan_eq_naive (C : Nat → Bool) (attempt : Nat → Option (Nat × Nat)) (rtl : Bool) (n : Nat)
    (hS : AttemptShape rtl n attempt) (hC : ∀ p, p ≤ n → attempt p ≠ none → C p = true)
    (start : Nat) (prevLen : Int) (hstart : start ≤ n) :
    scan (condFinder C rtl n) id attempt start prevLen rtl n 0 = (naive attempt start prevLen rtl n).map (Hit.ofSpan rtl) := by
  apply scan_eq_naive _ _ _ rtl n 0 hS (condFinder_sound C rtl n attempt hC) _ _ start prevLen hstart
  · intro q _ _
    cases rtl
    · simp only [Bool.false_eq_true, if_false, id]; exact ⟨Nat.le_refl _, by assumption, fun p h1 h2 => by omega⟩
    · simp only [if_true, id]; exact ⟨Nat.le_refl _, fun p h1 h2 => by omega⟩
  · intro p i l _ _; cases rtl <;> simp

/-- **The minimum-length cut-off is sound as soon as the fact is**: a successful attempt needs at
    least `L` runes ahead, so positions with fewer are skipped without loss (this is `tooShort`). -/
theorem minLen_cutoff_sound (rtl : Bool) (n L pos : Nat) (attempt : Nat → Option (Nat × Nat))
    (hS : AttemptShape rtl n attempt) (hM : MinLenSound rtl n L attempt) (hpos : pos ≤ n)
    (h : tooShort rtl n L pos = true) : naiveFrom attempt rtl n pos = none :=
  naiveFrom_eq_none attempt rtl n pos (tooShort_all_fail rtl n L pos attempt hS hM hpos h)

/-! ### non-vacuity: `ab` on "xabab" with the leading-literal condition "an `a` is here" -/

def demoAttempt : Nat → Option (Nat × Nat) := fun p => if p = 1 ∨ p = 3 then some (p, 2) else none
def demoC : Nat → Bool := fun p => p = 1 || p = 3

example : AttemptShape false 5 demoAttempt := by
  intro p i l hp h; simp [demoAttempt] at h; simp; omega
example : ∀ p, p ≤ 5 → demoAttempt p ≠ none → demoC p = true := by
  intro p hp h; simp [demoAttempt] at h; simp [demoC]; omega
example : scan (condFinder demoC false 5) id demoAttempt 0 (-1) false 5 0 = some ⟨1, 2, 3⟩ := by decide
example : condFinder demoC false 5 2 = (true, 3) ∧ condFinder demoC false 5 4 = (false, 5) := by decide

end RegexVerif.Props.C03
