/-
C03 — search acceleration never loses, adds or moves a match.

Model: `RegexVerif.Scan` mirrors `Runner.scan` over an abstract single-position attempt, an abstract
candidate finder and an abstract bump-along update (Model/Scan.lean).  The theorems say when the
accelerated scan is the naive scan, and reduce the soundness of every fact-driven candidate finder to
the truth of the fact at real matches (which is property C04).  Oracle N (leg of this property)
compares the real accelerated find with the naive-scan hook on the engine itself.

Second half (from `finder_noSearch_sound` on): the candidate finders of runner.go one by one.
Model/Finders.lean mirrors `findFirstCharDefault` and every helper it dispatches to as executable
functions of (published facts, input, position); each `finder_*_sound` derives the soundness of one
finder from the fact it consumes, stated in the form in which C04 delivers it; `finder_default_sound`
follows the dispatch; `findFirstChar_scan_eq_naive` composes with the scan-loop theorem:
facts sound (C04) ⇒ finder sound ⇒ scan = naive.  Leg Fm compares each modelled finder with the real
one (`VerifFindFirstChar`) at every position of generated inputs.
-/
import RegexVerif.Lemmas.Scan
import RegexVerif.Lemmas.Finders
import RegexVerif.Lemmas.BoyerMooreScan
import RegexVerif.Lemmas.StringFilter
import RegexVerif.Lemmas.IndexOf
import RegexVerif.Props.C04

namespace RegexVerif.Props.C03
open RegexVerif RegexVerif.Scan RegexVerif.Lemmas.Scan

/-- **Acceleration is transparent.**  With a candidate finder that only skips positions at which
    the program fails, a bump-along update with the same property, and a minimum-length fact that
    holds at every successful attempt, `Runner.scan` (start offset, previous-match length, either
    direction) returns exactly what the naive scan returns: the first successful attempt in scan
    order, resuming at the match's end. -/
theorem acceleration_transparent (finder : Nat → Bool × Nat) (after : Nat → Nat) (attempt : Nat → Option (Nat × Nat))
    (rtl : Bool) (n L : Nat)
    (hS : AttemptShape rtl n attempt) (hF : FinderSound rtl n finder attempt)
    (hA : AfterSound rtl n after attempt) (hM : MinLenSound rtl n L attempt)
    (start : Nat) (prevLen : Int) (hstart : start ≤ n) :
    scan finder after attempt start prevLen rtl n L = (naive attempt start prevLen rtl n).map (Hit.ofSpan rtl) :=
  scan_eq_naive finder after attempt rtl n L hS hF hA hM start prevLen hstart

/-- The shape of every fact-driven candidate finder: jump to the first position in scan order at
    which a *necessary condition* `C` of a match holds (the leading prefix occurs here; the rune at
    the fixed offset is in the set; the literal follows the leading loop; …). -/
def condFinder (C : Nat → Bool) (rtl : Bool) (n pos : Nat) : Bool × Nat :=
  match (scanOrder rtl n pos).find? C with
  | some q => (true, q)
  | none => (false, stopPos rtl n)

theorem find?_scanOrder_spec (C : Nat → Bool) (rtl : Bool) (n : Nat) :
    ∀ (d pos : Nat), dist rtl n pos = d → pos ≤ n →
      match (scanOrder rtl n pos).find? C with
      | some q => C q = true ∧ q ∈ scanOrder rtl n pos ∧
          ∀ p, p ∈ scanOrder rtl n pos → (if rtl then q < p else p < q) → C p = false
      | none => ∀ p, p ∈ scanOrder rtl n pos → C p = false := by
  intro d
  induction d with
  | zero =>
    intro pos hd hpos
    have hstop : pos = stopPos rtl n := by cases rtl <;> simp [dist, stopPos] at hd ⊢ <;> omega
    rw [scanOrder_step rtl n pos hpos, if_pos hstop]
    by_cases hc : C pos = true
    · simp only [List.find?_cons, hc]
      refine ⟨trivial, by simp, ?_⟩
      intro p hp hlt; simp at hp; subst hp; cases rtl <;> simp at hlt
    · simp only [List.find?_cons, hc, List.find?_nil]
      intro p hp; simp at hp; subst hp; simpa using hc
  | succ d ih =>
    intro pos hd hpos
    have hns : pos ≠ stopPos rtl n := by cases rtl <;> simp [dist, stopPos] at hd ⊢ <;> omega
    have hb : bump rtl pos ≤ n := by cases rtl <;> simp [bump, dist] at hd ⊢ <;> omega
    have hbd : dist rtl n (bump rtl pos) = d := by cases rtl <;> simp [bump, dist] at hd ⊢ <;> omega
    rw [scanOrder_step rtl n pos hpos, if_neg hns]
    by_cases hc : C pos = true
    · simp only [List.find?_cons, hc]
      refine ⟨trivial, by simp, ?_⟩
      intro p hp hlt
      simp only [List.mem_cons] at hp
      rcases hp with rfl | hp
      · cases rtl <;> simp at hlt
      · rw [mem_scanOrder] at hp
        cases rtl <;> simp [bump] at hp hlt <;> omega
    · have hcf : C pos = false := by simpa using hc
      simp only [List.find?_cons, hcf]
      have := ih (bump rtl pos) hbd hb
      cases hf : (scanOrder rtl n (bump rtl pos)).find? C with
      | none =>
        rw [hf] at this
        intro p hp
        simp only [List.mem_cons] at hp
        rcases hp with rfl | hp
        · exact hcf
        · exact this p hp
      | some q =>
        rw [hf] at this
        obtain ⟨h1, h2, h3⟩ := this
        refine ⟨h1, by simp [h2], ?_⟩
        intro p hp hlt
        simp only [List.mem_cons] at hp
        rcases hp with rfl | hp
        · exact hcf
        · exact h3 p hp hlt

/-- **A finder that jumps to the next position satisfying a necessary condition of a match is
    sound.**  If `C p` holds at every position where the program matches (that is: the published
    fact is true at every real match — property C04), then skipping to the first `C`-position loses
    nothing, and "no `C`-position left" means no match is left.  Both directions. -/
theorem condFinder_sound (C : Nat → Bool) (rtl : Bool) (n : Nat) (attempt : Nat → Option (Nat × Nat))
    (hC : ∀ p, p ≤ n → attempt p ≠ none → C p = true) :
    FinderSound rtl n (condFinder C rtl n) attempt := by
  intro pos hpos
  have hspec := find?_scanOrder_spec C rtl n (dist rtl n pos) pos rfl hpos
  have hfail : ∀ p, p ≤ n → C p = false → attempt p = none := by
    intro p hp hcp
    cases ha : attempt p with
    | none => rfl
    | some m => have := hC p hp (by rw [ha]; simp); rw [this] at hcp; simp at hcp
  unfold condFinder
  cases hf : (scanOrder rtl n pos).find? C with
  | none =>
    rw [hf] at hspec
    cases rtl
    · simp only [Bool.false_eq_true, if_false, stopPos]
      refine ⟨hpos, Nat.le_refl _, by simp, ?_⟩
      intro _ p h1 h2
      exact hfail p h2 (hspec p ((mem_scanOrder false n pos p).mpr (by simp; omega)))
    · simp only [if_true, stopPos]
      refine ⟨Nat.zero_le _, by simp, ?_⟩
      intro _ p _ h1
      exact hfail p (by omega) (hspec p ((mem_scanOrder true n pos p).mpr (by simp; omega)))
  | some q =>
    rw [hf] at hspec
    obtain ⟨_, hq, hbetween⟩ := hspec
    rw [mem_scanOrder] at hq
    cases rtl
    · simp only [Bool.false_eq_true, if_false] at hq ⊢
      refine ⟨hq.1, hq.2, ?_, by simp⟩
      intro _ p h1 h2
      exact hfail p (by omega) (hbetween p ((mem_scanOrder false n pos p).mpr (by simp; omega)) (by simpa using h2))
    · simp only [if_true] at hq ⊢
      refine ⟨hq, ?_, by simp⟩
      intro _ p h1 h2
      exact hfail p (by omega) (hbetween p ((mem_scanOrder true n pos p).mpr (by simpa using h2)) (by simpa using h1))

/-- Corollary: with fact-driven finding, no bump-along (`after = id`) and no length cut-off, the
    scan is the naive scan as soon as the fact holds at every real match. -/
theorem fact_driven_scan_eq_naive (C : Nat → Bool) (attempt : Nat → Option (Nat × Nat)) (rtl : Bool) (n : Nat)
    (hS : AttemptShape rtl n attempt) (hC : ∀ p, p ≤ n → attempt p ≠ none → C p = true)
    (start : Nat) (prevLen : Int) (hstart : start ≤ n) :
    scan (condFinder C rtl n) id attempt start prevLen rtl n 0 = (naive attempt start prevLen rtl n).map (Hit.ofSpan rtl) := by
  apply scan_eq_naive _ _ _ rtl n 0 hS (condFinder_sound C rtl n attempt hC) _ _ start prevLen hstart
  · intro q _ _
    cases rtl
    · simp only [Bool.false_eq_true, if_false, id]; exact ⟨Nat.le_refl _, by assumption, fun p h1 h2 => by omega⟩
    · simp only [if_true, id]; exact ⟨Nat.le_refl _, fun p h1 h2 => by omega⟩
  · intro p i l _ _; cases rtl <;> simp

/-- **The minimum-length cut-off is sound as soon as the fact is**: a successful attempt needs at
    least `L` runes ahead, so positions with fewer are skipped without loss (this is `tooShort`). -/
theorem minLen_cutoff_sound (rtl : Bool) (n L pos : Nat) (attempt : Nat → Option (Nat × Nat))
    (hS : AttemptShape rtl n attempt) (hM : MinLenSound rtl n L attempt) (hpos : pos ≤ n)
    (h : tooShort rtl n L pos = true) : naiveFrom attempt rtl n pos = none :=
  naiveFrom_eq_none attempt rtl n pos (tooShort_all_fail rtl n L pos attempt hS hM hpos h)

/-! ### non-vacuity: `ab` on "xabab" with the leading-literal condition "an `a` is here" -/

def demoAttempt : Nat → Option (Nat × Nat) := fun p => if p = 1 ∨ p = 3 then some (p, 2) else none
def demoC : Nat → Bool := fun p => p = 1 || p = 3

example : AttemptShape false 5 demoAttempt := by
  intro p i l hp h; simp [demoAttempt] at h; simp; omega
example : ∀ p, p ≤ 5 → demoAttempt p ≠ none → demoC p = true := by
  intro p hp h; simp [demoAttempt] at h; simp [demoC]; omega
example : scan (condFinder demoC false 5) id demoAttempt 0 (-1) false 5 0 = some ⟨1, 2, 3⟩ := by decide
example : condFinder demoC false 5 2 = (true, 3) ∧ condFinder demoC false 5 4 = (false, 5) := by decide

/-! ## the candidate finders of runner.go, one by one -/

open RegexVerif.Finders RegexVerif.Lemmas.Finders

/-! shared instance: `ab` on "xabab" — successful attempts at 1 and 3 (`demoAttempt` above) -/

def demoText : List Nat := [120, 97, 98, 97, 98]

/-- `ab` right-to-left on "xabab": successful attempts END at 3 and 5 -/
def demoAttemptRtl : Nat → Option (Nat × Nat) := fun p => if p = 3 ∨ p = 5 then some (p - 2, 2) else none

/-- **`NoSearch`, no anchors, no prefix, no first-character set**: `findFirstCharDefault` returns
    true without moving; trivially sound in both directions. -/
theorem finder_noSearch_sound (rtl : Bool) (n : Nat) (attempt : Nat → Option (Nat × Nat)) :
    FinderSound rtl n finderNoSearch attempt :=
  finderNoSearch_sound rtl n attempt

example : finderNoSearch 2 = (true, 2) := rfl

/-- **The anchor block of `findFirstCharDefault`** (`Code.Anchors` has Beginning / Start / EndZ / End;
    the modes `LeadingAnchor_{LeftToRight,RightToLeft}_{Beginning,Start,EndZ,End}` end up here).
    If every anchor bit that is set holds at the position of every successful attempt (C04:
    `leadingAnchor_sound` — `p = 0`, `p = textstart`, `p = end`, `p = end ∨ (p = end-1 ∧ text[p] = '\n')`),
    and the Boyer-Moore prefix, when there is one, occurs at every successful attempt position, then the
    jumps (to `end`, to `end-1`, to `0`), the early exits and the `IsMatch` test lose no match.  Both
    directions; `\Z`'s two legal positions are covered (left-to-right the finder jumps to `end-1` and
    lets the loop bump to `end`; right-to-left it rejects `end-1` unless a newline is there). -/
theorem finder_anchors_sound (lower : Nat → Nat) (a : Anchors) (bm : Option Bm) (rtl : Bool) (text : List Nat)
    (textstart : Nat) (attempt : Nat → Option (Nat × Nat))
    (hA : AnchorFacts a text textstart attempt)
    (hB : ∀ b, bm = some b → BmFact lower b rtl text attempt) :
    FinderSound rtl text.length (finderAnchors lower a bm rtl text textstart) attempt := by
  cases rtl
  · exact finderAnchors_ltr lower a bm text textstart attempt hA hB
  · exact finderAnchors_rtl lower a bm text textstart attempt hA hB

/-- `abc$` right-to-left on "xabc\n": the only successful attempt ends at 4, before the final newline -/
def endzText : List Nat := [120, 97, 98, 99, 10]
def endzAttempt : Nat → Option (Nat × Nat) := fun p => if p = 4 then some (1, 3) else none
def endzAnchors : Anchors := { endZ := true }
def endzBm : Bm := ⟨[97, 98, 99], false⟩

example : AnchorFacts endzAnchors endzText 5 endzAttempt :=
  ⟨by simp [endzAnchors], by simp [endzAnchors],
   by intro _ p hp h; simp [endzAttempt] at h; subst h; right; decide,
   by simp [endzAnchors]⟩
example : ∀ b, some endzBm = some b → BmFact id b true endzText endzAttempt := by
  intro b hb; injection hb with hb; subst hb
  intro p hp h; simp [endzAttempt] at h; subst h; decide
example : finderAnchors id endzAnchors (some endzBm) true endzText 5 5 = (false, 5) ∧
    finderAnchors id endzAnchors (some endzBm) true endzText 5 4 = (true, 4) ∧
    finderAnchors id endzAnchors (some endzBm) true endzText 5 3 = (false, 0) := by decide

/-- **A `false` answer of the anchored finder is local.**  For `abc$` right-to-left on "xabc\n" the
    finder answers `(false, 5)` at the end of the input — the prefix does not end there — although the
    match ends at 4, the second legal `\Z` position.  `FinderSound` therefore only lets a `false` answer
    vouch for the positions up to the one the finder left; the scan loop bumps to 4 and finds the match.
    (A finder that jumped to the stop position on this failure loses the match: seeded change
    C15-rtl-endz-bm.) -/
theorem anchored_false_answer_is_local :
    finderAnchors id endzAnchors (some endzBm) true endzText 5 5 = (false, 5) ∧ endzAttempt 4 ≠ none ∧
    FinderSound true endzText.length (finderAnchors id endzAnchors (some endzBm) true endzText 5) endzAttempt ∧
    scan (finderAnchors id endzAnchors (some endzBm) true endzText 5) id endzAttempt 5 (-1) true 5 3 = some ⟨1, 3, 1⟩ := by
  refine ⟨by decide, by decide, ?_, by decide⟩
  apply finder_anchors_sound
  · exact ⟨by simp [endzAnchors], by simp [endzAnchors],
      by intro _ p hp h; simp [endzAttempt] at h; subst h; right; decide, by simp [endzAnchors]⟩
  · intro b hb; injection hb with hb; subst hb
    intro p hp h; simp [endzAttempt] at h; subst h; decide

example : endzAttempt 4 ≠ none := by decide

/-- **`BmPrefix.Scan`** (no anchor bits; the modes `LeadingString_LeftToRight`, `LeadingString_RightToLeft`
    and every other mode whose pattern also has a Boyer-Moore prefix end up here): if the prefix occurs at
    every successful attempt position — starting there left-to-right, ending there right-to-left, under
    the prefix's own comparison (exact, or `unicode.ToLower` of the text when case-insensitive) — then
    the REAL scan (the skip tables `newBmPrefix` builds, the skip loop of `Scan`; Model/BoyerMoore.lean)
    loses no match.  Nothing is assumed about `Scan` any more: that it returns the first occurrence in scan
    order is `bm_scan_sound/complete/none` below; `BmBuilt` only says that the pattern is one `newBmPrefix`
    accepts (non-empty, no rune above U+FFFF) — otherwise the program has no `Code.BmPrefix`. -/
theorem finder_bmScan_sound (lower : Nat → Nat) (b : Bm) (rtl : Bool) (text : List Nat)
    (attempt : Nat → Option (Nat × Nat)) (hW : BmBuilt b rtl) (hB : BmFact lower b rtl text attempt) :
    FinderSound rtl text.length (finderBmScan lower b rtl text) attempt :=
  finderBmScan_sound lower b rtl text attempt hW hB

example : BmBuilt ⟨[97, 98], false⟩ false ∧ BmBuilt ⟨[97, 98], false⟩ true := by
  unfold BmBuilt; decide
example : BmFact id ⟨[97, 98], false⟩ false demoText demoAttempt := by
  intro p hp h; rcases Demo.succ_of (len := 2) h with rfl | rfl <;> decide
example : BmFact id ⟨[97, 98], false⟩ true demoText demoAttemptRtl := by
  intro p hp h; rcases Demo.succRtl_of h with rfl | rfl <;> decide
example : finderBmScan id ⟨[97, 98], false⟩ false demoText 2 = (true, 3) ∧
    finderBmScan id ⟨[97, 98], false⟩ false demoText 4 = (false, 5) ∧
    finderBmScan id ⟨[97, 98], false⟩ true demoText 4 = (true, 3) ∧
    finderBmScan id ⟨[97, 98], false⟩ true demoText 2 = (false, 0) := by decide

/-- **The first-character loop** (`Code.FcPrefix`; `LeadingSet_RightToLeft`, `LeadingChar_RightToLeft`,
    `TrailingAnchor_FixedLength_LeftToRight_EndZ`, wide `LeadingSet_LeftToRight` sets and `NoSearch`
    patterns with a first-character set end up here): if the first character of every match is in the
    set (`text[p]` left-to-right, `text[p-1]` right-to-left; raw, not lower-cased — the loop does not
    fold), stopping at the first such character in scan order loses no match. -/
theorem finder_fc_sound (mem : Nat → Bool) (rtl : Bool) (text : List Nat)
    (attempt : Nat → Option (Nat × Nat)) (hF : FcFact mem rtl text attempt) :
    FinderSound rtl text.length (finderFc mem rtl text) attempt :=
  finderFc_sound mem rtl text attempt hF

example : FcFact (· == 97) false demoText demoAttempt := by
  intro p hp h; rcases Demo.succ_of (len := 2) h with rfl | rfl <;> decide
example : FcFact (· == 98) true demoText demoAttemptRtl := by
  intro p hp h; rcases Demo.succRtl_of h with rfl | rfl <;> decide
example : finderFc (· == 97) false demoText 2 = (true, 3) ∧ finderFc (· == 98) true demoText 4 = (true, 3) ∧
    finderFc (· == 98) true demoText 2 = (false, 0) := by decide

/-- **`TrailingAnchor_FixedLength_LeftToRight_End`** (`findTrailingFixedLengthEnd`): if every match has
    length exactly `L` and ends at the end of the input (C04: `trailingAnchor_sound` + `fixedLength_sound`,
    i.e. `p + L = n`), then `end - L` is the only candidate. -/
theorem finder_trailingEnd_sound (n L : Nat) (attempt : Nat → Option (Nat × Nat))
    (hT : ∀ p, p ≤ n → attempt p ≠ none → p + L = n) :
    FinderSound false n (finderTrailingEnd n L) attempt :=
  finderTrailingEnd_sound n L attempt hT

example : ∀ p, p ≤ 5 → (fun p => if p = 3 then some (3, 2) else none : Nat → Option (Nat × Nat)) p ≠ none → p + 2 = 5 := by
  intro p _ h; simp at h; omega
example : finderTrailingEnd 5 2 1 = (true, 3) ∧ finderTrailingEnd 5 2 4 = (false, 5) := by decide

/-- **`LeadingString_OrdinalIgnoreCase_LeftToRight`** (and `LeadingString_LeftToRight` should it reach
    `findLeadingStringLeftToRight`): if the prefix occurs at the start of every match under the
    comparison the helper selects (exact; ASCII folding for an ASCII prefix; `c == t || ToLower(t) == c`
    otherwise) and `MinRequiredLength` is sound, then jumping to the first occurrence — and giving up
    when it starts too late for the minimum length — loses no match. -/
theorem finder_leadingString_sound (lower : Nat → Nat) (pat : List Nat) (ignoreCase : Bool) (text : List Nat)
    (minLen : Nat) (attempt : Nat → Option (Nat × Nat))
    (hP : ∀ p, p ≤ text.length → attempt p ≠ none → occursAt (stringEq lower ignoreCase pat) pat text p = true)
    (hM : MinLenSound false text.length minLen attempt) :
    FinderSound false text.length (finderLeadingString lower pat ignoreCase text minLen) attempt :=
  finderLeadingString_sound lower pat ignoreCase text minLen attempt hP hM

/-- `(?i)ab` on "xAbab" -/
def ciText : List Nat := [120, 65, 98, 97, 98]

example : ∀ p, p ≤ ciText.length → demoAttempt p ≠ none → occursAt (stringEq id true [97, 98]) [97, 98] ciText p = true := by
  intro p hp h; rcases Demo.succ_of (len := 2) h with rfl | rfl <;> decide
example : MinLenSound false 5 2 demoAttempt := by
  intro p i l hp h
  have := Demo.succ_of (len := 2) (p := p) (a := 1) (b := 3) (by show demoAttempt p ≠ none; rw [h]; simp)
  simp; omega
example : finderLeadingString id [97, 98] true ciText 2 0 = (true, 1) ∧
    finderLeadingString id [97, 98] false ciText 2 0 = (true, 3) ∧
    finderLeadingString id [97, 98] true ciText 2 4 = (false, 5) := by decide

/-- **The leading prefix as C04 delivers it**: with the exact comparison, "occurs at `p`" is
    `(text.drop p).take pat.length = pat` — the conclusion of `C04.leadingPrefix_sound_runes`. -/
theorem occursAt_exact_iff (pat text : List Nat) (p : Nat) :
    occursAt eqExact pat text p = true ↔ (text.drop p).take pat.length = pat :=
  occursAt_exact pat text p

example : occursAt eqExact [97, 98] demoText 3 = true ∧ (demoText.drop 3).take 2 = [97, 98] := by decide

/-- **`LeadingStrings_LeftToRight` / `LeadingStrings_OrdinalIgnoreCase_LeftToRight`**
    (`findLeadingStringsLeftToRight`): if one of the prefixes occurs at the start of every match
    (case-sensitive, or `c == t || ToLower(t) == c`), `MinRequiredLength` is sound and — for the path that
    skips between possible first runes — no prefix is empty and `LeadingPrefixFirstRunes` contains the first
    rune of each prefix, then the helper loses no match. -/
theorem finder_leadingStrings_sound (lower : Nat → Nat) (prefixes : List (List Nat)) (firstRunes : List Nat)
    (ignoreCase : Bool) (text : List Nat) (minLen : Nat) (attempt : Nat → Option (Nat × Nat))
    (hP : StringsFacts lower prefixes firstRunes ignoreCase text attempt)
    (hM : MinLenSound false text.length minLen attempt) :
    FinderSound false text.length (finderLeadingStrings lower prefixes firstRunes ignoreCase text minLen) attempt :=
  finderLeadingStrings_sound lower prefixes firstRunes ignoreCase text minLen attempt hP hM

example : StringsFacts id [[97, 98], [120, 121]] [97, 120] false demoText demoAttempt :=
  ⟨by intro p hp h; refine ⟨[97, 98], by simp, ?_⟩; rcases Demo.succ_of (len := 2) h with rfl | rfl <;> decide,
   by intro _ _ pre hpre; simp at hpre; rcases hpre with rfl | rfl <;> simp,
   by intro _ _ pre hpre c rest hc; simp at hpre; rcases hpre with rfl | rfl <;> simp at hc <;> simp [hc.1]⟩
example : finderLeadingStrings id [[97, 98], [120, 121]] [97, 120] false demoText 2 0 = (true, 1) ∧
    finderLeadingStrings id [[97, 98], [120, 121]] [97, 120] false demoText 2 2 = (true, 3) ∧
    finderLeadingStrings id [[97, 98], [120, 121]] [97, 120] true demoText 2 2 = (true, 3) ∧
    finderLeadingStrings id [[97, 98], [120, 121]] [97, 120] false demoText 2 4 = (false, 5) := by decide

/-- **`LeadingPrefixFirstRunes` is complete**: computed as `leadingPrefixFirstRunes` does (the distinct
    first runes of the prefixes), it contains the first rune of every prefix — the `first` assumption of
    `StringsFacts` holds by construction. -/
theorem firstRunes_complete (prefixes : List (List Nat)) :
    ∀ pre, pre ∈ prefixes → ∀ c rest, pre = c :: rest → c ∈ leadingPrefixFirstRunes prefixes :=
  leadingPrefixFirstRunes_complete prefixes

example : leadingPrefixFirstRunes [[97, 98], [120, 121], [97, 99]] = [97, 120] := by decide

/-- **`FixedDistanceChar_LeftToRight`** (`findFixedDistanceCharLeftToRight`): if the character `c`
    stands `d` positions after the start of every match (`text[p+d] = c`) and `MinRequiredLength` is
    sound, then searching `c` from `pos+d` on and stepping back `d` loses no match. -/
theorem finder_fixedChar_sound (c d : Nat) (text : List Nat) (minLen : Nat) (attempt : Nat → Option (Nat × Nat))
    (hC : ∀ p, p ≤ text.length → attempt p ≠ none → text[p + d]? = some c)
    (hM : MinLenSound false text.length minLen attempt) :
    FinderSound false text.length (finderFixedChar c d text minLen) attempt :=
  finderFixedChar_sound c d text minLen attempt hC hM

example : ∀ p, p ≤ demoText.length → demoAttempt p ≠ none → demoText[p + 1]? = some 98 := by
  intro p hp h; rcases Demo.succ_of (len := 2) h with rfl | rfl <;> decide
example : finderFixedChar 98 1 demoText 2 0 = (true, 1) ∧ finderFixedChar 98 1 demoText 2 2 = (true, 3) ∧
    finderFixedChar 98 1 demoText 2 4 = (false, 5) := by decide

/-- **`FixedDistanceString_LeftToRight`** (`findFixedDistanceStringLeftToRight`): the same for a
    case-sensitive literal at distance `d`. -/
theorem finder_fixedString_sound (lit : List Nat) (d : Nat) (text : List Nat) (minLen : Nat)
    (attempt : Nat → Option (Nat × Nat))
    (hC : ∀ p, p ≤ text.length → attempt p ≠ none → occursAt eqExact lit text (p + d) = true)
    (hM : MinLenSound false text.length minLen attempt) :
    FinderSound false text.length (finderFixedString lit d text minLen) attempt :=
  finderFixedString_sound lit d text minLen attempt hC hM

/-- `.ab` on "xxabab": successful attempts at 1 and 3 -/
def fdText : List Nat := [120, 120, 97, 98, 97, 98]
def fdAttempt : Nat → Option (Nat × Nat) := fun p => if p = 1 ∨ p = 3 then some (p, 3) else none

example : ∀ p, p ≤ fdText.length → fdAttempt p ≠ none → occursAt eqExact [97, 98] fdText (p + 1) = true := by
  intro p hp h; rcases Demo.succ_of (len := 3) h with rfl | rfl <;> decide
example : finderFixedString [97, 98] 1 fdText 3 0 = (true, 1) ∧ finderFixedString [97, 98] 1 fdText 3 2 = (true, 3) ∧
    finderFixedString [97, 98] 1 fdText 3 4 = (false, 6) := by decide

/-- **`FixedDistanceSets_LeftToRight` and `LeadingSet_LeftToRight`** (`findFixedDistanceSetsLeftToRight`):
    if at every match each published set contains the character at its distance
    (`fixedDistanceSetsMatchAt`, membership as `charInFixedDistanceSet` computes it: `Chars`, else `Range`,
    else the `CharSet`), the list is non-empty and its first set carries its `CharSet`, and
    `MinRequiredLength` is sound, then searching the primary set and checking the others loses no match. -/
theorem finder_fixedSets_sound (sets : List FDSet) (text : List Nat) (minLen : Nat) (attempt : Nat → Option (Nat × Nat))
    (hwf : ∃ primary rest, sets = primary :: rest ∧ primary.set.isSome = true)
    (hS : ∀ p, p ≤ text.length → attempt p ≠ none → fixedSetsMatchAt sets text p = true)
    (hM : MinLenSound false text.length minLen attempt) :
    FinderSound false text.length (finderFixedSets sets text minLen) attempt :=
  finderFixedSets_sound sets text minLen attempt hwf hS hM

/-- `.[ab][a-b]` : a `Chars` set at distance 1 and a `Range` set at distance 2 -/
def fdSets : List FDSet :=
  [{ chars := [97, 98], set := some (fun c => c == 97 || c == 98), distance := 1 },
   { range := some (97, 98), set := some (fun c => c == 97 || c == 98), distance := 2 }]

example : ∀ p, p ≤ fdText.length → fdAttempt p ≠ none → fixedSetsMatchAt fdSets fdText p = true := by
  intro p hp h; rcases Demo.succ_of (len := 3) h with rfl | rfl <;> decide
example : finderFixedSets fdSets fdText 3 0 = (true, 1) ∧ finderFixedSets fdSets fdText 3 4 = (false, 6) := by decide

/-- **`LiteralAfterLoop_LeftToRight`** (`findLiteralAfterLoopLeftToRight`): if from the start of every
    match a run of loop-set characters leads to an occurrence of the literal (string, one of `Chars`, or
    `Char`), and `MinRequiredLength` is sound, then searching the literal and walking back over the loop set
    (not beyond the current position) loses no match. -/
theorem finder_literalAfterLoop_sound (lower : Nat → Nat) (l : LitAfterLoop) (S : Nat → Bool) (text : List Nat)
    (minLen : Nat) (attempt : Nat → Option (Nat × Nat))
    (hset : l.loopSet = some S)
    (hL : LitAfterLoopFact lower l S text attempt)
    (hM : MinLenSound false text.length minLen attempt) :
    FinderSound false text.length (finderLiteralAfterLoop lower l text minLen) attempt :=
  finderLiteralAfterLoop_sound lower l S text minLen attempt hset hL hM

/-- `x*ab` on "xxabab": successful attempts at 0, 1, 2 (ending after the first "ab") and 4 -/
def lalAttempt : Nat → Option (Nat × Nat) := fun p => if p ≤ 2 then some (p, 4 - p) else if p = 4 then some (4, 2) else none
def lalLit : LitAfterLoop := { str := [97, 98], loopSet := some (· == 120) }

example : LitAfterLoopFact id lalLit (· == 120) fdText lalAttempt := by
  intro p hp h
  by_cases h2 : p ≤ 2
  · refine ⟨2, h2, by decide, ?_⟩
    intro j hj1 hj2
    have : j = 0 ∨ j = 1 := by omega
    rcases this with rfl | rfl <;> decide
  · by_cases h4 : p = 4
    · subst h4
      exact ⟨4, Nat.le_refl _, by decide, fun j h1 h2 => by omega⟩
    · simp [lalAttempt, h2, h4] at h
example : finderLiteralAfterLoop id lalLit fdText 2 0 = (true, 0) ∧ finderLiteralAfterLoop id lalLit fdText 2 3 = (true, 4) ∧
    finderLiteralAfterLoop id lalLit fdText 2 5 = (false, 6) := by decide

/-- **`RequiredLandmarkChain_LeftToRight`** (`findRequiredLandmarkChainLeftToRight`): if at every successful
    attempt position `p` the text has, from `p`, a run of leading-loop characters, then a run of characters
    that can be leading whitespace of the first landmark, then an alternative of the first landmark (as
    `requiredLandmarkAlternativeMatch` tests it: optional/required whitespace before, the literal or the
    greedy set run of `MinRepeat…MaxRepeat` characters, required whitespace after), then every later
    landmark in order, each no earlier than the previous core start plus the shortest width of the
    alternative used (`LandmarkFact`) — and `MinRequiredLength` is sound — then the chain search (first
    position of the first landmark, every later landmark from the earliest end of the one before, walk
    back over whitespace and the loop set, not below the current position) loses no match.  The
    assumption that stood here before ("the helper is sound") is gone. -/
theorem finder_landmarkChain_sound (ch : LmChain) (S : Nat → Bool) (first : List LmAlt) (rest : List (List LmAlt))
    (text : List Nat) (minLen : Nat) (attempt : Nat → Option (Nat × Nat))
    (hS : ch.loopSet = some S) (hL : ch.landmarks = first :: rest)
    (hF : LandmarkFact S first rest text attempt)
    (hM : MinLenSound false text.length minLen attempt) :
    FinderSound false text.length (finderLandmarkChain ch text minLen) attempt :=
  finderLandmarkChain_sound ch S first rest text minLen attempt hS hL hF hM

/-- `x*\s*ab(?:cd|c)` as a chain: loop set {x}; landmark 1 = `ab` with optional leading whitespace, landmark 2
    = `cd` or `c`.  On "xx abcd": successful attempts at 0, 1, 2 (all end at 7) and 3. -/
def lmDemoChain : LmChain :=
  { loopSet := some (· == 120),
    landmarks := [[{ literal := [97, 98], leadWs := some (· == 32), minRepeat := 1, maxRepeat := 1 }],
                  [{ literal := [99, 100], minRepeat := 1, maxRepeat := 1 }, { literal := [99], minRepeat := 1, maxRepeat := 1 }]] }
def lmDemoText : List Nat := [120, 120, 32, 97, 98, 99, 100]
def lmDemoAttempt : Nat → Option (Nat × Nat) := fun p => if p ≤ 3 then some (p, 7 - p) else none

example : LandmarkFact (· == 120) [{ literal := [97, 98], leadWs := some (· == 32), minRepeat := 1, maxRepeat := 1 }]
    [[{ literal := [99, 100], minRepeat := 1, maxRepeat := 1 }, { literal := [99], minRepeat := 1, maxRepeat := 1 }]]
    lmDemoText lmDemoAttempt := by
  intro p hp h
  have hp3 : p ≤ 3 := by
    by_cases h3 : p ≤ 3
    · exact h3
    · simp [lmDemoAttempt, h3] at h
  refine ⟨max p 2, 3, _, by omega, by omega, ?_, ?_, List.mem_cons_self, by decide,
    ⟨5, _, by decide, List.mem_cons_self, by decide, trivial⟩⟩
  · intro j h1 h2
    have : j = 0 ∨ j = 1 := by omega
    rcases this with rfl | rfl <;> decide
  · intro j h1 h2
    have : j = 2 := by omega
    subst this; decide
example : finderLandmarkChain lmDemoChain lmDemoText 3 0 = (true, 0) ∧ finderLandmarkChain lmDemoChain lmDemoText 3 1 = (true, 1) ∧
    finderLandmarkChain lmDemoChain lmDemoText 3 4 = (false, 7) := by decide

/-- **`findFirstCharDefault` as a whole.**  Whatever path the dispatch takes — anchor bits, else the
    Boyer-Moore prefix, else the helper of the find mode when `shouldUseFindFirstCharOptimized` says so,
    else the first-character set, else nothing — if the facts that path consumes are true at every
    successful attempt (`FactsSound`; every path now consumes a FACT about matches — for the Boyer-Moore
    prefix `BmFact`, for the required-landmark chain `LandmarkFact` — and no path assumes the soundness or
    the specification of a search routine), the finder only skips positions at which the program fails. -/
theorem finder_default_sound (f : Facts) (text : List Nat) (textstart : Nat) (attempt : Nat → Option (Nat × Nat))
    (h : FactsSound f text textstart attempt) :
    FinderSound f.rtl text.length (finderDefault f text textstart) attempt :=
  finderDefault_sound f text textstart attempt h

/-- `.ab`: mode `FixedDistanceString_LeftToRight`, "ab" at distance 1, minimum length 3 -/
def demoFacts : Facts :=
  { opts := { mode := .fixedDistanceStringLtr, minLen := 3, fixedString := [97, 98], fixedDistance := 1 } }

example : FactsSound demoFacts fdText 0 fdAttempt :=
  ⟨by simp [demoFacts, Anchors.any], by simp [demoFacts], by intro _ b hb; simp [demoFacts] at hb,
   by
    intro _ _ _
    refine ⟨rfl, ?_, ?_⟩
    · intro p i l hp h
      have := Demo.succ_of (len := 3) (p := p) (a := 1) (b := 3) (by show fdAttempt p ≠ none; rw [h]; simp)
      simp [demoFacts, fdText]; omega
    · show ∀ p, p ≤ fdText.length → fdAttempt p ≠ none → occursAt eqExact [97, 98] fdText (p + 1) = true
      intro p hp h; rcases Demo.succ_of (len := 3) h with rfl | rfl <;> decide,
   by intro _ _ h; simp [demoFacts, shouldUse] at h⟩

example : finderDefault demoFacts fdText 0 0 = (true, 1) ∧ finderDefault demoFacts fdText 0 2 = (true, 3) := by decide

/-- **Facts sound ⇒ scan = naive scan** (both directions; `f.rtl` is the direction).  With the real
    dispatch of `findFirstCharDefault` as candidate finder, a sound bump-along update and a sound
    `MinRequiredLength`, `Runner.scan` from any start offset and previous-match length returns the first
    successful attempt in scan order.  Together with C04 (the published facts are true at every match)
    this is C03 for the modelled finders. -/
theorem findFirstChar_scan_eq_naive (f : Facts) (text : List Nat) (textstart : Nat)
    (after : Nat → Nat) (attempt : Nat → Option (Nat × Nat))
    (hS : AttemptShape f.rtl text.length attempt)
    (hF : FactsSound f text textstart attempt)
    (hA : AfterSound f.rtl text.length after attempt)
    (hM : MinLenSound f.rtl text.length f.opts.minLen attempt)
    (start : Nat) (prevLen : Int) (hstart : start ≤ text.length) :
    scan (finderDefault f text textstart) after attempt start prevLen f.rtl text.length f.opts.minLen =
      (naive attempt start prevLen f.rtl text.length).map (Hit.ofSpan f.rtl) :=
  scan_eq_naive _ after attempt f.rtl text.length f.opts.minLen hS
    (finderDefault_sound f text textstart attempt hF) hA hM start prevLen hstart

example : scan (finderDefault demoFacts fdText 0) id fdAttempt 0 (-1) false 6 3 = some ⟨1, 3, 4⟩ := by decide
example : AttemptShape false 6 fdAttempt := by
  intro p i l hp h
  have hp13 := Demo.succ_of (len := 3) (p := p) (a := 1) (b := 3) (by show fdAttempt p ≠ none; rw [h]; simp)
  simp only [fdAttempt, hp13, if_true, Option.some.injEq, Prod.mk.injEq] at h
  simp; omega

/-- the left-to-right instance with no bump-along (`after = id`), in the shape of
    `fact_driven_scan_eq_naive` -/
theorem findFirstChar_scan_eq_naive_ltr (f : Facts) (hdir : f.rtl = false) (text : List Nat) (textstart : Nat)
    (attempt : Nat → Option (Nat × Nat))
    (hS : AttemptShape false text.length attempt) (hF : FactsSound f text textstart attempt)
    (hM : MinLenSound false text.length f.opts.minLen attempt)
    (start : Nat) (prevLen : Int) (hstart : start ≤ text.length) :
    scan (finderDefault f text textstart) id attempt start prevLen false text.length f.opts.minLen =
      (naive attempt start prevLen false text.length).map (Hit.ofSpan false) := by
  have := findFirstChar_scan_eq_naive f text textstart id attempt (by rwa [hdir]) hF
    (by rw [hdir]; intro q hq _; simp only [Bool.false_eq_true, if_false, id]; exact ⟨Nat.le_refl _, hq, fun p h1 h2 => by omega⟩)
    (by rwa [hdir]) start prevLen hstart
  rwa [hdir] at this

example : demoFacts.rtl = false := rfl

/-- the right-to-left instance with no bump-along -/
theorem findFirstChar_scan_eq_naive_rtl (f : Facts) (hdir : f.rtl = true) (text : List Nat) (textstart : Nat)
    (attempt : Nat → Option (Nat × Nat))
    (hS : AttemptShape true text.length attempt) (hF : FactsSound f text textstart attempt)
    (hM : MinLenSound true text.length f.opts.minLen attempt)
    (start : Nat) (prevLen : Int) (hstart : start ≤ text.length) :
    scan (finderDefault f text textstart) id attempt start prevLen true text.length f.opts.minLen =
      (naive attempt start prevLen true text.length).map (Hit.ofSpan true) := by
  have := findFirstChar_scan_eq_naive f text textstart id attempt (by rwa [hdir]) hF
    (by rw [hdir]; intro q _ _; simp only [if_true, id]; exact ⟨Nat.le_refl _, fun p h1 h2 => by omega⟩)
    (by rwa [hdir]) start prevLen hstart
  rwa [hdir] at this

/-- `abc$` right-to-left with the anchor bit EndZ and the Boyer-Moore prefix "abc" -/
def endzFacts : Facts := { rtl := true, anchors := endzAnchors, bm := some endzBm, opts := { mode := .leadingAnchorRtlEndZ, minLen := 3 } }

example : FactsSound endzFacts endzText 5 endzAttempt :=
  ⟨fun _ => ⟨by simp [endzFacts, endzAnchors], by simp [endzFacts, endzAnchors],
      by intro _ p hp h; simp [endzAttempt] at h; subst h; right; decide, by simp [endzFacts, endzAnchors]⟩,
   by intro b hb; simp [endzFacts] at hb; subst hb; intro p hp h; simp [endzAttempt] at h; subst h; decide,
   by intro h; simp [endzFacts, endzAnchors, Anchors.any] at h,
   by intro h; simp [endzFacts, endzAnchors, Anchors.any] at h,
   by intro h; simp [endzFacts, endzAnchors, Anchors.any] at h⟩
example : scan (finderDefault endzFacts endzText 5) id endzAttempt 5 (-1) true 5 3 = some ⟨1, 3, 1⟩ := by decide

/-! ## one mode end to end: C04 ⇒ finder sound ⇒ scan = naive

`TrailingAnchor_FixedLength_LeftToRight_End` consumes only facts whose analyses C04 models
(`findLeadingOrTrailingAnchor(root, false)`, `ComputeMinLength`, `computeMaxLength`), so for it the
chain closes inside Lean, for the specification's own attempt.  (The anchor bits `Code.Anchors`, the
Boyer-Moore prefix and the first-character set come from `getAnchors` / `getPrefix` /
`getFirstCharsPrefix`, which C04 does not model: for those paths the hypothesis of the finder theorem
is discharged per case by leg H of C04.) -/

/-- the specification's single-position attempt in the shape of the scan model (as in
    `C04.minLenSound_spec`) -/
def specAttempt (e : Spec.Env) (p : Spec.Pat) (rtl : Bool) : Nat → Option (Nat × Nat) :=
  fun i => (Spec.attempt e p rtl i).bind (fun st => Spec.lastCap st.caps 0)

/-- **C04 delivers the fact of the trailing-anchor mode**: if the pattern's trailing anchor is `\z`
    and its minimum and maximum lengths coincide, every successful attempt of the specification starts
    exactly `minLen` before the end of the input. -/
theorem spec_trailingEnd_fact (e : Spec.Env) (p : Spec.Pat)
    (ht : Facts.trailingAnchor false p = some .«end») (hk : Facts.maxLen p = some (Facts.minLen p)) :
    ∀ i, i ≤ e.n → specAttempt e p false i ≠ none → i + Facts.minLen p = e.n := by
  intro i hi hne
  unfold specAttempt at hne
  cases hat : Spec.attempt e p false i with
  | none => rw [hat] at hne; simp at hne
  | some st =>
    obtain ⟨y, hy, _, _⟩ := Facts.attempt_success e p false i st hat
    have h1 := C04.trailingAnchor_sound e p false .«end» ht _ y hy
    have h2 := C04.fixedLength_sound e p false _ y hy hk
    have h3 := C04.m_monotone e p false _ y hy
    simp [Spec.anchorHolds] at h1 h2 h3
    omega

/-- **The chain for `TrailingAnchor_FixedLength_LeftToRight_End`**: for a pattern with trailing `\z`
    and fixed length, `findTrailingFixedLengthEnd` is a sound finder for the specification's attempt —
    no hypothesis about the input or the match is left. -/
theorem spec_trailingEnd_finder_sound (e : Spec.Env) (p : Spec.Pat)
    (ht : Facts.trailingAnchor false p = some .«end») (hk : Facts.maxLen p = some (Facts.minLen p)) :
    FinderSound false e.n (finderTrailingEnd e.n (Facts.minLen p)) (specAttempt e p false) :=
  finder_trailingEnd_sound e.n (Facts.minLen p) _ (spec_trailingEnd_fact e p ht hk)

/-- `ab\z`: Concatenate(One a, One b, End) on "xab" -/
def tePat : Spec.Pat := .seq (.chr (.one 97 false)) (.seq (.chr (.one 98 false)) (.anchor .«end»))
def teEnv : Spec.Env := { text := [120, 97, 98], textstart := 0, named := [], word := [], fold := [] }

example : Facts.trailingAnchor false tePat = some .«end» ∧ Facts.maxLen tePat = some (Facts.minLen tePat) := by decide
example : specAttempt teEnv tePat false 1 = some (1, 2) ∧ finderTrailingEnd teEnv.n (Facts.minLen tePat) 0 = (true, 1) := by decide

/-- **`AnchorFacts` is `Spec.anchorHolds`**: the hypothesis of `finder_anchors_sound` for a bit is
    exactly that the specification's anchor predicate (`\A`, `\G`, `\Z`, `\z`) holds at the position of
    every successful attempt — the conclusion of `C04.leadingAnchor_sound`. -/
theorem anchorFacts_of_anchorHolds (e : Spec.Env) (a : Anchors) (attempt : Nat → Option (Nat × Nat))
    (hb : a.beginning = true → ∀ p, p ≤ e.n → attempt p ≠ none → Spec.anchorHolds e .beginning p = true)
    (hs : a.start = true → ∀ p, p ≤ e.n → attempt p ≠ none → Spec.anchorHolds e .start p = true)
    (hz : a.endZ = true → ∀ p, p ≤ e.n → attempt p ≠ none → Spec.anchorHolds e .endz p = true)
    (he : a.«end» = true → ∀ p, p ≤ e.n → attempt p ≠ none → Spec.anchorHolds e .«end» p = true) :
    AnchorFacts a e.text e.textstart attempt := by
  refine ⟨?_, ?_, ?_, ?_⟩
  · intro h p hp ha; have := hb h p hp ha; simpa [Spec.anchorHolds] using this
  · intro h p hp ha; have := hs h p hp ha; simpa [Spec.anchorHolds] using this
  · intro h p hp ha
    have := hz h p hp ha
    simp only [Spec.anchorHolds, Spec.Env.n, Bool.or_eq_true, beq_iff_eq, Bool.and_eq_true] at this
    exact this
  · intro h p hp ha; have := he h p hp ha; simpa [Spec.anchorHolds, Spec.Env.n] using this

example : Spec.anchorHolds teEnv .endz 3 = true ∧ Spec.anchorHolds teEnv .beginning 0 = true := by decide

/-! ## the Boyer-Moore prefix: `newBmPrefix`, `Scan`, `IsMatch` (Model/BoyerMoore.lean)

The tables are the ones `newBmPrefix` builds (leg Bm: the Go arrays EQUAL the model's, both directions), the
scan is the skip loop of `Scan`.  The theorems hold for ALL patterns `newBmPrefix` accepts, all texts, all
start indices and windows `beglimit ≤ index ≤ endlimit ≤ len(text)`, case-sensitive and case-insensitive
(`lower` = `unicode.ToLower` is an arbitrary function here), left-to-right and right-to-left.  An occurrence
is `bmIsMatch`: the (lower-cased) pattern starts at `i` left-to-right, ends at `i` right-to-left, text
characters read through `lower` when case-insensitive. -/

section BoyerMoore
open RegexVerif.BoyerMoore

/-- the window positions in scan direction from `index`: left-to-right the occurrence starts at or after
    `index` and ends within `endlimit`; right-to-left it ends at or before `index` and starts at or after
    `beglimit` -/
def bmInWindow (rtl : Bool) (len index beglimit endlimit i : Nat) : Prop :=
  if rtl then i ≤ index ∧ beglimit + len ≤ i else index ≤ i ∧ i + len ≤ endlimit

/-- `a` comes before `b` in scan direction -/
def bmBefore (rtl : Bool) (a b : Nat) : Prop := if rtl then b < a else a < b

theorem newBmPrefix_built (lower : Nat → Nat) (pat : List Nat) (ci rtl : Bool) (t : Tables)
    (hb : newBmPrefix lower pat ci rtl = some t) :
    t.rtl = rtl ∧ t.ci = ci ∧ t.pattern = (if ci then pat.map lower else pat) ∧ pat ≠ [] ∧
    build t.pattern t.ci t.rtl = some t := by
  unfold newBmPrefix at hb
  obtain ⟨h1, _, h3, h4, h5, _⟩ := Lemmas.BoyerMoore.build_some _ ci rtl t hb
  refine ⟨h3, h4, h5, ?_, by rw [h3, h4, h5]; exact hb⟩
  intro h0; subst h0; simp at h1

/-- **`Scan` is sound**: a returned index lies in the window and the pattern occurs there. -/
theorem bm_scan_sound (lower : Nat → Nat) (pat : List Nat) (ci rtl : Bool) (t : Tables)
    (hb : newBmPrefix lower pat ci rtl = some t) (text : List Nat) (index beglimit endlimit : Nat)
    (h1 : beglimit ≤ index) (h2 : index ≤ endlimit) (h3 : endlimit ≤ text.length)
    (i : Nat) (hs : scan lower t text index beglimit endlimit = some i) :
    bmInWindow rtl t.pattern.length index beglimit endlimit i ∧ bmIsMatch lower ⟨t.pattern, ci⟩ rtl text i = true := by
  obtain ⟨hr, hc, _, _, hb'⟩ := newBmPrefix_built lower pat ci rtl t hb
  rw [hr, hc] at hb'
  have := Lemmas.BoyerMoore.scan_spec lower t.pattern ci rtl t hb' text index beglimit endlimit h1 h2 h3
  rw [hs] at this
  exact ⟨this.1, this.2.1⟩

/-- **`Scan` skips no occurrence**: the returned index is the FIRST window position in scan direction at
    which the pattern occurs — leftmost at or after `index` left-to-right, rightmost ending at or before
    `index` right-to-left.  (This is the statement about the skip tables: `positive[m]` and the negative
    entry of the mismatching rune never exceed the distance to the next possible occurrence.) -/
theorem bm_scan_complete (lower : Nat → Nat) (pat : List Nat) (ci rtl : Bool) (t : Tables)
    (hb : newBmPrefix lower pat ci rtl = some t) (text : List Nat) (index beglimit endlimit : Nat)
    (h1 : beglimit ≤ index) (h2 : index ≤ endlimit) (h3 : endlimit ≤ text.length)
    (i : Nat) (hs : scan lower t text index beglimit endlimit = some i)
    (j : Nat) (hj : bmInWindow rtl t.pattern.length index beglimit endlimit j) (hji : bmBefore rtl j i) :
    bmIsMatch lower ⟨t.pattern, ci⟩ rtl text j = false := by
  obtain ⟨hr, hc, _, _, hb'⟩ := newBmPrefix_built lower pat ci rtl t hb
  rw [hr, hc] at hb'
  have := Lemmas.BoyerMoore.scan_spec lower t.pattern ci rtl t hb' text index beglimit endlimit h1 h2 h3
  rw [hs] at this
  apply this.2.2 j
  cases rtl <;> simp [bmInWindow, bmBefore] at hj hji ⊢ <;> omega

/-- **`Scan` returns -1 only when the pattern occurs nowhere in the window.** -/
theorem bm_scan_none (lower : Nat → Nat) (pat : List Nat) (ci rtl : Bool) (t : Tables)
    (hb : newBmPrefix lower pat ci rtl = some t) (text : List Nat) (index beglimit endlimit : Nat)
    (h1 : beglimit ≤ index) (h2 : index ≤ endlimit) (h3 : endlimit ≤ text.length)
    (hs : scan lower t text index beglimit endlimit = none)
    (j : Nat) (hj : bmInWindow rtl t.pattern.length index beglimit endlimit j) :
    bmIsMatch lower ⟨t.pattern, ci⟩ rtl text j = false := by
  obtain ⟨hr, hc, _, _, hb'⟩ := newBmPrefix_built lower pat ci rtl t hb
  rw [hr, hc] at hb'
  have := Lemmas.BoyerMoore.scan_spec lower t.pattern ci rtl t hb' text index beglimit endlimit h1 h2 h3
  rw [hs] at this
  exact this j hj

/-- `(?i)AbAb` (lower-cased to "abab" by the constructor; `lower` folds A–Z) on "xxaBabAb": left-to-right
    from 0 the scan returns 2, from 3 it returns 4, from 5 nothing; right-to-left from 8 it returns the end 8,
    from 7 the end 6.  The periodic pattern exercises the good-suffix table (`positive = [1, 2, 1, 1]`). -/
def bmLower : Nat → Nat := fun c => if 65 ≤ c ∧ c ≤ 90 then c + 32 else c
def bmText : List Nat := [120, 120, 97, 66, 97, 98, 65, 98]

example : ∃ t, newBmPrefix bmLower [65, 98, 65, 98] true false = some t ∧ t.pattern = [97, 98, 97, 98] ∧
    t.positive = [1, 2, 1, 1] ∧ t.negValue 97 = 1 ∧ t.negValue 98 = 0 ∧ t.negValue 120 = 4 ∧
    scan bmLower t bmText 0 0 8 = some 2 ∧ scan bmLower t bmText 3 0 8 = some 4 ∧ scan bmLower t bmText 5 0 8 = none ∧
    bmIsMatch bmLower ⟨t.pattern, true⟩ false bmText 2 = true ∧ bmIsMatch bmLower ⟨t.pattern, true⟩ false bmText 3 = false :=
  ⟨_, rfl, by decide⟩
example : ∃ t, newBmPrefix bmLower [65, 98, 65, 98] true true = some t ∧ t.positive = [-1, -1, -2, -1] ∧
    t.negValue 97 = 0 ∧ t.negValue 98 = -1 ∧ t.negValue 120 = -4 ∧
    scan bmLower t bmText 8 0 8 = some 8 ∧ scan bmLower t bmText 7 0 8 = some 6 ∧ scan bmLower t bmText 5 0 8 = none :=
  ⟨_, rfl, by decide⟩

/-- **`IsMatch` over the whole input** (what the anchored path of `findFirstCharDefault` calls) is the
    occurrence test the finder model uses: the loop of `matchPattern` and the two window guards compute
    `bmIsMatch`. -/
theorem bm_isMatch_spec (lower : Nat → Nat) (pat : List Nat) (ci rtl : Bool) (t : Tables)
    (hb : newBmPrefix lower pat ci rtl = some t) (text : List Nat) (index : Nat) :
    isMatch lower t text index 0 text.length = bmIsMatch lower ⟨t.pattern, ci⟩ rtl text index := by
  obtain ⟨hr, hc, _, _, hb'⟩ := newBmPrefix_built lower pat ci rtl t hb
  rw [hr, hc] at hb'
  exact Lemmas.BoyerMoore.isMatch_eq lower t.pattern ci rtl t hb' text index

example : ∃ t, newBmPrefix bmLower [65, 98, 65, 98] true true = some t ∧
    isMatch bmLower t bmText 8 0 8 = true ∧ isMatch bmLower t bmText 7 0 8 = false ∧ isMatch bmLower t bmText 3 0 8 = false :=
  ⟨_, rfl, by decide⟩

/-- **The candidate finder behind `Code.BmPrefix` IS its specification**: for every pattern `newBmPrefix`
    accepts, the real scan answers, from every position, what "first position in scan order at which
    `IsMatch` holds" answers (`finderBmScanSpec`, the definition this file used to ASSUME for `Scan`). -/
theorem finder_bmScan_eq_spec (lower : Nat → Nat) (b : Bm) (rtl : Bool) (text : List Nat) (hW : BmBuilt b rtl)
    (pos : Nat) (hpos : pos ≤ text.length) :
    finderBmScan lower b rtl text pos = finderBmScanSpec lower b rtl text pos :=
  finderBmScan_eq_spec lower b rtl text hW pos hpos

example : finderBmScan id ⟨[97, 98], false⟩ false demoText 2 = finderBmScanSpec id ⟨[97, 98], false⟩ false demoText 2 := by decide

/-- **Defect D43 (fixed in /repo 649b08f), as a theorem about the old lookup.**  `newBmPrefix` files U+FFFF
    under `negativeUnicode[0xff][0xff]`, but `Scan` consulted the table only for `chTest < 0xffff`; for
    U+FFFF it took the default advance `len(pattern)`.  With that lookup (`old = true`) the pattern
    `\uFFFFa` is not found in "x\uFFFFa" although it occurs at 1; the current lookup finds it. -/
theorem old_scan_skips_ffff :
    ∃ t, newBmPrefix id [0xffff, 97] false false = some t ∧
      scanWith true id t [120, 0xffff, 97] 0 0 3 = none ∧
      bmIsMatch id ⟨t.pattern, false⟩ false [120, 0xffff, 97] 1 = true ∧
      scan id t [120, 0xffff, 97] 0 0 3 = some 1 :=
  ⟨_, rfl, by decide⟩

end BoyerMoore

/-! ## two more modes end to end: C04 ⇒ fact ⇒ finder sound, for the specification's attempt -/

section LoopFactsChain
open RegexVerif.LoopFacts

/-- **The chain for `RequiredLandmarkChain_LeftToRight`**: for a pattern from which Lean computes a landmark
    chain (`C04.landmarkChain_sound`), the chain finder run on that chain is a sound candidate finder for the
    specification's attempt — no hypothesis about the input or the matches is left.  Leg L checks per
    explored pattern that the chain the engine publishes IS that chain (up to dropped later landmarks, for
    which `C04.published_landmarkChain_sound` gives the fact). -/
theorem spec_landmarkChain_finder_sound (e : Spec.Env) (k : Nat) (p : Spec.Pat) (sc : SymChain)
    (h : chainOf k p = some sc) :
    FinderSound false e.n (finderLandmarkChain (sc.toLm e) e.text (Facts.minLen p)) (specAttempt e p false) := by
  obtain ⟨l, ls, hl, hF⟩ := C04.landmarkChain_sound e k p sc h
  exact finder_landmarkChain_sound (sc.toLm e) (sc.loop.test e) (l.map (SymAlt.toLm e)) (Lemmas.LoopFacts.lmOf e ls)
    e.text (Facts.minLen p) (specAttempt e p false) rfl
    (by simp [SymChain.toLm, hl, Lemmas.LoopFacts.lmOf]) hF (C04.minLenSound_spec e p false)

example : ∃ sc, chainOf 4 C04.lmPat = some sc ∧
    finderLandmarkChain (sc.toLm C04.lmEnv) C04.lmEnv.text (Facts.minLen C04.lmPat) 0 = (true, 0) ∧
    finderLandmarkChain (sc.toLm C04.lmEnv) C04.lmEnv.text (Facts.minLen C04.lmPat) 2 = (true, 2) ∧
    finderLandmarkChain (sc.toLm C04.lmEnv) C04.lmEnv.text (Facts.minLen C04.lmPat) 3 = (false, 6) :=
  ⟨_, rfl, by decide⟩

/-- **The chain for `LiteralAfterLoop_LeftToRight`**: a published record whose loop set contains the loop's
    test and whose literal includes the character tests Lean computes (`C04.LalIncluded`, what leg L
    checks) makes `findLiteralAfterLoopLeftToRight` a sound candidate finder for the specification's
    attempt. -/
theorem spec_literalAfterLoop_finder_sound (e : Spec.Env) (k : Nat) (p : Spec.Pat) (sl : SymLal)
    (h : lalOf k p = some sl) (lower : Nat → Nat) (l : LitAfterLoop) (S : Nat → Bool) (hset : l.loopSet = some S)
    (hS : ∀ r, sl.loop.test e r = true → S r = true) (hinc : C04.LalIncluded e lower l sl.lit) :
    FinderSound false e.n (finderLiteralAfterLoop lower l e.text (Facts.minLen p)) (specAttempt e p false) :=
  finder_literalAfterLoop_sound lower l S e.text (Facts.minLen p) (specAttempt e p false) hset
    (C04.published_literalAfterLoop_sound e k p sl h lower l S hS hinc) (C04.minLenSound_spec e p false)

example : finderLiteralAfterLoop id { str := [97, 98], loopSet := some (fun c => c == 120 || c == 121) }
    [120, 121, 97, 98, 99] 3 0 = (true, 0) := by decide

end LoopFactsChain

/-! ## ─── the raw-string (byte-level) prefix filters (`stringprefixfilter.go`, slice "strfilter") ───

A filter runs on the UNDECODED string; the facts it relies on are about RUNES of the decoded string.  Below,
`input : List Nat` is the string as bytes, `Utf8.decodeB input` what `for range` yields (one rune per invalid
byte), `Utf8.runesOf input` the runes, `Utf8.byteOff input p` the byte offset of rune `p`, `attempt` the
single-position attempts of the program on `runesOf input`.  `StrFilterSound input attempt f`: for every `startAt`
on a rune boundary, `ok = false` only if no attempt succeeds at a rune whose byte offset is `≥ startAt`; a
candidate is a rune boundary `≥ startAt` and no attempt succeeds at a rune with byte offset in `[startAt, candidate)`. -/
section StringFilters
open RegexVerif.Utf8 RegexVerif.StringFilter RegexVerif.Lemmas.StringFilter
open RegexVerif.Finders hiding Step fixedStep

/-- "é\xffab": runes `é`, U+FFFD (the invalid byte), `a`, `b`; byte offsets 0, 2, 3, 4, 5 -/
def sfInput : List Nat := [0xC3, 0xA9, 0xFF, 97, 98]
/-- one successful attempt, at rune `q` -/
def sfAttempt (q len : Nat) : Nat → Option (Nat × Nat) := fun p => if p = q then some (q, len) else none

theorem sfAttempt_at {q len p : Nat} (h : sfAttempt q len p ≠ none) : p = q := by
  unfold sfAttempt at h; by_cases hp : p = q
  · exact hp
  · simp [hp] at h

theorem sfMinLen (q len L : Nat) (h : q + L ≤ 4) : MinLenSound false (decodeB sfInput).length L (sfAttempt q len) := by
  intro p i l _ hp
  have := sfAttempt_at (p := p) (by rw [hp]; simp)
  subst this
  have : (decodeB sfInput).length = 4 := by decide
  simp [this]; omega

example : runesOf sfInput = [233, 0xFFFD, 97, 98] ∧ (List.range 5).map (byteOff sfInput) = [0, 2, 3, 4, 5] := by decide

/-- **`helpers.IndexStringIgnoreCaseASCII`** (the byte search of the ignore-case filters, mirrored with its skip
    loop over `indexASCIIByteIgnoreCase`): the result is the FIRST byte offset at which the prefix occurs under
    ASCII case folding, and `-1` (`none`) only when it occurs nowhere — for every string and every prefix (the
    same shape as `bm_scan_sound/complete/none`). -/
theorem indexStringIgnoreCaseASCII_first (s pre : List Nat) :
    (∀ i, indexStringIgnoreCaseASCII s pre = some i →
      prefixOf eqAsciiFold pre (s.drop i) = true ∧ ∀ j, j < i → prefixOf eqAsciiFold pre (s.drop j) ≠ true) ∧
    (indexStringIgnoreCaseASCII s pre = none → ∀ j, prefixOf eqAsciiFold pre (s.drop j) ≠ true) :=
  indexStringIgnoreCaseASCII_spec s pre

example : indexStringIgnoreCaseASCII [120, 65, 97, 66, 97, 98] [97, 98] = some 2 ∧
    indexStringIgnoreCaseASCII [120, 65, 97] [97, 98] = none ∧ indexStringIgnoreCaseASCII [120] [] = some 0 := by decide

/-- **`utf8.DecodeLastRuneInString` agrees with the forward decoding, so `stringFixedDistanceCandidateStart` counts
    RUNES.**  From the boundary of rune `ki` it reaches, after `d` backward steps, the boundary of rune `ki - d` —
    one step per invalid byte, one per well-formed multi-byte sequence — and fails exactly when that would lie
    before the rune `ks` of `startAt`.  (The distance is in runes, the walk in bytes: the seeded changes
    C03b / C10b lived between the two.) -/
theorem stringFilter_candidateStart_counts_runes (s : List Nat) (ks d ki : Nat)
    (hki : ki ≤ (decodeB s).length) (hks : ks ≤ ki) :
    candidateStart s (byteOff s ks) d (byteOff s ki) = if ks + d ≤ ki then some (byteOff s (ki - d)) else none :=
  candidateStart_spec s ks d ki hki hks

example : candidateStart sfInput 0 2 (byteOff sfInput 3) = some 2 ∧ candidateStart sfInput 2 2 (byteOff sfInput 2) = none := by decide

/-- **`stringIndexPrefixFilter`** (modes `LeadingString_LeftToRight`, `LeadingString_OrdinalIgnoreCase_LeftToRight`):
    if every match starts with the runes of the prefix (exactly, or under ASCII folding for an ASCII prefix), the
    prefix holds no U+FFFD, and `MinRequiredLength` (runes) is sound, the first BYTE occurrence at or after
    `startAt` is a sound candidate. -/
theorem stringFilter_prefix_sound (pre : List Nat) (ic : Bool) (minLen : Nat) (input : List Nat)
    (attempt : Nat → Option (Nat × Nat)) (hne : pre ≠ []) (hok : PrefixOK ic pre)
    (hP : ∀ p, p ≤ (decodeB input).length → attempt p ≠ none → runeOcc ic input pre p)
    (hM : MinLenSound false (decodeB input).length minLen attempt) :
    StrFilterSound input attempt (prefixFilterBody pre ic minLen) :=
  prefixFilter_sound pre ic minLen input attempt hne hok hP hM

example : PrefixOK false [97, 98] ∧ PrefixOK true [97, 98] := ⟨clean_ascii _ (by decide), by simp [PrefixOK, isASCIIString]⟩
example : ∀ p, p ≤ (decodeB sfInput).length → sfAttempt 2 2 p ≠ none → runeOcc false sfInput [97, 98] p := by
  intro p _ h; rw [sfAttempt_at h]; unfold runeOcc; decide
example : prefixFilterBody [97, 98] false 2 sfInput 0 = (3, true) ∧ prefixFilterBody [65, 66] true 2 sfInput 2 = (3, true) ∧
    prefixFilterBody [97, 98] false 2 sfInput 4 = (0, false) := by decide

/-- **`indexAnyPrefixFallback`** (`LeadingStrings_[OrdinalIgnoreCase_]LeftToRight` without a shared first byte):
    if every match starts with the runes of ONE of the prefixes, the smallest first byte occurrence over all
    prefixes is a sound candidate. -/
theorem stringFilter_prefixesFallback_sound (prefixes : List (List Nat)) (ic : Bool) (minLen : Nat) (input : List Nat)
    (attempt : Nat → Option (Nat × Nat)) (hok : ∀ pre ∈ prefixes, PrefixOK ic pre)
    (hP : ∀ p, p ≤ (decodeB input).length → attempt p ≠ none → ∃ pre ∈ prefixes, runeOcc ic input pre p)
    (hM : MinLenSound false (decodeB input).length minLen attempt) :
    StrFilterSound input attempt (indexAnyPrefixFallback prefixes ic minLen) :=
  prefixesFallback_sound prefixes ic minLen input attempt hok hP hM

example : ∀ p, p ≤ (decodeB sfInput).length → sfAttempt 2 2 p ≠ none → ∃ pre ∈ [[120, 121], [97, 98]], runeOcc false sfInput pre p := by
  intro p _ h; rw [sfAttempt_at h]; exact ⟨[97, 98], by simp, by unfold runeOcc; decide⟩
example : indexAnyPrefixFallback [[120, 121], [97, 98]] false 2 sfInput 0 = (3, true) := by decide

/-- **`asciiStringSetPrefixFilter.index`** (case-sensitive ASCII prefixes with a shared first byte): the scan over
    first bytes with bucket verification is sound under the same fact. -/
theorem stringFilter_prefixesSet_sound (prefixes : List (List Nat)) (minLen : Nat) (f : AsciiSetFilter) (input : List Nat)
    (attempt : Nat → Option (Nat × Nat))
    (hc : compileASCIIStringSetPrefixFilter prefixes false minLen = some f)
    (hP : ∀ p, p ≤ (decodeB input).length → attempt p ≠ none → ∃ pre ∈ prefixes, runeOcc false input pre p)
    (hM : MinLenSound false (decodeB input).length minLen attempt) :
    StrFilterSound input attempt f.index := by
  obtain ⟨c1, c2, c3, c4⟩ := compile_spec prefixes minLen f hc
  exact asciiSetFilter_sound f input attempt (by rw [c1]; exact c3) (by rw [c1]; exact c4) (by rw [c1]; exact hP) (by rw [c2]; exact hM)

example : ((compileASCIIStringSetPrefixFilter [[97, 98], [97, 99]] false 2).map fun f => f.index sfInput 0) = some (3, true) := by decide

/-- **`stringFixedDistanceSetFilter`** (`LeadingSet_LeftToRight` with an ASCII `Chars` list or `Range`): `Q` is the
    scanner's byte test. -/
theorem stringFilter_set_sound (sc : Scanner) (Q : Nat → Bool) (minLen : Nat) (input : List Nat)
    (attempt : Nat → Option (Nat × Nat)) (hQ : ∀ c, Q c = true → c < 128) (hidx : ∀ u, sc.index u = indexByteP Q u)
    (hC : ∀ p, p ≤ (decodeB input).length → attempt p ≠ none → memAt Q (runesOf input) (p + sc.distance) = true)
    (hM : MinLenSound false (decodeB input).length minLen attempt) :
    StrFilterSound input attempt (setFilterBody sc minLen) :=
  setFilter_sound sc Q minLen input attempt hQ hidx hC hM

example : setFilterBody ⟨[97, 98], 0, 0, false, 0⟩ 1 sfInput 0 = (3, true) := by decide

/-- **`stringFixedDistanceCharFilter`** (`FixedDistanceChar_LeftToRight`): if every match has the rune `ch` exactly
    `d` RUNES after its start, the filter is sound — for every `ch`, including U+FFFD (which `strings.IndexRune`
    finds at every invalid byte), surrogates and runes above U+10FFFF (never found, never in a decoded string). -/
theorem stringFilter_fixedChar_sound (ch d minLen : Nat) (input : List Nat) (attempt : Nat → Option (Nat × Nat))
    (hC : ∀ p, p ≤ (decodeB input).length → attempt p ≠ none → (runesOf input)[p + d]? = some ch)
    (hM : MinLenSound false (decodeB input).length minLen attempt) :
    StrFilterSound input attempt (fixedCharFilterBody ch d minLen) :=
  fixedCharFilter_sound ch d minLen input attempt hC hM

example : ∀ p, p ≤ (decodeB sfInput).length → sfAttempt 0 2 p ≠ none → (runesOf sfInput)[p + 1]? = some 0xFFFD := by
  intro p _ h; rw [sfAttempt_at h]; decide
example : fixedCharFilterBody 0xFFFD 1 2 sfInput 0 = (0, true) ∧ fixedCharFilterBody 97 2 3 sfInput 0 = (0, true) ∧
    fixedCharFilterBody 97 2 3 sfInput 2 = (0, false) := by decide

/-- **`stringFixedDistanceStringFilter`** (`FixedDistanceString_LeftToRight`). -/
theorem stringFilter_fixedString_sound (lit : List Nat) (d minLen : Nat) (input : List Nat) (attempt : Nat → Option (Nat × Nat))
    (hne : lit ≠ []) (hc : Clean lit)
    (hC : ∀ p, p ≤ (decodeB input).length → attempt p ≠ none → occursAt eqExact (runesOf lit) (runesOf input) (p + d) = true)
    (hM : MinLenSound false (decodeB input).length minLen attempt) :
    StrFilterSound input attempt (fixedStringFilterBody lit d minLen) :=
  fixedStringFilter_sound lit d minLen input attempt hne hc hC hM

example : ∀ p, p ≤ (decodeB sfInput).length → sfAttempt 1 3 p ≠ none → occursAt eqExact (runesOf [97, 98]) (runesOf sfInput) (p + 1) = true := by
  intro p _ h; rw [sfAttempt_at h]; decide
example : fixedStringFilterBody [97, 98] 1 3 sfInput 0 = (2, true) ∧ fixedStringFilterBody [97, 98] 1 3 sfInput 3 = (0, false) := by decide

/-- **`stringLiteralAfterLoopFilter`** (`LiteralAfterLoop_LeftToRight`): if every match contains the literal (string,
    one of `Chars`, or `Char`) somewhere at or after its start, "the literal occurs in `input[startAt:]`" loses
    no match; the candidate is `startAt` itself. -/
theorem stringFilter_literalAfterLoop_sound (l : LitB) (minLen : Nat) (input : List Nat) (attempt : Nat → Option (Nat × Nat))
    (hstr : l.str.isEmpty = false → PrefixOK l.strIgnoreCase l.str)
    (hL : ∀ p, p ≤ (decodeB input).length → attempt p ≠ none → ∃ k, p ≤ k ∧ litAtB l (runesOf input) k)
    (hM : MinLenSound false (decodeB input).length minLen attempt) :
    StrFilterSound input attempt (literalAfterLoopFilterBody l minLen) :=
  literalAfterLoopFilter_sound l minLen input attempt hstr hL hM

example : ∀ p, p ≤ (decodeB sfInput).length → sfAttempt 2 2 p ≠ none → ∃ k, p ≤ k ∧ litAtB { char := 98, hasLoopSet := true } (runesOf sfInput) k := by
  intro p _ h; rw [sfAttempt_at h]; exact ⟨3, by omega, by unfold litAtB; decide⟩
example : literalAfterLoopFilterBody { char := 98, hasLoopSet := true } 2 sfInput 2 = (2, true) ∧
    literalAfterLoopFilterBody { char := 0xFFFD, hasLoopSet := true } 1 sfInput 3 = (0, false) ∧
    literalAfterLoopFilterBody { char := 0xFFFD, hasLoopSet := true } 1 sfInput 2 = (2, true) := by decide

/-- **`newStringPrefixFilter`: whatever it installs is sound**, given the facts of the record's find mode
    (`StrFactsSound`: the fact predicates of the candidate finders, on the decoded input, distances in runes). -/
theorem stringFilter_dispatch_sound (code : CodeB) (o : StrOpts) (k : Kind) (f : Filter) (input : List Nat)
    (attempt : Nat → Option (Nat × Nat))
    (ho : code.opts = some o) (hinst : newStringPrefixFilter code = some (k, f))
    (hF : StrFactsSound o input attempt) : StrFilterSound input attempt f :=
  dispatch_sound code o k f input attempt ho hinst hF

def sfCode : CodeB := { opts := some { mode := .leadingStringLtr, minLen := 2, leadingPrefix := [97, 98] } }
example : ((newStringPrefixFilter sfCode).map fun kf => (kf.1, kf.2 sfInput 0)) = some (Kind.«prefix», (3, true)) := by decide
example : StrFactsSound { mode := .leadingStringLtr, minLen := 2, leadingPrefix := [97, 98] } sfInput (sfAttempt 2 2) :=
  ⟨sfMinLen 2 2 2 (by omega), by intro p _ h; rw [sfAttempt_at h]; unfold runeOcc; decide⟩

/-- **… and it installs none where none is sound**: right-to-left programs, programs that use `\G` (the search is
    restarted at the candidate, which would rebind `\G`: `Props.C02`, D2), and a U+FFFD in one of the literal strings
    (every invalid input byte decodes to U+FFFD without containing its three bytes: D22). -/
theorem stringFilter_dispatch_none (code : CodeB)
    (h : code.rightToLeft = true ∨ code.usesStartAnchor = true ∨ ∃ o, code.opts = some o ∧ hasRuneError o = true) :
    newStringPrefixFilter code = none :=
  dispatch_none code h

example : hasRuneError { mode := .leadingStringLtr, leadingPrefix := [97, 0xEF, 0xBF, 0xBD] } = true ∧
    hasRuneError { mode := .fixedDistanceStringLtr, fixedString := [97, 0xFF] } = true := by decide
-- the case the guard exists for: `a\x{FFFD}` on "xa\xffy" matches at rune 1, the byte search for "a\xef\xbf\xbd" finds nothing
example : prefixFilterBody [97, 0xEF, 0xBF, 0xBD] false 2 [120, 97, 0xFF, 121] 0 = (0, false) ∧
    occursAt eqExact (runesOf [97, 0xEF, 0xBF, 0xBD]) (runesOf [120, 97, 0xFF, 121]) 1 = true := by decide

end StringFilters

/-! ## ─── the rune-slice searches of `helpers/indexof.go` (slice "indexof") ───

The candidate finders above are proved against SPECIFIED searches (`findUp`: the first index at which a test
holds).  `Model/IndexOf.lean` mirrors the Go loops themselves, line by line (`none` = the Go function panics);
below, every mirror is proved to return the FIRST (LAST) index satisfying its documented test, `-1` exactly when
there is none, without a panic under the precondition its callers guarantee — and the finders are restated over
the mirrored calls (`…_uses_…`), so that `finder_*_sound` rest on the loops of `indexof.go`, not on a
specification of them.  Leg Ix ties the mirrors to the Go functions.

`FirstIdx P r` / `LastIdx P r`: `r = -1` and `P` holds nowhere, or `r` is an index with `P r` and `P` holds at no
smaller (larger) index.  `RuneAt inp Q i`: `inp[i]` exists and satisfies `Q`.  `SubAt inp find i`:
`inp[i : i+len(find)] = find`. -/
section IndexOfHelpers
open RegexVerif.IndexOf RegexVerif.Lemmas.IndexOf

/-- **`helpers.IndexOfAny(in, find)`**: the first index whose rune is one of `find`; `-1` when there is none (in
    particular for an empty `find`); never panics. -/
theorem indexOfAny_spec (inp find : List Nat) :
    ∃ r, indexOfAny inp find = some r ∧ FirstIdx (RuneAt inp (· ∈ find)) r :=
  ⟨_, indexOfAny_eq inp find, rangeLoop_firstP _ _ (fun c => by simp) inp⟩

example : indexOfAny [120, 98, 97] [97, 98] = some 1 ∧ indexOfAny [120] [97, 98] = some (-1) ∧
    indexOfAny [97] [] = some (-1) := by decide

/-- **`helpers.IndexOfAny1(in, find)`**: the first index holding `find`. -/
theorem indexOfAny1_spec (inp : List Nat) (find : Nat) :
    ∃ r, indexOfAny1 inp find = some r ∧ FirstIdx (RuneAt inp (· = find)) r :=
  ⟨_, rfl, rangeLoop_firstP _ _ (fun c => by simp) inp⟩

example : indexOfAny1 [120, 97, 97] 97 = some 1 ∧ indexOfAny1 [120] 97 = some (-1) ∧ indexOfAny1 [] 97 = some (-1) := by
  decide

/-- **`helpers.IndexOfAny2(in, find1, find2)`**: the first index holding one of the two runes. -/
theorem indexOfAny2_spec (inp : List Nat) (find1 find2 : Nat) :
    ∃ r, indexOfAny2 inp find1 find2 = some r ∧ FirstIdx (RuneAt inp (fun c => c = find1 ∨ c = find2)) r :=
  ⟨_, rfl, rangeLoop_firstP _ _ (fun c => by simp) inp⟩

example : indexOfAny2 [120, 98, 97] 97 98 = some 1 ∧ indexOfAny2 [120] 97 98 = some (-1) := by decide

/-- **`helpers.IndexOfAny3(in, find1, find2, find3)`**: the first index holding one of the three runes. -/
theorem indexOfAny3_spec (inp : List Nat) (find1 find2 find3 : Nat) :
    ∃ r, indexOfAny3 inp find1 find2 find3 = some r ∧
      FirstIdx (RuneAt inp (fun c => c = find1 ∨ c = find2 ∨ c = find3)) r :=
  ⟨_, rfl, rangeLoop_firstP _ _ (fun c => by simp [or_assoc]) inp⟩

example : indexOfAny3 [120, 99, 97] 97 98 99 = some 1 ∧ indexOfAny3 [120] 97 98 99 = some (-1) := by decide

/-- **`helpers.IndexOfAnyInRange(in, first, last)`**: the first index whose rune lies in `first..last` (both ends
    included). -/
theorem indexOfAnyInRange_spec (inp : List Nat) (first last : Nat) :
    ∃ r, indexOfAnyInRange inp first last = some r ∧ FirstIdx (RuneAt inp (fun c => first ≤ c ∧ c ≤ last)) r :=
  ⟨_, rfl, rangeLoop_firstP _ _ (fun c => by simp) inp⟩

example : indexOfAnyInRange [96, 97, 122, 123] 97 122 = some 1 ∧ indexOfAnyInRange [123, 122] 97 122 = some 1 ∧
    indexOfAnyInRange [96, 123] 97 122 = some (-1) := by decide

/-- **`helpers.IndexOfAnyExcept(in, bad)`**: the first index whose rune is NOT one of `bad` (the inner loop with
    its `found` flag is mirrored). -/
theorem indexOfAnyExcept_spec (inp bad : List Nat) :
    ∃ r, indexOfAnyExcept inp bad = some r ∧ FirstIdx (RuneAt inp (fun c => c ∉ bad)) r :=
  ⟨_, rfl, rangeLoop_firstP _ _ (fun c => by simp [foundIn_eq]) inp⟩

example : indexOfAnyExcept [97, 98, 120] [98, 97] = some 2 ∧ indexOfAnyExcept [97, 98] [98, 97] = some (-1) ∧
    indexOfAnyExcept [97] [] = some 0 := by decide

/-- **`helpers.IndexOfAnyExcept1(in, bad)`**: the first index not holding `bad`. -/
theorem indexOfAnyExcept1_spec (inp : List Nat) (bad : Nat) :
    ∃ r, indexOfAnyExcept1 inp bad = some r ∧ FirstIdx (RuneAt inp (· ≠ bad)) r :=
  ⟨_, rfl, rangeLoop_firstP _ _ (fun c => by simp) inp⟩

example : indexOfAnyExcept1 [97, 97, 120] 97 = some 2 ∧ indexOfAnyExcept1 [97, 97] 97 = some (-1) := by decide

/-- **`helpers.IndexOfAnyExcept2(in, bad1, bad2)`**: the first index holding neither rune. -/
theorem indexOfAnyExcept2_spec (inp : List Nat) (bad1 bad2 : Nat) :
    ∃ r, indexOfAnyExcept2 inp bad1 bad2 = some r ∧ FirstIdx (RuneAt inp (fun c => c ≠ bad1 ∧ c ≠ bad2)) r :=
  ⟨_, rfl, rangeLoop_firstP _ _ (fun c => by simp) inp⟩

example : indexOfAnyExcept2 [97, 98, 120] 97 98 = some 2 ∧ indexOfAnyExcept2 [98, 97] 97 98 = some (-1) := by decide

/-- **`helpers.IndexOfAnyExcept3(in, bad1, bad2, bad3)`**: the first index holding none of the three runes. -/
theorem indexOfAnyExcept3_spec (inp : List Nat) (bad1 bad2 bad3 : Nat) :
    ∃ r, indexOfAnyExcept3 inp bad1 bad2 bad3 = some r ∧
      FirstIdx (RuneAt inp (fun c => c ≠ bad1 ∧ c ≠ bad2 ∧ c ≠ bad3)) r :=
  ⟨_, rfl, rangeLoop_firstP _ _ (fun c => by simp [and_assoc]) inp⟩

example : indexOfAnyExcept3 [97, 99, 120] 97 98 99 = some 2 ∧ indexOfAnyExcept3 [99, 97] 97 98 99 = some (-1) := by decide

/-- **`helpers.IndexOfAnyExceptInRange(in, first, last)`**: the first index whose rune lies OUTSIDE `first..last`
    (the two `if`s — above `last`, below `first` — are mirrored). -/
theorem indexOfAnyExceptInRange_spec (inp : List Nat) (first last : Nat) :
    ∃ r, indexOfAnyExceptInRange inp first last = some r ∧
      FirstIdx (RuneAt inp (fun c => ¬ (first ≤ c ∧ c ≤ last))) r :=
  ⟨_, rfl, rangeLoop_firstP _ _ (fun c => by
    by_cases h1 : c > last
    · simp [h1]
    · by_cases h2 : c < first
      · simp [h1, h2]
      · simp [h1, h2]) inp⟩

example : indexOfAnyExceptInRange [97, 122, 123] 97 122 = some 2 ∧ indexOfAnyExceptInRange [122, 96] 97 122 = some 1 ∧
    indexOfAnyExceptInRange [97, 122] 97 122 = some (-1) := by decide

/-- **`helpers.IndexFunc(in, f)`**: the first index whose rune passes `f`. -/
theorem indexFunc_spec (inp : List Nat) (f : Nat → Bool) :
    ∃ r, indexFunc inp f = some r ∧ FirstIdx (RuneAt inp (fun c => f c = true)) r :=
  ⟨_, rfl, rangeLoop_firstP _ _ (fun _ => Iff.rfl) inp⟩

example : indexFunc [96, 98, 97] (· % 2 == 1) = some 2 ∧ indexFunc [96] (· % 2 == 1) = some (-1) := by decide

/-- **`helpers.LastIndexOfAny1(in, find)`**: the LAST index holding `find`; the loop starts at `len(in) - 1` and
    never reads outside the slice. -/
theorem lastIndexOfAny1_spec (inp : List Nat) (find : Nat) :
    ∃ r, lastIndexOfAny1 inp find = some r ∧ LastIdx (RuneAt inp (· = find)) r :=
  downLoop_lastP _ _ (fun c => by simp) inp

example : lastIndexOfAny1 [97, 120, 97, 120] 97 = some 2 ∧ lastIndexOfAny1 [120, 97] 97 = some 1 ∧
    lastIndexOfAny1 [120] 97 = some (-1) ∧ lastIndexOfAny1 [] 97 = some (-1) := by decide

/-- **`helpers.LastIndexOfAnyExcept1(in, not)`**: the last index not holding `not`. -/
theorem lastIndexOfAnyExcept1_spec (inp : List Nat) (not : Nat) :
    ∃ r, lastIndexOfAnyExcept1 inp not = some r ∧ LastIdx (RuneAt inp (· ≠ not)) r :=
  downLoop_lastP _ _ (fun c => by simp) inp

example : lastIndexOfAnyExcept1 [120, 97, 97] 97 = some 0 ∧ lastIndexOfAnyExcept1 [97, 120] 97 = some 1 ∧
    lastIndexOfAnyExcept1 [97] 97 = some (-1) := by decide

/-- **`helpers.LastIndexOfAnyInRange(in, first, last)`**: the last index whose rune lies in `first..last`. -/
theorem lastIndexOfAnyInRange_spec (inp : List Nat) (first last : Nat) :
    ∃ r, lastIndexOfAnyInRange inp first last = some r ∧ LastIdx (RuneAt inp (fun c => first ≤ c ∧ c ≤ last)) r :=
  downLoop_lastP _ _ (fun c => by simp) inp

example : lastIndexOfAnyInRange [97, 122, 123] 97 122 = some 1 ∧ lastIndexOfAnyInRange [96, 123] 97 122 = some (-1) := by
  decide

/-- **`helpers.IndexOf(in, find)`** for a non-empty `find` (the Go code reads `find[0]`; its comment: "Since we
    auto-gen the find code this shouldn't happen"): the FIRST index at which `find` lies in `in` as a contiguous
    sub-slice, `-1` when it lies nowhere; the loop bound `i <= len(in) - len(find)` loses no position and reads
    nothing outside the slice. -/
theorem indexOf_first (inp find : List Nat) (hne : find ≠ []) :
    ∃ r, indexOf inp find = some r ∧ FirstIdx (SubAt inp find) r :=
  ⟨_, indexOf_eq inp find hne, (sub_firstIdx eqExact inp find hne).congr fun i => occursAt_exact find inp i⟩

example : indexOf [120, 97, 97, 98, 97, 98] [97, 98] = some 2 ∧ indexOf [97, 98] [97, 98] = some 0 ∧
    indexOf [120, 97, 98] [97, 98] = some 1 ∧ indexOf [97, 97] [97, 98] = some (-1) ∧ indexOf [97] [97, 98] = some (-1) ∧
    indexOf [] [97] = some (-1) := by decide

/-- **`helpers.LastIndexOf(in, find)`** for a non-empty `find`: the LAST index at which `find` lies in `in`; the
    loop starts at `len(in) - len(find)`, the two-rune pre-check (`first`, `last`) rejects no occurrence. -/
theorem lastIndexOf_spec (inp find : List Nat) (hne : find ≠ []) :
    ∃ r, lastIndexOf inp find = some r ∧ LastIdx (SubAt inp find) r := by
  obtain ⟨r, hr, hl⟩ := lastIndexOf_last inp find hne
  exact ⟨r, hr, hl.congr fun i => occursAt_exact find inp i⟩

example : lastIndexOf [97, 98, 97, 98, 120] [97, 98] = some 2 ∧ lastIndexOf [120, 97, 98] [97, 98] = some 1 ∧
    lastIndexOf [97, 98, 120] [97, 98] = some 0 ∧ lastIndexOf [97, 97] [97, 98] = some (-1) ∧
    lastIndexOf [97] [97, 98] = some (-1) := by decide

/-- **What "occurs under a comparison" means** (`occursAt eq find in i`, the vocabulary of the finder theorems):
    the needle fits from `i` and every rune of it is matched by the text rune at the same offset. -/
theorem occursAt_iff_pointwise (eq : Nat → Nat → Bool) (find inp : List Nat) (i : Nat) (hi : i ≤ inp.length) :
    occursAt eq find inp i = true ↔
      (i + find.length ≤ inp.length ∧
        ∀ j, j < find.length → ∃ t c, inp[i + j]? = some t ∧ find[j]? = some c ∧ eq t c = true) :=
  occursAt_pointwise eq find inp i hi

example : occursAt (eqLower id) [97, 98] [120, 97, 98] 1 = true ∧ occursAt (eqLower id) [97, 98] [120, 97] 1 = false := by
  decide

/-- **`helpers.IndexOfIgnoreCase(in, find)`** for a non-empty `find`, relative to the oracle `lower` =
    `unicode.ToLower`: the first index at which every rune of `find` equals the text rune or its `ToLower`
    (`eqLower`: `t == c || lower t == c`; the needle is NOT lowered — "find should always be sent in lower-case"). -/
theorem indexOfIgnoreCase_spec (lower : Nat → Nat) (inp find : List Nat) (hne : find ≠ []) :
    ∃ r, indexOfIgnoreCase lower inp find = some r ∧ FirstIdx (fun i => occursAt (eqLower lower) find inp i = true) r :=
  ⟨_, indexOfIgnoreCase_eq lower inp find hne, sub_firstIdx _ inp find hne⟩

example : indexOfIgnoreCase (fun c => if c = 0x212A then 107 else c) [120, 75, 0x212A, 98] [107, 98] = some 2 ∧
    indexOfIgnoreCase id [65, 98] [97, 98] = some (-1) ∧ indexOfIgnoreCase bmLower [65, 66] [97, 98] = some 0 := by decide

/-- **`helpers.IndexOfIgnoreCaseAscii(in, find)`**: the first index at which `find` lies under ASCII case folding
    of BOTH sides (`foldASCII`: `A..Z` ↦ `a..z`, everything else unchanged); `0` for an empty `find`; never panics. -/
theorem indexOfIgnoreCaseAscii_spec (inp find : List Nat) :
    (find = [] → indexOfIgnoreCaseAscii inp find = some 0) ∧
    (find ≠ [] → ∃ r, indexOfIgnoreCaseAscii inp find = some r ∧
      FirstIdx (fun i => occursAt eqAsciiFold find inp i = true) r) :=
  ⟨fun h => by subst h; rfl, fun hne => ⟨_, indexOfIgnoreCaseAscii_eq inp find hne, sub_firstIdx _ inp find hne⟩⟩

example : indexOfIgnoreCaseAscii [120, 65, 90, 97, 122] [97, 90] = some 1 ∧
    indexOfIgnoreCaseAscii [64, 91] [96, 123] = some (-1) ∧ indexOfIgnoreCaseAscii [0x212A] [107] = some (-1) := by decide

/-- **`helpers.StartsWith(in, find)`** for a non-empty `find`: `true` exactly when `in` begins with `find`. -/
theorem startsWith_spec (inp find : List Nat) (hne : find ≠ []) :
    ∃ b, startsWith inp find = some b ∧ (b = true ↔ SubAt inp find 0) :=
  ⟨_, startsWith_eq inp find hne, occursAt_exact find inp 0⟩

example : startsWith [97, 98, 120] [97, 98] = some true ∧ startsWith [97, 120] [97, 98] = some false ∧
    startsWith [97] [97, 98] = some false := by decide

/-- **An empty needle makes the exact searches PANIC** (`find[0]`, `&find[0]` in `bytesEqual`): `IndexOf`,
    `LastIndexOf`, `IndexOfIgnoreCase`, `StartsWith` — the precondition of the four theorems above is needed.
    (Every call site in `runner.go` tests `len(prefix) == 0` / `len(literal) == 0` first, or passes a non-empty
    string; `findLeadingStringsLeftToRight` calls `StartsWith` unguarded only on its position-by-position path,
    which the case-sensitive mode takes only when `LeadingPrefixFirstRunes` is empty, i.e. never with ≥ 2 distinct
    prefixes.) -/
theorem exact_searches_fault_on_empty_needle (lower : Nat → Nat) (inp : List Nat) :
    indexOf inp [] = none ∧ lastIndexOf inp [] = none ∧ indexOfIgnoreCase lower inp [] = none ∧
    startsWith inp [] = none := by
  refine ⟨rfl, rfl, rfl, ?_⟩
  simp [startsWith, slice, bytesEqual]

/-- **`helpers.StartsWithIgnoreCase(in, find)`**, relative to `lower` = `unicode.ToLower`: `true` exactly when every
    rune of `find` equals the rune of `in` at its offset or that rune's `ToLower`; never panics (an empty `find`
    gives `true`). -/
theorem startsWithIgnoreCase_spec (lower : Nat → Nat) (inp find : List Nat) :
    startsWithIgnoreCase lower inp find = some (occursAt (eqLower lower) find inp 0) :=
  startsWithIgnoreCase_eq lower inp find

example : startsWithIgnoreCase bmLower [65, 98, 120] [97, 98] = some true ∧
    startsWithIgnoreCase bmLower [97, 98] [65, 98] = some false ∧ startsWithIgnoreCase id [97] [97, 98] = some false ∧
    startsWithIgnoreCase id [] [] = some true := by decide

/-- **`helpers.Equals(in, start, length, find)`** when the window `in[start : start+length]` lies in the slice and is
    non-empty unless `find` is empty (`bytesEqual` takes `&a[0]`): `true` exactly when `find` is empty or the window
    IS `find` (a window of another length is unequal). -/
theorem equals_spec (inp : List Nat) (start length : Nat) (find : List Nat)
    (hfit : start + length ≤ inp.length) (hwin : find = [] ∨ 0 < length) :
    ∃ b, equals inp start length find = some b ∧ (b = true ↔ (find = [] ∨ (inp.drop start).take length = find)) :=
  ⟨_, equals_eq inp start length find hfit hwin, by simp⟩

example : equals [120, 97, 98] 1 2 [97, 98] = some true ∧ equals [120, 97, 98] 0 2 [97, 98] = some false ∧
    equals [120, 97, 98] 1 1 [97, 98] = some false ∧ equals [120] 1 0 [] = some true ∧
    equals [120, 97] 1 2 [97, 98] = none := by decide

/-- **`helpers.EqualsIgnoreCase(in, start, len(find), find)`** when the window lies in the slice (its only caller,
    `searchvalues.go`, passes `length = len(find)` after testing `len(in)-start >= len(find)`), relative to `lower`:
    `true` exactly when every rune of `find` equals the window's rune or both have the same `ToLower`.  (The loop
    ignores `length`: with another `length` it compares `len(find)` runes from `start` all the same.) -/
theorem equalsIgnoreCase_spec (lower : Nat → Nat) (inp : List Nat) (start : Nat) (find : List Nat)
    (hfit : start + find.length ≤ inp.length) :
    equalsIgnoreCase lower inp start find.length find = some (occursAt (eqLowerBoth lower) find inp start) :=
  equalsIgnoreCase_eq lower inp start find hfit

example : equalsIgnoreCase bmLower [120, 65, 98] 1 2 [97, 66] = some true ∧
    equalsIgnoreCase bmLower [120, 65, 99] 1 2 [97, 66] = some false ∧ equalsIgnoreCase id [120] 1 0 [] = some true := by
  decide

/-! ### the finders over the mirrored calls -/

/-- **`findFixedDistanceCharLeftToRight` over the real `IndexOfAny1`**: the finder with the call
    `helpers.IndexOfAny1(r.Runtext[searchStart:], ch)` spelled out (`-1` ↦ give up, else `searchStart + offset`)
    is the finder model of `finder_fixedChar_sound`, position by position — so that theorem holds for the loop of
    `indexof.go`. -/
theorem finder_fixedChar_uses_indexOfAny1 (c d : Nat) (text : List Nat) (minLen : Nat) (attempt : Nat → Option (Nat × Nat))
    (hC : ∀ p, p ≤ text.length → attempt p ≠ none → text[p + d]? = some c)
    (hM : MinLenSound false text.length minLen attempt) :
    finderFixedCharIx c d text minLen = finderFixedChar c d text minLen ∧
    FinderSound false text.length (finderFixedCharIx c d text minLen) attempt := by
  have h : finderFixedCharIx c d text minLen = finderFixedChar c d text minLen :=
    funext fun pos => finderFixedCharIx_eq c d text minLen pos
  exact ⟨h, h ▸ finder_fixedChar_sound c d text minLen attempt hC hM⟩

example : finderFixedCharIx 98 1 demoText 2 0 = (true, 1) ∧ finderFixedCharIx 98 1 demoText 2 2 = (true, 3) ∧
    finderFixedCharIx 98 1 demoText 2 4 = (false, 5) := by decide

/-- **`findFixedDistanceStringLeftToRight` over the real `IndexOf`.** -/
theorem finder_fixedString_uses_indexOf (lit : List Nat) (d : Nat) (text : List Nat) (minLen : Nat)
    (attempt : Nat → Option (Nat × Nat))
    (hC : ∀ p, p ≤ text.length → attempt p ≠ none → occursAt eqExact lit text (p + d) = true)
    (hM : MinLenSound false text.length minLen attempt) :
    finderFixedStringIx lit d text minLen = finderFixedString lit d text minLen ∧
    FinderSound false text.length (finderFixedStringIx lit d text minLen) attempt := by
  have h : finderFixedStringIx lit d text minLen = finderFixedString lit d text minLen :=
    funext fun pos => finderFixedStringIx_eq lit d text minLen pos
  exact ⟨h, h ▸ finder_fixedString_sound lit d text minLen attempt hC hM⟩

example : finderFixedStringIx [97, 98] 1 fdText 3 0 = (true, 1) ∧ finderFixedStringIx [97, 98] 1 fdText 3 2 = (true, 3) ∧
    finderFixedStringIx [97, 98] 1 fdText 3 4 = (false, 6) := by decide

/-- **`findFixedDistanceSetsLeftToRight` (and `LeadingSet_LeftToRight`) over the real `indexOfSet`**: whichever of
    `IndexOfAny`, `IndexOfAnyExcept`, `IndexOfAnyInRange`, `IndexOfAnyExceptInRange`, `IndexFunc` the dispatcher
    selects for the primary set. -/
theorem finder_fixedSets_uses_indexOfSet (sets : List FDSet) (text : List Nat) (minLen : Nat) (attempt : Nat → Option (Nat × Nat))
    (hwf : ∃ primary rest, sets = primary :: rest ∧ primary.set.isSome = true)
    (hS : ∀ p, p ≤ text.length → attempt p ≠ none → fixedSetsMatchAt sets text p = true)
    (hM : MinLenSound false text.length minLen attempt) :
    finderFixedSetsIx sets text minLen = finderFixedSets sets text minLen ∧
    FinderSound false text.length (finderFixedSetsIx sets text minLen) attempt := by
  have h : finderFixedSetsIx sets text minLen = finderFixedSets sets text minLen :=
    funext fun pos => finderFixedSetsIx_eq sets text minLen pos
  exact ⟨h, h ▸ finder_fixedSets_sound sets text minLen attempt hwf hS hM⟩

example : finderFixedSetsIx fdSets fdText 3 0 = (true, 1) ∧ finderFixedSetsIx fdSets fdText 3 4 = (false, 6) := by decide

/-- **`findLeadingStringLeftToRight` over the real `IndexOf` / `IndexOfIgnoreCaseAscii` / `IndexOfIgnoreCase`**
    (the three-way choice by `ignoreCase` and `isASCIIRunes(prefix)`). -/
theorem finder_leadingString_uses_indexOf (lower : Nat → Nat) (pat : List Nat) (ignoreCase : Bool) (text : List Nat)
    (minLen : Nat) (attempt : Nat → Option (Nat × Nat))
    (hP : ∀ p, p ≤ text.length → attempt p ≠ none → occursAt (stringEq lower ignoreCase pat) pat text p = true)
    (hM : MinLenSound false text.length minLen attempt) :
    finderLeadingStringIx lower pat ignoreCase text minLen = finderLeadingString lower pat ignoreCase text minLen ∧
    FinderSound false text.length (finderLeadingStringIx lower pat ignoreCase text minLen) attempt := by
  have h : finderLeadingStringIx lower pat ignoreCase text minLen = finderLeadingString lower pat ignoreCase text minLen :=
    funext fun pos => finderLeadingStringIx_eq lower pat ignoreCase text minLen pos
  exact ⟨h, h ▸ finder_leadingString_sound lower pat ignoreCase text minLen attempt hP hM⟩

example : finderLeadingStringIx id [97, 98] true ciText 2 0 = (true, 1) ∧
    finderLeadingStringIx id [97, 98] false ciText 2 0 = (true, 3) ∧
    finderLeadingStringIx id [97, 98] true ciText 2 4 = (false, 5) := by decide

/-- **`findLiteralAfterLoopLeftToRight` over the real `indexOfLiteralAfterLoop`** (`IndexOf` /
    `IndexOfIgnoreCaseAscii` / `IndexOfIgnoreCase` for a string, `IndexOfAny` for `Chars`, `IndexOfAny1` for `Char`). -/
theorem finder_literalAfterLoop_uses_helpers (lower : Nat → Nat) (l : LitAfterLoop) (S : Nat → Bool) (text : List Nat)
    (minLen : Nat) (attempt : Nat → Option (Nat × Nat))
    (hset : l.loopSet = some S)
    (hL : LitAfterLoopFact lower l S text attempt)
    (hM : MinLenSound false text.length minLen attempt) :
    finderLiteralAfterLoopIx lower l text minLen = finderLiteralAfterLoop lower l text minLen ∧
    FinderSound false text.length (finderLiteralAfterLoopIx lower l text minLen) attempt := by
  have h : finderLiteralAfterLoopIx lower l text minLen = finderLiteralAfterLoop lower l text minLen :=
    funext fun pos => finderLiteralAfterLoopIx_eq lower l text minLen pos
  exact ⟨h, h ▸ finder_literalAfterLoop_sound lower l S text minLen attempt hset hL hM⟩

example : finderLiteralAfterLoopIx id lalLit fdText 2 0 = (true, 0) ∧ finderLiteralAfterLoopIx id lalLit fdText 2 3 = (true, 4) ∧
    finderLiteralAfterLoopIx id lalLit fdText 2 5 = (false, 6) := by decide

/-- **The helper calls of `findLeadingStringsLeftToRight` and of the landmark chain** are the tests and searches
    their models (`finderLeadingStrings`, `anyPrefixWithFirst`, `lmCore`) use: `StartsWith(r.Runtext[start:], prefix)`
    for a non-empty prefix and `StartsWithIgnoreCase(r.Runtext[start:], prefix)` are `occursAt` at `start`;
    `indexOfAnyRunes(r.Runtext[searchAt:latest+1], firstRunes)` (whichever of `IndexOfAny1/2/3`, `IndexOfAny` its
    `switch` selects) is the specified search for a first rune in `[searchAt, latest]`. -/
theorem finder_leadingStrings_uses_helpers (lower : Nat → Nat) (text pre firstRunes : List Nat) (s e : Nat)
    (he : e ≤ text.length) :
    (pre ≠ [] → startsWith (text.drop s) pre = some (occursAt eqExact pre text s)) ∧
    startsWithIgnoreCase lower (text.drop s) pre = some (occursAt (eqLower lower) pre text s) ∧
    absIdx s (indexOfAnyRunes ((text.take e).drop s) firstRunes) =
      findUp (memAt (fun c => firstRunes.contains c) text) (e - s) s :=
  ⟨fun hne => startsWith_callsite text pre hne s, startsWithIgnoreCase_callsite lower text pre s,
   indexOfAnyRunes_callsite text firstRunes s e he⟩

example : startsWith (fdText.drop 2) [97, 98] = some true ∧ startsWithIgnoreCase id (fdText.drop 3) [97, 98] = some false ∧
    absIdx 1 (indexOfAnyRunes ((fdText.take 5).drop 1) [98, 99]) = some 3 ∧
    absIdx 4 (indexOfAnyRunes ((fdText.take 5).drop 4) [98, 99]) = none := by decide

end IndexOfHelpers

end RegexVerif.Props.C03
