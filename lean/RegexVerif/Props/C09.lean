/-
C09 — property theorems (stub: not built yet).
-/
namespace RegexVerif.Props.C09
end RegexVerif.Props.C09
