/-
C09 — Replace and Split are the fold of the match sequence.

Property theorems about the model `RegexVerif.Model.Replace` of replace.go / split.go /
syntax/replacerdata.go / the replacement scanner of syntax/parser.go.  The model is tied to the Go
code by correspondence leg P (Lean scanner = `syntax.NewReplacerData`; Lean drivers on Go's match
sequence = the strings `Replace`, `ReplaceFunc`, `Split` return), and the hypothesis "the match
sequence is ordered, disjoint and in bounds" is evaluated by the Lean driver on every sequence Go
delivers.

In all statements `ms` is the sequence *as the engine delivers it*: ascending for a left-to-right
pattern, descending for a right-to-left pattern; `none` / `Res.panic` stand for a Go run-time panic.
-/
import RegexVerif.Lemmas.Replace
import RegexVerif.Lemmas.ReplaceStrict
import RegexVerif.Generated.Replace

namespace RegexVerif.Props.C09
open RegexVerif RegexVerif.Replace RegexVerif.Lemmas.Replace

/-- the processed matches in left-to-right text order -/
def inTextOrder (rtl : Bool) (ms : List Match) : List Match := if rtl then ms.reverse else ms

/-! ### a concrete instance used by the non-vacuity examples

text `"abcab a"`, pattern `(a)(b)?`: matches `ab`@0, `ab`@3, `a`@6 (group 2 unset in the last) -/

def exText : List Nat := [97, 98, 99, 97, 98, 32, 97]
def exMs : List Match :=
  [⟨0, 2, [some (0, 1), some (1, 1)]⟩, ⟨3, 2, [some (3, 1), some (4, 1)]⟩, ⟨6, 1, [some (6, 1), none]⟩]
/-- `[$2|$1]` -/
def exPieces : List Piece := [.lit [91], .group 2, .lit [124], .group 1, .lit [93]]

example : validLTR exText exMs = true := by decide
example : validRTL exText exMs.reverse = true := by decide
example : valid true exText exMs.reverse = true ∧ valid false exText exMs = true := by decide

/-! ### Replace -/

/-- **Left-to-right driver = fold.**  For every text, every ascending, disjoint, in-bounds match
    sequence, every rule list and every non-zero count, the loop of `replaceRunnerLTR` does not panic and
    returns the input with each of the first `count` matches (all, for a negative count) replaced in
    place by the expansion of the rules, all other text kept. -/
theorem replaceLTR_eq_fold (text : List Nat) (ms : List Match) (pieces : List Piece) (count : Int)
    (hc : count ≠ 0) (hv : validLTR text ms = true) :
    replaceLTR text ms pieces count = some (spec text (takeCount count ms) (expand pieces text)) := by
  unfold replaceLTR spec
  rw [loopLTR_spec text pieces ms 0 [] count hc hv]
  simp

example : replaceLTR exText exMs exPieces 2
    = some ([91, 98, 124, 97, 93] ++ [99] ++ [91, 98, 124, 97, 93] ++ [32, 97]) := by decide

/-- **Right-to-left driver = the same fold.**  The matches arrive last-to-first; the list-and-reverse
    construction of `replaceRunnerRTL` / `replacementImplRTL` produces exactly the string obtained by
    substituting the processed matches in place, read in text order (so a multi-part replacement
    comes out in rule order and kept text is not reordered). -/
theorem replaceRTL_eq_fold (text : List Nat) (ms : List Match) (pieces : List Piece) (count : Int)
    (hc : count ≠ 0) (hv : validRTL text ms = true) :
    replaceRTL text ms pieces count
      = some (spec text (takeCount count ms).reverse (expand pieces text)) := by
  unfold replaceRTL spec
  rw [loopRTL_spec text pieces ms text.length [] count hc hv (Nat.le_refl _)]
  simp

example : replaceRTL exText exMs.reverse exPieces 2
    = some ([97, 98, 99] ++ [91, 98, 124, 97, 93] ++ [32] ++ [91, 124, 97, 93]) := by decide

/-- **`Replace` = fold, both directions, every count ≥ -1** (count 0: nothing is replaced; no match:
    the input). -/
theorem replace_eq_fold (text : List Nat) (ms : List Match) (pieces : List Piece) (count : Int) (rtl : Bool)
    (hc : -1 ≤ count) (hv : valid rtl text ms = true) :
    replace text ms pieces count rtl
      = .ok (spec text (inTextOrder rtl (takeCount count ms)) (expand pieces text)) := by
  unfold replace
  have h1 : ¬ count < -1 := by omega
  simp only [h1, if_false]
  by_cases h0 : count = 0
  · subst h0
    simp [takeCount, inTextOrder, spec, specBetween, slice_zero_length]
  · simp only [h0, if_false]
    cases ms with
    | nil => simp [takeCount_nil, inTextOrder, spec, specBetween, slice_zero_length]
    | cons m rest =>
      cases rtl with
      | true =>
        have hv' : validRTL text (m :: rest) = true := by simpa [valid] using hv
        simp [inTextOrder, replaceRTL_eq_fold text (m :: rest) pieces count h0 hv', Res.ofOption]
      | false =>
        have hv' : validLTR text (m :: rest) = true := by simpa [valid] using hv
        simp [inTextOrder, replaceLTR_eq_fold text (m :: rest) pieces count h0 hv', Res.ofOption]

/-- **`ReplaceFunc` = fold** with the evaluator's strings, both directions. -/
theorem replaceFunc_eq_fold (text : List Nat) (ms : List Match) (ev : Match → List Nat) (count : Int) (rtl : Bool)
    (hc : -1 ≤ count) (hv : valid rtl text ms = true) :
    replaceFunc text ms ev count rtl = .ok (spec text (inTextOrder rtl (takeCount count ms)) ev) := by
  unfold replaceFunc
  have h1 : ¬ count < -1 := by omega
  simp only [h1, if_false]
  by_cases h0 : count = 0
  · subst h0
    simp [takeCount, inTextOrder, spec, specBetween, slice_zero_length]
  · simp only [h0, if_false]
    cases ms with
    | nil => simp [takeCount_nil, inTextOrder, spec, specBetween, slice_zero_length]
    | cons m rest =>
      cases rtl with
      | true =>
        have hv' : validDesc text.length (m :: rest) = true := by simpa [valid, validRTL] using hv
        simp [inTextOrder, spec, loopFuncRTL_spec text ev (m :: rest) text.length [] count h0 hv' (Nat.le_refl _), Res.ofOption]
      | false =>
        have hv' : validFrom text.length 0 (m :: rest) = true := by simpa [valid, validLTR] using hv
        simp [inTextOrder, spec, loopFuncLTR_spec text ev (m :: rest) 0 [] count h0 hv', Res.ofOption]

/-- **Evaluator path = rules path.**  `ReplaceFunc` with an evaluator that computes the expansion of
    the rules returns the same string as `Replace` with those rules (for every count, also the
    rejected ones; the right-to-left halves agree even without the validity hypothesis, the
    left-to-right halves differ on invalid sequences only in *where* they would panic). -/
theorem replaceFunc_eq (text : List Nat) (ms : List Match) (pieces : List Piece) (count : Int) (rtl : Bool)
    (hv : valid rtl text ms = true) :
    replaceFunc text ms (expand pieces text) count rtl = replace text ms pieces count rtl := by
  by_cases hc : -1 ≤ count
  · rw [replaceFunc_eq_fold text ms _ count rtl hc hv, replace_eq_fold text ms pieces count rtl hc hv]
  · have : count < -1 := by omega
    simp [replaceFunc, replace, this]

example : replaceFunc exText exMs.reverse (expand exPieces exText) (-1) true
    = replace exText exMs.reverse exPieces (-1) true := by decide

/-- the scanner reads `$&` as "group slot 0" whenever group number 0 sits in slot 0 (true of every
    compiled regex) -/
theorem parse_dollar_amp (isWord : Nat → Bool) (env : Env) (h0 : slotOf env 0 = 0) :
    parse isWord env [36, 38] = .ok [Piece.group 0] := by
  simp [parse, newReplacerData, scanLoop, scanDollar, dollar, isDigit, buildData, h0,
    ReplacerData.pieces, decodeRule]

/-- **A replacement string without `$` is one literal**: it parses, for every regex, to the single
    rule "append this text" (the empty string to no rule at all), so `Replace` substitutes it verbatim. -/
theorem parse_plain (isWord : Nat → Bool) (env : Env) (rep : List Nat) (h : dollar ∉ rep) :
    parse isWord env rep = .ok (if rep = [] then [] else [Piece.lit rep]) := by
  simp only [parse, newReplacerData, scanLoop_plain isWord env rep h, buildData_chars]
  by_cases hr : rep = []
  · simp [hr, buildData, ReplacerData.pieces]
  · simp [hr, buildData, ReplacerData.pieces, decodeRule]

/-! the scanner on the ambiguous forms (regex with groups 0, 1 and a group `n` = number 2 in slot 2):
    `$12` is a literal without ECMAScript and "group 1, then `2`" with it; `${1}0`; `${n}`; `${x}`, `$`, `$$` -/
def exWord (c : Nat) : Bool := decide (97 ≤ c ∧ c ≤ 122)
def exEnv (ecma : Bool) : Env := ⟨none, 3, [([110], 2)], ecma⟩

example : parse exWord (exEnv false) [36, 49, 50] = .ok [.lit [36, 49, 50]] := by rfl
example : parse exWord (exEnv true) [36, 49, 50] = .ok [.group 1, .lit [50]] := by rfl
example : parse exWord (exEnv false) [36, 123, 49, 125, 48] = .ok [.group 1, .lit [48]] := by rfl
example : parse exWord (exEnv false) [36, 123, 110, 125, 36, 43] = .ok [.group 2, .lastGroup] := by rfl
example : parse exWord (exEnv false) [36, 123, 120, 125, 36, 36, 36] = .ok [.lit [36, 123, 120, 125, 36, 36]] := by rfl
example : parse exWord (exEnv false) [36, 57, 57, 57, 57, 57, 57, 57, 57, 57, 57, 57] = .error .overflow := by rfl

/-- **Replacing with `$&` is the identity**: for every regex environment, every ordered, disjoint,
    in-bounds match sequence in either direction and every count ≥ -1, `Replace(s, "$&")` is `s`. -/
theorem replace_self_id (isWord : Nat → Bool) (env : Env) (h0 : slotOf env 0 = 0)
    (text : List Nat) (ms : List Match) (count : Int) (rtl : Bool)
    (hc : -1 ≤ count) (hv : valid rtl text ms = true) :
    ∃ pieces, parse isWord env [36, 38] = .ok pieces ∧ replace text ms pieces count rtl = .ok text := by
  refine ⟨[Piece.group 0], parse_dollar_amp isWord env h0, ?_⟩
  rw [replace_eq_fold text ms _ count rtl hc hv]
  have hf : expand [Piece.group 0] text = matchText text := funext (expand_self text)
  rw [hf, spec]
  have hval : validFrom text.length 0 (inTextOrder rtl (takeCount count ms)) = true := by
    cases rtl with
    | true =>
      have hv' : validDesc text.length ms = true := by simpa [valid, validRTL] using hv
      simpa [inTextOrder] using validDesc_reverse _ _ (takeCount_validDesc count ms _ hv')
    | false =>
      have hv' : validFrom text.length 0 ms = true := by simpa [valid, validLTR] using hv
      simpa [inTextOrder] using takeCount_valid _ count ms 0 hv'
  rw [specBetween_id text text.length _ 0 hval, slice_zero_length]

example : slotOf ⟨some [(0, 0), (5, 1)], 2, [], false⟩ 0 = 0 ∧ slotOf ⟨none, 3, [], false⟩ 0 = 0 := by decide

/-- **count = 0 returns the input** — for `Replace` and `ReplaceFunc`, whatever the matches, rules,
    evaluator and direction. -/
theorem count_zero_id (text : List Nat) (ms : List Match) (pieces : List Piece) (ev : Match → List Nat) (rtl : Bool) :
    replace text ms pieces 0 rtl = .ok text ∧ replaceFunc text ms ev 0 rtl = .ok text := by
  simp [replace, replaceFunc]

/-- the fold written as "kept texts interleaved with substitutions": `spec` substitutes *in place* —
    with `f = matched text` the same interleaving is the input itself -/
theorem spec_in_place (text : List Nat) (ms : List Match) (f : Match → List Nat) (hv : validLTR text ms = true) :
    spec text ms f = interleave (gaps text 0 ms) (ms.map f)
      ∧ interleave (gaps text 0 ms) (ms.map (matchText text)) = text := by
  refine ⟨spec_eq_interleave text f ms 0, ?_⟩
  rw [← spec_eq_interleave text (matchText text) ms 0, specBetween_id text text.length ms 0 hv, slice_zero_length]

/-! ### the integer rules of `ReplacerData` -/

/-- what `NewReplacerData` stores for a piece: literals index the string table, group slot `s` is
    `-5 - s`, the specials are `-4 … -1` -/
def encodeRule (strings : List (List Nat)) : Piece → Int × List (List Nat)
  | .lit s => (strings.length, strings ++ [s])
  | .group slot => (-5 - (slot : Int), strings)
  | .leftPortion => (-4, strings)
  | .rightPortion => (-3, strings)
  | .lastGroup => (-2, strings)
  | .wholeString => (-1, strings)

/-- **Rule encoding round trip**: `replacementImpl`'s decoding of the integer that `NewReplacerData`
    writes for a piece is that piece (no group slot collides with a special or a string index). -/
theorem decode_encode (strings : List (List Nat)) (p : Piece) :
    decodeRule (encodeRule strings p).2 (encodeRule strings p).1 = p := by
  cases p with
  | lit s => simp [encodeRule, decodeRule]
  | group slot =>
    have h1 : ¬ (0 : Int) ≤ -5 - (slot : Int) := by omega
    have h2 : -5 - (slot : Int) < -4 := by omega
    have h3 : (-5 - (-5 - (slot : Int))).toNat = slot := by omega
    simp only [encodeRule, decodeRule, if_neg h1, if_pos h2, h3]
  | leftPortion => simp [encodeRule, decodeRule]
  | rightPortion => simp [encodeRule, decodeRule]
  | lastGroup => simp [encodeRule, decodeRule]
  | wholeString => simp [encodeRule, decodeRule]

/-! ### facts regenerated from the Go source on every run (`Generated.Replace`) -/

/-- The two copies of the rule-encoding constants (replace.go and syntax/replacerdata.go) agree
    with each other and with the numbers the model uses (`replaceSpecials = 4`, specials `-1 … -4`),
    and the parser's decimal overflow bounds are the model's. -/
theorem source_constants :
    Generated.Replace.runConsts = [4, -1, -2, -3, -4] ∧ Generated.Replace.synConsts = Generated.Replace.runConsts
      ∧ Generated.Replace.maxValueDiv10 = maxValueDiv10 ∧ Generated.Replace.maxValueMod10 = maxValueMod10 := by
  decide

/-- With the constants of the source, the rule `-replaceSpecials-1-k` written for the special `k`
    decodes in `replacementImpl` to that special, and group slot 0 (`$&`) to a group lookup. -/
theorem source_specials_decode :
    Generated.Replace.runConsts.length = 5 ∧
    (let c := fun i => Generated.Replace.runConsts.getD i 0
     decodeRule [] (-(c 0) - 1 - c 1) = .leftPortion ∧ decodeRule [] (-(c 0) - 1 - c 2) = .rightPortion
       ∧ decodeRule [] (-(c 0) - 1 - c 3) = .lastGroup ∧ decodeRule [] (-(c 0) - 1 - c 4) = .wholeString
       ∧ decodeRule [] (-(c 0) - 1 - 0) = .group 0) := by
  decide

/-- The one-character substitutions in the `switch ch` of `scanDollar` are exactly the ones the model's
    scanner implements: for each `(c, v)` of the source table, `$c…` scans to the reference `v`
    consuming one rune, whatever the regex and whatever follows; and `$$` is a literal `$`. -/
theorem source_dollar_table (isWord : Nat → Bool) (env : Env) (rest : List Nat) :
    (∀ p ∈ Generated.Replace.dollarSpecials, scanDollar isWord env (p.1 :: rest) = .ok (.ref p.2, 1))
      ∧ Generated.Replace.dollarDollar = true ∧ scanDollar isWord env (36 :: rest) = .ok (.ch 36, 1) := by
  have ht : Generated.Replace.dollarSpecials = [(38, 0), (96, -1), (39, -2), (43, -3), (95, -4)] := by decide
  rw [ht]
  refine ⟨?_, by decide, by simp [scanDollar, isDigit, dollar]⟩
  intro p hp
  simp only [List.mem_cons, List.not_mem_nil, or_false] at hp
  rcases hp with h | h | h | h | h <;> subst h <;> simp [scanDollar, isDigit]

/-! ### the scanner -/

/-- **Every reference the scanner produces is valid, and the integer rules denote the scanned
    pieces.**  For well-formed group maps (`envOk`: group 0 exists, named groups' numbers are capture
    slots — evaluated by the driver on every regex of leg P), if the scanner accepts the replacement
    string with token list `toks`, then
    * every reference token is either one of the four specials or a group number that
      `isCaptureSlot` accepts — anything else after a `$` was literalised;
    * `NewReplacerData`'s integer encoding followed by `replacementImpl`'s decoding loses nothing:
      the parsed pieces are the tokens read off directly (`piecesOf`: adjacent literal runes merged into
      one string, a group reference as the slot `caps[number]`, the specials as themselves) — no string
      index or group slot is confused with another rule. -/
theorem parse_denotes (isWord : Nat → Bool) (env : Env) (henv : envOk env = true) (rep : List Nat) (toks : List Tok)
    (h : scanLoop isWord env rep 0 = .ok toks) :
    (∀ t ∈ toks, RefOk env t) ∧ parse isWord env rep = .ok (piecesOf env toks []) := by
  obtain ⟨hn, h0⟩ := envOk_names env henv
  have hok := scanLoop_ok isWord env hn h0 rep 0 toks h
  refine ⟨hok, ?_⟩
  simp only [parse, newReplacerData, h]
  rw [buildData_pieces env toks [] [] [] hok (by intro r hr; simp at hr)]
  simp

example : envOk (exEnv false) = true ∧ envOk ⟨some [(0, 0), (5, 1), (7, 2)], 3, [([48], 0), ([110], 7), ([53], 5)], false⟩ = true := by
  decide

/-! ### Split -/

/-- number of matches `Split` processes at most, for a count outside {0, 1} -/
def splitLimit (count : Int) : Nat := (if count = -1 then maxInt else count).toNat

/-- group texts of one match in the order `Split` returns them: slot order left-to-right, reverse
    slot order for a right-to-left pattern (the whole result list is built backwards and reversed) -/
def capOrder (text : List Nat) (rtl : Bool) : Match → List (List Nat) :=
  if rtl then capTextsRev text else capTexts text

/-- **`Split` as the code behaves**, for every count ≥ -1 and both directions: count 0 gives no
    pieces, count 1 the input; otherwise at most `count` matches are processed (all for -1) and the
    result is: kept text, then the texts of the groups 1… of the match (unset groups as empty strings;
    reverse slot order when right-to-left), kept text, … , final kept text — in text order. -/
theorem split_eq_spec (text : List Nat) (ms : List Match) (count : Int) (rtl : Bool)
    (hc : -1 ≤ count) (hv : valid rtl text ms = true) :
    split text ms count rtl =
      .ok (if count = 0 then [] else if count = 1 then [text]
           else splitSpec text (capOrder text rtl) 0 (inTextOrder rtl (ms.take (splitLimit count))) text.length) := by
  unfold split
  have h1 : ¬ count < -1 := by omega
  simp only [h1, if_false]
  by_cases h0 : count = 0
  · simp [h0]
  simp only [h0, if_false]
  by_cases h1' : count = 1
  · simp [h1']
  simp only [h1', if_false]
  cases ms with
  | nil => simp [inTextOrder, splitSpec, slice_zero_length]
  | cons m rest =>
    cases rtl with
    | true =>
      have hv' : validDesc text.length (m :: rest) = true := by simpa [valid, validRTL] using hv
      simp [splitLoop_rtl text (m :: rest) text.length [] _ hv' (Nat.le_refl _), Res.ofOption, inTextOrder,
        capOrder, splitLimit]
    | false =>
      have hv' : validFrom text.length 0 (m :: rest) = true := by simpa [valid, validLTR] using hv
      simp [splitLoop_ltr text (m :: rest) 0 [] _ hv', Res.ofOption, inTextOrder, capOrder, splitLimit]

example : split exText exMs (-1) false
    = .ok [[], [97], [98], [99], [97], [98], [32], [97], [], []] := by decide
example : split exText exMs.reverse 2 true
    = .ok [[97, 98, 99], [98], [97], [32], [], [97], []] := by decide

theorem processed_valid (text : List Nat) (ms : List Match) (k : Nat) (rtl : Bool) (hv : valid rtl text ms = true) :
    validFrom text.length 0 (inTextOrder rtl (ms.take k)) = true := by
  cases rtl with
  | true =>
    have hv' : validDesc text.length ms = true := by simpa [valid, validRTL] using hv
    simpa [inTextOrder] using validDesc_reverse _ _ (validDesc_take ms _ k hv')
  | false =>
    have hv' : validFrom text.length 0 ms = true := by simpa [valid, validLTR] using hv
    simpa [inTextOrder] using validFrom_take _ ms 0 k hv'

/-- **Split pieces re-joined with the matched texts rebuild the input** (general form, with
    captures): walking the result, after each kept text skip the `GroupCount()-1` group entries of
    the match and put the matched text back — the concatenation is the input.  Holds for every count
    except 0 (which returns no pieces) and both directions. -/
theorem split_join (text : List Nat) (ms : List Match) (count : Int) (rtl : Bool)
    (hc : -1 ≤ count) (h0 : count ≠ 0) (hv : valid rtl text ms = true) :
    ∃ ps, split text ms count rtl = .ok ps ∧
      rejoin text (fun m => m.groups.length)
        (if count = 1 then [] else inTextOrder rtl (ms.take (splitLimit count))) ps = text := by
  rw [split_eq_spec text ms count rtl hc hv]
  simp only [h0, if_false]
  by_cases h1 : count = 1
  · simp [h1, rejoin]
  · simp only [h1, if_false]
    refine ⟨_, rfl, ?_⟩
    rw [rejoin_splitSpec text (capOrder text rtl) _ text.length _ 0 (processed_valid text ms _ rtl hv),
      slice_zero_length]
    intro m _
    cases rtl <;> simp [capOrder, capTextsRev, capTexts]

/-- **Split, pattern without captures**: the result is exactly the kept texts, one more than the
    processed matches, and interleaving them with the matched texts gives the input. -/
theorem split_join_nocaptures (text : List Nat) (ms : List Match) (count : Int) (rtl : Bool)
    (hc : -1 ≤ count) (h0 : count ≠ 0) (h1 : count ≠ 1) (hv : valid rtl text ms = true)
    (hg : ∀ m ∈ ms, m.groups = []) :
    ∃ ps, split text ms count rtl = .ok ps ∧
      interleave ps ((inTextOrder rtl (ms.take (splitLimit count))).map (matchText text)) = text := by
  rw [split_eq_spec text ms count rtl hc hv]
  simp only [h0, h1, if_false]
  refine ⟨_, rfl, ?_⟩
  rw [interleave_splitSpec_nocap text (capOrder text rtl) text.length _ 0 (processed_valid text ms _ rtl hv),
    slice_zero_length]
  intro m hm
  have hm' : m ∈ ms := by
    cases rtl with
    | true => exact List.mem_of_mem_take (by simpa [inTextOrder] using hm)
    | false => exact List.mem_of_mem_take (by simpa [inTextOrder] using hm)
  cases rtl <;> simp [capOrder, capTextsRev, capTexts, hg m hm']

example : ∃ ps, split [97, 45, 98, 45, 99] [⟨3, 1, []⟩, ⟨1, 1, []⟩] (-1) true = .ok ps ∧ ps = [[97], [98], [99]] := by
  exact ⟨_, by decide, rfl⟩

/-- **Every slice `Split` takes is in bounds**: for an ordered, disjoint, in-bounds sequence in
    either direction and any count, none of the slice expressions `txt[a:b]` of split.go panics. -/
theorem split_inbounds (text : List Nat) (ms : List Match) (count : Int) (rtl : Bool)
    (hv : valid rtl text ms = true) : split text ms count rtl ≠ .panic := by
  by_cases hc : -1 ≤ count
  · rw [split_eq_spec text ms count rtl hc hv]; simp
  · have : count < -1 := by omega
    simp [split, this]

/-- the same for `Replace` and `ReplaceFunc`: no index or slice of the driver loops is out of range -/
theorem replace_inbounds (text : List Nat) (ms : List Match) (pieces : List Piece) (ev : Match → List Nat)
    (count : Int) (rtl : Bool) (hv : valid rtl text ms = true) :
    replace text ms pieces count rtl ≠ .panic ∧ replaceFunc text ms ev count rtl ≠ .panic := by
  by_cases hc : -1 ≤ count
  · rw [replace_eq_fold text ms pieces count rtl hc hv, replaceFunc_eq_fold text ms ev count rtl hc hv]; simp
  · have : count < -1 := by omega
    simp [replace, replaceFunc, this]

/-- without the hypothesis the claim is false: a right-to-left sequence handed over in ascending
    order makes the model of `Split` panic (this is what split.go did before it learnt about
    right-to-left patterns) -/
example : split [97, 45, 98, 45, 99] [⟨1, 1, []⟩, ⟨3, 1, []⟩] (-1) true = .panic := by decide

/-! ## ===== strict group lookups (session-3 audit: `$n` beyond the match's slots, spans outside the text) =====

`replace_inbounds` / `split_inbounds` above are about the *driver loops*: the model they run
(`Model/Replace.lean`) totalises the lookups inside one expansion — `groupSpan` is `getD`,
`groupText`/`capTexts` use the total `slice`, `decodeRule` is `getD` — so a rule naming a slot the
match does not have, a capture span outside the text or a string index outside the table cannot
make them fail, while the Go code panics there (`m.matchcount[groupnum]`, `m.text.runes[index]`,
`runes[i : i+l]`, `data.Strings[r]`).  `Model/ReplaceStrict.lean` has the same functions with those
accesses indexed (`Res.panic` where Go indexes out of range).  The theorems of this section:

* `strict_eq_total*`: a strict run that does not panic returns what the total run returns, with no
  hypothesis at all — so everything proved above about `replace`/`replaceFunc`/`split` holds for
  every non-panicking strict run, and the legs (which run the total functions on Go's non-panicking
  runs) lose nothing;
* `replace_no_panic_parsed`, `replaceData_no_panic_parsed`, `replaceFunc_no_panic`,
  `split_no_panic`: the strict runs do not panic when the rules come from the model's scanner for
  the regex's tables (`envOk`, `capsOk`: every slot a rule names is `< capsize`; every string index
  is inside the table) and every match is a match of that regex on that text (`MatchOk`: exactly
  `capsize` slots, the match and every capture inside the text — C08's `captures_in_bounds`);
* `slot_capsize_panics`, `missing_slot_panics`: without that link the strict run does panic — the
  totalisation was hiding a real precondition.
-/

section Strict
open RegexVerif.Lemmas.ReplaceStrict

/-- the example matches are matches of a regex with 3 slots on the example text; `[$2|$1]` names
    slots below 3 -/
example : (∀ m ∈ exMs, MatchOk 3 exText m = true) ∧ (∀ p ∈ exPieces, pieceOk 3 p = true) := by decide

/-- **Strict = total wherever strict returns (`Replace`).**  For every text, match sequence (valid or
    not), rule list or `ReplacerData`, count and direction: if the run with Go's indexed lookups does
    not panic, it returns exactly what the totalised model returns.  (Conversely the total model can
    only differ from Go's behaviour by returning a value where Go panics.) -/
theorem strict_eq_total (text : List Nat) (ms : List Match) (pieces : List Piece) (d : ReplacerData)
    (count : Int) (rtl : Bool) :
    (replaceStrict text ms pieces count rtl ≠ .panic →
        replaceStrict text ms pieces count rtl = replace text ms pieces count rtl)
    ∧ (replaceDataStrict text ms d count rtl ≠ .panic →
        replaceDataStrict text ms d count rtl = replace text ms d.pieces count rtl) :=
  ⟨replaceWith_eq text ms pieces _ _ (fun m x h => expand?_eq pieces text m x h)
      (fun m es h => expandRTL?_eq pieces text m es h) count rtl,
   replaceWith_eq text ms d.pieces _ _ (fun m x h => expandData?_eq d text m x h)
      (fun m es h => expandDataRTL?_eq d text m es h) count rtl⟩

example : replaceStrict exText exMs exPieces 2 false = replace exText exMs exPieces 2 false
    ∧ replaceStrict exText exMs exPieces 2 false ≠ .panic
    ∧ replaceDataStrict exText exMs.reverse ⟨[[91], [93]], [0, -7, 1]⟩ (-1) true
        = .ok ([91, 98, 93] ++ [99] ++ [91, 98, 93] ++ [32] ++ [91, 93]) := by decide

/-- **Strict = total wherever strict returns (`ReplaceFunc`)**, for an evaluator `ev` that may itself
    panic (`none`) and any total evaluator `ev'` that returns `ev`'s value whenever `ev` returns —
    e.g. `ev = expand? pieces text` (an evaluator that reads groups by slot) and
    `ev' = expand pieces text`. -/
theorem strict_eq_total_func (text : List Nat) (ms : List Match) (ev : Match → Option (List Nat)) (ev' : Match → List Nat)
    (hev : ∀ m x, ev m = some x → x = ev' m) (count : Int) (rtl : Bool)
    (h : replaceFuncStrict text ms ev count rtl ≠ .panic) :
    replaceFuncStrict text ms ev count rtl = replaceFunc text ms ev' count rtl :=
  replaceFuncStrict_eq text ms ev ev' hev count rtl h

example : (∀ m x, expand? exPieces exText m = some x → x = expand exPieces exText m)
    ∧ replaceFuncStrict exText exMs (expand? exPieces exText) (-1) false ≠ .panic :=
  ⟨fun m x h => expand?_eq exPieces exText m x h, by decide⟩

/-- **Strict = total wherever strict returns (`Split`)**: with `Capture.String()`'s slice expression
    bounds-checked, a `Split` that does not panic returns the totalised model's list. -/
theorem strict_eq_total_split (text : List Nat) (ms : List Match) (count : Int) (rtl : Bool)
    (h : splitStrict text ms count rtl ≠ .panic) : splitStrict text ms count rtl = split text ms count rtl :=
  splitStrict_eq text ms count rtl h

example : splitStrict exText exMs.reverse 2 true ≠ .panic
    ∧ splitStrict exText exMs.reverse 2 true = .ok [[97, 98, 99], [98], [97], [32], [], [97], []] := by decide

/-- **`Replace` with a parsed replacement does not panic on the regex's own matches.**  Let `env` be
    the tables of a regex (`envOk`: group 0 exists, names map to capture slots; `capsOk`: the `caps`
    table maps into `0 … capsize-1`), `pieces` what the scanner returns for a replacement string
    against those tables, `ms` an ordered, disjoint, in-bounds match sequence in which every match has
    exactly `capsize` slots and all its spans inside the text.  Then for every count and direction
    no lookup of `replacementImpl`/`replacementImplRTL`/`groupValueAppendToBuf` and no slice of the
    driver loop is out of range, and the result is the totalised model's (hence the fold of
    `replace_eq_fold`). -/
theorem replace_no_panic_parsed (isWord : Nat → Bool) (env : Env) (henv : envOk env = true) (hcaps : capsOk env = true)
    (rep : List Nat) (pieces : List Piece) (hp : parse isWord env rep = .ok pieces)
    (text : List Nat) (ms : List Match) (count : Int) (rtl : Bool)
    (hv : valid rtl text ms = true) (hm : ∀ m ∈ ms, MatchOk env.capsize text m = true) :
    replaceStrict text ms pieces count rtl ≠ .panic
      ∧ replaceStrict text ms pieces count rtl = replace text ms pieces count rtl := by
  have hok := parse_ok isWord env henv hcaps rep pieces hp
  have heq : replaceStrict text ms pieces count rtl = replace text ms pieces count rtl :=
    replaceWith_agree text ms pieces _ _
      (fun m h => expand?_ok env.capsize text m (hm m h) pieces hok)
      (fun m h => expandRTL?_ok env.capsize text m (hm m h) pieces hok) count rtl
  exact ⟨by rw [heq]; exact (replace_inbounds text ms pieces (fun _ => []) count rtl hv).1, heq⟩

/-- hypotheses satisfiable: `[$2|${n}$+$\`]` against the tables of `(a)(?<n>b)?` and its three
    matches on `"abcab a"`, both directions -/
example : envOk (exEnv false) = true ∧ capsOk (exEnv false) = true
    ∧ parse exWord (exEnv false) [91, 36, 50, 124, 36, 123, 110, 125, 36, 43, 36, 96, 93]
        = .ok [.lit [91], .group 2, .lit [124], .group 2, .lastGroup, .leftPortion, .lit [93]]
    ∧ valid false exText exMs = true ∧ valid true exText exMs.reverse = true
    ∧ (∀ m ∈ exMs, MatchOk (exEnv false).capsize exText m = true) :=
  ⟨by decide, by decide, by rfl, by decide, by decide, by decide⟩

/-- a `caps` table with sparse group numbers (`(?<5>a)(?<7>b)`: numbers 0, 5, 7 in slots 0, 1, 2) -/
example : capsOk ⟨some [(0, 0), (5, 1), (7, 2)], 3, [], false⟩ = true
    ∧ capsOk ⟨some [(0, 0), (5, 3)], 3, [], false⟩ = false := by decide

/-- **The same on the integer rules**: for the `ReplacerData` that `NewReplacerData` builds, every
    `data.Strings[r]` is inside the string table as well; the strict run on `(rules, strings)` does not
    panic and returns what the total model returns on the decoded rules. -/
theorem replaceData_no_panic_parsed (isWord : Nat → Bool) (env : Env) (henv : envOk env = true) (hcaps : capsOk env = true)
    (rep : List Nat) (d : ReplacerData) (hd : newReplacerData isWord env rep = .ok d)
    (text : List Nat) (ms : List Match) (count : Int) (rtl : Bool)
    (hv : valid rtl text ms = true) (hm : ∀ m ∈ ms, MatchOk env.capsize text m = true) :
    replaceDataStrict text ms d count rtl ≠ .panic
      ∧ replaceDataStrict text ms d count rtl = replace text ms d.pieces count rtl := by
  obtain ⟨hwf, hok⟩ := newReplacerData_ok isWord env henv hcaps rep d hd
  have heq : replaceDataStrict text ms d count rtl = replace text ms d.pieces count rtl :=
    replaceWith_agree text ms d.pieces _ _
      (fun m h => expandData?_ok env.capsize text m (hm m h) d hwf hok)
      (fun m h => expandDataRTL?_ok env.capsize text m (hm m h) d hwf hok) count rtl
  exact ⟨by rw [heq]; exact (replace_inbounds text ms d.pieces (fun _ => []) count rtl hv).1, heq⟩

example : newReplacerData exWord (exEnv false) [91, 36, 50, 93] = .ok ⟨[[91], [93]], [0, -7, 1]⟩ := by rfl

/-- **`ReplaceFunc` does not panic** when the evaluator does not: for an evaluator `ev` that returns
    (`some`) on every match of the regex on the text — in particular the evaluator that expands a
    parsed replacement by slot lookups (second part) — no slice of the evaluator loops is out of
    range, for every count and direction. -/
theorem replaceFunc_no_panic (isWord : Nat → Bool) (env : Env) (henv : envOk env = true) (hcaps : capsOk env = true)
    (rep : List Nat) (pieces : List Piece) (hp : parse isWord env rep = .ok pieces)
    (text : List Nat) (ms : List Match) (count : Int) (rtl : Bool)
    (hv : valid rtl text ms = true) (hm : ∀ m ∈ ms, MatchOk env.capsize text m = true) :
    (∀ ev : Match → Option (List Nat), (∀ m, MatchOk env.capsize text m = true → (ev m).isSome = true) →
        replaceFuncStrict text ms ev count rtl ≠ .panic
          ∧ replaceFuncStrict text ms ev count rtl = replaceFunc text ms (fun m => (ev m).getD []) count rtl)
    ∧ replaceFuncStrict text ms (expand? pieces text) count rtl ≠ .panic
    ∧ replaceFuncStrict text ms (expand? pieces text) count rtl = replaceFunc text ms (expand pieces text) count rtl := by
  have hgen : ∀ (ev : Match → Option (List Nat)) (ev' : Match → List Nat), (∀ m ∈ ms, ev m = some (ev' m)) →
      replaceFuncStrict text ms ev count rtl ≠ .panic
        ∧ replaceFuncStrict text ms ev count rtl = replaceFunc text ms ev' count rtl := by
    intro ev ev' h
    have heq := replaceFuncStrict_agree text ms ev ev' h count rtl
    exact ⟨by rw [heq]; exact (replace_inbounds text ms [] ev' count rtl hv).2, heq⟩
  refine ⟨?_, hgen _ _ (fun m h => expand?_ok env.capsize text m (hm m h) pieces (parse_ok isWord env henv hcaps rep pieces hp))⟩
  intro ev hev
  refine hgen ev _ ?_
  intro m h
  have := hev m (hm m h)
  cases hx : ev m with
  | none => rw [hx] at this; simp at this
  | some x => rfl

example : ∀ m, MatchOk 3 exText m = true → (expand? exPieces exText m).isSome = true := by
  intro m hm
  rw [expand?_ok 3 exText m hm exPieces (by decide)]; rfl

/-- **`Split` does not panic on the regex's own matches**: for an ordered, disjoint, in-bounds
    sequence of matches whose capture spans lie inside the text, neither the slice expressions of
    split.go nor the `Capture.String()` of any group is out of range; the result is the totalised
    model's (hence `split_eq_spec`). -/
theorem split_no_panic (capsize : Nat) (text : List Nat) (ms : List Match) (count : Int) (rtl : Bool)
    (hv : valid rtl text ms = true) (hm : ∀ m ∈ ms, MatchOk capsize text m = true) :
    splitStrict text ms count rtl ≠ .panic ∧ splitStrict text ms count rtl = split text ms count rtl := by
  have heq := splitStrict_agree text ms count rtl (fun m h => capTexts?_ok capsize text m (hm m h))
  exact ⟨by rw [heq]; exact split_inbounds text ms count rtl hv, heq⟩

example : splitStrict exText exMs (-1) false = .ok [[], [97], [98], [99], [97], [98], [32], [97], [], []] := by decide

/-- **The totalisation was hiding a precondition (decided instance).**  Text `"abcab a"`, the three
    matches of `(a)(b)?` (3 slots, all spans inside the text, sequence valid): the rule "group slot
    3" (= `capsize`) makes the strict run panic — Go: `index out of range [3] with length 3` at
    `m.matchcount[groupnum]` — while the totalised model returns a string; the same for a capture
    span outside the text, for a string index outside the table and for `Split` with a span outside
    the text.  So `replace_inbounds`/`split_inbounds` alone do not exclude these panics; the
    `*_no_panic*` theorems' hypotheses `parse … = .ok pieces` / `MatchOk` are what does. -/
theorem slot_capsize_panics :
    (∀ m ∈ exMs, MatchOk 3 exText m = true) ∧ valid false exText exMs = true ∧ valid true exText exMs.reverse = true
    ∧ pieceOk 3 (.group 3) = false
    ∧ replaceStrict exText exMs [.lit [91], .group 3] (-1) false = .panic
    ∧ replaceStrict exText exMs.reverse [.lit [91], .group 3] (-1) true = .panic
    ∧ replace exText exMs [.lit [91], .group 3] (-1) false = .ok [91, 99, 91, 32, 91]
    ∧ replaceFuncStrict exText exMs (expand? [.group 3] exText) 1 false = .panic
    -- a capture span outside the text (`MatchOk` fails): `$1`, and `Split`
    ∧ MatchOk 2 exText ⟨0, 2, [some (5, 4)]⟩ = false
    ∧ replaceStrict exText [⟨0, 2, [some (5, 4)]⟩] [.group 1] (-1) false = .panic
    ∧ replace exText [⟨0, 2, [some (5, 4)]⟩] [.group 1] (-1) false = .ok [32, 97, 99, 97, 98, 32, 97]
    ∧ splitStrict exText [⟨0, 2, [some (5, 4)]⟩] (-1) false = .panic
    ∧ split exText [⟨0, 2, [some (5, 4)]⟩] (-1) false = .ok [[], [32, 97], [99, 97, 98, 32, 97]]
    -- a string index outside the table
    ∧ replaceDataStrict exText exMs ⟨[[91]], [0, 1]⟩ (-1) false = .panic
    ∧ replace exText exMs (ReplacerData.pieces ⟨[[91]], [0, 1]⟩) (-1) false = .ok [91, 99, 91, 32, 91] := by
  decide

/-- **… and in general**: whenever at least one match is processed (`count ≠ 0`, `count ≥ -1`, a
    non-empty sequence) and some rule names a slot beyond the slots of the first delivered match, the
    strict `Replace` panics, in both directions, whatever the text and the other rules. -/
theorem missing_slot_panics (text : List Nat) (m : Match) (rest : List Match) (pieces : List Piece) (slot : Nat)
    (count : Int) (rtl : Bool) (hc : -1 ≤ count) (h0 : count ≠ 0)
    (hp : Piece.group slot ∈ pieces) (hs : m.groups.length < slot) :
    replaceStrict text (m :: rest) pieces count rtl = .panic := by
  obtain ⟨h1, h2⟩ := expand?_none pieces text m slot hp hs
  have hlt : ¬ count < -1 := by omega
  unfold replaceStrict replaceWith
  simp only [hlt, h0, if_false]
  cases rtl with
  | true => simp [loopRTLStrict_first_none _ _ m rest _ _ _ h2, Res.ofOption]
  | false => simp [loopLTRStrict_first_none _ _ m rest _ _ _ h1, Res.ofOption]

example : replaceStrict exText exMs [.lit [91], .group 3] 1 true = .panic :=
  missing_slot_panics exText _ _ _ 3 1 true (by decide) (by decide) (by decide) (by decide)

end Strict

/-! ## ===== end of the strict-lookup section ===== -/

end RegexVerif.Props.C09
