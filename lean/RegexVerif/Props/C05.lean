/-
C05 — pattern rewrites preserve meaning.

/repo/syntax/tree.go rewrites the parse tree before code generation: loops are made atomic when what
follows cannot use what they give back (`findAndMakeLoopsAtomic`/`processNode`/`canBeMadeAtomic`),
backtracking constructs at the end of the pattern, of atomic groups, of lookarounds and of
conditions are made atomic (`eliminateEndingBacktracking`, `reduceAtomic`, `reduceLookaround`),
alternations get their common prefixes factored out (`extractCommonPrefixText`,
`extractCommonPrefixOneNotoneSet`), atomic alternations are trimmed after an empty branch and have
branches with distinct first characters reordered (`reduceAtomic`), and a bump-along marker is put
after a leading unbounded single-character loop (`finalOptimize`).

The theorems below are the semantic laws of the backtracking specification (`Spec.m`: the ordered
list of successes of a pattern from a state) that make each of these rewrites meaning-preserving:
for every pattern that meets the *semantic* side condition of a law, the rewritten pattern has the
same ordered successes (or, for the rewrites that are only done where nothing can backtrack into
the construct, the same first success — which is all that `find` observes there).  Whether the
*syntactic* tests of tree.go (`MayOverlap`, `CharIn`, node-type case lists) imply the semantic side
conditions is not proved here; the differential legs of C05 (rewrites on vs. off on the real
engine) cover that side, and they found the one place where it does not (KF2, see
`kf2_nonword_loop_before_nonboundary`).

Three strengths of "same meaning" are used (Lemmas/Rewrites.lean): equality of the ordered lists,
`EqMod e D` (equality after deleting the successes that end at a *dead* position, i.e. one where
everything that follows fails) and `HeadEq` (same first success).
-/
import RegexVerif.Lemmas.Rewrites
import RegexVerif.Lemmas.AutoAtomic
import RegexVerif.Lemmas.RewriteDecisions

namespace RegexVerif.Props.C05
open RegexVerif RegexVerif.Spec

/-! ### concrete material for the non-vacuity examples -/

/-- an environment over the given text; word characters are `a b c` (97 98 99) -/
def env (t : List Nat) : Env := { text := t, textstart := 0, named := [], word := [97, 98, 99], fold := [] }

/-- the literal rune `c` -/
def lit (c : Nat) : Pat := .chr (.one c false)
/-- `c*` greedy / `c+` greedy / `c*?` lazy -/
def star (c : Nat) : Pat := .quant false 0 none (lit c)
def plus (c : Nat) : Pat := .quant false 1 none (lit c)
def lazyStar (c : Nat) : Pat := .quant true 0 none (lit c)
def st0 : St := { pos := 0, caps := [] }

/-! ## 0. `m` respects extensional equality of sub-patterns

Every law below is stated for a construct in isolation; these congruences carry it to any place in
a pattern. -/

/-- equal factors give equal concatenations -/
theorem seq_congr {e : Env} {a a' b b' : Pat}
    (ha : ∀ rtl st, m e a rtl st = m e a' rtl st) (hb : ∀ rtl st, m e b rtl st = m e b' rtl st) :
    ∀ rtl st, m e (.seq a b) rtl st = m e (.seq a' b') rtl st :=
  fun rtl st => seq_congr_dir (ha rtl) (hb rtl) st

/-- equal branches give equal alternations -/
theorem alt_congr {e : Env} {a a' b b' : Pat}
    (ha : ∀ rtl st, m e a rtl st = m e a' rtl st) (hb : ∀ rtl st, m e b rtl st = m e b' rtl st) :
    ∀ rtl st, m e (.alt a b) rtl st = m e (.alt a' b') rtl st :=
  fun rtl st => alt_congr_dir (ha rtl) (hb rtl) st

/-- equal bodies give equal loops -/
theorem quant_congr {e : Env} {a a' : Pat} (lzy : Bool) (lo : Nat) (hi : Option Nat)
    (ha : ∀ rtl st, m e a rtl st = m e a' rtl st) :
    ∀ rtl st, m e (.quant lzy lo hi a) rtl st = m e (.quant lzy lo hi a') rtl st :=
  fun rtl st => quant_congr_dir lzy lo hi (ha rtl) st

/-- equal bodies give equal capture groups -/
theorem cap_congr {e : Env} {a a' : Pat} (g : Nat) (ha : ∀ rtl st, m e a rtl st = m e a' rtl st) :
    ∀ rtl st, m e (.cap g a) rtl st = m e (.cap g a') rtl st :=
  fun rtl st => cap_congr_dir g (ha rtl) st

/-- equal bodies give equal atomic groups -/
theorem atomic_congr {e : Env} {a a' : Pat} (ha : ∀ rtl st, m e a rtl st = m e a' rtl st) :
    ∀ rtl st, m e (.atomic a) rtl st = m e (.atomic a') rtl st :=
  fun rtl st => atomic_congr_dir (ha rtl) st

/-- equal bodies give equal lookarounds (the body runs in the lookaround's own direction) -/
theorem look_congr {e : Env} {a a' : Pat} (behind neg : Bool) (ha : ∀ rtl st, m e a rtl st = m e a' rtl st) :
    ∀ rtl st, m e (.look behind neg a) rtl st = m e (.look behind neg a') rtl st :=
  fun rtl st => look_congr_dir behind neg (ha behind) rtl st

/-- equal branches give equal back-reference conditionals -/
theorem refCond_congr {e : Env} {a a' b b' : Pat} (g : Nat)
    (ha : ∀ rtl st, m e a rtl st = m e a' rtl st) (hb : ∀ rtl st, m e b rtl st = m e b' rtl st) :
    ∀ rtl st, m e (.refCond g a b) rtl st = m e (.refCond g a' b') rtl st :=
  fun rtl st => refCond_congr_dir g (ha rtl) (hb rtl) st

/-- equal condition and branches give equal expression conditionals -/
theorem exprCond_congr {e : Env} {c c' a a' b b' : Pat} (hc : ∀ rtl st, m e c rtl st = m e c' rtl st)
    (ha : ∀ rtl st, m e a rtl st = m e a' rtl st) (hb : ∀ rtl st, m e b rtl st = m e b' rtl st) :
    ∀ rtl st, m e (.exprCond c a b) rtl st = m e (.exprCond c' a' b') rtl st :=
  fun rtl st => exprCond_congr_dir (hc rtl) (ha rtl) (hb rtl) st

example : ∀ rtl st, m (env [97, 97]) (.seq (.atomic (.atomic (star 97))) (lit 97)) rtl st
    = m (env [97, 97]) (.seq (.atomic (star 97)) (lit 97)) rtl st :=
  seq_congr (fun rtl st => by simp [m, List.take_take]) (fun _ _ => rfl)

/-! ## 1. redundant atomic groups (`reduceAtomic`) -/

/-- `(?>(?>p))` is `(?>p)`: `reduceAtomic` skips nested Atomic nodes. -/
theorem atomic_idem (e : Env) (p : Pat) (rtl : Bool) (st : St) :
    m e (.atomic (.atomic p)) rtl st = m e (.atomic p) rtl st := by
  simp only [m, List.take_take, Nat.min_self]

/-- an atomic group around something that never has more than one success does nothing:
    `reduceAtomic` drops the Atomic node around Empty, Nothing and already-atomic loops, and
    `eliminateEndingBacktracking` does not wrap single characters, anchors, back-references. -/
theorem atomic_single (e : Env) (p : Pat) (rtl : Bool) (h : AtMostOne e rtl p) (st : St) :
    m e (.atomic p) rtl st = m e p rtl st := by
  rw [m_atomic]; exact take_one_of_length_le _ (h st)

/-- instance: a single character test -/
theorem atomic_chr (e : Env) (p : Pred) (rtl : Bool) (st : St) :
    m e (.atomic (.chr p)) rtl st = m e (.chr p) rtl st := atomic_single e _ rtl (atMostOne_chr e rtl p) st

/-- instance: an anchor -/
theorem atomic_anchor (e : Env) (a : Anchor) (rtl : Bool) (st : St) :
    m e (.atomic (.anchor a)) rtl st = m e (.anchor a) rtl st := atomic_single e _ rtl (atMostOne_anchor e rtl a) st

/-- instance: Empty (`reduceAtomic`: "If the child is empty/nothing … the Atomic node can simply be removed") -/
theorem atomic_empty (e : Env) (rtl : Bool) (st : St) : m e (.atomic .empty) rtl st = m e .empty rtl st :=
  atomic_single e _ rtl (atMostOne_empty e rtl) st

/-- instance: Nothing -/
theorem atomic_nothing (e : Env) (rtl : Bool) (st : St) : m e (.atomic .nothing) rtl st = m e .nothing rtl st :=
  atomic_single e _ rtl (atMostOne_nothing e rtl) st

/-- instance: a back-reference -/
theorem atomic_ref (e : Env) (g : Nat) (ci : Bool) (rtl : Bool) (st : St) :
    m e (.atomic (.ref g ci)) rtl st = m e (.ref g ci) rtl st := atomic_single e _ rtl (atMostOne_ref e rtl g ci) st

/-- instance: a lookaround (they are "implicitly atomic") -/
theorem atomic_look (e : Env) (behind neg : Bool) (p : Pat) (rtl : Bool) (st : St) :
    m e (.atomic (.look behind neg p)) rtl st = m e (.look behind neg p) rtl st :=
  atomic_single e _ rtl (atMostOne_look e rtl behind neg p) st

/-- instance: a literal string (concatenation of things with at most one success) and a fixed
    repeater `x{n}` of such a thing (Multi nodes, `a{3}`) -/
theorem atomic_seq_single (e : Env) (a b : Pat) (rtl : Bool) (ha : AtMostOne e rtl a) (hb : AtMostOne e rtl b)
    (st : St) : m e (.atomic (.seq a b)) rtl st = m e (.seq a b) rtl st :=
  atomic_single e _ rtl (atMostOne_seq ha hb) st

theorem atomic_repeater (e : Env) (lzy : Bool) (n : Nat) (a : Pat) (rtl : Bool) (ha : AtMostOne e rtl a) (st : St) :
    m e (.atomic (.quant lzy n (some n) a)) rtl st = m e (.quant lzy n (some n) a) rtl st :=
  atomic_single e _ rtl (atMostOne_quant_fixed lzy n ha) st

/-- `makeLoopAtomic` on a lazy loop: inside an atomic group (or in tail position) a lazy loop
    `x{lo,hi}?` only ever delivers its shortest success, so it is the repeater `x{lo}`
    ("we also lower the max number of iterations to the minimum number of iterations"). -/
theorem atomic_lazy_min (e : Env) (lo : Nat) (hi : Option Nat) (a : Pat) (rtl : Bool)
    (hhi : ∀ c, c < lo → canGo hi c = true) (st : St) :
    m e (.atomic (.quant true lo hi a)) rtl st = m e (.atomic (.quant true lo (some lo) a)) rtl st :=
  atomic_eq_of_headEq (headEq_lazy_min e rtl lo hi a hhi) st

/-- … and when that minimum is 0 the node becomes Empty ("If moving the max to be the same as the
    min dropped it to 0 … we can make it Empty"). -/
theorem quant_zero_zero (e : Env) (lzy : Bool) (a : Pat) (rtl : Bool) (st : St) :
    m e (.quant lzy 0 (some 0) a) rtl st = m e .empty rtl st := by
  rw [m_quant]
  cases lzy <;> simp [iter, canGo, m]

example : m (env [97, 97, 97]) (.atomic (.quant true 1 none (lit 97))) false st0 = [⟨1, []⟩] := by decide
example : m (env [97, 97, 97]) (.quant true 1 none (lit 97)) false st0 = [⟨1, []⟩, ⟨2, []⟩, ⟨3, []⟩] := by decide
example : m (env [97, 97, 97]) (.atomic (.atomic (star 97))) false st0 = [⟨3, []⟩] := by decide

/-! ## 2. backtracking removal in tail position (`eliminateEndingBacktracking`)

"The correctness of this optimization depends on nothing being able to backtrack into the provided
node": at the root of the pattern, inside an Atomic node, a lookaround or a condition only the first
success of the construct is used.  `EndAtomic rtl p q` is the rewrite relation of
`eliminateEndingBacktracking` (in evaluation direction `rtl`; the Go trees store concatenations in
evaluation order, so "last child" is the second factor left-to-right and the first factor
right-to-left, i.e. in lookbehinds). -/

/-- the elementary step: the construct evaluated last may be made atomic (left-to-right:
    `[xyz](?:abc|def) => [xyz](?>abc|def)`, `ab*` ⇒ `a(?>b*)`) -/
theorem atomic_at_end (e : Env) (a x : Pat) (st : St) :
    (m e (.seq a x) false st).head? = (m e (.seq a (.atomic x)) false st).head? :=
  headEq_seq_ltr a (headEq_atomic e false x) st

/-- right-to-left (inside lookbehinds) the first factor is the one evaluated last -/
theorem atomic_at_end_rtl (e : Env) (a x : Pat) (st : St) :
    (m e (.seq a x) true st).head? = (m e (.seq (.atomic a) x) true st).head? :=
  headEq_seq_rtl x (headEq_atomic e true a) st

/-- when the alternation itself is last, each of its branches is in tail position
    (`abc*|def* => ab(?>c*)|de(?>f*)`) -/
theorem alt_last (e : Env) (rtl : Bool) (a a' b b' : Pat) (ha : HeadEq e rtl a a') (hb : HeadEq e rtl b b') :
    HeadEq e rtl (.alt a b) (.alt a' b') := headEq_alt ha hb

/-- the body of a capture group in tail position is in tail position -/
theorem cap_last (e : Env) (rtl : Bool) (g : Nat) (a a' : Pat) (ha : HeadEq e rtl a a') :
    HeadEq e rtl (.cap g a) (.cap g a') := headEq_cap g ha

/-- inside an atomic group the last construct can be made atomic, **with the same ordered list of
    successes** — so this one is valid anywhere (`reduceAtomic`'s default case) -/
theorem atomic_inner_end (e : Env) (a x : Pat) (st : St) :
    m e (.atomic (.seq a x)) false st = m e (.atomic (.seq a (.atomic x))) false st :=
  atomic_eq_of_headEq (headEq_seq_ltr a (headEq_atomic e false x)) st

/-- the rewrite relation of `eliminateEndingBacktracking` in evaluation direction `rtl` -/
inductive EndAtomic (e : Env) : Bool → Pat → Pat → Prop
  | refl (rtl : Bool) (p : Pat) : EndAtomic e rtl p p
  /-- a replacement with the same ordered successes (a lazy repeater `x{n}?` written greedy, `x{0,0}` as Empty) -/
  | ofEq {rtl : Bool} {p q : Pat} : (∀ st, m e p rtl st = m e q rtl st) → EndAtomic e rtl p q
  | trans {rtl : Bool} {p q r : Pat} : EndAtomic e rtl p q → EndAtomic e rtl q r → EndAtomic e rtl p r
  /-- `makeLoopAtomic` on a greedy loop; wrapping an alternation, conditional or loop in Atomic -/
  | wrap (rtl : Bool) (p : Pat) : EndAtomic e rtl p (.atomic p)
  /-- `makeLoopAtomic` on a lazy loop, `case NtLazyloop: node.N = node.M` -/
  | lazyMin (rtl : Bool) (lo : Nat) (hi : Option Nat) (a : Pat) (h : ∀ c, c < lo → canGo hi c = true) :
      EndAtomic e rtl (.quant true lo hi a) (.quant true lo (some lo) a)
  /-- `case NtCapture, NtConcatenate`: recur into the last child -/
  | seqLtr {x x' : Pat} (a : Pat) : EndAtomic e false x x' → EndAtomic e false (.seq a x) (.seq a x')
  | seqRtl {a a' : Pat} (x : Pat) : EndAtomic e true a a' → EndAtomic e true (.seq a x) (.seq a' x)
  | cap {rtl : Bool} {a a' : Pat} (g : Nat) : EndAtomic e rtl a a' → EndAtomic e rtl (.cap g a) (.cap g a')
  /-- `case NtAlternate, NtBackRefCond, NtExprCond`: every branch -/
  | alt {rtl : Bool} {a a' b b' : Pat} : EndAtomic e rtl a a' → EndAtomic e rtl b b' → EndAtomic e rtl (.alt a b) (.alt a' b')
  | refCond {rtl : Bool} {a a' b b' : Pat} (g : Nat) :
      EndAtomic e rtl a a' → EndAtomic e rtl b b' → EndAtomic e rtl (.refCond g a b) (.refCond g a' b')
  /-- the condition too (`reduceExpressionConditional`) -/
  | exprCond {rtl : Bool} {c c' a a' b b' : Pat} :
      EndAtomic e rtl c c' → EndAtomic e rtl a a' → EndAtomic e rtl b b' → EndAtomic e rtl (.exprCond c a b) (.exprCond c' a' b')
  /-- `case NtAtomic, NtPosLook, NtNegLook`: the child (a lookaround's child runs in its own direction) -/
  | atomic {rtl : Bool} {a a' : Pat} : EndAtomic e rtl a a' → EndAtomic e rtl (.atomic a) (.atomic a')
  | look {rtl : Bool} {a a' : Pat} (behind neg : Bool) :
      EndAtomic e behind a a' → EndAtomic e rtl (.look behind neg a) (.look behind neg a')
  /-- `case NtLoop: if node.N == 1` — an optional construct -/
  | optional {rtl : Bool} {a a' : Pat} (lzy : Bool) (lo : Nat) :
      EndAtomic e rtl a a' → EndAtomic e rtl (.quant lzy lo (some 1) a) (.quant lzy lo (some 1) a')
  /-- `case NtLoop` / `NtLazyloop` with `FindLastExpressionInLoopForAutoAtomic`: the last expression
      of the loop body, when the body cannot start at the positions `D` it gives back
      (`(?:abc*)* => (?:ab(?>c*))*`); `Prunes` is closed under "last factor of a concatenation"
      and "body of a capture" and contains "greedy character loop ⇒ its atomic form" -/
  | loopBody {b b' : Pat} (D : Nat → Bool) (lzy : Bool) (lo : Nat) (hi : Option Nat) :
      Prunes e D b b' → Kills e D b → EndAtomic e false (.quant lzy lo hi b) (.quant lzy lo hi b')

/-- **ending-backtracking removal preserves the first success**, from every state: all the
    closure facts above composed. -/
theorem end_atomic_head (e : Env) {rtl : Bool} {p q : Pat} (h : EndAtomic e rtl p q) : HeadEq e rtl p q := by
  induction h with
  | refl rtl p => exact HeadEq.refl e rtl p
  | ofEq h => exact HeadEq.of_eq h
  | trans _ _ ih1 ih2 => exact ih1.trans ih2
  | wrap rtl p => exact headEq_atomic e rtl p
  | lazyMin rtl lo hi a h => exact headEq_lazy_min e rtl lo hi a h
  | seqLtr a _ ih => exact headEq_seq_ltr a ih
  | seqRtl x _ ih => exact headEq_seq_rtl x ih
  | cap g _ ih => exact headEq_cap g ih
  | alt _ _ iha ihb => exact headEq_alt iha ihb
  | refCond g _ _ iha ihb => exact headEq_refCond g iha ihb
  | exprCond _ _ _ ihc iha ihb => exact headEq_exprCond ihc iha ihb
  | atomic _ ih => exact HeadEq.of_eq (atomic_eq_of_headEq ih)
  | look behind neg _ ih => exact HeadEq.of_eq (look_eq_of_headEq neg ih _)
  | optional lzy lo _ ih => exact headEq_quant_hi_one lzy lo ih
  | loopBody D lzy lo hi hp hk => exact headEq_quant_prune lzy lo hi hp hk

/-- **the whole pattern's result is unchanged when its ending backtracking constructs are made
    atomic** (`finalOptimize`: `rootNode.eliminateEndingBacktracking()`): same match and captures
    from every start position. -/
theorem end_atomic_find (e : Env) {rtl : Bool} {p q : Pat} (h : EndAtomic e rtl p q) (start : Nat) :
    find e p rtl start = find e q rtl start :=
  find_congr_head (end_atomic_head e h) start

/-- `reduceAtomic`: the same rewrite applied to the body of an atomic group keeps the group's
    whole list of successes — valid at any place in a pattern. -/
theorem atomic_body_end_atomic (e : Env) {rtl : Bool} {a a' : Pat} (h : EndAtomic e rtl a a') (st : St) :
    m e (.atomic a) rtl st = m e (.atomic a') rtl st :=
  atomic_eq_of_headEq (end_atomic_head e h) st

/-- `reduceLookaround`: likewise for the body of a lookahead/lookbehind (direction `behind`). -/
theorem look_body_end_atomic (e : Env) {behind : Bool} {a a' : Pat} (neg : Bool) (h : EndAtomic e behind a a')
    (rtl : Bool) (st : St) :
    m e (.look behind neg a) rtl st = m e (.look behind neg a') rtl st :=
  look_eq_of_headEq neg (end_atomic_head e h) rtl st

/-- `reduceExpressionConditional`: likewise for the condition of `(?(cond)yes|no)`. -/
theorem exprCond_condition_end_atomic (e : Env) {rtl : Bool} {c c' : Pat} (a b : Pat) (h : EndAtomic e rtl c c') (st : St) :
    m e (.exprCond c a b) rtl st = m e (.exprCond c' a b) rtl st :=
  exprCond_eq_of_headEq a b (end_atomic_head e h) st

/-- `x(?:ab*|c+)?` ⇒ `x(?>(?:a(?>b*)|(?>c+))?)`: an instance of the relation -/
example (e : Env) : EndAtomic e false
    (.seq (lit 120) (.quant false 0 (some 1) (.alt (.seq (lit 97) (star 98)) (plus 99))))
    (.seq (lit 120) (.atomic (.quant false 0 (some 1) (.alt (.seq (lit 97) (.atomic (star 98))) (.atomic (plus 99)))))) :=
  .seqLtr _ (.trans (.optional _ _ (.alt (.seqLtr _ (.wrap _ _)) (.wrap _ _))) (.wrap _ _))

/-- **a loop in tail position whose body ends in a character loop**: `(?:x c*)*` ⇒ `(?:x (?>c*))*`
    when `x` fails in front of a rune that `c*` accepts (`StartsOutside e p x` of section 3; the condition
    `lastConcatChild.canBeMadeAtomic(node.Children[0], false, false)` of
    `FindLastExpressionInLoopForAutoAtomic`).  The positions `c*` gives back are not lost for the
    loop's *exit* (nothing kills them there — this is the tail of the pattern), but they all come
    after the first success. -/
theorem loop_body_at_end (e : Env) (p : Pred) (lo' : Nat) (hi' : Option Nat) (x : Pat)
    (hx : Kills e (acc e p) x) (lzy : Bool) (lo : Nat) (hi : Option Nat) :
    HeadEq e false (.quant lzy lo hi (.seq x (.quant false lo' hi' (.chr p))))
      (.quant lzy lo hi (.seq x (.atomic (.quant false lo' hi' (.chr p))))) :=
  end_atomic_head e (.loopBody (acc e p) lzy lo hi ((prunes_charloop e p lo' hi').seq_last x) (kills_seq_first _ hx))

/-- `(?:ab*)*` on "abbab": the full lists differ, the heads agree -/
example : m (env [97, 98, 98, 97, 98]) (.quant false 0 none (.seq (lit 97) (star 98))) false st0
      = [⟨5, []⟩, ⟨4, []⟩, ⟨3, []⟩, ⟨2, []⟩, ⟨1, []⟩, ⟨0, []⟩]
    ∧ m (env [97, 98, 98, 97, 98]) (.quant false 0 none (.seq (lit 97) (.atomic (star 98)))) false st0
      = [⟨5, []⟩, ⟨3, []⟩, ⟨0, []⟩] := by decide

/-- the law is about the head only: the full lists differ (so the rewrite must not be applied where
    something can backtrack into the construct) -/
example : m (env [97, 98, 98]) (.seq (lit 97) (star 98)) false st0 = [⟨3, []⟩, ⟨2, []⟩, ⟨1, []⟩]
    ∧ m (env [97, 98, 98]) (.seq (lit 97) (.atomic (star 98))) false st0 = [⟨3, []⟩] := by decide

/-- a lookbehind `(?<=b[ab]*)`: the factor evaluated last is `b`; making the *other* factor
    `[ab]*` atomic would be wrong ("ba", position 2) -/
example : m (env [98, 97]) (.seq (lit 98) (.quant false 0 none (.chr (.set (.base false [(97, 98)] []) false)))) true ⟨2, []⟩
      = [⟨0, []⟩]
    ∧ m (env [98, 97]) (.seq (lit 98) (.atomic (.quant false 0 none (.chr (.set (.base false [(97, 98)] []) false))))) true ⟨2, []⟩
      = [] := by decide

/-! ## 3. auto-atomic loops (`findAndMakeLoopsAtomic`, `processNode`, `canBeMadeAtomic`) -/

/-- what follows the loop (`k`) **starts outside** the loop's character test `p`: from a position
    whose next rune exists and is accepted by `p`, `k` has no success.  (Every success of `k` starts
    at a rune that `p` rejects, or at the end of the input.)  This is what `canBeMadeAtomic` decides
    syntactically: a disjoint character/set/string next, a mandatory loop of one, `\z`, `$` when the
    loop cannot eat `'\n'`, possibly after nullable loops of disjoint characters. -/
def StartsOutside (e : Env) (p : Pred) (k : Pat) : Prop := Kills e (acc e p) k

/-- the formulation "every success of `k` first consumes a rune that `p` rejects" implies it -/
theorem startsOutside_of_first_rune (e : Env) (p : Pred) (k : Pat)
    (h : ∀ st st', st' ∈ m e k false st → ∃ r, e.text[st.pos]? = some r ∧ p.test e r = false) :
    StartsOutside e p k := by
  intro st hd
  cases hm : m e k false st with
  | nil => rfl
  | cons y ys =>
    obtain ⟨r, hr, hp⟩ := h st y (by rw [hm]; simp)
    simp [acc, hr, hp] at hd

/-- **`A*B` with `A`, `B` disjoint is `(?>A*)B`**: a greedy single-character loop followed by
    something that starts outside its character test has the same ordered successes as the atomic
    loop — the shorter iterations can never be continued, because the rune after a shorter prefix is
    one the loop accepts.  (`processNode`, `case NtOneloop, NtNotoneloop, NtSetloop`.) -/
theorem loop_atomic_disjoint (e : Env) (p : Pred) (lo : Nat) (hi : Option Nat) (k : Pat)
    (hk : StartsOutside e p k) (st : St) :
    m e (.seq (.quant false lo hi (.chr p)) k) false st
      = m e (.seq (.atomic (.quant false lo hi (.chr p))) k) false st :=
  (charloop_eqMod_atomic e p lo hi).seq_kill k hk st

/-- **`A*?B` with `A`, `B` disjoint is `(?>A*)B`**: the lazy loop has to run to the end of the run
    before `B` can match, so it becomes the *greedy* atomic loop (`processNode`,
    `case NtOnelazy, …`: "lazy to greedy"). -/
theorem lazy_loop_atomic_disjoint (e : Env) (p : Pred) (lo : Nat) (hi : Option Nat) (k : Pat)
    (hk : StartsOutside e p k) (st : St) :
    m e (.seq (.quant true lo hi (.chr p)) k) false st
      = m e (.seq (.atomic (.quant false lo hi (.chr p))) k) false st :=
  (lazy_charloop_eqMod_atomic e p lo hi).seq_kill k hk st

/-- the characterisation the law rests on: from `st`, the greedy loop `p{lo,hi}` succeeds exactly at
    `st.pos + j` for `lo ≤ j ≤ min(run, hi)`, longest first, captures untouched -/
theorem charloop_successes (e : Env) (p : Pred) (lo : Nat) (hi : Option Nat) (st : St) :
    m e (.quant false lo hi (.chr p)) false st =
      (List.range (capN hi 0 (runLen e p st.pos) + 1 - lo)).reverse.map
        (fun j => { st with pos := st.pos + lo + j }) :=
  Spec.charloop_successes e p lo hi st

/-- … and every success but the first is followed by a rune the loop accepts -/
theorem charloop_nonfirst_followed (e : Env) (p : Pred) (lo : Nat) (hi : Option Nat) (st : St) :
    ∀ t ∈ (m e (.quant false lo hi (.chr p)) false st).tail, acc e p t.pos = true := by
  intro t ht; rw [m_quant] at ht; exact charloop_tail_next e p lo hi _ 0 st t ht

/-! side conditions of `canBeMadeAtomic` that imply `StartsOutside` -/

/-- a disjoint character test next (`One`/`Notone`/`Set` with `CharIn`/`MayOverlap` false) -/
theorem startsOutside_chr (e : Env) (p q : Pred) (h : ∀ r, p.test e r = true → q.test e r = false) :
    StartsOutside e p (.chr q) := kills_chr h

/-- … followed by anything (a Multi string, the rest of the concatenation) -/
theorem startsOutside_seq (e : Env) (p : Pred) (k1 k2 : Pat) (h : StartsOutside e p k1) :
    StartsOutside e p (.seq k1 k2) := kills_seq_first k2 h

/-- a loop with a positive minimum over something that starts outside (`subsequent.M > 0`) -/
theorem startsOutside_quant (e : Env) (p : Pred) (lzy : Bool) (lo : Nat) (hi : Option Nat) (k : Pat)
    (hlo : 1 ≤ lo) (h : StartsOutside e p k) : StartsOutside e p (.quant lzy lo hi k) := kills_quant lzy hi hlo h

/-- an optional loop over something that starts outside, followed by something that starts
    outside (`subsequent.M == 0 … goto end`: "we'll need to evaluate the next one as well") -/
theorem startsOutside_nullable_then (e : Env) (p : Pred) (lzy : Bool) (lo : Nat) (hi : Option Nat) (k1 k2 : Pat)
    (h1 : StartsOutside e p k1) (h2 : StartsOutside e p k2) :
    StartsOutside e p (.seq (.quant lzy lo hi k1) k2) := kills_seq_stays (stays_quant lzy lo hi h1) h2

/-- an alternation all of whose branches start outside -/
theorem startsOutside_alt (e : Env) (p : Pred) (k1 k2 : Pat) (h1 : StartsOutside e p k1) (h2 : StartsOutside e p k2) :
    StartsOutside e p (.alt k1 k2) := kills_alt h1 h2

/-- captures, atomic groups and positive lookaheads are looked through -/
theorem startsOutside_cap (e : Env) (p : Pred) (g : Nat) (k : Pat) (h : StartsOutside e p k) :
    StartsOutside e p (.cap g k) := kills_cap g h
theorem startsOutside_atomic (e : Env) (p : Pred) (k : Pat) (h : StartsOutside e p k) :
    StartsOutside e p (.atomic k) := kills_atomic h
theorem startsOutside_lookahead (e : Env) (p : Pred) (k : Pat) (h : StartsOutside e p k) :
    StartsOutside e p (.look false false k) := kills_lookahead h

/-- `\z` (`subsequent.T == NtEnd`) -/
theorem startsOutside_end (e : Env) (p : Pred) : StartsOutside e p (.anchor .end) := kills_end e p

/-- `$` with `Multiline` / `\Z` / `$`, when the loop does not accept `'\n'`
    (`subsequent.T == NtEol && n.Ch != '\n'`, `!n.Set.CharIn('\n')`) -/
theorem startsOutside_eol (e : Env) (p : Pred) (h : p.test e 10 = false) : StartsOutside e p (.anchor .eol) := kills_eol h
theorem startsOutside_endz (e : Env) (p : Pred) (h : p.test e 10 = false) : StartsOutside e p (.anchor .endz) := kills_endz h

/-- `a*b` on "aab": the loop has three successes, `b` can only continue the longest -/
example : StartsOutside (env [97, 97, 98]) (.one 97 false) (lit 98) :=
  startsOutside_chr _ _ _ (fun r h => by simp [Pred.test] at h ⊢; omega)
example : m (env [97, 97, 98]) (star 97) false st0 = [⟨2, []⟩, ⟨1, []⟩, ⟨0, []⟩] := by decide
example : m (env [97, 97, 98]) (.seq (.atomic (star 97)) (lit 98)) false st0 = [⟨3, []⟩] := by decide

/-- the side condition is needed: `a*a` is not `(?>a*)a` -/
example : m (env [97, 97]) (.seq (star 97) (lit 97)) false st0 ≠ m (env [97, 97]) (.seq (.atomic (star 97)) (lit 97)) false st0 := by
  decide

/-- the places `processNode` reaches from the node in front of `subsequent`: the loop itself, the
    last child of concatenations, capture bodies, every branch of alternations and conditionals,
    and the last expression of a loop body whose first expression also fails at the dead positions
    (`FindLastExpressionInLoopForAutoAtomic`).  `D` is the set of dead positions. -/
inductive AutoAtomic (e : Env) (D : Nat → Bool) : Pat → Pat → Prop
  | refl (x : Pat) : AutoAtomic e D x x
  | greedy (p : Pred) (lo : Nat) (hi : Option Nat) (hD : ∀ i, acc e p i = true → D i = true) :
      AutoAtomic e D (.quant false lo hi (.chr p)) (.atomic (.quant false lo hi (.chr p)))
  | lazy (p : Pred) (lo : Nat) (hi : Option Nat) (hD : ∀ i, acc e p i = true → D i = true) :
      AutoAtomic e D (.quant true lo hi (.chr p)) (.atomic (.quant false lo hi (.chr p)))
  /-- a loop with `lo ≥ 1`: the positions given back lie *between* two accepted runes -/
  | greedyBetween (p : Pred) (lo : Nat) (hi : Option Nat) (hlo : 1 ≤ lo)
      (hD : ∀ i, (prevAcc e p i && acc e p i) = true → D i = true) :
      AutoAtomic e D (.quant false lo hi (.chr p)) (.atomic (.quant false lo hi (.chr p)))
  | seqLast {x x' : Pat} (a : Pat) : AutoAtomic e D x x' → AutoAtomic e D (.seq a x) (.seq a x')
  | cap {x x' : Pat} (g : Nat) : AutoAtomic e D x x' → AutoAtomic e D (.cap g x) (.cap g x')
  | alt {a a' b b' : Pat} : AutoAtomic e D a a' → AutoAtomic e D b b' → AutoAtomic e D (.alt a b) (.alt a' b')
  | refCond {a a' b b' : Pat} (g : Nat) :
      AutoAtomic e D a a' → AutoAtomic e D b b' → AutoAtomic e D (.refCond g a b) (.refCond g a' b')
  | exprCond {a a' b b' : Pat} (c : Pat) :
      AutoAtomic e D a a' → AutoAtomic e D b b' → AutoAtomic e D (.exprCond c a b) (.exprCond c a' b')
  | loop {b b' : Pat} (lzy : Bool) (lo : Nat) (hi : Option Nat) :
      AutoAtomic e D b b' → Kills e D b → Kills e D b' → AutoAtomic e D (.quant lzy lo hi b) (.quant lzy lo hi b')

/-- the rewritten construct has the same ordered successes except at dead positions -/
theorem auto_atomic_eqMod {e : Env} {D : Nat → Bool} {x x' : Pat} (h : AutoAtomic e D x x') : EqMod e D false x x' := by
  induction h with
  | refl x => exact EqMod.refl e D false x
  | greedy p lo hi hD => exact (charloop_eqMod_atomic e p lo hi).mono hD
  | lazy p lo hi hD => exact (lazy_charloop_eqMod_atomic e p lo hi).mono hD
  | greedyBetween p lo hi hlo hD => exact (charloop_eqMod_atomic_between e p lo hi hlo).mono hD
  | seqLast a _ ih => exact ih.seq_last a
  | cap g _ ih => exact ih.cap g
  | alt _ _ iha ihb => exact iha.alt ihb
  | refCond g _ _ iha ihb => exact iha.refCond g ihb
  | exprCond c _ _ iha ihb => exact iha.exprCond c ihb
  | loop lzy lo hi _ hb hb' ih => exact ih.quant lzy lo hi hb hb'

/-- **auto-atomicity in context**: loops made atomic anywhere `processNode` looks — `(x a*)b`,
    `(?:xa*|yc*)b`, `(?:b a*)+c` — keep the ordered successes of the concatenation with what
    follows, provided what follows fails at the dead positions. -/
theorem auto_atomic_sound {e : Env} {D : Nat → Bool} {x x' : Pat} (h : AutoAtomic e D x x') (k : Pat)
    (hk : Kills e D k) (st : St) : m e (.seq x k) false st = m e (.seq x' k) false st :=
  (auto_atomic_eqMod h).seq_kill k hk st

/-- `(x a*|c*)b` ⇒ `(x(?>a*)|(?>c*))b` -/
example (t : List Nat) (st : St) :
    m (env t) (.seq (.cap 1 (.alt (.seq (lit 120) (star 97)) (star 99))) (lit 98)) false st
      = m (env t) (.seq (.cap 1 (.alt (.seq (lit 120) (.atomic (star 97))) (.atomic (star 99)))) (lit 98)) false st := by
  let D : Nat → Bool := fun i => acc (env t) (.one 97 false) i || acc (env t) (.one 99 false) i
  refine auto_atomic_sound (D := D)
    (.cap 1 (.alt (.seqLast _ (.greedy _ 0 none (fun i h => by simp [D, h])))
      (.greedy _ 0 none (fun i h => by simp [D, h])))) _ ?_ st
  intro s hs
  simp only [D, Bool.or_eq_true] at hs
  rcases hs with hs | hs
  · exact kills_chr (p := .one 97 false) (fun r h => by simp [Pred.test] at h ⊢; omega) s hs
  · exact kills_chr (p := .one 99 false) (fun r h => by simp [Pred.test] at h ⊢; omega) s hs

/-- **a loop over word characters with `lo ≥ 1` in front of `\b`** (`subsequent.T == NtBoundary &&
    n.M > 0 && IsWordChar(n.Ch)`, `n.Set.Equals(WordClass())`): a position the loop gives back lies
    between two word characters, where `\b` fails — whatever comes after the `\b`. -/
theorem loop_atomic_before_boundary (e : Env) (p : Pred) (lo : Nat) (hi : Option Nat) (hlo : 1 ≤ lo)
    (hw : ∀ r, p.test e r = true → e.isWord r = true) (k : Pat) (st : St) :
    m e (.seq (.quant false lo hi (.chr p)) (.seq (.anchor .boundary) k)) false st
      = m e (.seq (.atomic (.quant false lo hi (.chr p))) (.seq (.anchor .boundary) k)) false st :=
  (charloop_eqMod_atomic_between e p lo hi hlo).seq_kill _ (kills_seq_first k (kills_boundary hw)) st

example : m (env [97, 97, 45]) (.seq (plus 97) (.seq (.anchor .boundary) .empty)) false st0 = [⟨2, []⟩] := by decide

/-- **KNOWN FINDING KF2 — the mirror-image condition for `\B` is false.**  `canBeMadeAtomic` also
    accepts `subsequent.T == NtNonboundary && n.M > 0 && !IsWordChar(n.Ch)` (and `\W+`, `\D+` before
    `\B`).  But a position given back by a loop over non-word characters lies between two non-word
    characters, and there `\B` HOLDS: `-+\B` on "--b" matches (0,1) by backtracking and has no match
    with the atomic loop.  (Engine: rewrites on → no match, rewrites off → (0,1).) -/
theorem kf2_nonword_loop_before_nonboundary :
    m (env [45, 45, 98]) (.seq (plus 45) (.anchor .nonboundary)) false st0 = [⟨1, []⟩]
    ∧ m (env [45, 45, 98]) (.seq (.atomic (plus 45)) (.anchor .nonboundary)) false st0 = [] := by decide

/-- why: between two runes accepted by a loop over non-word characters `\B` succeeds -/
theorem nonboundary_holds_where_loop_gives_back (e : Env) (p : Pred) (hw : ∀ r, p.test e r = true → e.isWord r = false)
    (st : St) (hd : (prevAcc e p st.pos && acc e p st.pos) = true) :
    m e (.anchor .nonboundary) false st = [st] := nonboundary_holds_between hw st hd

/-! ## 4. alternation prefix factoring (`extractCommonPrefixText`, `extractCommonPrefixOneNotoneSet`) -/

/-- **`xa|xb` is `x(?:a|b)`** when `x` has at most one success from the state (a literal string, a
    single character test, a fixed-count or atomic loop — exactly the prefixes the two functions
    extract).  Left-to-right only, as in the Go code ("Only extract left-to-right prefixes"). -/
theorem prefix_factor (e : Env) (x a b : Pat) (st : St) (hx : (m e x false st).length ≤ 1) :
    m e (.alt (.seq x a) (.seq x b)) false st = m e (.seq x (.alt a b)) false st := by
  simp only [m, Bool.false_eq_true, if_false]
  exact flatMap_append_of_length_le_one _ hx _ _

/-- `extractCommonPrefixText`: the prefix is a literal string (One/Multi), which has at most one
    success from every state, so the law applies unconditionally; a branch that *is* the prefix
    leaves `Empty` behind (`processOneOrMulti`), `x` ≡ `x·Empty`. -/
theorem prefix_factor_text (e : Env) (cs : List Nat) (a b : Pat) (st : St) :
    m e (.alt (.seq (seqOf (cs.map lit)) a) (.seq (seqOf (cs.map lit)) b)) false st
      = m e (.seq (seqOf (cs.map lit)) (.alt a b)) false st :=
  prefix_factor e _ a b st
    (atMostOne_seqOf _ (fun x hx => by
      obtain ⟨c, _, rfl⟩ := List.mem_map.mp hx
      exact atMostOne_chr e false _) st)

theorem prefix_is_branch (e : Env) (x : Pat) (rtl : Bool) (st : St) : m e (.seq x .empty) rtl st = m e x rtl st :=
  seq_empty_right e x rtl st

/-- `extractCommonPrefixOneNotoneSet`: the prefix is one and the same One/Notone/Set node or a
    fixed-count loop of one (`required.M == required.N`) -/
theorem prefix_factor_repeater (e : Env) (p : Pred) (lzy : Bool) (n : Nat) (a b : Pat) (st : St) :
    m e (.alt (.seq (.quant lzy n (some n) (.chr p)) a) (.seq (.quant lzy n (some n) (.chr p)) b)) false st
      = m e (.seq (.quant lzy n (some n) (.chr p)) (.alt a b)) false st :=
  prefix_factor e _ a b st (atMostOne_quant_fixed lzy n (atMostOne_chr e false p) st)

/-- n-ary form, inside a longer alternation: the branches `[startingIndex, endingIndex)` that share
    the prefix are replaced by one branch `x(?:…)`; the branches before and after stay. -/
theorem prefix_factor_range (e : Env) (x : Pat) (pre bs post : List Pat) (st : St)
    (hx : (m e x false st).length ≤ 1) :
    m e (altOf (pre ++ bs.map (fun b => .seq x b) ++ post)) false st
      = m e (altOf (pre ++ [.seq x (altOf bs)] ++ post)) false st := by
  simp only [m_altOf, List.flatMap_append, List.flatMap_cons, List.flatMap_nil, List.append_nil, List.flatMap_map]
  congr 2
  simp only [m, Bool.false_eq_true, if_false]
  match hm : m e x false st, hx with
  | [], _ => simp
  | [y], _ => simp [m_altOf]

/-- if the alternation is inside an atomic group, the new inner alternation is made atomic too
    ("If this alternation is wrapped as atomic, we need to do the same for the new alternation") -/
theorem prefix_factor_atomic (e : Env) (x a b : Pat) (st : St) (hx : (m e x false st).length ≤ 1) :
    m e (.atomic (.alt (.seq x a) (.seq x b))) false st = m e (.atomic (.seq x (.atomic (.alt a b)))) false st := by
  rw [← atomic_inner_end, m_atomic, m_atomic, prefix_factor e x a b st hx]

/-- the mirror images need no side condition: a common *last* factor left-to-right -/
theorem suffix_factor (e : Env) (x a b : Pat) (st : St) :
    m e (.alt (.seq a x) (.seq b x)) false st = m e (.seq (.alt a b) x) false st := by
  simp [m, List.flatMap_append]

example : m (env [97, 98, 100]) (.alt (.seq (lit 97) (.seq (lit 98) (lit 99))) (.seq (lit 97) (.seq (lit 98) (lit 100)))) false st0
    = [⟨3, []⟩] := by decide
example : (m (env [97, 98, 100]) (.seq (lit 97) (lit 98)) false st0).length ≤ 1 := by decide

/-- the side condition is needed ("doing it for non-atomic variable length loops could change
    behavior"): `a*a|a*b` is not `a*(?:a|b)` -/
example : m (env [97, 97, 98]) (.alt (.seq (star 97) (lit 97)) (.seq (star 97) (lit 98))) false st0
    ≠ m (env [97, 97, 98]) (.seq (star 97) (.alt (lit 97) (lit 98))) false st0 := by decide

/-! ## 5. trimming an atomic alternation after an empty branch (`reduceAtomic`) -/

/-- branches after an Empty branch of an atomic alternation are never used -/
theorem atomic_alt_trim (e : Env) (a b : Pat) (rtl : Bool) (st : St) :
    m e (.atomic (.alt a (.alt .empty b))) rtl st = m e (.atomic (.alt a .empty)) rtl st := by
  simp only [m]
  cases m e a rtl st <;> simp

/-- an atomic alternation whose first branch is Empty is Empty -/
theorem atomic_alt_empty_first (e : Env) (b : Pat) (rtl : Bool) (st : St) :
    m e (.atomic (.alt .empty b)) rtl st = [st] := by
  simp [m]

/-- n-ary form: everything after the first Empty branch is dropped -/
theorem atomic_altOf_trim (e : Env) (pre post : List Pat) (rtl : Bool) (st : St) :
    m e (.atomic (altOf (pre ++ .empty :: post))) rtl st = m e (.atomic (altOf (pre ++ [.empty]))) rtl st := by
  rw [m_atomic, m_atomic, m_altOf, m_altOf]
  simp only [List.flatMap_append, List.flatMap_cons, List.flatMap_nil, m]
  cases pre.flatMap (fun a => m e a rtl st) <;> simp

example : m (env [97]) (.atomic (.alt (lit 98) (.alt .empty (lit 97)))) false st0 = [st0] := by decide
/-- not without the atomic group -/
example : m (env [97]) (.alt (lit 98) (.alt .empty (lit 97))) false st0 = [st0, ⟨1, []⟩] := by decide

/-! ## 6. reordering exclusive branches (`reduceAtomic`: "hi|there|hello" ⇒ "hi|hello|there") -/

/-- two adjacent branches that cannot both succeed from the same state may be swapped — the ordered
    list of successes does not change at all (so this holds with or without the atomic group; the
    Go code only does it inside one) -/
theorem alt_swap_exclusive (e : Env) (a b : Pat) (rtl : Bool) (h : Exclusive e rtl a b) (st : St) :
    m e (.alt a b) rtl st = m e (.alt b a) rtl st := by
  simp only [m]
  rcases h st with h | h <;> simp [h]

/-- the law as the Go comment states it: inside an atomic group -/
theorem atomic_alt_reorder (e : Env) (a b : Pat) (rtl : Bool) (h : ∀ st, m e a rtl st = [] ∨ m e b rtl st = [])
    (st : St) : m e (.atomic (.alt a b)) rtl st = m e (.atomic (.alt b a)) rtl st := by
  rw [m_atomic, m_atomic, alt_swap_exclusive e a b rtl h st]

/-- inside a longer alternation: a branch `b` is moved in front of a block `xs` of branches each of
    which is exclusive with it (the branches with a different first character that it jumps over) -/
theorem altOf_move_exclusive (e : Env) (pre xs post : List Pat) (b : Pat) (rtl : Bool)
    (h : ∀ x ∈ xs, Exclusive e rtl x b) (st : St) :
    m e (altOf (pre ++ xs ++ b :: post)) rtl st = m e (altOf (pre ++ b :: xs ++ post)) rtl st := by
  simp only [m_altOf, List.flatMap_append, List.flatMap_cons, List.append_assoc]
  congr 1
  cases hb : m e b rtl st with
  | nil => simp
  | cons y ys =>
    have : xs.flatMap (fun a => m e a rtl st) = [] := by
      rw [List.flatMap_eq_nil_iff]
      intro x hx
      rcases h x hx st with h1 | h1
      · exact h1
      · rw [hb] at h1; cases h1
    simp [this]

/-- hence the same for the atomic alternation -/
theorem atomic_altOf_reorder (e : Env) (pre xs post : List Pat) (b : Pat) (rtl : Bool)
    (h : ∀ x ∈ xs, Exclusive e rtl x b) (st : St) :
    m e (.atomic (altOf (pre ++ xs ++ b :: post))) rtl st = m e (.atomic (altOf (pre ++ b :: xs ++ post))) rtl st := by
  rw [m_atomic, m_atomic, altOf_move_exclusive e pre xs post b rtl h st]

/-- the instance the Go code uses: branches that begin with different literal runes are exclusive
    (left-to-right; the case-insensitive variants have been turned into sets before, so a One node
    is an exact rune) -/
theorem exclusive_first_rune (e : Env) (c d : Nat) (hcd : c ≠ d) (a b : Pat) :
    Exclusive e false (.seq (lit c) a) (.seq (lit d) b) := exclusive_of_first_rune e hcd a b

/-- "hi|there|hello" ⇒ "hi|hello|there" -/
example (e : Env) (st : St) :
    m e (altOf [.seq (lit 104) (lit 105), .seq (lit 116) (lit 104), .seq (lit 104) (lit 101)]) false st
      = m e (altOf [.seq (lit 104) (lit 105), .seq (lit 104) (lit 101), .seq (lit 116) (lit 104)]) false st :=
  altOf_move_exclusive e [.seq (lit 104) (lit 105)] [.seq (lit 116) (lit 104)] [] (.seq (lit 104) (lit 101)) false
    (fun x hx => by
      simp only [List.mem_singleton] at hx; subst hx
      exact exclusive_first_rune e 116 104 (by decide) _ _) st

/-- the side condition is needed even inside an atomic group: `(?>a|ab)` is not `(?>ab|a)` -/
example : m (env [97, 98]) (.atomic (.alt (lit 97) (.seq (lit 97) (lit 98)))) false st0
    ≠ m (env [97, 98]) (.atomic (.alt (.seq (lit 97) (lit 98)) (lit 97))) false st0 := by decide

/-! ## 7. the bump-along marker (`finalOptimize`, `UpdateBumpalong`) -/

/-- **bump-along is sound.**  The pattern starts with an unbounded single-character loop `L`
    (`Front`: first factor of possibly nested concatenations and — for a greedy loop — possibly
    inside atomic groups; not under a capture or alternation).  If the attempt at `i` fails, so does
    the attempt at every `j` inside the run of the loop's character starting at `i`
    (`i < j ≤ i + run`): from `j` the loop reaches only states it already reached from `i`, in the
    same order.  The scan may therefore resume after the run. -/
theorem bumpalong_sound (e : Env) (q : Pred) (lo : Nat) (F : Pat)
    (hF : Front (.quant false lo none (.chr q)) true F) (i j : Nat) (hij : i < j) (hj : j ≤ i + runLen e q i)
    (hfail : attempt e F false i = none) : attempt e F false j = none := by
  rw [attempt_eq_none_iff] at hfail ⊢
  exact eq_nil_of_prefix_nil (front_prefix_within_run e q lo i j [] (by omega) hj hF) hfail

/-- the lazy loop: same statement when the loop is not inside an atomic group (the successes from
    `j` are then a subset, in a different order, of those from `i`) -/
theorem bumpalong_sound_lazy (e : Env) (q : Pred) (lzy : Bool) (lo : Nat) (F : Pat)
    (hF : Front (.quant lzy lo none (.chr q)) false F) (i j : Nat) (hij : i < j) (hj : j ≤ i + runLen e q i)
    (hfail : attempt e F false i = none) : attempt e F false j = none := by
  rw [attempt_eq_none_iff] at hfail ⊢
  cases hm : m e F false ⟨j, []⟩ with
  | nil => rfl
  | cons y ys =>
    have := front_subset_within_run e q lzy lo i j [] (by omega) hj hF y (by rw [hm]; simp)
    rw [hfail] at this; cases this

/-- the plain form: `p = L k` -/
theorem bumpalong_sound_seq (e : Env) (q : Pred) (lzy : Bool) (lo : Nat) (k : Pat) (i j : Nat)
    (hij : i < j) (hj : j ≤ i + runLen e q i)
    (hfail : attempt e (.seq (.quant lzy lo none (.chr q)) k) false i = none) :
    attempt e (.seq (.quant lzy lo none (.chr q)) k) false j = none :=
  bumpalong_sound_lazy e q lzy lo _ (.seq k .here) i j hij hj hfail

/-- scan level: after a failed attempt at `i` the search may resume anywhere up to one past the
    run (the interpreter resumes at `i + run + 1`, or at `i + 1` if the run is empty) -/
theorem bumpalong_find (e : Env) (q : Pred) (lo : Nat) (F : Pat)
    (hF : Front (.quant false lo none (.chr q)) true F) (i s : Nat) (his : i < s) (hs : s ≤ i + runLen e q i + 1)
    (hfail : attempt e F false i = none) : find e F false (i + 1) = find e F false s :=
  find_skip e F i s his (fun j h1 h2 => bumpalong_sound e q lo F hF i j h1 (by omega) hfail)

/-- `a+b` on "aaac": the attempt at 0 fails, so do those at 1, 2, 3 -/
example : attempt (env [97, 97, 97, 99]) (.seq (plus 97) (lit 98)) false 0 = none
    ∧ runLen (env [97, 97, 97, 99]) (.one 97 false) 0 = 3 := by decide

example : attempt (env [97, 97, 97, 99]) (.seq (plus 97) (lit 98)) false 2 = none :=
  bumpalong_sound (env [97, 97, 97, 99]) (.one 97 false) 1 _ (.seq _ .here) 0 2 (by decide) (by decide) (by decide)

/-- the marker itself is `Empty` for the specification (the tree → `Pat` conversion of the harness
    maps `UpdateBumpalong` to `.empty`), and `Empty` in a concatenation is a no-op -/
theorem bumpalong_noop (e : Env) (l k : Pat) (rtl : Bool) (st : St) :
    m e (.seq l (.seq .empty k)) rtl st = m e (.seq l k) rtl st := by
  cases rtl <;> simp [m]

/-- **the lazy loop inside an atomic group is the exception** (fixed in /repo by "no bump-along
    marker after a lazy loop that sits inside an atomic group", 6711234): `(?>a+?b?)c` on "aabc" —
    the attempt at 0 fails (the group commits to "a"), the attempt at 1, inside the run "aa",
    succeeds with (1,3). -/
theorem bumpalong_lazy_in_atomic_counterexample :
    let p : Pat := .seq (.atomic (.seq (.quant true 1 none (lit 97)) (.quant false 0 (some 1) (lit 98)))) (lit 99)
    attempt (env [97, 97, 98, 99]) p false 0 = none
    ∧ runLen (env [97, 97, 98, 99]) (.one 97 false) 0 = 2
    ∧ attempt (env [97, 97, 98, 99]) p false 1 = some ⟨4, [(0, 1, 3)]⟩ := by decide

/-! ## 8. the certifier: tree.go's syntactic tests imply the semantic side conditions

`Model/AutoAtomic.lean` defines the syntactic side: `ks` (does a continuation fail / stay at the
positions a loop would give back — the case analysis of `canBeMadeAtomic`), `canAtomic` (the
decision), and `cert`/`certTop` (a walk over the un-rewritten and the rewritten tree of a pattern
that recognises every place where a loop became atomic, a lazy loop was cut to its minimum or a
construct was wrapped in Atomic, and checks that the continuation justifies it).  The theorems
below tie them to the laws of sections 2 and 3.  The two oracle bits have the meaning
`Oracle.Sound`: `disj p q` — no rune satisfies both tests; `uni p` — the runes `p` accepts are all
word characters or all non-word characters.  Leg Cz evaluates `certTop` on the engine's own pair of
trees with the bits computed from the engine's sets and Go's `unicode` tables. -/

open RegexVerif.AutoAtomic

/-- the oracle that knows nothing: only Lean's own rune comparisons are used -/
def o0 : Oracle := ⟨fun _ _ => false, fun _ => false⟩

theorem o0_sound (e : Env) : o0.Sound e :=
  ⟨fun _ _ h => (by cases h), fun _ h => (by cases h)⟩

/-- **the case analysis of `canBeMadeAtomic` is sound, "return true" cases**: when `ks` says that
    the continuation `k` *kills* the site `s` (a disjoint One/Notone/Set/Multi next, a loop with
    `M > 0` over one, `\z`, `$`/`\Z` with `'\n'` outside the loop's set, `\b` after a loop with
    `M > 0` over runes of one kind, looked at through Concatenate/Capture/Atomic/positive lookahead
    and through every branch of an alternation or conditional), `k` has no success from any
    position the loop would give back. -/
theorem ks_kills_sound {e : Env} {o : Oracle} (hs : o.Sound e) (s : Site) (k : Pat) (h : (ks o s k).1 = true) :
    Kills e (siteDead e s) k := (ks_sound hs s k).1 h

/-- **… "goto end" cases**: when `ks` says `k` *stays* (a loop with `M == 0` over a disjoint
    character, a boundary, Empty, a lookaround), `k` can only succeed without moving from such a
    position — so what follows `k` is again at a position the loop would give back. -/
theorem ks_stays_sound {e : Env} {o : Oracle} (hs : o.Sound e) (s : Site) (k : Pat) (h : (ks o s k).2 = true) :
    Stays e (siteDead e s) k := (ks_sound hs s k).2 h

/-- `[ab]*` in front of `(?:c|d+)x`: every branch fails in front of `a`/`b` (rune comparisons only) -/
example : (ks o0 (.acc (.one 97 false)) (.seq (.alt (lit 99) (plus 100)) (lit 120))).1 = true := by decide
/-- in front of `b*` it only stays -/
example : ks o0 (.acc (.one 97 false)) (star 98) = (false, true) := by decide
/-- in front of `a` neither -/
example : ks o0 (.acc (.one 97 false)) (lit 97) = (false, false) := by decide

/-- a continuation that `totalS` accepts always has a success (`b*`, Empty, `(?:x|)`, …) -/
theorem totalS_total (e : Env) (k : Pat) (h : totalS k = true) (st : St) : m e k false st ≠ [] :=
  totalS_sound e k h st

example : totalS (.seq (star 98) (.alt (lit 120) .empty)) = true := by decide

/-- **`canAtomic_sound`** — the decision implies the side condition of `loop_atomic_disjoint`:
    what follows the loop (`subsequent`, then `rest`) has no success from a position where the loop
    over `loopPred` could have gone on (for `lo ≥ 1`: from a position between two runes the loop
    accepts). -/
theorem canAtomic_sound {e : Env} {o : Oracle} (hs : o.Sound e) (loopPred : Pred) (lo : Nat) (subsequent : Pat)
    (rest : List Pat) (h : canAtomic o loopPred lo subsequent rest = true) :
    Kills e (siteDead e (loopSite loopPred lo)) (seqOf (subsequent :: rest)) :=
  contKills_sound hs _ _ h

/-- for a loop with minimum 0 this is literally `StartsOutside` -/
theorem canAtomic_startsOutside {e : Env} {o : Oracle} (hs : o.Sound e) (loopPred : Pred) (subsequent : Pat)
    (rest : List Pat) (h : canAtomic o loopPred 0 subsequent rest = true) :
    StartsOutside e loopPred (seqOf (subsequent :: rest)) := by
  intro st hd
  exact canAtomic_sound hs loopPred 0 subsequent rest h st (by simpa [loopSite, siteDead] using hd)

/-- **a greedy loop the decision accepts may be made atomic**: the concatenation with everything
    that follows has the same ordered successes (`processNode`, `case NtOneloop, NtNotoneloop,
    NtSetloop`) -/
theorem canAtomic_greedy {e : Env} {o : Oracle} (hs : o.Sound e) (p : Pred) (lo : Nat) (hi : Option Nat)
    (subsequent : Pat) (rest : List Pat) (h : canAtomic o p lo subsequent rest = true) (st : St) :
    m e (.seq (.quant false lo hi (.chr p)) (seqOf (subsequent :: rest))) false st
      = m e (.seq (.atomic (.quant false lo hi (.chr p))) (seqOf (subsequent :: rest))) false st := by
  have hk := canAtomic_sound hs p lo subsequent rest h
  unfold loopSite at hk
  by_cases hlo : 1 ≤ lo
  · rw [if_pos hlo] at hk
    exact (charloop_eqMod_atomic_between e p lo hi hlo).seq_kill _ hk st
  · rw [if_neg hlo] at hk
    exact (charloop_eqMod_atomic e p lo hi).seq_kill _ hk st

/-- **a lazy loop the decision accepts may be made the atomic greedy loop** (`case NtOnelazy, …`:
    "lazy to greedy") -/
theorem canAtomic_lazy {e : Env} {o : Oracle} (hs : o.Sound e) (p : Pred) (lo : Nat) (hi : Option Nat)
    (subsequent : Pat) (rest : List Pat) (h : canAtomicLazy o p subsequent rest = true) (st : St) :
    m e (.seq (.quant true lo hi (.chr p)) (seqOf (subsequent :: rest))) false st
      = m e (.seq (.atomic (.quant false lo hi (.chr p))) (seqOf (subsequent :: rest))) false st :=
  (lazy_charloop_eqMod_atomic e p lo hi).seq_kill _ (contKills_sound hs (.acc p) _ h) st

/-- `a*b*c`: `a*` against `b*` then `c` (the `iterateNullableSubsequent` walk) -/
example : canAtomic o0 (.one 97 false) 0 (star 98) [lit 99] = true := by decide
/-- `a*b*a`: no -/
example : canAtomic o0 (.one 97 false) 0 (star 98) [lit 97] = false := by decide
/-- `a+\b-`: a loop with minimum 1 in front of `\b`, whatever follows -/
example : canAtomic o0 (.one 97 false) 1 (.anchor .boundary) [lit 45] = true := by decide
/-- `a*\b`: not with minimum 0 (`n.M > 0`) -/
example : canAtomic o0 (.one 97 false) 0 (.anchor .boundary) [] = false := by decide
/-- the instance on a text: `a*b*c` on "aabc" -/
example : m (env [97, 97, 98, 99]) (.seq (star 97) (seqOf [star 98, lit 99])) false st0
    = m (env [97, 97, 98, 99]) (.seq (.atomic (star 97)) (seqOf [star 98, lit 99])) false st0 :=
  canAtomic_greedy (o0_sound _) _ 0 none _ _ (by decide) st0

/-- **at the end of the pattern** (`canBeMadeAtomic`: `parent == nil … return true`): when every item
    up to the end either fails at the given-back positions or stays there and always succeeds, the
    loop may be made atomic as far as the first success — all that `find` observes — is concerned
    (`a*b*` ⇒ `(?>a*)b*`; the full lists differ). -/
theorem canAtomicEnd_sound {e : Env} {o : Oracle} (hs : o.Sound e) (p : Pred) (lo : Nat) (hi : Option Nat)
    (rest : List Pat) (h : canAtomicEnd o p lo rest = true) :
    HeadEq e false (.seq (.quant false lo hi (.chr p)) (seqOf rest)) (.seq (.atomic (.quant false lo hi (.chr p))) (seqOf rest)) := by
  have hE : EqMod e (siteDead e (loopSite p lo)) false (.quant false lo hi (.chr p)) (.atomic (.quant false lo hi (.chr p))) := by
    unfold loopSite
    by_cases hlo : 1 ≤ lo
    · rw [if_pos hlo]; exact charloop_eqMod_atomic_between e p lo hi hlo
    · rw [if_neg hlo]; exact charloop_eqMod_atomic e p lo hi
  rcases contEnd_sound hs _ rest h with hk | ⟨_, ht⟩
  · exact headEq_seq_step _ hE (Or.inr hk)
  · exact headEq_seq_step _ hE (Or.inl ⟨headEq_atomic e false _, ht⟩)

example : canAtomicEnd o0 (.one 97 false) 0 [star 98] = true := by decide
/-- `a*b*` on "aab": the lists differ, the heads agree -/
example : m (env [97, 97, 98]) (.seq (star 97) (star 98)) false st0 = [⟨3, []⟩, ⟨2, []⟩, ⟨1, []⟩, ⟨0, []⟩]
    ∧ m (env [97, 97, 98]) (.seq (.atomic (star 97)) (star 98)) false st0 = [⟨3, []⟩, ⟨2, []⟩] := by decide

/-- **KF2, the negative result.**  The condition `subsequent.T == NtNonboundary && n.M > 0 &&
    !IsWordChar(n.Ch)` of `canBeMadeAtomic` (and its Set variants for `\W`, `\D`) is NOT a sound
    reason: there is an environment, a loop over a non-word rune with minimum 1 and the
    continuation `\B` for which the atomic loop changes the result. -/
theorem nonboundary_rule_unsound :
    ¬ ∀ (e : Env) (p : Pred) (lo : Nat) (hi : Option Nat), 1 ≤ lo → (∀ r, p.test e r = true → e.isWord r = false) →
      ∀ st, m e (.seq (.quant false lo hi (.chr p)) (.anchor .nonboundary)) false st
        = m e (.seq (.atomic (.quant false lo hi (.chr p))) (.anchor .nonboundary)) false st := by
  intro h
  have := h (env [45, 45, 98]) (.one 45 false) 1 none (by decide)
    (fun r hr => by
      simp only [Pred.test, Bool.false_eq_true, if_false, beq_iff_eq] at hr
      subst hr; decide) st0
  rw [show Pat.seq (.quant false 1 none (.chr (.one 45 false))) (.anchor .nonboundary) = .seq (plus 45) (.anchor .nonboundary) from rfl,
    show Pat.seq (.atomic (.quant false 1 none (.chr (.one 45 false)))) (.anchor .nonboundary) = .seq (.atomic (plus 45)) (.anchor .nonboundary) from rfl,
    kf2_nonword_loop_before_nonboundary.1, kf2_nonword_loop_before_nonboundary.2] at this
  cases this

/-- … and therefore `ks` has no such case: `\B` never discharges a site, whatever the oracle says
    (it only stays) — -/
theorem nonboundary_never_kills (o : Oracle) (s : Site) : ks o s (.anchor .nonboundary) = (false, true) := by
  cases s <;> rfl

/-- — so the engine's decision `-+\B` ⇒ `(?>-+)\B` (and every decision of that shape) is rejected
    by the certifier under every oracle; leg Cz files these under the known finding KF2. -/
theorem kf2_not_certified (o : Oracle) :
    certTop o (.seq (plus 45) (.anchor .nonboundary)) (.seq (.atomic (plus 45)) (.anchor .nonboundary)) = false := by
  rfl

/-- but `-+\Bx` ⇒ `(?>-+)\Bx` is fine (and certified): after `\B` comes something that fails -/
example : certTop o0 (.seq (plus 45) (.seq (.anchor .nonboundary) (lit 120)))
    (.seq (.atomic (plus 45)) (.seq (.anchor .nonboundary) (lit 120))) = true := by decide

/-- **the tree walk is sound.**  If `cert` reports no error for the un-rewritten tree `p` and the
    rewritten tree `p'` (both evaluated in direction `d`), then the two have the same ordered
    successes except for successes ending at a dead position of a site that is still pending, and —
    when the result says so — the same first success.  (This is the invariant; the two theorems
    after it are what it gives for whole patterns.) -/
theorem cert_holds {e : Env} {o : Oracle} (hs : o.Sound e) (p : Pat) (d : Bool) (p' : Pat)
    (h : (cert o d p p').errs = []) :
    EqMod e (dead e (cert o d p p').sites) d p p' ∧ ((cert o d p p').head = true → HeadEq e d p p') :=
  cert_sound hs p d p' h

/-- no site pending: the two trees are interchangeable in every context -/
theorem cert_equal {e : Env} {o : Oracle} (hs : o.Sound e) (p : Pat) (d : Bool) (p' : Pat)
    (h : (cert o d p p').errs = []) (hsites : (cert o d p p').sites = []) (st : St) :
    m e p d st = m e p' d st :=
  (cert_sound hs p d p' h).eq hsites st

/-- `(x a*|c*)b` ⇒ `(x(?>a*)|(?>c*))b`: two sites, both discharged by `b` -/
example : (cert o0 false (.seq (.cap 1 (.alt (.seq (lit 120) (star 97)) (star 99))) (lit 98))
    (.seq (.cap 1 (.alt (.seq (lit 120) (.atomic (star 97))) (.atomic (star 99)))) (lit 98))).sites = [] := by decide

/-- **`auto_atomic_certified`** — a pattern whose rewritten tree the certifier accepts has the same
    `find` result from every start position: same match, same captures.  Everything
    `findAndMakeLoopsAtomic` and `eliminateEndingBacktracking` did to the tree — loops made atomic
    in front of what `canBeMadeAtomic` accepted, lazy loops made greedy atomic, ending constructs
    made atomic or cut to their minimum, inside captures, alternations, conditionals, atomic groups,
    lookarounds and loop bodies — is covered by the one hypothesis `certTop o p p' = true`, which
    leg Cz evaluates on the engine's own trees. -/
theorem auto_atomic_certified {e : Env} {o : Oracle} (hs : o.Sound e) {p p' : Pat} (h : certTop o p p' = true)
    (start : Nat) : find e p false start = find e p' false start :=
  find_congr_head (certTop_headEq hs h) start

/-- the same for either direction of the pattern (`RegexOptions.RightToLeft`): right-to-left only
    the tail-position rewrites are certified — the first factor of a concatenation is the one
    evaluated last (`atomic_at_end_rtl`) -/
theorem auto_atomic_certified_dir {e : Env} {o : Oracle} (hs : o.Sound e) {rtl : Bool} {p p' : Pat}
    (h : certTopDir o rtl p p' = true) (start : Nat) : find e p rtl start = find e p' rtl start :=
  find_congr_head (certTopDir_headEq hs h) start

/-- right-to-left `a*b` ⇒ `(?>a*)b` is certified (the loop runs last), `ab*` ⇒ `a(?>b*)` is not -/
example : certTopDir o0 true (.seq (star 97) (lit 98)) (.seq (.atomic (star 97)) (lit 98)) = true
    ∧ certTopDir o0 true (.seq (lit 97) (star 98)) (.seq (lit 97) (.atomic (star 98))) = false := by decide

/-- `a*?b(?:c+|d*)` ⇒ `(?>a*)b(?>(?>c+)|(?>d*))` (lazy to greedy, ending loops, wrapped alternation) -/
example : certTop o0
    (.seq (lazyStar 97) (.seq (lit 98) (.alt (plus 99) (star 100))))
    (.seq (.atomic (star 97)) (.seq (lit 98) (.atomic (.alt (.atomic (plus 99)) (.atomic (star 100)))))) = true := by decide

/-- the loop-body rule: `(?:ca a*){2}x` ⇒ `(?:ca(?>a*)){2}x` -/
example : certTop o0
    (.seq (.quant false 2 (some 2) (.seq (lit 99) (.seq (lit 97) (star 97)))) (lit 120))
    (.seq (.quant false 2 (some 2) (.seq (lit 99) (.seq (lit 97) (.atomic (star 97))))) (lit 120)) = true := by decide

/-- what D8 (inverted `MayOverlap`) did — `[ab]*` made atomic in front of `[bc]*c` — is rejected
    unless the oracle claims the two sets are disjoint, which a sound oracle cannot -/
example : certTop o0
    (.seq (.quant false 0 none (.chr (.set (.base false [(97, 98)] []) false))) (.seq (.quant false 0 none (.chr (.set (.base false [(98, 99)] []) false))) (lit 99)))
    (.seq (.atomic (.quant false 0 none (.chr (.set (.base false [(97, 98)] []) false)))) (.seq (.quant false 0 none (.chr (.set (.base false [(98, 99)] []) false))) (lit 99))) = false := by decide

/-- an instance of the theorem on a text -/
example : find (env [120, 97, 97, 98]) (.seq (star 97) (lit 98)) false 0
    = find (env [120, 97, 97, 98]) (.seq (.atomic (star 97)) (lit 98)) false 0 :=
  auto_atomic_certified (o0_sound _) (by decide) 0

/-! ## 9. `eliminateEndingBacktracking` as a function -/

theorem endAtomic_wrapIf (e : Env) (c : Bool) (orig : Pat) {p q : Pat} (h : EndAtomic e false p q) :
    EndAtomic e false p (wrapIf c orig q) := by
  unfold wrapIf
  split
  · exact .trans h (.wrap _ _)
  · exact h

/-- **`endAtomic_sound`** — what `eliminateEndingBacktracking` does to a left-to-right tree
    (`Model/AutoAtomic.lean`: `endAtomic`, a function mirroring the Go switch) is an instance of the
    rewrite relation `EndAtomic`, whatever the parent is: every trailing node it makes atomic, cuts to
    its minimum or wraps is in tail position. -/
theorem endAtomic_sound (e : Env) : ∀ (p : Pat) (pa : Bool), EndAtomic e false p (endAtomic pa p) := by
  intro p
  induction p with
  | quant lzy lo hi x ih =>
    intro pa
    cases x with
    | chr q =>
      simp only [endAtomic]
      cases lzy with
      | false => exact .wrap _ _
      | true =>
        simp only [if_true]
        by_cases h1 : hiAtLeast hi lo = true
        · rw [if_pos h1]
          have hmin : EndAtomic e false (.quant true lo hi (.chr q)) (.quant true lo (some lo) (.chr q)) :=
            .lazyMin _ lo hi _ (canGo_of_hiAtLeast h1)
          by_cases h0 : lo = 0
          · subst h0
            rw [if_pos rfl]
            exact .trans hmin (.ofEq (quant_zero_zero e true _ false))
          · rw [if_neg h0]
            exact .trans hmin (.trans (.ofEq (repeater_lazy_eq_greedy e q lo)) (.wrap _ _))
        · rw [if_neg h1]; exact .refl _ _
    | _ =>
      simp only [endAtomic]
      by_cases hl : lzy = true ∧ hiAtLeast hi lo = true
      · obtain ⟨rfl, h1⟩ := hl
        simp only [h1, and_self, if_true]
        split
        · rename_i h2
          obtain rfl : lo = 1 := by simpa using h2
          exact .trans (.lazyMin _ 1 hi _ (canGo_of_hiAtLeast h1)) (.optional true 1 (ih false))
        · exact .lazyMin _ lo hi _ (canGo_of_hiAtLeast h1)
      · simp only [hl, if_false]
        split
        · rename_i h2
          rw [h2]
          exact .optional lzy lo (ih false)
        · exact .refl _ _
  | atomic x ih =>
    intro pa
    simp only [endAtomic]
    split
    · exact .refl _ _
    · exact .atomic (ih true)
  | look bh ng x ih =>
    intro pa
    cases bh with
    | false => simp only [endAtomic]; exact .look false ng (ih false)
    | true => simp only [endAtomic]; exact .refl _ _
  | seq a b _ ihb =>
    intro pa
    simp only [endAtomic]
    split
    · exact .seqLtr a (ihb pa)
    · exact .seqLtr a (endAtomic_wrapIf e _ _ (ihb false))
  | cap g a ih =>
    intro pa
    simp only [endAtomic]
    exact .cap g (endAtomic_wrapIf e _ _ (ih false))
  | alt a b iha ihb => intro pa; simp only [endAtomic]; exact .alt (iha false) (ihb false)
  | refCond g y n ihy ihn => intro pa; simp only [endAtomic]; exact .refCond g (ihy false) (ihn false)
  | exprCond c y n _ ihy ihn =>
    intro pa; simp only [endAtomic]; exact .exprCond (.refl _ c) (ihy false) (ihn false)
  | empty => intro pa; exact .refl _ _
  | nothing => intro pa; exact .refl _ _
  | chr q => intro pa; exact .refl _ _
  | anchor a => intro pa; exact .refl _ _
  | ref g ci => intro pa; exact .refl _ _

/-- … hence the whole pattern keeps its `find` result (`finalOptimize`:
    `rootNode.eliminateEndingBacktracking()` — at the root the implicit capture has no parent, so a
    top-level alternation or loop is wrapped too) -/
theorem endAtomicTop_find (e : Env) (p : Pat) (start : Nat) :
    find e p false start = find e (endAtomicTop p) false start :=
  end_atomic_find e (endAtomic_wrapIf e true p (endAtomic_sound e p false)) start

/-- `x(?:ab*|c+?)` ⇒ `x(?>a(?>b*)|c)`; `ab*?` ⇒ `a`+Empty; `a|b+` at the root is wrapped -/
example : endAtomicTop (.seq (lit 120) (.alt (.seq (lit 97) (star 98)) (.quant true 1 none (lit 99))))
    = .seq (lit 120) (.atomic (.alt (.seq (lit 97) (.atomic (star 98))) (.atomic (.quant false 1 (some 1) (lit 99))))) := by decide
example : endAtomicTop (.seq (lit 97) (lazyStar 98)) = .seq (lit 97) .empty := by decide
example : endAtomicTop (.alt (lit 97) (plus 98)) = .atomic (.alt (lit 97) (.atomic (plus 98))) := by decide
/-- inside an Atomic group the last alternation is not wrapped again -/
example : endAtomicTop (.atomic (.seq (lit 120) (.alt (lit 97) (star 98))))
    = .atomic (.seq (lit 120) (.alt (lit 97) (.atomic (star 98)))) := by decide

/-! ## 10. the DECISIONS of the remaining tree rewrites (`Model/RewriteDecisions.lean`, leg Rw)

Sections 4–7 are laws with semantic side conditions.  This section is about what tree.go DECIDES:
`Model/RewriteDecisions.lean` mirrors, on an n-ary copy `RNode` of the engine's reduced tree, the functions
`extractCommonPrefixText` (`factorText`), `extractCommonPrefixOneNotoneSet` (`factorSet`),
`reduceSingleLetterAndNestedAlternations` (`mergeLetters`), `removeRedundantEmptiesAndNothings`,
`reduceConcatenationWithAdjacentLoops` / `…Strings` (`coalesce`, `joinStrings`), `reduceAtomic` with its
alternation block and `makeLoopAtomic`, `reduceSet`, the alternation-wrapping part of
`eliminateEndingBacktracking` (`endElim`) and the placement of the bump-along marker (`placeBump`), with the
side conditions the Go code tests (same node type / rune / set / min / max / options, `M == N`, left-to-right
only, the parent-is-Atomic test, "at least three branches" …).  `toPat` is the denotation in `Spec.Pat`.
The theorems say that every one of these functions keeps `Spec.m` of the denotation; leg Rw checks on
every run that the functions compute what the engine computes (model tree = engine tree up to the
auto-atomic differences validated by `cert`).

`ll = false` is the variant proved here.  It leaves out the three cases that collapse DUPLICATE successes
(merging overlapping classes `a|a ⇒ [a]`, `a*a* ⇒ a*`, a second Empty branch) — for those the ordered
list of successes changes although its set and the order of first occurrences do not; see the examples at the
end — and, of the adjacent-loop rules, proves "item · loop" (`aa* ⇒ a+`); the other rules are modelled
(`ll = true`, tied by the leg) but not proved: `coalesce_sound_partial`, `mergeLetters_sound_partial`. -/

open RegexVerif.RewriteDecisions

/-- concrete material: `abc|abd|x` as the engine stores it -/
def altAbcAbdX : RNode := .alt 0 [.multi 0 [97, 98, 99], .multi 0 [97, 98, 100], .chr 0 (.one 120)]

/-- an environment over real code points -/
theorem env_textOK (t : List Nat) (h : ∀ r ∈ t, r ≤ 0x10FFFF) : TextOK (env t) := h

/-- **`extractCommonPrefixText` is sound**: for every alternation (children reduced, left-to-right,
    parent not Atomic) the factored tree has the same ordered successes.  Side conditions as in Go: the
    branches of a run start with a One/Multi (directly or as first child of a Concatenate) with the same
    options word and share a non-empty prefix; the new inner alternation is reduced again (`reduceNode`). -/
theorem factorText_sound (e : Env) (ht : TextOK e) (on : Bool) (fuel : Nat) (o : Nat) (cs : List RNode) (st : St) :
    m e (toPat false (factorText (reduceNode false false on false fuel) false o cs)) false st
      = m e (toPat false (.alt o cs)) false st :=
  NEq.eq (m_factorText e _ (redSound_reduceNode e ht on fuel) false o cs) st

/-- … and under an Atomic parent (`n.Parent.T == NtAtomic`: the new inner alternation is made atomic
    too) the atomic group keeps its successes -/
theorem factorText_sound_atomic (e : Env) (ht : TextOK e) (on : Bool) (fuel : Nat) (o : Nat) (cs : List RNode) (st : St) :
    m e (.atomic (toPat false (factorText (reduceNode false false on false fuel) true o cs))) false st
      = m e (.atomic (toPat false (.alt o cs))) false st :=
  atomic_eq_of_headEq (NEq.headEq (m_factorText e _ (redSound_reduceNode e ht on fuel) true o cs)) st

/-- `abc|abd|x` ⇒ `ab[cd]|x` (prefix "ab" extracted, the rest merged into a set — which keeps the `Ch` of the
    One it grew from, `mergedOpts` —, the concatenation rebuilt) -/
example : RNode.same (reduceNode false false true false 10 false altAbcAbdX)
    (.alt 0 [.cat 0 [.multi 0 [97, 98], .chr (99 * 65536) (.set (.base false [(99, 100)] []))], .chr 0 (.one 120)]) = true := by decide

example : m (env [97, 98, 100]) (toPat false altAbcAbdX) false st0 = [⟨3, []⟩] := by decide

/-- **`extractCommonPrefixOneNotoneSet` is sound**: the branches of a run are Concatenates of at least two
    children whose first children are the SAME One/Notone/Set node or loop of one with `M == N`
    (type, options, M, N, rune, set all equal; with `fk` the kind of a fixed loop is not compared — see the
    example after `factorSet_sound_atomic`) -/
theorem factorSet_sound (e : Env) (ht : TextOK e) (fk on : Bool) (fuel : Nat) (o : Nat) (cs : List RNode) (st : St) :
    m e (toPat false (factorSet (reduceNode false fk on false fuel) fk false o cs)) false st
      = m e (toPat false (.alt o cs)) false st :=
  NEq.eq (m_factorSet e _ (redSound_reduceNode e ht on fuel fk) false o cs fk) st

theorem factorSet_sound_atomic (e : Env) (ht : TextOK e) (fk on : Bool) (fuel : Nat) (o : Nat) (cs : List RNode) (st : St) :
    m e (.atomic (toPat false (factorSet (reduceNode false fk on false fuel) fk true o cs))) false st
      = m e (.atomic (toPat false (.alt o cs))) false st :=
  atomic_eq_of_headEq (NEq.headEq (m_factorSet e _ (redSound_reduceNode e ht on fuel fk) true o cs fk)) st

/-- the second reduction of an alternation in tail position (`finalOptimize`: after `findAndMakeLoopsAtomic`)
    may see two fixed repeaters that differed in kind when the tree was built, e.g. `a{2}?$b*|a{2}b` with both
    loops made atomic: ignoring the kind of a loop with `M == N` (`fk = true`) factors them — `(?>a{2})(?>$b*|b)` —
    and that is sound because the kind of a fixed repeater has no meaning -/
example : RNode.same
    (reduceNode false true true false 10 true (.alt 0 [.cat 0 [.cloop 0 .lzy (.one 97) 2 (some 2), .anchor .endz, .cloop 0 .greedy (.one 98) 0 none],
      .cat 0 [.cloop 0 .greedy (.one 97) 2 (some 2), .chr 0 (.one 98)]]))
    (.cat 0 [.cloop 0 .lzy (.one 97) 2 (some 2), .atomic (.alt 0 [.cat 0 [.anchor .endz, .cloop 0 .greedy (.one 98) 0 none], .chr 0 (.one 98)])]) = true := by
  decide

example : RNode.same
    (reduceNode false false true false 10 true (.alt 0 [.cat 0 [.cloop 0 .lzy (.one 97) 2 (some 2), .anchor .endz, .cloop 0 .greedy (.one 98) 0 none],
      .cat 0 [.cloop 0 .greedy (.one 97) 2 (some 2), .chr 0 (.one 98)]]))
    (.alt 0 [.cat 0 [.cloop 0 .lzy (.one 97) 2 (some 2), .anchor .endz, .cloop 0 .greedy (.one 98) 0 none],
      .cat 0 [.cloop 0 .greedy (.one 97) 2 (some 2), .chr 0 (.one 98)]]) = true := by decide

/-- `a{2}x|a{2}y` is factored (`a{2}[xy]`), `a{2}x|a{3}y` and `a+x|a+y` are not -/
example : RNode.same
    (reduceNode false false true false 10 false (.alt 0 [.cat 0 [.cloop 0 .greedy (.one 97) 2 (some 2), .chr 0 (.one 120)],
      .cat 0 [.cloop 0 .greedy (.one 97) 2 (some 2), .chr 0 (.one 121)]]))
    (.cat 0 [.cloop 0 .greedy (.one 97) 2 (some 2), .chr (120 * 65536) (.set (.base false [(120, 121)] []))]) = true := by decide

example : RNode.same
    (reduceNode false false true false 10 false (.alt 0 [.cat 0 [.cloop 0 .greedy (.one 97) 2 (some 2), .chr 0 (.one 120)],
      .cat 0 [.cloop 0 .greedy (.one 97) 3 (some 3), .chr 0 (.one 121)]]))
    (.alt 0 [.cat 0 [.cloop 0 .greedy (.one 97) 2 (some 2), .chr 0 (.one 120)],
      .cat 0 [.cloop 0 .greedy (.one 97) 3 (some 3), .chr 0 (.one 121)]]) = true := by decide

example : RNode.same
    (reduceNode false false true false 10 false (.alt 0 [.cat 0 [.cloop 0 .greedy (.one 97) 1 none, .chr 0 (.one 120)],
      .cat 0 [.cloop 0 .greedy (.one 97) 1 none, .chr 0 (.one 121)]]))
    (.alt 0 [.cat 0 [.cloop 0 .greedy (.one 97) 1 none, .chr 0 (.one 120)],
      .cat 0 [.cloop 0 .greedy (.one 97) 1 none, .chr 0 (.one 121)]]) = true := by decide

/-- **`reduceSingleLetterAndNestedAlternations`, proved part**: nested alternations flattened, Nothing
    dropped, runs of One/Set branches merged into one Set (`canonicalize`d as the engine does: sort + merge,
    the "everything but one gap" and "everything" normal forms) WHEN the two classes are category-free and
    disjoint.  Full statement (not proved as an equality, and false as one): the same for overlapping
    classes and classes with categories — see `merge_overlapping_duplicates` below. -/
theorem mergeLetters_sound_partial (e : Env) (ht : TextOK e) (rtl : Bool) (o : Nat) (cs : List RNode) (st : St) :
    m e (toPat rtl (mkAlt o (mergeLetters false cs))) rtl st = m e (toPat rtl (.alt o cs)) rtl st :=
  NEq.eq (nEq_mkAlt_mergeLetters e ht false rtl o cs) st

/-- `a|(?:c|d)|xy|(?!)|b` ⇒ `[acd]|xy|b` -/
example : RNode.same
    (mkAlt 0 (mergeLetters false [.chr 0 (.one 97), .alt 0 [.chr 0 (.one 99), .chr 0 (.one 100)], .multi 0 [120, 121], .nothing,
      .chr 0 (.one 98)]))
    (.alt 0 [.chr (97 * 65536) (.set (.base false [(97, 97), (99, 100)] [])), .multi 0 [120, 121], .chr 0 (.one 98)]) = true := by decide

/-- why the overlapping case is excluded: `a|a` has its success twice, `[a]` once — no context can tell
    (the later duplicate leads to the same continuation), but the lists differ -/
theorem merge_overlapping_duplicates :
    m (env [97]) (toPat false (.alt 0 [.chr 0 (.one 97), .chr 0 (.one 97)])) false st0 = [⟨1, []⟩, ⟨1, []⟩]
    ∧ m (env [97]) (toPat false (mkAlt 0 (mergeLetters true [.chr 0 (.one 97), .chr 0 (.one 97)]))) false st0 = [⟨1, []⟩] := by
  decide

/-- **`reduceConcatenationWithAdjacentStrings` is sound** (both directions): nested Concatenates of the same
    direction spliced, adjacent One/Multi joined (right-to-left: the later child's text in front), Empty dropped -/
theorem joinStrings_sound (e : Env) (rtl : Bool) (o : Nat) (cs : List RNode) (st : St) :
    m e (toPat rtl (mkCat o (joinStrings rtl cs))) rtl st = m e (toPat rtl (.cat o cs)) rtl st := by
  rw [m_mkCat, m_cat]; exact catEq_joinStrings e rtl cs st

/-- **`reduceConcatenationWithAdjacentLoops`, proved part**: "an individual item with a loop" — `x·x{m,n}` ⇒
    `x{m+1,n+1}` for One/Notone/Set, greedy, lazy and atomic loops, same options word, left-to-right.
    Modelled but not proved: loop·loop, loop·item, loop·Multi prefix, item·item (`coalesce true`); the first
    of them is not an equality of success lists — `loop_loop_duplicates`. -/
theorem coalesce_sound_partial (e : Env) (rtl : Bool) (cs : List RNode) (st : St) :
    mc e rtl (coalesce false rtl cs) st = mc e rtl cs st := catEq_coalesce e rtl cs st

/-- `aa*b` ⇒ `a+b` -/
example : RNode.same (reduceCat false false 0 [.chr 0 (.one 97), .cloop 0 .greedy (.one 97) 0 none, .chr 0 (.one 98)])
    (.cat 0 [.cloop 0 .greedy (.one 97) 1 none, .chr 0 (.one 98)]) = true := by decide

theorem loop_loop_duplicates :
    m (env [97]) (toPat false (.cat 0 [.cloop 0 .greedy (.one 97) 0 none, .cloop 0 .greedy (.one 97) 0 none])) false st0
        = [⟨1, []⟩, ⟨1, []⟩, ⟨0, []⟩]
    ∧ m (env [97]) (toPat false (reduceCat true false 0 [.cloop 0 .greedy (.one 97) 0 none, .cloop 0 .greedy (.one 97) 0 none])) false st0
        = [⟨1, []⟩, ⟨0, []⟩] := by decide

/-- **`reduceConcatenation` (proved variant) is sound**: 0/1 children, a Nothing child, the two passes above -/
theorem reduceCat_sound (e : Env) (rtl : Bool) (o : Nat) (cs : List RNode) (st : St) :
    m e (toPat rtl (reduceCat false rtl o cs)) rtl st = m e (toPat rtl (.cat o cs)) rtl st :=
  RewriteDecisions.reduceCat_sound e rtl o cs st

/-- **`reduceSet` is sound**: a singleton set is One, an inverse singleton Notone -/
theorem reduceSet_sound (e : Env) (o : Nat) (p : CP) (rtl : Bool) (st : St) :
    m e (toPat rtl (.chr o (reduceCP p))) rtl st = m e (toPat rtl (.chr o p)) rtl st := reduceCP_chr e o p rtl st

example : reduceCP (.set (.base true [(97, 97)] [])) = .notone 97 := by decide

/-- **`reduceAtomic` (proved variant) is sound**: nested Atomic nodes, Empty/Nothing, `makeLoopAtomic` (a lazy
    loop becomes the repeater of its minimum, Empty, or a Multi of 2…64 equal runes), and for an alternation
    child, left-to-right: first branch Empty ⇒ Empty; branches after an Empty branch dropped; every run of at
    least three branches that start with a One/Multi regrouped by first rune (stable), the alternation then
    reduced again with the Atomic parent. -/
theorem reduceAtomic_sound (e : Env) (ht : TextOK e) (on rtl : Bool) (fuel : Nat) (b : RNode) (st : St) :
    m e (toPat rtl (reduceAtomic (reduceNode false false on rtl fuel) false on rtl (.atomic b))) rtl st
      = m e (toPat rtl (.atomic b)) rtl st :=
  RewriteDecisions.reduceAtomic_sound e _ on rtl
    (fun h => by subst h; exact redSound_reduceNode e ht on fuel) b st

/-- `(?>hi|there|hello)` ⇒ `(?>h(?>i|ello)|there)`; `(?>a||c)` ⇒ `(?>a|)`; `(?>|a)` ⇒ Empty -/
example : RNode.same
    (reduceNode false false true false 10 false (.atomic (.alt 0 [.multi 0 [104, 105], .multi 0 [116, 104, 101, 114, 101], .multi 0 [104, 101, 108, 108, 111]])))
    (.atomic (.alt 0 [.cat 0 [.chr 0 (.one 104), .atomic (.alt 0 [.chr 0 (.one 105), .multi 0 [101, 108, 108, 111]])],
      .multi 0 [116, 104, 101, 114, 101]])) = true := by decide

example : RNode.same (reduceNode false false true false 10 false (.atomic (.alt 0 [.chr 0 (.one 97), .empty, .chr 0 (.one 99)])))
    (.atomic (.alt 0 [.chr 0 (.one 97), .empty])) = true := by decide

example : RNode.same (reduceNode false false true false 10 false (.atomic (.alt 0 [.empty, .chr 0 (.one 97)]))) .empty = true := by decide

/-- the reordering alone (any run of branches that all start with a One/Multi): same ordered successes,
    with or without the Atomic node — branches with a different first rune fail -/
theorem atomicAlt_reorder_sound (e : Env) (bs : List RNode) (st : St) :
    mA e false (reorder bs).1 st = mA e false bs st := by
  have := aEq_reorder e bs st
  simpa [LRel] using this

/-- **one `reduce()` is sound** (proved variant): the same successes, or — for an alternation whose parent is
    an Atomic node — the same first success -/
theorem reduceNode_sound (e : Env) (ht : TextOK e) (fk on rtl : Bool) (fuel : Nat) (n : RNode) (st : St) :
    m e (toPat rtl (reduceNode false fk on rtl fuel false n)) rtl st = m e (toPat rtl n) rtl st :=
  NEq.eq (RewriteDecisions.reduceNode_sound e ht fk on rtl fuel false n) st

theorem reduceNode_sound_atomic_parent (e : Env) (ht : TextOK e) (fk on rtl : Bool) (fuel : Nat) (n : RNode) :
    HeadEq e rtl (toPat rtl (reduceNode false fk on rtl fuel true n)) (toPat rtl n) :=
  NEq.headEq (RewriteDecisions.reduceNode_sound e ht fk on rtl fuel true n)

/-- **the bottom-up pass is sound**: `reduceAll` (children first, then `reduce()` of the node, the ending walk
    inside Atomic nodes, lookarounds and conditions) keeps the ordered successes of every pattern, in either
    direction, in every context -/
theorem reduceAll_sound (e : Env) (ht : TextOK e) (on dg : Bool) (fuel : Nat) (n : RNode) (rtl : Bool) (st : St) :
    m e (toPat rtl (reduceAll false on dg fuel rtl false n)) rtl st = m e (toPat rtl n) rtl st :=
  NEq.eq (RewriteDecisions.reduceAll_sound e ht on dg fuel n rtl false) st

/-- **the ending walk keeps the first success**: the constructs in tail position wrapped in Atomic, an
    alternation there reduced again as an atomic alternation (prefix factoring with atomic inner alternations,
    trimming, reordering) -/
theorem endElim_keeps_first (e : Env) (ht : TextOK e) (fk : Bool) (fuel f : Nat) (rtl pa w : Bool) (n : RNode) :
    HeadEq e rtl (toPat rtl (endElim (reduceNode false fk true rtl fuel) f rtl pa w n)) (toPat rtl n) :=
  endElim_headEq' e ht true fuel f rtl pa w n fk

/-- `x(?:a||c)` ⇒ `x(?>a|)`: in tail position the alternation becomes atomic and loses the branch after Empty -/
example : RNode.same (rewriteTop false false true 12 false (.cat 0 [.chr 0 (.one 120), .alt 0 [.chr 0 (.one 97), .empty, .chr 0 (.one 99)]]))
    (.cat 0 [.chr 0 (.one 120), .atomic (.alt 0 [.chr 0 (.one 97), .empty])]) = true := by decide

/-- **the model of the gated rewrites keeps `find`**: for every tree, direction, start position -/
theorem rewrites_keep_find (e : Env) (ht : TextOK e) (fk dg : Bool) (fuel : Nat) (rtl : Bool) (n : RNode) (start : Nat) :
    find e (toPat rtl (rewriteTop false fk dg fuel rtl n)) rtl start = find e (toPat rtl n) rtl start :=
  find_congr_head (rewriteTop_headEq e ht fk dg fuel rtl n) start

/-- **the extended translation validator**: `n` the engine's tree with the rewrites off, `p'` its tree with
    the rewrites on.  If `cert` accepts the pair (Lean's model of the rewrites applied to `n`, `p'`) — i.e. the
    engine's tree is what the model decides, up to auto-atomic / ending differences that are themselves
    justified — then both trees give the same `find` result from every start, in every environment in which the
    oracle bits are true.  Leg Rw evaluates exactly this hypothesis on the engine's pairs of trees. -/
theorem rewrites_certified {e : Env} {o : AutoAtomic.Oracle} (hs : o.Sound e) (ht : TextOK e) (fk dg : Bool) (fuel : Nat)
    (rtl : Bool) (n : RNode) (p' : Pat)
    (h : AutoAtomic.certTopDir o rtl (toPat rtl (rewriteTop false fk dg fuel rtl n)) p' = true) (start : Nat) :
    find e (toPat rtl n) rtl start = find e p' rtl start :=
  (rewrites_keep_find e ht fk dg fuel rtl n start).symm.trans (auto_atomic_certified_dir hs h start)

/-- `ab|ac` at the end of a pattern against the engine's `a(?>[bc])`… here: `x(?:ab|ac)` ⇒ `xa[bc]` -/
example : AutoAtomic.certTopDir o0 false
    (toPat false (rewriteTop false false true 12 false (.cat 0 [.chr 0 (.one 120), .alt 0 [.multi 0 [97, 98], .multi 0 [97, 99]]])))
    (.seq (.seq (lit 120) (lit 97)) (.chr (.set (.base false [(98, 99)] []) false))) = true := by decide

/-- **placing the bump-along marker changes no success** (the marker is Empty for the specification) -/
theorem placeBump_sound (e : Env) (rtl : Bool) (n : RNode) (ia ab : Bool) (st : St) :
    m e (toPat rtl (placeBump ia ab n)) rtl st = m e (toPat rtl n) rtl st :=
  RewriteDecisions.placeBump_sound e rtl n ia ab st

/-- **where `finalOptimize` puts the marker, resuming the scan after the loop's run is sound**: the walk
    (through Atomic nodes and first children of Concatenates) ends at an unbounded single-character loop that
    is the first child of a Concatenate — greedy or atomic anywhere, lazy only outside every Atomic group.  Then
    a failed attempt at `i` implies a failed attempt at every `j` inside the run (`bumpalong_sound`,
    `bumpalong_sound_lazy`). -/
theorem bump_marker_sound (e : Env) (n : RNode) (k : LK) (p : CP) (lo : Nat)
    (hsite : bumpSite false true n = some (k, p, lo)) (i j : Nat) (hij : i < j) (hj : j ≤ i + runLen e p.pred i)
    (hfail : attempt e (toPat false n) false i = none) : attempt e (toPat false n) false j = none := by
  obtain ⟨hF, hl⟩ := bumpSite_front n false true k p lo hsite
  cases k with
  | greedy => exact bumpalong_sound e p.pred lo _ hF i j hij hj hfail
  | atomic => exact bumpalong_sound e p.pred lo _ hF i j hij hj hfail
  | lzy => exact bumpalong_sound_lazy e p.pred true lo _ hF i j hij hj hfail

/-- `(?>a+)b` gets the marker, `(?>a+?b?)c` (lazy inside Atomic) does not -/
example : RNode.same (placeBump false true (.cat 0 [.cloop 0 .atomic (.one 97) 1 none, .chr 0 (.one 98)]))
    (.cat 0 [.cloop 0 .atomic (.one 97) 1 none, .bump, .chr 0 (.one 98)]) = true := by decide

example : bumpSite false true (.cat 0 [.atomic (.cat 0 [.cloop 0 .lzy (.one 97) 1 none, .cloop 0 .greedy (.one 98) 0 (some 1)]), .chr 0 (.one 99)])
    = none := by decide

example : bumpSite false true (.cat 0 [.cloop 0 .lzy (.one 97) 1 none, .chr 0 (.one 98)]) = some (.lzy, .one 97, 1) := by decide

end RegexVerif.Props.C05
