/-
C05 — property theorems (stub: not built yet).
-/
namespace RegexVerif.Props.C05
end RegexVerif.Props.C05
