/-
C10 for Compile + match as ONE statement about pattern text (the chain).

Every link existed separately: `parse_total` (the parser model returns a tree or an ErrorCode for every rune
list), `reduceTree_wf_partial` (the reducer keeps node shapes), `compilePattern_total_partial` (no writer error
after a successful parse), `emit_vm_wf` / `emit_has_typing` / `emitted_no_fault` (for every `treeWf` tree the
interpreter model never faults on any text).  This file states the composition and proves it from ONE named
hypothesis on the parser's result (J3):

* **J1 (proved, `Lemmas/ReduceCaps*.lean`)** the reducer never invents a group number: `Reduce.reduceTree_capsOk`;
  `boundsOk`, the third component of `treeWf`, is used by none of the interpreter theorems (`Lemmas.Chain.treeOk`).
* **J2 (proved, `parse_shape`; `Lemmas/ParserShape*.lean`, `ParserExact.lean`)** the raw tree has the node shapes the
  reducer assumes.  It was NOT true of the parser before /repo debc02b: under RE2 `(?<n>a)(?(?P=n)b)` parsed into an
  ExprCond with ONE child (the `(` that should open the condition was consumed as the Python backreference `(?P=n)`)
  and `regexp2.Compile` panicked on it (`ComputeMinLength`, index out of range) — D50, found stating this joint.
* **J3 (hypothesis `PrescanAgrees`)** the capture pre-scan and the main scan agree on the group numbers.

`RawShapeOk` and `PrescanAgrees` are decidable predicates on the parse result; leg Pl evaluates both on every explored
pattern; `wfTree`, which the drivers evaluate on every `ok` answer, implies them up to the table facts of
`wfTree_gives_chain_hyps`.
-/
import RegexVerif.Props.C10Parser
import RegexVerif.Lemmas.ChainBridge
import RegexVerif.Lemmas.ParserShape3

namespace RegexVerif.Props.C10
open RegexVerif RegexVerif.Reduce RegexVerif.Lemmas.Chain

/-- the two hypotheses, evaluated on the outcome of the parser (`true` when the parser reports an error) -/
def chainHypB (E : Parser.Env) : Bool :=
  match Parser.parse E with
  | .ok t => RawShapeOk t && PrescanAgrees t
  | _ => true

/-- **Reducer joint (J1).**  If the raw tree has the parser's node shapes and every group number it uses maps to a
    slot of the capture array the writer will allocate (`PrescanAgrees`), then the reduced tree — after every
    `reduce()`, `eliminateEndingBacktracking`, `findAndMakeLoopsAtomic` and the marker placement, the reused
    alternation / concatenation / atomic rewrites included — satisfies the writer's and the interpreter's
    precondition `GoNode.ok ∧ capsOk`: reductions move and delete nodes, they never invent a group number. -/
theorem reduceTree_keeps_caps (orc : Orc) (on rtl : Bool) (t : Parser.RawTree) (h2 : RawShapeOk t = true)
    (h3 : PrescanAgrees t = true) :
    (reduceTree orc on t).ok = true ∧
    Writer.capsOk (Writer.mainCfg (treeInfo rtl t)) (Writer.capsize (treeInfo rtl t)) (reduceTree orc on t) = true := by
  have := treeOk_of_raw orc on rtl t h2 h3
  simpa [treeOk] using this

/-- **The interpreter theorems need `ok ∧ capsOk` only** (`boundsOk` is not used): no fault of any kind for the
    main program of such a tree — every text, start position in the text, `\G` origin, oracle set, fuel. -/
theorem emitted_no_fault_of_caps (ti : Writer.TreeInfo) (root : Writer.GoNode) (hok : root.ok = true)
    (hcaps : Writer.capsOk (Writer.mainCfg ti) (Writer.capsize ti) root = true)
    (env : VM.Env) (pos : Int) (h0 : 0 ≤ pos) (hn : pos ≤ env.len) (fuel : Nat) :
    ∃ s0, VM.init (Writer.emit ti root) pos = .ok s0 ∧ ∀ f, (VM.run (Writer.emit ti root) env fuel s0).1 ≠ .fault f :=
  emitted_no_fault' ti root (by simp [treeOk, hok, hcaps]) env pos h0 hn fuel

/-- **C10 for Compile + match from both decidable hypotheses** (`compile_and_run_no_fault_partial` below discharges
    `hJ2`).  For EVERY pattern text (`pattern : List Nat`), option set, `MaintainCaptureOrder` flag, parser oracle and reducer oracle: if the tree the parser returns (when it
    returns one) has the parser's node shapes (`RawShapeOk`) and registered group numbers (`PrescanAgrees`), then

    * `compilePattern` (= `emit ∘ reduceTree ∘ parse`, the model of `regexp2.Compile`, tied to it stage by stage
      by leg Pl) returns a program or a PARSE error — never a parser fault, never fuel exhaustion, never a writer
      error;
    * every attempt of the compiled program — every text, `\G` origin, interpreter oracle set (`env`), start
      position inside the text and number of iterations — starts and never ends in a fault of any of the thirteen
      kinds of `VM.Fault`: it returns, or is still running when the fuel ends;
    * the same for the bool-only program (`compilePatternQuick`) whenever it exists.

    This is the form that composes with any proof of the two joints: `hJ2` is `parse_shape` (proved below; it was false
    before /repo debc02b — `(?<n>a)(?(?P=n)b)` under RE2, D50), `hJ3` is open.  Both are evaluated by leg Pl on every
    explored pattern (`Pl:wf`, fifth bit). -/
theorem compile_and_run_no_fault_of_hyps (pattern : List Nat) (opts : Parser.Opts) (mco : Bool)
    (orc : Parser.Oracles) (rorc : Orc)
    (hJ2 : ∀ t, Parser.parse { pat := pattern, opts := opts, mco := mco, orc := orc } = .ok t → RawShapeOk t = true)
    (hJ3 : ∀ t, Parser.parse { pat := pattern, opts := opts, mco := mco, orc := orc } = .ok t → PrescanAgrees t = true) :
    (match compilePattern rorc { pat := pattern, opts := opts, mco := mco, orc := orc } with
     | .error e => ∃ code, e = .parse code
     | .ok prog => ∀ (env : VM.Env) (pos : Int) (fuel : Nat), 0 ≤ pos → pos ≤ env.len →
         ∃ s0, VM.init prog pos = .ok s0 ∧ ∀ f, (VM.run prog env fuel s0).1 ≠ .fault f) ∧
    (match compilePatternQuick rorc { pat := pattern, opts := opts, mco := mco, orc := orc } with
     | .error e => ∃ code, e = .parse code
     | .ok none => True
     | .ok (some qp) => ∀ (env : VM.Env) (pos : Int) (fuel : Nat), 0 ≤ pos → pos ≤ env.len →
         ∃ s0, VM.init qp pos = .ok s0 ∧ ∀ f, (VM.run qp env fuel s0).1 ≠ .fault f) := by
  rcases parse_total' { pat := pattern, opts := opts, mco := mco, orc := orc } with ⟨t, hp⟩ | ⟨c, hp⟩
  · have h2 := hJ2 t hp
    have h3 := hJ3 t hp
    have hc := compilePattern_ok rorc _ t hp h2
    have htree := treeOk_of_raw rorc true opts.r t h2 h3
    rw [hc.1, hc.2]
    refine ⟨fun env pos fuel h0 hn => emitted_no_fault' _ _ htree env pos h0 hn fuel, ?_⟩
    cases hq : Writer.emitQuick (treeInfo opts.r t) (reduceTree rorc true t) with
    | none => trivial
    | some qp => exact fun env pos fuel h0 hn => emittedQuick_no_fault' _ _ htree qp hq env pos h0 hn fuel
  · have hc := compilePattern_error rorc _ c hp
    rw [hc.1, hc.2]
    exact ⟨⟨c, rfl⟩, ⟨c, rfl⟩⟩

/-- **J2: the raw tree has the node shapes the reducer assumes.**  For every pattern, option set, oracle and every
    fuel above the pattern length: if `Parse` returns a tree, every node of it has a known node type with the child count
    `Reduce.okRaw` asks for — leaves have no children, a Loop / Lazyloop / Capture / Group / lookaround / Atomic exactly
    one, an Alternate at least one unless it is the empty alternation of `()`, a BackRefCond one or two, an ExprCond two or
    three (its condition first), a Concatenate any number.
    Proof (`Lemmas/ParserShape*.lean`): a partial-correctness logic over the parser monad (`H P m Q`; `H.of_wp` imports the
    specifications of the totality proof); value facts of the node-returning scanners (`ret_scanBackslash`,
    `ret_scanGroupOpen`, …: a leaf / a childless group node, whatever the state); a tree invariant (`TreeInv`: group /
    alternation / concatenation under construction, the unit, every frame of the group stack) through every tree-building
    operation; and, for the condition of an ExprCond (`Lemmas/ParserExact.lean`): after `(?(` the parser stands on the
    inner `(` with `ignoreNextParen` set (`scanGroupOpen_rew`), the next turn skips nothing (`stepRun_atParen`), does not
    take that paren for the RE2 backreference `(?P=name)` (`stepIsPythonRef_ignore` — the repair of /repo debc02b, D50:
    before it this theorem was false) and opens a group (`scanGroupOpen_some`: the default case re-reads a rune that is not
    `)`, because `(?)` counts as a plain group), so `addGroup` never closes an ExprCond that still waits for its
    condition. -/
theorem parse_tree_shape (pat : List Nat) (opts : Parser.Opts) (mco : Bool) (orc : Parser.Oracles) (fuel : Nat)
    (hf : pat.length < fuel) (t : Parser.RawTree)
    (h : Parser.parseFuel { pat := pat, opts := opts, mco := mco, orc := orc } fuel = .ok t) : Parser.shp t.root = true :=
  Parser.shp_parseFuel _ fuel hf t h

/-- **J2 at the reducer's interface**: `parse E = .ok t → RawShapeOk t` — the hypothesis of `reduceTree_wf_partial`,
    `compilePattern_total_partial` (Props/C01.lean) and of J1 holds for every tree the parser returns. -/
theorem parse_shape (E : Parser.Env) (t : Parser.RawTree) (h : Parser.parse E = .ok t) : RawShapeOk t = true :=
  Parser.rawShapeOk_of_parse E t h

/-- **C10 for Compile + match, conditional on J3 only.**  For EVERY pattern text (`pattern : List Nat`), option set,
    `MaintainCaptureOrder` flag, parser oracle and reducer oracle: if the tree the parser returns (when it returns one)
    has registered group numbers (`PrescanAgrees`: every group number of a Ref / BackRefCond / Capture maps to a slot of
    the capture array the writer allocates; evaluated by leg Pl on every explored pattern), then

    * `compilePattern` (= `emit ∘ reduceTree ∘ parse`, the model of `regexp2.Compile`, tied to it stage by stage
      by leg Pl) returns a program or a PARSE error — never a parser fault, never fuel exhaustion, never a writer error;
    * every attempt of the compiled program — every text, `\G` origin, interpreter oracle set (`env`), start position
      inside the text and number of iterations — starts and never ends in a fault of any of the thirteen kinds of
      `VM.Fault`: it returns, or is still running when the fuel ends;
    * the same for the bool-only program (`compilePatternQuick`) whenever it exists.

    FULL STATEMENT (not proved): the same without `hJ3`.  It needs a simulation between `countCaptures` and `scanRegex`
    (every number the main scan hands out was registered by the pre-scan) and — in the model, where a pattern is an
    unbounded rune list — a bound on the pattern length (`noteCaptureSlot`'s `MaxInt32` case: design.d/C10-chain.md). -/
theorem compile_and_run_no_fault_partial (pattern : List Nat) (opts : Parser.Opts) (mco : Bool)
    (orc : Parser.Oracles) (rorc : Orc)
    (hJ3 : ∀ t, Parser.parse { pat := pattern, opts := opts, mco := mco, orc := orc } = .ok t → PrescanAgrees t = true) :
    (match compilePattern rorc { pat := pattern, opts := opts, mco := mco, orc := orc } with
     | .error e => ∃ code, e = .parse code
     | .ok prog => ∀ (env : VM.Env) (pos : Int) (fuel : Nat), 0 ≤ pos → pos ≤ env.len →
         ∃ s0, VM.init prog pos = .ok s0 ∧ ∀ f, (VM.run prog env fuel s0).1 ≠ .fault f) ∧
    (match compilePatternQuick rorc { pat := pattern, opts := opts, mco := mco, orc := orc } with
     | .error e => ∃ code, e = .parse code
     | .ok none => True
     | .ok (some qp) => ∀ (env : VM.Env) (pos : Int) (fuel : Nat), 0 ≤ pos → pos ≤ env.len →
         ∃ s0, VM.init qp pos = .ok s0 ∧ ∀ f, (VM.run qp env fuel s0).1 ≠ .fault f) :=
  compile_and_run_no_fault_of_hyps pattern opts mco orc rorc (fun t ht => Parser.rawShapeOk_of_parse _ t ht) hJ3

/-- **Compile never ends in a writer error, a parser fault or fuel exhaustion** — for every pattern text, with no
    hypothesis left (J2 + the shape theorem of the reducer): `compilePattern` returns a program or a parse error. -/
theorem compilePattern_total (E : Parser.Env) (rorc : Orc) :
    (∃ prog, compilePattern rorc E = .ok prog) ∨ (∃ code, compilePattern rorc E = .error (.parse code)) := by
  rcases parse_total' E with ⟨t, hp⟩ | ⟨c, hp⟩
  · exact Or.inl ⟨_, (compilePattern_ok rorc E t hp (Parser.rawShapeOk_of_parse E t hp)).1⟩
  · exact Or.inr ⟨c, (compilePattern_error rorc E c hp).1⟩

/-- the same from the evaluated check -/
theorem compile_and_run_no_fault_checked (E : Parser.Env) (rorc : Orc) (h : chainHypB E = true) :
    (match compilePattern rorc E with
     | .error e => ∃ code, e = .parse code
     | .ok prog => ∀ (env : VM.Env) (pos : Int) (fuel : Nat), 0 ≤ pos → pos ≤ env.len →
         ∃ s0, VM.init prog pos = .ok s0 ∧ ∀ f, (VM.run prog env fuel s0).1 ≠ .fault f) := by
  have hh : ∀ t, Parser.parse E = .ok t → RawShapeOk t = true ∧ PrescanAgrees t = true := by
    intro t ht
    simp only [chainHypB, ht, Bool.and_eq_true] at h
    exact h
  exact (compile_and_run_no_fault_of_hyps E.pat E.opts E.mco E.orc rorc (fun t ht => (hh t ht).1) (fun t ht => (hh t ht).2)).1

/-- **`wfTree` gives J2 and J3.**  A raw tree that passes the decidable `Parser.wfTree` — what the driver evaluates on
    every `ok` answer of leg Pr, and what `parse_wf` (not proved: `parse_wf_partial` gives the root) says of every tree
    the parser returns —, whose Group nodes have `M = 0` (`groupsZero`) and whose capture tables have the shape
    `assignNameSlots` leaves (`TablesOk`: 0 registered, keys ≤ MaxInt32, dense without a `Capnumlist`, a non-empty
    `Capnumlist` of another length than `Captop` otherwise), satisfies both hypotheses of the chain theorem. -/
theorem wfTree_gives_chain_hyps (t : Parser.RawTree) (hwf : Parser.wfTree t = true) (hz : groupsZero t.root = true)
    (htb : TablesOk t.tables = true) : RawShapeOk t = true ∧ PrescanAgrees t = true :=
  chain_hyps_of_wfTree t hwf hz htb

/-- **C10 for Compile + match from `parse_wf`.**  The chain theorem with its hypotheses in the parser slice's terms:
    if the tree the parser returns passes `wfTree` (with `groupsZero`, `TablesOk`), Compile returns a program or a parse
    error and no attempt of the program (main or bool-only) ends in a fault. -/
theorem compile_and_run_no_fault_of_wfTree (pattern : List Nat) (opts : Parser.Opts) (mco : Bool)
    (orc : Parser.Oracles) (rorc : Orc)
    (hwf : ∀ t, Parser.parse { pat := pattern, opts := opts, mco := mco, orc := orc } = .ok t →
      Parser.wfTree t = true ∧ groupsZero t.root = true ∧ TablesOk t.tables = true) :
    (match compilePattern rorc { pat := pattern, opts := opts, mco := mco, orc := orc } with
     | .error e => ∃ code, e = .parse code
     | .ok prog => ∀ (env : VM.Env) (pos : Int) (fuel : Nat), 0 ≤ pos → pos ≤ env.len →
         ∃ s0, VM.init prog pos = .ok s0 ∧ ∀ f, (VM.run prog env fuel s0).1 ≠ .fault f) ∧
    (match compilePatternQuick rorc { pat := pattern, opts := opts, mco := mco, orc := orc } with
     | .error e => ∃ code, e = .parse code
     | .ok none => True
     | .ok (some qp) => ∀ (env : VM.Env) (pos : Int) (fuel : Nat), 0 ≤ pos → pos ≤ env.len →
         ∃ s0, VM.init qp pos = .ok s0 ∧ ∀ f, (VM.run qp env fuel s0).1 ≠ .fault f) :=
  compile_and_run_no_fault_of_hyps pattern opts mco orc rorc
    (fun t ht => (chain_hyps_of_wfTree t (hwf t ht).1 (hwf t ht).2.1 (hwf t ht).2.2).1)
    (fun t ht => (chain_hyps_of_wfTree t (hwf t ht).1 (hwf t ht).2.1 (hwf t ht).2.2).2)

/-! ### non-vacuity -/

private def rawN (t : Parser.NT) (m n : Int) (kids : List Parser.RNode) : Parser.RNode := .mk t {} 0 [] none m n kids
private def rawGroup (t : Parser.NT) (m n : Int) (body : List Parser.RNode) : Parser.RNode :=
  rawN t m n [rawN .alternate 0 0 [rawN .concatenate 0 0 body]]

/-- the raw tree of `(a)(?:b|\1)*` (dense numbering) -/
def chainDemo : Parser.RawTree :=
  { root := rawGroup .capture 0 (-1)
      [rawGroup .capture 1 (-1) [.mk .one {} 97 [] none 0 0 []],
       rawN .loop 0 2147483647 [rawN .group 0 0 [rawN .alternate 0 0
         [rawN .concatenate 0 0 [.mk .one {} 98 [] none 0 0 []], rawN .concatenate 0 0 [rawN .ref 1 0 []]]]]],
    tables := { caps := [0, 1], capnumlist := none, captop := 2, capnames := none, caplist := none } }

/-- the raw tree of `(?<5>a)(?<-5>b)(?(5)c)` (sparse numbering: the writer remaps 5 ↦ 1; a balancing group) -/
def chainDemoSparse : Parser.RawTree :=
  { root := rawGroup .capture 0 (-1)
      [rawGroup .capture 5 (-1) [.mk .one {} 97 [] none 0 0 []],
       rawGroup .capture (-1) 5 [.mk .one {} 98 [] none 0 0 []],
       rawN .backRefCond 5 0 [rawN .concatenate 0 0 [.mk .one {} 99 [] none 0 0 []]]],
    tables := { caps := [0, 5], capnumlist := some [0, 5], captop := 6,
                capnames := some [("0", 0), ("5", 5)], caplist := some ["0", "5"] } }

/-- an oracle for the examples -/
def chainOrc : Orc := { charIn := fun _ _ => false, overlap := fun _ _ => false, isWord := fun _ => true, isEcmaWord := fun _ => true }

/-- the hypotheses of `wfTree_gives_chain_hyps` hold on both trees, and so do its conclusions (evaluated) -/
example : Parser.wfTree chainDemo = true ∧ groupsZero chainDemo.root = true ∧ TablesOk chainDemo.tables = true ∧
    Parser.wfTree chainDemoSparse = true ∧ groupsZero chainDemoSparse.root = true ∧ TablesOk chainDemoSparse.tables = true := by
  decide
example : RawShapeOk chainDemo = true ∧ PrescanAgrees chainDemo = true ∧
    RawShapeOk chainDemoSparse = true ∧ PrescanAgrees chainDemoSparse = true := by decide
/-- J1 applies, and its conclusion evaluated: the reduced trees keep their group numbers; a group number that is not
    registered (`\2` in a pattern with one group) is rejected by the hypothesis -/
example : (reduceTree chainOrc true chainDemo).ok = true ∧
    Writer.capsOk (Writer.mainCfg (treeInfo false chainDemo)) (Writer.capsize (treeInfo false chainDemo))
      (reduceTree chainOrc true chainDemo) = true :=
  reduceTree_keeps_caps chainOrc true false chainDemo (by decide) (by decide)
example : Writer.treeWf (treeInfo false chainDemoSparse) (reduceTree chainOrc true chainDemoSparse) = true := by decide
example : PrescanAgrees { chainDemo with root := rawGroup .capture 0 (-1) [rawN .ref 2 0 []] } = false := by decide
/-- the program of the reduced tree of `(a)(?:b|\1)*` never faults: the interpreter theorem applies through J1 -/
example : ∃ s0, VM.init (Writer.emit (treeInfo false chainDemo) (reduceTree chainOrc true chainDemo)) 1 = .ok s0 ∧
    ∀ f, (VM.run (Writer.emit (treeInfo false chainDemo) (reduceTree chainOrc true chainDemo)) Lemmas.VM.demoEnv 1000 s0).1 ≠ .fault f :=
  emitted_no_fault_of_caps _ _ (reduceTree_keeps_caps chainOrc true false chainDemo (by decide) (by decide)).1
    (reduceTree_keeps_caps chainOrc true false chainDemo (by decide) (by decide)).2 Lemmas.VM.demoEnv 1 (by decide) (by decide) 1000

/-- the shape predicate of J2, evaluated: it holds on both trees; an ExprCond with one child — the tree
    `(?<n>a)(?(?P=n)b)` had before /repo debc02b — fails it (and `RawShapeOk`) -/
example : Parser.shp chainDemo.root = true ∧ Parser.shp chainDemoSparse.root = true := by decide
example : Parser.shp (rawGroup .capture 0 (-1) [rawN .exprCond 0 0 [rawN .concatenate 0 0 []]]) = false ∧
    RawShapeOk { chainDemo with root := rawGroup .capture 0 (-1) [rawN .exprCond 0 0 [rawN .concatenate 0 0 []]] } = false := by
  decide

/-- the whole chain on pattern text: for the empty pattern and for `a` the kernel evaluates the parser and both
    hypotheses (`(a)` already takes minutes), so `compile_and_run_no_fault_checked` applies to them without
    hypotheses left -/
example : chainHypB (env0 []) = true := by rfl
set_option maxRecDepth 20000 in
example : chainHypB (env0 [97]) = true := by rfl
/-- a parse error is the other documented outcome: `)` -/
example : compilePattern chainOrc (env0 [41]) = .error (.parse .unexpectedParen) := by rfl

end RegexVerif.Props.C10
