/-
C19 — Escape and Unescape are inverse and Escape yields a literal.
Property theorems about the model `RegexVerif.Model.Escape` (tied to syntax/escape.go and
syntax/parser.go by the regenerated `Generated.Escape` facts and by correspondence leg E).
-/
import RegexVerif.Lemmas.Escape
import RegexVerif.Lemmas.EscapeParse
import RegexVerif.Lemmas.EscapeFull
import RegexVerif.Lemmas.EscapeSpec

namespace RegexVerif.Props.C19
open RegexVerif RegexVerif.Escape RegexVerif.Lemmas.Escape
open RegexVerif.EscapeParse RegexVerif.Lemmas.EscapeParse

/-! ### obligations regenerated from the Go source (`Generated.Escape`) -/

/-- Every rune of the `meta` constant of escape.go, written after a backslash, is read back by
    the parser's escape scanner as itself (it is not an octal digit or an escape letter). -/
theorem meta_is_plain_after_backslash : Generated.metaChars.all plainAfterBackslash = true := meta_plain

/-- "Escape yields a literal", table part: every ASCII character that ends a run of ordinary
    characters in the parser — category ≥ X, i.e. the stoppers of `scanRegex` with and without
    IgnorePatternWhitespace, quantifiers, `#` and whitespace — is either in `meta` (backslashed) or one
    of the whitespace controls `\t \n \v \f \r`, which `escape` writes as letter escapes. -/
theorem specials_are_escaped :
    ∀ ch, ch < 128 → Generated.catX ≤ Generated.parserCategory.getD ch 0 →
      (Generated.metaChars.contains ch = true ∨ [9, 10, 11, 12, 13].contains ch = true) := by
  decide

/-! ### the round trip -/

/-- **C19, round trip.** For every rune string `s` (every list of code points; validity of the
    runes is not even needed), whatever the printable-rune oracle says, as long as no rune of `meta` is a
    word character: `Unescape (Escape s) = s`. -/
theorem unescape_escape (isPrint isWord : Nat → Bool)
    (hW : ∀ c, Generated.metaChars.contains c = true → isWord c = false)
    (s : List Nat) : unescape isWord (escape isPrint s) = some s := by
  unfold unescape
  have := unescapeFuel_escape isPrint isWord hW s [] (2 * (escape isPrint s).length + 2)
    (by have := escape_length isPrint s; omega)
  simpa using this

/-- non-vacuity: the hypothesis on the oracle is met by ASCII word characters, and a concrete
    string with a metacharacter, a control, a non-printable BMP rune and an astral rune round-trips. -/
def asciiWord (c : Nat) : Bool := decide (48 ≤ c ∧ c ≤ 57 ∨ 65 ≤ c ∧ c ≤ 90 ∨ 97 ≤ c ∧ c ≤ 122 ∨ c = 95)

example : ∀ c, Generated.metaChars.contains c = true → asciiWord c = false := by
  intro c hc
  have h : Generated.metaChars.all (fun c => !asciiWord c) = true := by decide
  have := List.all_eq_true.mp h c (by simpa using hc)
  simpa using this

example : unescape (fun c => decide (97 ≤ c ∧ c ≤ 122))
    (escape (fun c => decide (32 ≤ c ∧ c < 127)) [97, 46, 10, 0x378, 120, 0x10FFFF, 92]) =
    some [97, 46, 10, 0x378, 120, 0x10FFFF, 92] := by decide

/-! ### the parser's reading of `Escape`'s output, per option set -/

/-- The category sets written out in the parser model are the ones of parser.go: for every rune,
    `isSpaceCh` = `isSpace` (`ch <= ' ' && _category[ch] == X`), `isSpecialCh` = `isSpecial`
    (`ch <= '|' && _category[ch] >= S`), `isQuantCh` = `isQuantifier` (`ch <= '{' && _category[ch] >= Q`),
    and under IgnorePatternWhitespace the only further stoppers (`isStopperX`: `>= X`) are the blanks and
    `#`.  Re-checked against the `_category` table regenerated from parser.go on every run. -/
theorem category_sets_match_table (ch : Nat) :
    isSpaceCh ch = (decide (ch ≤ 32) && (Generated.parserCategory.getD ch 0 == Generated.catX)) ∧
    isSpecialCh ch = (decide (ch ≤ 124) && decide (Generated.catS ≤ Generated.parserCategory.getD ch 0)) ∧
    isQuantCh ch = (decide (ch ≤ 123) && decide (Generated.catQ ≤ Generated.parserCategory.getD ch 0)) ∧
    (isSpaceCh ch || ch == 35 || isSpecialCh ch) =
      (decide (ch ≤ 124) && decide (Generated.catX ≤ Generated.parserCategory.getD ch 0)) := by
  have small : ∀ ch, ch < 128 →
      isSpaceCh ch = (decide (ch ≤ 32) && (Generated.parserCategory.getD ch 0 == Generated.catX)) ∧
      isSpecialCh ch = (decide (ch ≤ 124) && decide (Generated.catS ≤ Generated.parserCategory.getD ch 0)) ∧
      isQuantCh ch = (decide (ch ≤ 123) && decide (Generated.catQ ≤ Generated.parserCategory.getD ch 0)) ∧
      (isSpaceCh ch || ch == 35 || isSpecialCh ch) =
        (decide (ch ≤ 124) && decide (Generated.catX ≤ Generated.parserCategory.getD ch 0)) := by
    decide
  by_cases h : ch < 128
  · exact small ch h
  · have h1 : ¬ ch ≤ 32 := by omega
    have h2 : ¬ ch ≤ 124 := by omega
    have h3 : ¬ ch ≤ 123 := by omega
    have a : isSpaceCh ch = false := by simp [isSpaceCh]; omega
    have b : isSpecialCh ch = false := by simp [isSpecialCh]; omega
    have c : isQuantCh ch = false := by simp [isQuantCh]; omega
    have d : (ch == 35) = false := by simp; omega
    simp [a, b, c, d, h1, h2, h3]

/-- **C19, "Escape yields a literal".** For every rune string `s` and every option set of the modelled
    family — any combination of IgnorePatternWhitespace, ECMAScript, RE2 and Unicode (Multiline,
    Singleline and ExplicitCapture do not touch the fragment; RightToLeft only reverses the concatenation
    internally; IgnoreCase is excluded: it turns cased letters into sets) — the parser, reading the
    pattern `Escape s` left to right as `scanRegex` does, meets nothing but literal runes, and the runes it
    meets spell exactly `s`.  Consequence for the Go code: the tree built for `Escape s` is a
    concatenation of One/Multi nodes spelling `s` (no quantifier, class, anchor, reference, group or
    comment arises, no escape is malformed), so the compiled pattern is the literal string `s` and,
    anchored at both ends, matches the text `s` and nothing else.

    Hypotheses on the oracles: no rune of `meta` is a word character (`hW`, as for the round trip), and
    the whitespace controls U+0009–U+000D are not printable (`hP`: were one printable, `escape` would
    write it raw and IgnorePatternWhitespace would drop it).  Both hold for Go's `unicode.IsPrint` and
    `syntax.IsWordChar`; leg E feeds the real tables. -/
theorem escape_parses_as_literal (isPrint isWord : Nat → Bool)
    (hW : ∀ c, Generated.metaChars.contains c = true → isWord c = false)
    (hP : ∀ c, 9 ≤ c → c ≤ 13 → isPrint c = false)
    (o : ParseOpts) (s : List Nat) :
    parseLit o isWord (escape isPrint s) = some s := by
  unfold parseLit parseWhy
  rw [parseFuel_escape isPrint isWord hW hP o s [] _ (by have := escape_length isPrint s; omega)]
  simp

/-- The fuel of the parser model is never exhausted: `parseWhy` always answers with a literal or with
    the reason why the pattern leaves the literal fragment (so `parseLit … = none` always has such a
    reason). -/
theorem parseWhy_fuel_sufficient (o : ParseOpts) (isWord : Nat → Bool) (pat : List Nat) :
    parseWhy o isWord pat ≠ .outOfFuel :=
  parseFuel_ne_outOfFuel o isWord _ pat [] (by omega)

/-- The new model extends the old one: whenever the option-free parser reads a pattern as the
    literal `t`, `Unescape` returns `t` for the same text.  (The converse fails, as it should: `Unescape`
    also accepts `a.b`, `\x41+`, which are not literals.) -/
theorem parseLit_sound_wrt_unescape (isWord : Nat → Bool) (p t : List Nat)
    (h : parseLit {} isWord p = some t) : unescape isWord p = some t := by
  unfold parseLit parseWhy at h
  split at h
  · rename_i t' heq
    injection h with h; subst h
    exact parseFuel_sound_unescape isWord _ p [] _ heq _ (by omega)
  · cases h

/-! #### non-vacuity, option sensitivity, and the seeded mutations as counter-models -/

/-- printable ASCII as the printable-rune oracle of the examples (`hP` holds for it) -/
def asciiPrint (c : Nat) : Bool := decide (32 ≤ c ∧ c < 127)

example : ∀ c, 9 ≤ c → c ≤ 13 → asciiPrint c = false := by
  intro c h1 h2; simp [asciiPrint]; omega

def optsX : ParseOpts := { x := true }
def optsEcma : ParseOpts := { ecma := true }
def optsRe2 : ParseOpts := { re2 := true }
def optsEcmaUX : ParseOpts := { ecma := true, u := true, x := true }

/-- a string with metacharacters, blanks, `#`, every letter-escaped control, BEL, a `\xHH` control, a
    non-printable BMP rune, `x`/`u`/digits right after them, a brace that looks like a repeat count, and a
    non-printable astral rune -/
def sample : List Nat :=
  [97, 32, 35, 46, 9, 10, 11, 12, 13, 7, 27, 52, 49, 0x378, 102, 123, 50, 125, 120, 0xE0001, 92, 107]

example : parseLit {} asciiWord (escape asciiPrint sample) = some sample := by decide
example : parseLit optsX asciiWord (escape asciiPrint sample) = some sample := by decide
example : parseLit optsEcma asciiWord (escape asciiPrint sample) = some sample := by decide
example : parseLit optsRe2 asciiWord (escape asciiPrint sample) = some sample := by decide
example : parseLit optsEcmaUX asciiWord (escape asciiPrint sample) = some sample := by decide

/-- the model is sensitive to the options where the parser is: `\x{41}` is `A` by default and `x`
    repeated 41 times under ECMAScript; `\x{f}` is U+000F by default and the text `x{f}` under
    ECMAScript; `\_` is an error by default and `_` under RE2; `\k` is a reference by default and `k`
    under ECMAScript; `\u{41}` is an escape only under ECMAScript+Unicode; `a b#c` loses its blank and
    its comment under IgnorePatternWhitespace; `\a` is BEL under every option set. -/
example : parseWhy {} asciiWord [92, 120, 123, 52, 49, 125] = .lit [65] := by decide
example : parseWhy optsEcma asciiWord [92, 120, 123, 52, 49, 125] = .stop .construct := by decide
example : parseWhy {} asciiWord [92, 120, 123, 102, 125] = .lit [15] := by decide
example : parseWhy optsEcma asciiWord [92, 120, 123, 102, 125] = .lit [120, 123, 102, 125] := by decide
example : parseWhy {} asciiWord [92, 95] = .stop .error := by decide
example : parseWhy optsRe2 asciiWord [92, 95] = .lit [95] := by decide
example : parseWhy {} asciiWord [92, 107] = .stop .error := by decide
example : parseWhy optsEcma asciiWord [92, 107] = .lit [107] := by decide
example : parseWhy {} asciiWord [92, 117, 123, 52, 49, 125] = .stop .error := by decide
example : parseWhy optsEcma asciiWord [92, 117, 123, 52, 49, 125] = .stop .construct := by decide
example : parseWhy optsEcmaUX asciiWord [92, 117, 123, 52, 49, 125] = .lit [65] := by decide
example : parseWhy {} asciiWord [97, 32, 98, 35, 99] = .lit [97, 32, 98, 35, 99] := by decide
example : parseWhy optsX asciiWord [97, 32, 98, 35, 99] = .lit [97, 98] := by decide
example : parseWhy {} asciiWord [97, 46] = .stop .nonlit := by decide
example : parseWhy {} asciiWord [92, 100] = .stop .nonlit := by decide
example : parseWhy {} asciiWord [97, 123, 50, 125] = .stop .construct := by decide
example : parseWhy {} asciiWord [97, 123, 50, 120] = .lit [97, 123, 50, 120] := by decide

/-- `parseLit_sound_wrt_unescape` is not vacuous, and its converse fails -/
example : parseLit {} asciiWord [92, 120, 52, 49, 92, 46, 98] = some [65, 46, 98] := by decide
example : unescape asciiWord [97, 46, 98] = some [97, 46, 98] ∧ parseLit {} asciiWord [97, 46, 98] = none := by
  decide

/-- hexadecimal digits of `n` without padding (`strconv.FormatInt(n, 16)`), for the mutants below -/
def hexDigitsAux : Nat → Nat → List Nat → List Nat
  | 0, _, acc => acc
  | f + 1, n, acc => if n < 16 then hexChar n :: acc else hexDigitsAux f (n / 16) (hexChar (n % 16) :: acc)
def hexDigits (n : Nat) : List Nat := hexDigitsAux 8 n []

/-- **Seeded mutation C19-astral-xbrace as a counter-model.**  `escape` changed to write a
    non-printable rune above U+FFFF as `\x{HHHHH}` instead of raw.  The mutant still round-trips and is
    still a literal under the default, RE2 and IgnorePatternWhitespace options, but under ECMAScript
    `\x{` is not an escape: the conclusion of `escape_parses_as_literal` fails (the text `x{e0001}` is
    read instead, and for U+40000 the brace is a repeat count). -/
def escapeRuneXBrace (isPrint : Nat → Bool) (r : Nat) : List Nat :=
  if !isPrint r && decide (0xFFFF < r) then [bslash, 120, 123] ++ hexDigits r ++ [125] else escapeRune isPrint r
def escapeXBrace (isPrint : Nat → Bool) (s : List Nat) : List Nat := s.flatMap (escapeRuneXBrace isPrint)

example : escapeXBrace asciiPrint [116, 0xE0001] = [116, 92, 120, 123, 101, 48, 48, 48, 49, 125] := by decide
example : unescape asciiWord (escapeXBrace asciiPrint [116, 0xE0001]) = some [116, 0xE0001] := by decide
example : parseLit {} asciiWord (escapeXBrace asciiPrint [116, 0xE0001]) = some [116, 0xE0001] := by decide
example : parseLit optsRe2 asciiWord (escapeXBrace asciiPrint [116, 0xE0001]) = some [116, 0xE0001] := by decide
example : parseLit optsEcma asciiWord (escapeXBrace asciiPrint [116, 0xE0001]) ≠ some [116, 0xE0001] := by decide
example : parseLit optsEcma asciiWord (escapeXBrace asciiPrint [116, 0xE0001]) =
    some [116, 120, 123, 101, 48, 48, 48, 49, 125] := by decide
example : parseWhy optsEcma asciiWord (escapeXBrace asciiPrint [0x40000]) = .stop .construct := by decide

/-- **Seeded mutation C19b-ecma-bel.**  There the *parser* was changed (under ECMAScript `\a` and `\e`
    read as the letters).  The model pins the reading of the unchanged parser — BEL and ESC under every
    option set — so leg E reports the changed parser as a correspondence break (and, model-free, as an
    impl-violation).  The same defect seen from `escape`'s side: a variant that writes BEL as an escape
    ECMAScript does not have (`\x{7}`) is rejected by the theorem's conclusion in the same way. -/
example : parseLit optsEcma asciiWord [92, 97] = some [7] ∧ parseLit optsEcma asciiWord [92, 101] = some [27] ∧
    parseLit {} asciiWord [92, 97] = some [7] ∧ parseLit optsRe2 asciiWord [92, 97] = some [7] := by decide
example : parseLit {} asciiWord [92, 120, 123, 55, 125] = some [7] ∧
    parseLit optsEcma asciiWord [92, 120, 123, 55, 125] ≠ some [7] := by decide

/-- **Reverted fix 9e58dca as a counter-model.**  `escape` writing `\u` with unpadded hex: for U+0378
    followed by `x` the parser finds too few hex digits (an error by default; the letter `u` under
    ECMAScript) — either way not the literal. -/
def escapeRuneUnpadded (isPrint : Nat → Bool) (r : Nat) : List Nat :=
  if !isPrint r && decide (0x100 ≤ r) then [bslash, 117] ++ hexDigits r else escapeRune isPrint r
def escapeUnpadded (isPrint : Nat → Bool) (s : List Nat) : List Nat := s.flatMap (escapeRuneUnpadded isPrint)

example : parseWhy {} asciiWord (escapeUnpadded asciiPrint [0x378, 120]) = .stop .error := by decide
example : parseLit optsEcma asciiWord (escapeUnpadded asciiPrint [0x378, 120]) = some [117, 51, 55, 56, 120] := by
  decide
example : parseLit {} asciiWord (escapeUnpadded asciiPrint [0x378, 97]) = some [0x378a] := by decide


/-! ### "Escape yields a literal" on the FULL parser model (`Model/Parser.lean`)

`escape_parses_as_literal` above is about `parseLit`, the small model of the parser restricted to the literal
fragment.  The theorems of this section are about `Parser.parse` itself — the model of `syntax.Parse`
(`countCaptures` + `scanRegex` and everything they call) that leg Pr compares with the Go parser on arbitrary
patterns and that `Props.C10.parse_total` / the chain theorem are about. -/

/-- **The literal a raw-tree node spells.**  `spells n w`: `n` is a literal leaf — a One (`[ch]`), a Multi (its
    string), an Empty (`[]`), each without set and children (`Parser.leafRunes`) — or a Concatenate all of whose
    children are such leaves and whose runes, read in pattern order, concatenate to `w` (`Parser.kidsRunes`; the
    parser stores the children of a RightToLeft concatenation reversed: `reverseLeft`). -/
def spells (n : Parser.RNode) (w : List Nat) : Prop :=
  Parser.leafRunes n = some w ∨
  (n.t = .concatenate ∧ Parser.kidsRunes (if n.o.r then n.kids.reverse else n.kids) = some w)

instance (n : Parser.RNode) (w : List Nat) : Decidable (spells n w) := by unfold spells; exact inferInstance

/-- the tree of a pattern without groups and alternatives around the node `c`: the root Capture 0 (slot 0, no
    balancing slot) over the one-branch Alternate the parser always builds (`addGroup`; the raw tree is the tree
    before any `reduce()`), all with the top-level options -/
def literalRoot (opts : Parser.Opts) (c : Parser.RNode) : Parser.RNode :=
  .mk .capture opts 0 [] none 0 (-1) [.mk .alternate opts 0 [] none 0 0 [c]]

/-- **C19, "Escape yields a literal", on the full parser model.**  For every rune string `s` (any list of code
    points: the pattern is a rune list in the model, validity of the runes is not needed), every oracle record, and
    EVERY option set without IgnoreCase — all 256 combinations of Multiline, ExplicitCapture, Singleline,
    IgnorePatternWhitespace, RightToLeft, ECMAScript, RE2, Unicode, with or without `MaintainCaptureOrder`; these
    include the 16 combinations of `escape_parses_as_literal` — `Parse(Escape(s))` succeeds (no ErrorCode, no
    fault, fuel not exhausted), its capture tables are those of a pattern without groups (slot 0 only), and its
    tree is the root Capture 0 around a Concatenate that SPELLS `s`: every child is a One or a Multi node (a run
    of unescaped runes becomes one node: One for a single rune, Multi for more; every escape `\c`, `\n`…, `\xHH`,
    `\uHHHH` becomes a One), and the runes of the children, in pattern order, are exactly `s`.
    IgnoreCase is excluded (`hi`): it turns cased letters into sets, which is not "literal meaning".
    Oracle hypotheses as in `escape_parses_as_literal`. -/
theorem escape_parses_as_literal_full (isPrint : Nat → Bool) (orc : Parser.Oracles)
    (hW : ∀ c, Generated.metaChars.contains c = true → orc.isWord c = false)
    (hP : ∀ c, 9 ≤ c → c ≤ 13 → isPrint c = false)
    (opts : Parser.Opts) (hi : opts.i = false) (mco : Bool) (s : List Nat) :
    ∃ c, Parser.parse { pat := escape isPrint s, opts := opts, mco := mco, orc := orc } =
        .ok { root := literalRoot opts c,
              tables := Parser.noGroupTables { pat := escape isPrint s, opts := opts, mco := mco, orc := orc } } ∧
      spells c s ∧ c.t = .concatenate ∧ c.o = opts ∧
      (Parser.noGroupTables { pat := escape isPrint s, opts := opts, mco := mco, orc := orc }).caps = [0] := by
  obtain ⟨ks, h1, h2⟩ := Parser.ef_parse { pat := escape isPrint s, opts := opts, mco := mco, orc := orc }
    isPrint hW hP s rfl hi
  refine ⟨.mk .concatenate opts 0 [] none 0 0 (if opts.r then ks.reverse else ks), h1, Or.inr ⟨rfl, ?_⟩, rfl, rfl,
    (Parser.noGroupTables_caps _).1⟩
  simp only [Parser.RNode.o, Parser.RNode.kids]
  by_cases hr : opts.r = true <;> simp [hr, h2]

/-- the full-model options of a `ParseOpts` (the four options that change how a literal is read), the others
    given separately -/
def fullOpts (o : ParseOpts) (m n s r : Bool) : Parser.Opts :=
  { i := false, m := m, n := n, s := s, x := o.x, r := r, e := o.ecma, re2 := o.re2, u := o.u }

/-- **The two parser models agree on `Escape`'s output** — the statement the audit asked for, mentioning both
    `parseLit` and `Parser.parse`: under each of the 16 option sets of `escape_parses_as_literal` (and whatever
    Multiline / ExplicitCapture / Singleline / RightToLeft are), the small model reads `Escape s` as the literal
    `s` and the full model builds a tree that spells `s`. -/
theorem parseLit_and_parse_agree_on_escape (isPrint : Nat → Bool) (orc : Parser.Oracles)
    (hW : ∀ c, Generated.metaChars.contains c = true → orc.isWord c = false)
    (hP : ∀ c, 9 ≤ c → c ≤ 13 → isPrint c = false)
    (o : ParseOpts) (m n sl r mco : Bool) (s : List Nat) :
    parseLit o orc.isWord (escape isPrint s) = some s ∧
    ∃ c t, Parser.parse { pat := escape isPrint s, opts := fullOpts o m n sl r, mco := mco, orc := orc } = .ok t ∧
      t.root = literalRoot (fullOpts o m n sl r) c ∧ spells c s := by
  refine ⟨escape_parses_as_literal isPrint orc.isWord hW hP o s, ?_⟩
  obtain ⟨c, h1, h2, _⟩ := escape_parses_as_literal_full isPrint orc hW hP (fullOpts o m n sl r) rfl mco s
  exact ⟨c, _, h1, rfl, h2⟩


/-- **Any option set, IgnoreCase included** (what "keeps literal meaning" excludes, stated as what the parser
    really builds).  `Parse(Escape(s))` never fails: the tree is the root Capture 0 over the concatenation
    (`Parser.litRoot`: children reversed under RightToLeft) of `Parser.EscKids … s`: `s` cut into the maximal runs
    of runes `Escape` writes raw and the escaped runes in between, where
    * an escaped rune `r` gives `newRegexNodeCh(One, toLower r)` under IgnoreCase (`Parser.escNode`), the One
      node of `r` otherwise;
    * a run of one rune gives `newRegexNodeCh(One, r)`; a longer run gives ONE Multi node (IgnoreCase cleared)
      unless IgnoreCase is on and a rune of the run takes part in case conversion — then one
      `newRegexNodeCh(One, r)` per rune (`Parser.runKidsG`);
    * `newRegexNodeCh` (`Parser.nodeCh`) under IgnoreCase turns a cased letter into the Set node of the letter
      and its case equivalences and leaves every other rune a One node.
    So under IgnoreCase the pattern is still a concatenation of single-rune tests in the order of `s`, each
    cased letter widened to its case-equivalence set — the reading the property excludes from "literal". -/
theorem escape_parse_tree_any_options (isPrint : Nat → Bool) (orc : Parser.Oracles)
    (hW : ∀ c, Generated.metaChars.contains c = true → orc.isWord c = false)
    (hP : ∀ c, 9 ≤ c → c ≤ 13 → isPrint c = false)
    (opts : Parser.Opts) (mco : Bool) (s : List Nat) :
    ∃ ks, Parser.parse { pat := escape isPrint s, opts := opts, mco := mco, orc := orc } =
        .ok { root := Parser.litRoot opts ks,
              tables := Parser.noGroupTables { pat := escape isPrint s, opts := opts, mco := mco, orc := orc } } ∧
      Parser.EscKids { pat := escape isPrint s, opts := opts, mco := mco, orc := orc } isPrint opts s ks :=
  Parser.ef_parse_any { pat := escape isPrint s, opts := opts, mco := mco, orc := orc } isPrint hW hP s rfl

/-! #### from the tree to the specification -/

/-- the specification pattern the reducer slice assigns to a raw tree read in direction `rtl`
    (`RewriteDecisions.toPat rtl ∘ Reduce.toR ∘ Reduce.ofRaw`: the denotation `Props/C01.lean` part (ii) and the
    `RewriteDecisions` soundness theorems speak about; `rtl` = the tree's RightToLeft option, as in
    `Compile.toPatRoot X ti.rtl`) -/
def rawDenotation (rtl : Bool) (root : Parser.RNode) : Spec.Pat :=
  RewriteDecisions.toPat rtl (Reduce.toR (Reduce.ofRaw root))

/-- **A literal tree matches exactly its text** (specification level, left to right).  If the Concatenate `c`
    spells `w` (and is not RightToLeft), then the denotation of the tree `literalRoot opts c`, started in any state
    `st` on any text, has exactly one success when the text continues with `w` at `st.pos` — it ends right after
    `w` and records group 0 over it — and no success otherwise. -/
theorem lit_tree_matches_exactly (e : Spec.Env) (opts : Parser.Opts) (c : Parser.RNode) (w : List Nat)
    (hs : spells c w) (hc : c.t = .concatenate) (hr : c.o.r = false) (st : Spec.St) :
    Spec.m e (rawDenotation false (literalRoot opts c)) false st =
      if (e.text.drop st.pos).take w.length = w then
        [{ pos := st.pos + w.length, caps := st.caps ++ [(0, st.pos, w.length)] }] else [] := by
  obtain ⟨t, o, ch, str, set, m, n, kids⟩ := c
  simp only [Parser.RNode.t] at hc
  subst hc
  have hk : Parser.kidsRunes kids = some w := by
    rcases hs with h | ⟨_, h⟩
    · cases set <;> cases kids <;> simp [Parser.leafRunes] at h
    · simpa [Parser.RNode.o, Parser.RNode.kids, show o.r = false from hr] using h
  exact Lemmas.EscapeSpec.m_litRoot e opts o ch str set m n kids w hk st

/-- **The same right to left**: if the RightToLeft Concatenate `c` spells `w` (its children are stored reversed),
    the denotation read right to left has exactly one success when the text BEFORE `st.pos` ends with `w` — it
    ends right before `w`, group 0 over it — and none otherwise. -/
theorem lit_tree_matches_exactly_rtl (e : Spec.Env) (opts : Parser.Opts) (c : Parser.RNode) (w : List Nat)
    (hs : spells c w) (hc : c.t = .concatenate) (hr : c.o.r = true) (st : Spec.St) :
    Spec.m e (rawDenotation true (literalRoot opts c)) true st =
      if w.length ≤ st.pos ∧ (e.text.drop (st.pos - w.length)).take w.length = w then
        [{ pos := st.pos - w.length, caps := st.caps ++ [(0, st.pos - w.length, w.length)] }] else [] := by
  obtain ⟨t, o, ch, str, set, m, n, kids⟩ := c
  simp only [Parser.RNode.t] at hc
  subst hc
  have hk : Parser.kidsRunes kids.reverse = some w := by
    rcases hs with h | ⟨_, h⟩
    · cases set <;> cases kids <;> simp [Parser.leafRunes] at h
    · simpa [Parser.RNode.o, Parser.RNode.kids, show o.r = true from hr] using h
  have := Lemmas.EscapeSpec.m_litRoot_rtl e opts o ch str set m n kids.reverse w hk st
  rw [List.reverse_reverse] at this
  exact this

/-- **C19, the chain Escape → parser → tree → specification** (no IgnoreCase; both directions): `Parse(Escape(s))`
    succeeds and the specification pattern of its raw tree, read in the pattern's direction, matches from any
    position of any text exactly the occurrence of `s` at that position (left to right: starting there; right to
    left: ending there) — one success, group 0 = that occurrence — and nothing else.
    NOT included (not a Lean theorem anywhere in the framework, see `Props/C01.lean` (ii)): that the reducer
    (`Reduce.reduceTree`, which turns this tree into the one the writer compiles) keeps the denotation; from the
    reduced tree on, `compile_correct` (C01: One/Multi/Concatenate are tier 1) ties the program to `Spec.m`. -/
theorem escape_matches_exactly (isPrint : Nat → Bool) (orc : Parser.Oracles)
    (hW : ∀ c, Generated.metaChars.contains c = true → orc.isWord c = false)
    (hP : ∀ c, 9 ≤ c → c ≤ 13 → isPrint c = false)
    (opts : Parser.Opts) (hi : opts.i = false) (mco : Bool) (s : List Nat) :
    ∃ t, Parser.parse { pat := escape isPrint s, opts := opts, mco := mco, orc := orc } = .ok t ∧
      ∀ (e : Spec.Env) (st : Spec.St), Spec.m e (rawDenotation opts.r t.root) opts.r st =
        if opts.r then
          (if s.length ≤ st.pos ∧ (e.text.drop (st.pos - s.length)).take s.length = s then
            [{ pos := st.pos - s.length, caps := st.caps ++ [(0, st.pos - s.length, s.length)] }] else [])
        else
          (if (e.text.drop st.pos).take s.length = s then
            [{ pos := st.pos + s.length, caps := st.caps ++ [(0, st.pos, s.length)] }] else []) := by
  obtain ⟨c, h1, h2, h3, h4, _⟩ := escape_parses_as_literal_full isPrint orc hW hP opts hi mco s
  refine ⟨_, h1, fun e st => ?_⟩
  cases hr : opts.r
  · simpa using lit_tree_matches_exactly e opts c s h2 h3 (by rw [h4]; exact hr) st
  · simpa using lit_tree_matches_exactly_rtl e opts c s h2 h3 (by rw [h4]; exact hr) st

/-- **Anchored at both ends, it matches the text `s` and nothing else**: the specification pattern of the tree of
    `Escape s`, started with no captures at the start of the text (at its end, for a RightToLeft pattern), has a
    success that reaches the other end of the text if and only if the text is `s`. -/
theorem escape_anchored_matches_only_s (isPrint : Nat → Bool) (orc : Parser.Oracles)
    (hW : ∀ c, Generated.metaChars.contains c = true → orc.isWord c = false)
    (hP : ∀ c, 9 ≤ c → c ≤ 13 → isPrint c = false)
    (opts : Parser.Opts) (hi : opts.i = false) (mco : Bool) (s : List Nat) :
    ∃ t, Parser.parse { pat := escape isPrint s, opts := opts, mco := mco, orc := orc } = .ok t ∧
      ∀ (e : Spec.Env), (∃ st' ∈ Spec.m e (rawDenotation opts.r t.root) opts.r
          { pos := if opts.r then e.text.length else 0, caps := [] },
        st'.pos = if opts.r then 0 else e.text.length) ↔ e.text = s := by
  obtain ⟨t, h1, h2⟩ := escape_matches_exactly isPrint orc hW hP opts hi mco s
  refine ⟨t, h1, fun e => ?_⟩
  rw [h2]
  cases hr : opts.r
  · simp only [Bool.false_eq_true, if_false, List.drop_zero, Nat.zero_add]
    constructor
    · rintro ⟨st', hmem, hpos⟩
      split at hmem
      · rename_i htake
        simp at hmem
        subst hmem
        simp only at hpos
        rw [← htake, hpos, List.take_length]
      · simp at hmem
    · intro h
      rw [h]
      simp
  · simp only [if_true]
    constructor
    · rintro ⟨st', hmem, hpos⟩
      split at hmem
      · rename_i hcond
        simp at hmem
        subst hmem
        simp only at hpos
        have hlen : e.text.length = s.length := by omega
        have := hcond.2
        rw [hlen, Nat.sub_self, List.drop_zero, ← hlen, List.take_length] at this
        exact this
      · simp at hmem
    · intro h
      rw [h]
      simp

/-- non-vacuity of `lit_tree_matches_exactly`: the tree of `a\.b`; on the text `xa.b` it matches at position 1
    and not at position 0 -/
example : spells (.mk .concatenate {} 0 [] none 0 0
    [.mk .one {} 97 [] none 0 0 [], .mk .one {} 46 [] none 0 0 [], .mk .one {} 98 [] none 0 0 []]) [97, 46, 98] := by
  decide
example : Spec.m { text := [120, 97, 46, 98], textstart := 0, named := [], word := [], fold := [] }
    (rawDenotation false (literalRoot {} (.mk .concatenate {} 0 [] none 0 0
      [.mk .one {} 97 [] none 0 0 [], .mk .multi {} 0 [46, 98] none 0 0 []]))) false { pos := 1, caps := [] } =
    [{ pos := 4, caps := [(0, 1, 3)] }] := by decide +kernel
/-- right to left, the children stored reversed: from position 4 back to 1 -/
example : Spec.m { text := [120, 97, 46, 98], textstart := 0, named := [], word := [], fold := [] }
    (rawDenotation true (literalRoot { r := true } (.mk .concatenate { r := true } 0 [] none 0 0
      [.mk .multi { r := true } 0 [46, 98] none 0 0 [], .mk .one { r := true } 97 [] none 0 0 []]))) true
    { pos := 4, caps := [] } = [{ pos := 1, caps := [(0, 1, 3)] }] := by decide +kernel
example : Spec.m { text := [120, 97, 46, 98], textstart := 0, named := [], word := [], fold := [] }
    (rawDenotation false (literalRoot {} (.mk .concatenate {} 0 [] none 0 0
      [.mk .one {} 97 [] none 0 0 [], .mk .multi {} 0 [46, 98] none 0 0 []]))) false { pos := 0, caps := [] } = [] := by
  decide +kernel

/-! #### non-vacuity and sensitivity on the full model

The kernel evaluates `Parser.parse` on these small inputs (`decide +kernel`: the proof term is
`of_decide_eq_true (Eq.refl true)`, checked by the kernel alone; the elaborator's own evaluator is too slow on the
monadic parser). -/

/-- an oracle record for the examples: ASCII word characters, no case mapping (`hW` holds: see above) -/
def orcA : Parser.Oracles where
  isWord := asciiWord
  ecmaStart := fun _ => false
  ecmaPart := fun _ => false
  toLower := fun r => r
  isLower := fun c => decide (97 ≤ c ∧ c ≤ 122)
  isUpper := fun c => decide (65 ≤ c ∧ c ≤ 90)
  orbit := fun _ => []
  participates := fun c => decide (65 ≤ c ∧ c ≤ 90 ∨ 97 ≤ c ∧ c ≤ 122)
  cat := fun _ _ => false
  catName := fun _ => none

def envA (opts : Parser.Opts) (pat : List Nat) : Parser.Env := { pat := pat, opts := opts, mco := false, orc := orcA }

/-- what the full parser model makes of a pattern, if it is a literal tree: the runes it spells and the node types
    of the children of its concatenation (9 = One, 12 = Multi), both in pattern order -/
def parsedSpelling (E : Parser.Env) : Option (List Nat × List Nat) :=
  match Parser.parse E with
  | .ok t =>
    match t.root with
    | .mk .capture _ _ _ _ 0 (-1) [.mk .alternate _ _ _ _ _ _ [c]] =>
      let ks := if c.o.r then c.kids.reverse else c.kids
      (Parser.kidsRunes ks).map fun w => (w, ks.map fun k => k.t.toNat)
    | _ => none
  | _ => none

/-- the node types of the children of the concatenation (9 = One, 11 = Set, 12 = Multi), pattern order -/
def parsedKinds (E : Parser.Env) : Option (List Nat) :=
  match Parser.parse E with
  | .ok t =>
    match t.root with
    | .mk .capture _ _ _ _ 0 (-1) [.mk .alternate _ _ _ _ _ _ [c]] =>
      some ((if c.o.r then c.kids.reverse else c.kids).map fun k => k.t.toNat)
    | _ => none
  | _ => none

/-- IgnoreCase: `ab1.` → `ab1\.`: the run `ab1` has letters, so one node per rune — two Sets and a One — then the
    One of the escaped `.`; the run `12` (nothing takes part in case conversion) stays one Multi -/
example : parsedKinds (envA { i := true } (escape asciiPrint [97, 98, 49, 46])) = some [11, 11, 9, 9] := by
  decide +kernel
example : parsedKinds (envA { i := true } (escape asciiPrint [49, 50, 46])) = some [12, 9] := by decide +kernel

/-- `a.b` → `a\.b`: three One nodes -/
example : parsedSpelling (envA {} (escape asciiPrint [97, 46, 98])) = some ([97, 46, 98], [9, 9, 9]) := by
  decide +kernel

/-- `1+1=2 # x` under IgnorePatternWhitespace → `1\+1=2\ \#\ x`: the blanks and the `#` survive -/
example : parsedSpelling (envA { x := true } (escape asciiPrint [49, 43, 49, 61, 50, 32, 35, 32, 120])) =
    some ([49, 43, 49, 61, 50, 32, 35, 32, 120], [9, 9, 12, 9, 9, 9, 9]) := by decide +kernel

/-- `ab`, a tab, U+00E9, U+0378, a non-printable astral rune and `c` under ECMAScript + Unicode + RightToLeft +
    IgnorePatternWhitespace → `ab\t\xe9͸` + raw U+E0001 + `c`: Multi, three One, Multi -/
example : parsedSpelling (envA { e := true, u := true, r := true, x := true }
      (escape asciiPrint [97, 98, 9, 0xE9, 0x378, 0xE0001, 99])) =
    some ([97, 98, 9, 0xE9, 0x378, 0xE0001, 99], [12, 9, 9, 9, 12]) := by decide +kernel

/-- the hypothesis `hi` is needed: under IgnoreCase the letter `a` becomes a Set node — not a literal tree -/
example : parsedSpelling (envA { i := true } (escape asciiPrint [97])) = none := by decide +kernel

/-- without escaping, IgnorePatternWhitespace drops the blank and the comment (the full model's reading of the
    raw text `a b#c`), and `a.b` is not a literal tree -/
example : parsedSpelling (envA { x := true } [97, 32, 98, 35, 99]) = some ([97, 98], [9, 9]) := by decide +kernel
example : parsedSpelling (envA {} [97, 46, 98]) = none := by decide +kernel

/-- **seeded mutation C19-astral-xbrace on the full model**: the mutant `escape` is still read as the literal under
    the default options, but under ECMAScript the full parser spells `tx{e0001}` -/
example : parsedSpelling (envA {} (escapeXBrace asciiPrint [116, 0xE0001])) = some ([116, 0xE0001], [9, 9]) := by
  decide +kernel
example : parsedSpelling (envA { e := true } (escapeXBrace asciiPrint [116, 0xE0001])) =
    some ([116, 120, 123, 101, 48, 48, 48, 49, 125], [9, 9, 12]) := by decide +kernel

end RegexVerif.Props.C19
