/-
C19 — Escape and Unescape are inverse and Escape yields a literal.
Property theorems about the model `RegexVerif.Model.Escape` (tied to syntax/escape.go and
syntax/parser.go by the regenerated `Generated.Escape` facts and by correspondence leg E).
-/
import RegexVerif.Lemmas.Escape

namespace RegexVerif.Props.C19
open RegexVerif RegexVerif.Escape RegexVerif.Lemmas.Escape

/-! ### obligations regenerated from the Go source (`Generated.Escape`) -/

/-- Every rune of the `meta` constant of escape.go, written after a backslash, is read back by
    the parser's escape scanner as itself (it is not an octal digit or an escape letter). -/
theorem meta_is_plain_after_backslash : Generated.metaChars.all plainAfterBackslash = true := meta_plain

/-- "Escape yields a literal", table part: every ASCII character that ends a run of ordinary
    characters in the parser — category ≥ X, i.e. the stoppers of `scanRegex` with and without
    IgnorePatternWhitespace, quantifiers, `#` and whitespace — is either in `meta` (backslashed) or one
    of the whitespace controls `\t \n \v \f \r`, which `escape` writes as letter escapes. -/
theorem specials_are_escaped :
    ∀ ch, ch < 128 → Generated.catX ≤ Generated.parserCategory.getD ch 0 →
      (Generated.metaChars.contains ch = true ∨ [9, 10, 11, 12, 13].contains ch = true) := by
  decide

/-! ### the round trip -/

/-- **C19, round trip.** For every rune string `s` (every list of code points; validity of the
    runes is not even needed), whatever the printable-rune oracle says, as long as no rune of `meta` is a
    word character: `Unescape (Escape s) = s`. -/
theorem unescape_escape (isPrint isWord : Nat → Bool)
    (hW : ∀ c, Generated.metaChars.contains c = true → isWord c = false)
    (s : List Nat) : unescape isWord (escape isPrint s) = some s := by
  unfold unescape
  have := unescapeFuel_escape isPrint isWord hW s [] (2 * (escape isPrint s).length + 2)
    (by have := escape_length isPrint s; omega)
  simpa using this

/-- non-vacuity: the hypothesis on the oracle is met by ASCII word characters, and a concrete
    string with a metacharacter, a control, a non-printable BMP rune and an astral rune round-trips. -/
def asciiWord (c : Nat) : Bool := decide (48 ≤ c ∧ c ≤ 57 ∨ 65 ≤ c ∧ c ≤ 90 ∨ 97 ≤ c ∧ c ≤ 122 ∨ c = 95)

example : ∀ c, Generated.metaChars.contains c = true → asciiWord c = false := by
  intro c hc
  have h : Generated.metaChars.all (fun c => !asciiWord c) = true := by decide
  have := List.all_eq_true.mp h c (by simpa using hc)
  simpa using this

example : unescape (fun c => decide (97 ≤ c ∧ c ≤ 122))
    (escape (fun c => decide (32 ≤ c ∧ c < 127)) [97, 46, 10, 0x378, 120, 0x10FFFF, 92]) =
    some [97, 46, 10, 0x378, 120, 0x10FFFF, 92] := by decide

end RegexVerif.Props.C19
