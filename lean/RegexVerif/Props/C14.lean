/-
C14 — Timeouts fire, only when due, and the clock cleans up.

*Partial* property: the wall clock and the scheduler are assumptions.  What is proved is the logic of
the clock state machine `RegexVerif.Clock` (Model/Clock.lean), a line-by-line model of fastclock.go,
under the timing assumption that one iteration of runClock takes between `period` and `period + eps`
(`eps` is a parameter).  In `RegexVerif.Clock` a whole makeDeadline call is one event; the last section
of this file ("makeDeadline in atomic steps") drops that: in `RegexVerif.ClockConc`
(Model/ClockConc.lean) only the critical sections and the single lock-free atomic reads are atomic,
calls of any number of goroutines interleave step by step with each other, with the updater and with
StopTimeoutClock, and the bounds on early timeouts, the firing bound (measured from the time the
deadline was made), exit and restart are proved again for every interleaving.  The same
model executes the two earlier versions of makeDeadline, for which concrete interleavings yield a
deadline that lies in the past (defects D37, D38).  The model is tied to the source by the regenerated
facts `Generated.Clock` (constants and the statement skeleton of every function that is modelled) and
to the running code by legs H, B and I (I replays forced interleavings of the real code on
`ClockConc.simulate`).
-/
import RegexVerif.Lemmas.Clock
import RegexVerif.Lemmas.ClockConc
import RegexVerif.Generated.Clock

set_option linter.unusedSimpArgs false

namespace RegexVerif.Props.C14
open RegexVerif RegexVerif.Clock RegexVerif.Lemmas.Clock

/-! ### obligations regenerated from the Go source (`Generated.Clock`) -/

/-- The constants of fastclock.go are the ones the model uses: `durationToTicks` shifts right by 20,
    `extendClock` keeps the clock alive one second (`time.Second`) beyond the largest deadline, and the
    default period is 100 ms. -/
theorem source_constants :
    Generated.Clock.tickShift = 20 ∧ (2 : Int) ^ Generated.Clock.tickShift = tickNs ∧
    Generated.Clock.slopNs = goSlop ∧ Generated.Clock.defaultClockPeriodNs = goDefaultPeriod ∧
    Generated.Clock.clockPeriodInit = "DefaultClockPeriod" := by decide

/-- `makeDeadline`, `extendClock` and `deadlineTicks` are, statement for statement, what
    `Clock.makeDeadline`, `Clock.extendClock` and `Clock.deadlineTicks` model: the order of the reads of
    `current`/`clockEnd`, the refresh of `current` under `!running && !start.IsZero()`, the recomputed
    `end`, the `time.Second` slop, `running = true; go runClock()`. -/
theorem source_makeDeadline :
    Generated.Clock.makeDeadlineSrc =
      ["{",
       "clockEnd := fast.clockEnd.read()",
       "end := fast.current.read() + deadlineTicks(d)",
       "if end > clockEnd {",
       "fast.mu.Lock()",
       "if !fast.running && !fast.start.IsZero() {",
       "fast.current.write(durationToTicks(time.Since(fast.start)))",
       "}",
       "end = fast.current.read() + deadlineTicks(d)",
       "extendClock(end)",
       "fast.mu.Unlock()",
       "}",
       "return end",
       "}"] ∧
    Generated.Clock.extendClockSrc =
      ["{",
       "if fast.start.IsZero() {",
       "fast.start = time.Now()",
       "}",
       "if shutdown := end + durationToTicks(time.Second); shutdown > fast.clockEnd.read() {",
       "fast.clockEnd.write(shutdown)",
       "}",
       "if !fast.running {",
       "fast.running = true",
       "go runClock()",
       "}",
       "}"] ∧
    Generated.Clock.deadlineTicksSrc =
      ["{",
       "if d > math.MaxInt64-clockPeriod {",
       "return durationToTicks(math.MaxInt64)",
       "}",
       "return durationToTicks(d + clockPeriod)",
       "}"] ∧
    Generated.Clock.durationToTicksSrc = ["{", "return fasttime(d) >> 20", "}"] ∧
    Generated.Clock.reachedSrc = ["{", "return fast.current.read() >= t", "}"] := by decide

/-- `runClock` and `stopClock` are what `Clock.tick` and `Clock.stop` model: the loop condition
    `current <= clockEnd` evaluated right after `current` is written, `running = false` on exit; stop
    writes `clockEnd = 0` only when a clock is running. -/
theorem source_runClock :
    Generated.Clock.runClockSrc =
      ["{",
       "fast.mu.Lock()",
       "defer fast.mu.Unlock()",
       "for fast.current.read() <= fast.clockEnd.read() {",
       "fast.mu.Unlock()",
       "time.Sleep(clockPeriod)",
       "fast.mu.Lock()",
       "newTime := durationToTicks(time.Since(fast.start))",
       "fast.current.write(newTime)",
       "}",
       "fast.running = false",
       "}"] ∧
    Generated.Clock.stopClockSrc =
      ["{",
       "fast.mu.Lock()",
       "if fast.running {",
       "fast.clockEnd.write(fasttime(0))",
       "}",
       "fast.mu.Unlock()",
       "isRunning := true",
       "for isRunning {",
       "time.Sleep(clockPeriod / 2)",
       "fast.mu.Lock()",
       "isRunning = fast.running",
       "fast.mu.Unlock()",
       "}",
       "}"] ∧
    Generated.Clock.stopTimeoutClockSrc = ["{", "stopClock()", "}"] ∧
    Generated.Clock.setTimeoutCheckPeriodSrc = ["{", "clockPeriod = d", "}"] := by decide

/-- The runner side is what `Clock.startWatch` and `Clock.reached` model: MatchTimeout = MaxInt64
    switches checking off, otherwise one `makeDeadline(timeout)` per scan, and a timeout error is
    returned exactly when `deadline.reached()`; the scan loop checks once per candidate and the
    interpreter loop has one check per step. -/
theorem source_runner :
    Generated.Clock.scanTimeoutSrc =
      ["r.timeout = timeout",
       "r.ignoreTimeout = (time.Duration(math.MaxInt64) == timeout)",
       "call startTimeoutWatch",
       "call CheckTimeout"] ∧
    Generated.Clock.startTimeoutWatchSrc =
      ["{", "if r.ignoreTimeout {", "return", "}", "r.deadline = makeDeadline(r.timeout)", "}"] ∧
    Generated.Clock.checkTimeoutSrc =
      ["{",
       "if r.ignoreTimeout || !r.deadline.reached() {",
       "return nil",
       "}",
       "return fmt.Errorf(\"match timeout after %v on input `%v`\", r.timeout, string(r.Runtext))",
       "}"] ∧
    Generated.Clock.executeCheckTimeoutCalls = 1 := by decide

/-! ### the deadline arithmetic (fix 45a1777) -/

/-- **No wrap-around.** For every clock period `0 ≤ period ≤ MaxInt64` and all timeouts
    `0 ≤ d ≤ d' ≤ MaxInt64`: the argument handed to `durationToTicks` stays within int64
    (`effDur ≤ MaxInt64`, so the Go addition `d + clockPeriod` is only evaluated when it cannot
    overflow), the tick count is non-negative, monotone in `d`, at least the tick count of `d` itself
    and at most `durationToTicks(MaxInt64)`.  (Go: `deadlineTicks`.) -/
theorem deadline_no_wrap (period d d' : Int) (hp : 0 ≤ period) (hp' : period ≤ maxInt64)
    (hd : 0 ≤ d) (hdd : d ≤ d') (hd' : d' ≤ maxInt64) :
    deadlineTicks period d = ticks (effDur period d) ∧ d ≤ effDur period d ∧ effDur period d ≤ maxInt64 ∧
    0 ≤ deadlineTicks period d ∧ ticks d ≤ deadlineTicks period d ∧
    deadlineTicks period d ≤ deadlineTicks period d' ∧ deadlineTicks period d' ≤ ticks maxInt64 := by
  unfold deadlineTicks effDur
  simp only [ticks_eq]
  unfold maxInt64 at *
  refine ⟨?_, ?_, ?_, ?_, ?_, ?_, ?_⟩ <;> (repeat' split) <;> omega

/-- the hypotheses are satisfiable and the saturating branch is exercised: period 1 ms, d = MaxInt64-1 -/
example : deadlineTicks 1000000 (maxInt64 - 1) = 8796093022207 ∧ deadlineTicks 1000000 50000000 = 48 := by decide

/-- **The defect before 45a1777**, documented: with the old formula
    `durationToTicks(d + clockPeriod)` (int64 addition) a timeout within one period of MaxInt64 gives a
    *negative* tick count, so the deadline lies in the past and the match times out at once; the tick
    count is not monotone in `d`. -/
example : oldDeadlineTicks 1000000 (maxInt64 - 1) = -8796093022208 := by decide
example : ¬ (∀ d, 0 ≤ d → d ≤ maxInt64 → 0 ≤ oldDeadlineTicks 100000000 d) := by
  intro h; exact absurd (h (maxInt64 - 1) (by decide) (by decide)) (by decide)
example : ¬ (∀ d d', 0 ≤ d → d ≤ d' → d' ≤ maxInt64 → oldDeadlineTicks 1000000 d ≤ oldDeadlineTicks 1000000 d') := by
  intro h; exact absurd (h 0 (maxInt64 - 1) (by decide) (by decide) (by decide)) (by decide)
/-- where no wrap occurs the old and the new formula agree -/
example : ∀ d ∈ [0, 1, 20000000, 3600000000000, maxInt64 - 1000000], oldDeadlineTicks 1000000 d = deadlineTicks 1000000 d := by decide

/-! ### invariants of the clock state machine (every reachable state) -/

/-- **`current` never runs ahead of real time.** In every reachable state, once the clock has been
    started `0 ≤ current ≤ durationToTicks(now - start)`; before the first use `current = 0`.
    (Go: the value compared by `reached()` is a time that has really passed.) -/
theorem current_le_now (p : Params) (hp : p.Valid) (s : State) (h : Reachable p s) :
    (s.started = true → 0 ≤ s.current ∧ s.current ≤ ticks (s.now - s.startNs)) ∧
    (s.started = false → s.current = 0) := by
  have hi := inv_of_reachable p hp s h
  refine ⟨fun hs => ?_, fun hs => (hi.unstarted hs).1⟩
  have hc := hi.cur_eq hs
  have hl := hi.lw_le
  rw [ticks_eq]; omega

/-- **A running clock is fresh.** While an updater is running, `current` is the tick count of a real
    time `w` that is at most `period + eps` old (its last wake-up, or its birth — when `current` was
    re-read from the wall clock).  This is the staleness the `+clockPeriod` slack of `deadlineTicks`
    compensates. -/
theorem fresh_when_running (p : Params) (hp : p.Valid) (s : State) (h : Reachable p s)
    (hr : s.running = true) :
    ∃ w, s.current = ticks (w - s.startNs) ∧ w ≤ s.now ∧ s.now - w ≤ p.period + p.eps := by
  have hi := inv_of_reachable p hp s h
  have hpr := hi.progress hr
  refine ⟨s.lastWrite, ?_, hi.lw_le, by omega⟩
  rw [ticks_eq]; exact (hi.cur_eq hpr.1).1

/-- **No early timeout.** If in a reachable state a pending deadline — made at real time `t0` for
    MatchTimeout `d` — is `reached()`, then the real time elapsed since `t0` is at least
    `min(d+period, MaxInt64) - period - eps - 2097150 ns`; for `d ≤ MaxInt64 - period` that is
    `d - eps - (2 ticks - 2 ns)`.  Why: the deadline is `current + ticks(d+period)`; `current` was stale by
    at most `period + eps` when the deadline was made (the updater wakes at least that often) — this is
    what the `+clockPeriod` slack pays for — and each of the two floor divisions loses less than one
    tick.  When no updater was running (`fresh`) `current` was re-read from the wall clock first, and the
    bound is `d + period - (2 ticks - 2 ns)`: the slack is not even used up. -/
theorem no_early_timeout (p : Params) (hp : p.Valid) (s : State) (h : Reachable p s)
    (e : Deadline) (he : e ∈ s.pending) (hr : reached s e.dl = true) :
    effDur p.period e.d - p.period - p.eps - 2097150 ≤ s.now - e.t0 ∧
    (e.d ≤ maxInt64 - p.period → e.d - p.eps - 2097150 ≤ s.now - e.t0) ∧
    (e.fresh = true → effDur p.period e.d - 2097150 ≤ s.now - e.t0) := by
  have hi := inv_of_reachable p hp s h
  have hd := hi.dls e he
  obtain ⟨hp0, hp1, he0, _, _⟩ := hp
  obtain ⟨_, _, _, _, _, heff, _⟩ := dt_facts p.period e.d hp0 hp1 hd.d_nonneg hd.d_le
  have hl := hi.lw_le
  have ht := hd.t0_le
  simp only [reached, decide_eq_true_eq] at hr
  cases hs : s.started
  · have hu := hd.unstarted hs
    refine ⟨by omega, fun h1 => by have := heff h1; omega, fun _ => by omega⟩
  · have hc := hi.cur_eq hs
    have h1 := hd.early hs
    have h2 := hd.earlyFresh hs
    refine ⟨by omega, fun h3 => by have := heff h3; omega, fun hf => by have := h2 hf; omega⟩

/-- **The clock covers every pending deadline.** In every reachable state each pending deadline
    (made since the last StopTimeoutClock) is `≤ clockEnd`, and as long as it is not `reached()` an
    updater is running — so the clock keeps ticking until every pending deadline has been reached. -/
theorem clock_covers_deadlines (p : Params) (hp : p.Valid) (s : State) (h : Reachable p s)
    (e : Deadline) (he : e ∈ s.pending) :
    e.dl ≤ s.clockEnd ∧ (reached s e.dl = false → s.running = true) := by
  have hd := (inv_of_reachable p hp s h).dls e he
  refine ⟨hd.covered, fun hr => ?_⟩
  simp only [reached, decide_eq_false_iff_not] at hr
  rcases hd.live with h1 | h1
  · exact h1
  · exact absurd h1 hr

/-- **Timeouts fire.** In every reachable state, a pending deadline made at `t0` for timeout `d` is
    `reached()` as soon as real time is `≥ t0 + d + 2·period + eps`: the first wake-up of the updater at
    or after `t0 + d + period` stores a time `≥` the deadline, wake-ups are at most `period + eps` apart,
    and the updater is alive by `clock_covers_deadlines`.  (The runner then sees it at its next
    CheckTimeout: once per scan candidate and once per interpreter step.) -/
theorem timeout_within (p : Params) (hp : p.Valid) (s : State) (h : Reachable p s)
    (e : Deadline) (he : e ∈ s.pending) (hn : e.t0 + e.d + 2 * p.period + p.eps ≤ s.now) :
    reached s e.dl = true := by
  have hi := inv_of_reachable p hp s h
  have hd := hi.dls e he
  simp only [reached, decide_eq_true_eq]
  rcases hd.live with hr | h1
  · have hpr := hi.progress hr
    have hc := hi.cur_eq hpr.1
    rcases hd.within hpr.1 with h2 | h2
    · exact h2
    · omega
  · exact h1

/-- the step form of `timeout_within`: the wake-up of the updater that happens at a real time
    `≥ t0 + d + period` makes the deadline `reached()` -/
theorem timeout_at_tick (p : Params) (hp : p.Valid) (s s' : State) (h : Reachable p s) (dt : Int)
    (hs : step p s (.tick dt) = some s') (e : Deadline) (he : e ∈ s.pending)
    (hn : e.t0 + e.d + p.period ≤ s'.now) : reached s' e.dl = true := by
  have hi' := inv_of_reachable p hp s' (Reachable.step _ h hs)
  simp only [step] at hs
  split at hs
  · next hc =>
    cases hs
    have hst := ((inv_of_reachable p hp s h).progress hc.1).1
    have hd := hi'.dls e (by simpa [tick] using he)
    have hw := hd.within (by simpa [tick] using hst)
    simp only [reached, decide_eq_true_eq]
    simp only [tick, ticks_eq] at hw hn ⊢
    omega
  · cases hs

/-- **The clock goroutine exits.** In a reachable state, a wake-up of the updater at a real time
    `≥ start + 2^20·(clockEnd+1)` leaves the loop: `running = false`. -/
theorem clock_exits (p : Params) (_hp : p.Valid) (s s' : State) (_h : Reachable p s) (dt : Int)
    (hs : step p s (.tick dt) = some s') (hn : s.startNs + 1048576 * (s.clockEnd + 1) ≤ s.now + dt) :
    s'.running = false := by
  simp only [step] at hs
  split at hs
  · cases hs
    simp only [tick, ticks_eq, decide_eq_false_iff_not]
    omega
  · cases hs

/-- … and that wake-up comes in time: while an updater is running whose loop condition held at its last
    wake-up, real time is `< start + 2^20·(clockEnd+1) + period + eps`.  With no new deadline the
    goroutine is therefore gone `period + eps` after the end of the slop. -/
theorem clock_exit_bound (p : Params) (hp : p.Valid) (s : State) (h : Reachable p s)
    (hr : s.running = true) (hc : s.current ≤ s.clockEnd) :
    s.now < s.startNs + 1048576 * (s.clockEnd + 1) + p.period + p.eps := by
  have hi := inv_of_reachable p hp s h
  have hpr := hi.progress hr
  have hcur := hi.cur_eq hpr.1
  omega

/-- Conversely the updater is not lost early: started, and real time still within `clockEnd` ⇒ running.
    (So for one second after the latest deadline the goroutine is there, unless StopTimeoutClock.) -/
theorem clock_runs_until_end (p : Params) (hp : p.Valid) (s : State) (h : Reachable p s)
    (hs : s.started = true) (hn : ticks (s.now - s.startNs) ≤ s.clockEnd) : s.running = true := by
  have hi := inv_of_reachable p hp s h
  have hcur := hi.cur_eq hs
  have hl := hi.lw_le
  rw [ticks_eq] at hn
  cases hr : s.running
  · have := hi.stopped hs hr; omega
  · rfl

/-- StopTimeoutClock: after the write of `clockEnd = 0` the next wake-up of the updater that sees a
    non-zero time leaves the loop. -/
theorem stop_exits (p : Params) (s s' : State) (dt : Int)
    (hs : step p (stop s) (.tick dt) = some s') (hc : 0 < s'.current) (hr : s.running = true) :
    s'.running = false := by
  simp only [step] at hs
  split at hs
  · cases hs
    simp only [tick, stop, hr, ↓reduceIte, decide_eq_false_iff_not] at hc ⊢
    omega
  · cases hs

/-- **Restart on demand.** In a reachable state with no updater running — never started, exited after
    `clockEnd`, or stopped — a new timed match (`0 ≤ d < MaxInt64`; on the very first use also
    `d + period ≥ 1 tick`) starts one: afterwards `running`, `current` is the exact tick count of real
    time (the refresh: no stale value enters the deadline), the new deadline is `current + deadlineTicks d`
    and `clockEnd` covers it plus the slop. -/
theorem restart_on_demand (p : Params) (hp : p.Valid) (s : State) (h : Reachable p s)
    (hr : s.running = false) (d : Int) (hd0 : 0 ≤ d) (hd1 : d < maxInt64)
    (hfirst : s.started = true ∨ 1048576 ≤ d + p.period) :
    (startWatch p s d).running = true ∧ (startWatch p s d).started = true ∧
    (startWatch p s d).current = ticks ((startWatch p s d).now - (startWatch p s d).startNs) ∧
    ∃ e, (startWatch p s d).pending = e :: s.pending ∧ e.fresh = true ∧ e.t0 = s.now ∧
      e.dl = (startWatch p s d).current + deadlineTicks p.period d ∧
      e.dl + ticks p.slop ≤ (startWatch p s d).clockEnd := by
  have hi := inv_of_reachable p hp s h
  obtain ⟨hp0, hp1, he0, hs0, hs1⟩ := hp
  obtain ⟨hdt, heff0, heff1, heff2, heff3, heff4, heff5⟩ := dt_facts p.period d hp0 hp1 hd0 (by omega)
  have hne : d ≠ maxInt64 := by omega
  unfold startWatch
  rw [if_neg hne]
  generalize hD : deadlineTicks p.period d = D at *
  generalize hE : effDur p.period d = E at *
  have hgt : s.current + D > s.clockEnd := by
    cases hst : s.started
    · have hu := hi.unstarted hst
      rcases hfirst with h1 | h1
      · simp [hst] at h1
      · have : 1048576 ≤ E := by
          by_cases h2 : d ≤ maxInt64 - p.period
          · have := heff4 h2; omega
          · have := heff5 (by omega); unfold maxInt64 at *; omega
        omega
    · have := hi.stopped hst hr; omega
  cases hst : s.started <;>
    simp only [makeDeadline, refresh, extendClock, hr, hst, hgt, hD, ticks_eq, Bool.not_true, Bool.not_false,
      Bool.and_true, Bool.and_false, Bool.false_eq_true, ↓reduceIte]
  · have hu := hi.unstarted hst
    exact ⟨trivial, trivial, by omega, _, rfl, rfl, rfl, rfl, by dsimp only; omega⟩
  · exact ⟨trivial, trivial, trivial, _, rfl, rfl, rfl, rfl, by dsimp only; omega⟩

/-- **No int64 overflow in the clock arithmetic.** As long as the process has run for less than
    MaxInt64 ns since the clock was first used (292 years), for every `0 ≤ d ≤ MaxInt64` the deadline
    returned by `makeDeadline` and the `shutdown` value `end + durationToTicks(time.Second)` lie in
    `[0, MaxInt64]` — the unbounded integers of the model and Go's int64 agree. -/
theorem no_int64_overflow (p : Params) (hp : p.Valid) (s : State) (h : Reachable p s)
    (hage : s.started = true → s.now - s.startNs ≤ maxInt64) (d : Int) (hd0 : 0 ≤ d) (hd1 : d ≤ maxInt64) :
    0 ≤ (makeDeadline p s d).2 ∧ (makeDeadline p s d).2 + ticks p.slop ≤ maxInt64 ∧
    s.current + deadlineTicks p.period d ≤ maxInt64 := by
  have hi := inv_of_reachable p hp s h
  have hcl := current_le_now p hp s h
  obtain ⟨hp0, hp1, he0, hs0, hs1⟩ := hp
  obtain ⟨hdt, heff0, heff1, heff2, heff3, heff4, _⟩ := dt_facts p.period d hp0 hp1 hd0 hd1
  have hl := hi.lw_le
  generalize hD : deadlineTicks p.period d = D at *
  generalize hE : effDur p.period d = E at *
  simp only [ticks_eq] at hcl ⊢
  cases hst : s.started
  · have hu := hi.unstarted hst
    simp only [makeDeadline, refresh, hu.2.2, hst, hD, Bool.and_false, Bool.false_eq_true, ↓reduceIte]
    unfold maxInt64 at *
    refine ⟨?_, ?_, ?_⟩ <;> (try split) <;> omega
  · have h1 := hcl.1 hst
    have h2 := hage hst
    have hc := hi.cur_eq hst
    cases hr : s.running <;>
      simp only [makeDeadline, refresh, hr, hst, hD, ticks_eq, Bool.not_true, Bool.not_false, Bool.and_true, Bool.and_false,
        Bool.false_eq_true, ↓reduceIte] <;>
      unfold maxInt64 at * <;>
      refine ⟨?_, ?_, ?_⟩ <;> (try split) <;> omega

/-! ### the hypotheses are satisfiable: a concrete history

period 400 ms, eps 1 ms.  5 µs after program start a match with MatchTimeout 1 s begins (first use
of the clock: deadline 1335 ticks ≈ 1.4 s, clockEnd 2288 ticks ≈ 2.4 s); the updater wakes every
400 ms. -/

def pEx : Params := { period := 400000000, eps := 1000000, slop := goSlop }

example : pEx.Valid := by unfold Params.Valid pEx goSlop maxInt64; decide

def evsEx (nTicks : Nat) : List Event :=
  [.idle 5000, .make 1000000000] ++ List.replicate nTicks (.tick 400000000)

/-- after three wake-ups (1.2 s) the deadline is pending, not reached, the updater running -/
example : ∃ s, run pEx State.init (evsEx 3) = some s ∧ Reachable pEx s ∧
    s.pending = [{ t0 := 5000, d := 1000000000, dl := 1335, fresh := true }] ∧
    reached s 1335 = false ∧ s.running = true ∧ s.clockEnd = 2288 :=
  ⟨_, rfl, reachable_of_run pEx (evsEx 3) _ _ Reachable.init rfl, by decide⟩

/-- the fourth wake-up (1.6 s ≥ t0 + d + period) makes it reached — 1.6 s after it was made, not
    earlier than d -/
example : ∃ s, run pEx State.init (evsEx 4) = some s ∧ reached s 1335 = true ∧ s.now - 5000 = 1600000000 :=
  ⟨_, rfl, by decide⟩

/-- the fifth wake-up happens at 2.0 s ≥ t0 + d + 2·period + eps = 1.801 s: the hypothesis of
    `timeout_within` is met by a reachable state with a pending deadline -/
example : ∃ s e, run pEx State.init (evsEx 5) = some s ∧ e ∈ s.pending ∧
    e.t0 + e.d + 2 * pEx.period + pEx.eps ≤ s.now ∧ reached s e.dl = true :=
  ⟨_, { t0 := 5000, d := 1000000000, dl := 1335, fresh := true }, rfl, by decide⟩

/-- hypotheses of `clock_exits`: after six wake-ups (2.4 s, current = 2288 = clockEnd, still running) the
    seventh comes at 2.8 s ≥ start + 2^20·(clockEnd+1) = 2.40019 s -/
example : ∃ s s', run pEx State.init (evsEx 6) = some s ∧ s.running = true ∧ s.current = s.clockEnd ∧
    step pEx s (.tick 400000000) = some s' ∧ s.startNs + 1048576 * (s.clockEnd + 1) ≤ s.now + 400000000 ∧
    s'.running = false :=
  ⟨_, _, rfl, by decide, by decide, rfl, by decide, by decide⟩

/-- the runner returns; the seventh wake-up (2.8 s > clockEnd) ends the updater, and a timed match
    after a further idle minute starts a new one with an exact `current` (57029 ticks = 59.8 s) -/
example : ∃ s, run pEx State.init (evsEx 4 ++ [.finish 0] ++ List.replicate 3 (.tick 400000000)) = some s ∧
    s.running = false ∧ s.pending = [] ∧ s.current = 2670 ∧
    ∃ s', run pEx s [.idle 57000000000, .make 50000000] = some s' ∧ s'.running = true ∧
      s'.current = 57029 ∧ s'.pending = [{ t0 := 59800005000, d := 50000000, dl := 57458, fresh := true }] :=
  ⟨_, rfl, by decide, by decide, by decide, _, rfl, by decide⟩

/-- documented quirk: StopTimeoutClock while a timed match is in flight.  After `stop` and the next
    wake-up no updater runs and `current` (381) will never reach the runner's deadline (1335): that match
    can no longer time out unless another timed match restarts the clock.  The model drops such deadlines
    from `pending`, so the theorems above speak about deadlines made after the last stop. -/
example : ∃ s, run pEx State.init [.idle 5000, .make 1000000000, .stop, .tick 400000000] = some s ∧
    s.running = false ∧ s.current = 381 ∧ reached s 1335 = false ∧ s.pending = [] :=
  ⟨_, rfl, by decide⟩

/-! ### makeDeadline in atomic steps: every interleaving (`RegexVerif.ClockConc`)

From here on a makeDeadline call is not one event.  A call is `begin d` followed by up to three
steps of its goroutine - the atomic read of `clockEnd`, the atomic read of `current` (with the
comparison of the locals), the locked section - and between any two of them other calls, wake-ups of
the updater, idle time and StopTimeoutClock may come.  `Variant.new` is the code in /repo;
`Variant.split` (648a49f) and `Variant.old` (before it) are the two earlier versions. -/

/-- **No early timeout, whatever the interleaving.**  New variant; every state reachable by any
    interleaving of any number of makeDeadline calls with the updater, idle periods and
    StopTimeoutClock.  If a call that began at real time `t0` for MatchTimeout `d` has returned the
    deadline `e`, and `e` is `reached()`, then the real time elapsed since `t0` is at least
    `min(d+period, MaxInt64) - period - eps - 2097150 ns`; for `d ≤ MaxInt64 - period` that is
    `d - eps - (2 ticks - 2 ns)` - the bound of `no_early_timeout`, unchanged.  Why it survives the
    interleaving: a deadline returned without the mutex satisfies `current₂ + D ≤ clockEnd₁` (indices:
    order of the two reads); had the clock been stopped at the first read, `clockEnd₁ < current₁ ≤
    current₂` would contradict that (`D ≥ 0`), so an updater was running at the first read, which is
    after `t0`, and `current` was at most `period + eps` old then and only grows.  A deadline computed
    under the mutex reads a `current` that was just refreshed or belongs to a running updater, and it
    is always recomputed there - nothing read before the mutex is kept. -/
theorem conc_no_early_deadline (p : Params) (hp : p.Valid) (s : ClockConc.CState)
    (h : ClockConc.Reachable .new p s) (g : ClockConc.G) (hg : g ∈ s.gs) (hpc : g.pc = .done)
    (hr : reached s.clk g.e = true) :
    effDur p.period g.d - p.period - p.eps - 2097150 ≤ s.clk.now - g.t0 ∧
    (g.d ≤ maxInt64 - p.period → g.d - p.eps - 2097150 ≤ s.clk.now - g.t0) := by
  have hi := Lemmas.ClockConc.inv_of_reachable p hp s h
  have hd := hi.gs g hg
  have hc := hi.clk
  obtain ⟨hp0, hp1, he0, _, _⟩ := hp
  obtain ⟨_, _, _, _, _, heff, _⟩ := dt_facts p.period g.d hp0 hp1 hd.d_nonneg hd.d_le
  have hl := hc.lw_le
  have ht := hd.t0_le
  have hearly := hd.early hpc
  simp only [reached, decide_eq_true_eq] at hr
  cases hs : s.clk.started
  · have hu := hc.unstarted hs
    have h1 := hearly.2 hs
    refine ⟨by omega, fun h2 => by have := heff h2; omega⟩
  · have hcur := hc.cur_eq hs
    have h1 := hearly.1 hs
    refine ⟨by omega, fun h2 => by have := heff h2; omega⟩

/-- **The clock covers the deadline, whatever the interleaving.**  New variant, every reachable
    state: a returned deadline of a call during which StopTimeoutClock was not called (and none since)
    is `≤ clockEnd`, and while it is not `reached()` an updater is running - so it will be reached. -/
theorem conc_clock_covers_deadline (p : Params) (hp : p.Valid) (s : ClockConc.CState)
    (h : ClockConc.Reachable .new p s) (g : ClockConc.G) (hg : g ∈ s.gs) (hpc : g.pc = .done)
    (hstop : g.s0 = s.stops) :
    g.e ≤ s.clk.clockEnd ∧ (reached s.clk g.e = false → s.clk.running = true) := by
  have hd := (Lemmas.ClockConc.inv_of_reachable p hp s h).gs g hg
  have hc := hd.covDone hstop hpc
  refine ⟨hc.1, fun hr => ?_⟩
  simp only [reached, decide_eq_false_iff_not] at hr
  rcases hc.2 with h1 | h1
  · exact h1
  · exact absurd h1 hr

/-- **The clock invariants survive the interleaving.**  New variant, every reachable state:
    `current` never runs ahead of real time (`current_le_now`), a running clock is at most
    `period + eps` old (`fresh_when_running`), and a clock that is not running has passed its
    `clockEnd` - so a lock-free `end <= clockEnd` can only succeed against a running clock. -/
theorem conc_clock_invariants (p : Params) (hp : p.Valid) (s : ClockConc.CState)
    (h : ClockConc.Reachable .new p s) :
    (s.clk.started = true → 0 ≤ s.clk.current ∧ s.clk.current ≤ ticks (s.clk.now - s.clk.startNs)) ∧
    (s.clk.started = false → s.clk.current = 0 ∧ s.clk.clockEnd = 0 ∧ s.clk.running = false) ∧
    (s.clk.running = true →
      ∃ w, s.clk.current = ticks (w - s.clk.startNs) ∧ w ≤ s.clk.now ∧ s.clk.now - w ≤ p.period + p.eps) ∧
    (s.clk.started = true → s.clk.running = false → s.clk.clockEnd < s.clk.current) := by
  have hc := (Lemmas.ClockConc.inv_of_reachable p hp s h).clk
  have hl := hc.lw_le
  refine ⟨fun hs => ?_, hc.unstarted, fun hr => ?_, hc.stopped⟩
  · have := hc.cur_eq hs
    rw [ticks_eq]; omega
  · have hpr := hc.progress hr
    refine ⟨s.clk.lastWrite, ?_, hl, by omega⟩
    rw [ticks_eq]; exact (hc.cur_eq hpr.1).1

/-- **The small-step model refines the atomic one.**  Every variant, every state (reachable or
    not): a call whose steps are executed with nothing in between - `begin d`, then `k ≤ 4` steps of
    the new goroutine - ends with exactly the clock state and the deadline of `Clock.makeDeadline`,
    the atomic event the theorems of the first part speak about.  (The variants differ only under
    interleaving.) -/
theorem conc_sequential_eq (v : ClockConc.Variant) (p : Params) (s : ClockConc.CState) (d : Int)
    (hd0 : 0 ≤ d) (hd1 : d ≤ maxInt64) :
    ∃ k, k ≤ 4 ∧ ClockConc.run v p s (ClockConc.soloEvents s d k) =
      some { clk := (makeDeadline p s.clk d).1,
             gs := s.gs ++ [{ t0 := s.clk.now, d := d, pc := .done, ce := s.clk.clockEnd,
                              e := (makeDeadline p s.clk d).2, s0 := s.stops, tMade := s.clk.now }],
             stops := s.stops } := by
  obtain ⟨k, hk, hit⟩ := Lemmas.ClockConc.iterG_makeDeadline v p s.clk (ClockConc.newG s d) rfl
  exact ⟨k, hk, Lemmas.ClockConc.run_solo v p s d ⟨hd0, hd1⟩ k _ hit⟩

/-! #### concrete interleavings (period 1 ms, eps 1 ms)

`warmEvs`: a first timed call (100 ms) runs alone and starts the clock at t = 0; its runner returns;
StopTimeoutClock; the updater wakes twice (at 1 ms `current = 0 <= clockEnd = 0` still holds, at 2 ms
it leaves the loop with `current = 1`); 130 ms pass.  Now `current = 1` is 130 ms old, longer than the
timeout of the calls that follow. -/

def pConc : Params := { period := 1000000, eps := 1000000, slop := goSlop }

example : pConc.Valid := by unfold Params.Valid pConc goSlop maxInt64; decide

def warmEvs (solo : Nat) : List ClockConc.Event :=
  [.begin 100000000] ++ List.replicate solo (.stepG 0) ++ [.retire 0, .stop, .tick 1000000, .tick 1000000, .idle 130000000]

/-- goroutines A (index 0) and B (index 1), both MatchTimeout 100 ms, at t = 132 ms: B does its two
    lock-free reads, A runs its whole call, B does the rest of its own.  `solo` = number of steps of a
    call that takes the mutex: 4 in the variants with two critical sections, 3 in the new one. -/
def raceLockEvs (solo : Nat) : List ClockConc.Event :=
  warmEvs solo ++ [.begin 100000000, .begin 100000000, .stepG 1, .stepG 1] ++ List.replicate solo (.stepG 0) ++
    List.replicate (solo - 2) (.stepG 1)

/-- A has MatchTimeout 1 h; B does its first read, A runs its whole call, B does its second read. -/
def raceFastEvs (solo : Nat) : List ClockConc.Event :=
  warmEvs solo ++ [.begin 3600000000000, .begin 100000000, .stepG 1] ++ List.replicate solo (.stepG 0) ++ [.stepG 1]

/-- the stopped, stale clock all three races start from -/
example : ∃ s, ClockConc.run .old pConc ClockConc.CState.init (warmEvs 4) = some s ∧
    s.clk.running = false ∧ s.clk.started = true ∧ s.clk.current = 1 ∧ s.clk.clockEnd = 0 ∧
    s.clk.now = 132000000 ∧ s.gs = [] :=
  ⟨_, rfl, by decide⟩

/-- **Defect D37, the path through the mutex** (code before 648a49f).  B computes `end_B = 1 + 96`
    from the stale `current` and sees `end_B > clockEnd`; A runs completely (refreshes `current` to 125
    ticks = 132 ms under the mutex, restarts the updater); B takes the mutex, finds `running` true, does
    not recompute, and returns 97: a deadline that was reached 30 ms before the call began.  The
    state is reachable, B's runner sees `reached()` at its first check, 0 ns after the call. -/
theorem old_makeDeadline_stale_deadline :
    ∃ s, ClockConc.run .old pConc ClockConc.CState.init (raceLockEvs 4) = some s ∧
      ClockConc.Reachable .old pConc s ∧
      s.gs[1]? = some { t0 := 132000000, d := 100000000, pc := .done, ce := 0, e := 97, s0 := 1, tMade := 132000000 } ∧
      reached s.clk 97 = true ∧ s.clk.current = 125 ∧ s.clk.now - 132000000 = 0 ∧
      ¬ (100000000 - pConc.eps - 2097150 ≤ s.clk.now - 132000000) :=
  ⟨_, rfl, Lemmas.ClockConc.reachable_of_run .old pConc (raceLockEvs 4) _ _ .init rfl, by decide⟩

/-- **Defect D37, the lock-free path** (code before 648a49f).  B reads the stale `current`
    (`end_B = 97`); A, with MatchTimeout 1 h, runs completely (`clockEnd` = 1 h + 1 s ahead); B reads
    that `clockEnd`, finds `end_B <= clockEnd` and returns 97 without ever taking the mutex. -/
theorem old_makeDeadline_stale_fastpath :
    ∃ s, ClockConc.run .old pConc ClockConc.CState.init (raceFastEvs 4) = some s ∧
      ClockConc.Reachable .old pConc s ∧
      s.gs[1]? = some { t0 := 132000000, d := 100000000, pc := .done, ce := 3434306, e := 97, s0 := 1, tMade := 132000000 } ∧
      reached s.clk 97 = true ∧ s.clk.current = 125 ∧ s.clk.now - 132000000 = 0 :=
  ⟨_, rfl, Lemmas.ClockConc.reachable_of_run .old pConc (raceFastEvs 4) _ _ .init rfl, by decide⟩

/-- the same schedules on the new code (a whole call is three steps there): B's deadline is computed
    from the refreshed time, 221 = 125 + 96, and is not reached; in the second schedule B's second
    read sees `current = 125`, `221 > clockEnd₁ = 0` sends it to the mutex, two more steps finish it -/
example : ∃ s, ClockConc.run .new pConc ClockConc.CState.init (raceLockEvs 3) = some s ∧
    s.gs[1]? = some { t0 := 132000000, d := 100000000, pc := .done, ce := 0, e := 221, s0 := 1, tMade := 132000000 } ∧
    reached s.clk 221 = false :=
  ⟨_, rfl, by decide⟩
example : ∃ s, ClockConc.run .new pConc ClockConc.CState.init (raceFastEvs 3) = some s ∧
    s.gs[1]? = some { t0 := 132000000, d := 100000000, pc := .needLock, ce := 0, e := 221, s0 := 1, tMade := 132000000 } :=
  ⟨_, rfl, by decide⟩
example : ∃ s, ClockConc.run .new pConc ClockConc.CState.init (raceFastEvs 3 ++ [.stepG 1]) = some s ∧
    s.gs[1]? = some { t0 := 132000000, d := 100000000, pc := .done, ce := 0, e := 221, s0 := 1, tMade := 132000000 } ∧
    reached s.clk 221 = false ∧ s.clk.clockEnd = 3434306 :=
  ⟨_, rfl, by decide⟩
/-- … and so does 648a49f on these two schedules (four steps per call) -/
example : ∃ s, ClockConc.run .split pConc ClockConc.CState.init (raceLockEvs 4) = some s ∧
    s.gs[1]? = some { t0 := 132000000, d := 100000000, pc := .done, ce := 0, e := 221, s0 := 1, tMade := 132000000 } :=
  ⟨_, rfl, by decide⟩

/-- A (index 0, 100 ms) at t = 132 ms: both reads and the first locked section (refresh: `current` =
    125); A is descheduled for 50 ms; A's extendClock restarts the updater at t = 182 ms; C (index 1,
    100 ms) begins at t = 182 ms and does its two reads; then the updater ticks 50 times. -/
def splitEvs : List ClockConc.Event :=
  warmEvs 4 ++ [.begin 100000000, .stepG 0, .stepG 0, .stepG 0, .idle 50000000, .stepG 0,
    .begin 100000000, .stepG 1, .stepG 1] ++ List.replicate 50 (.tick 1000000)

/-- **Defect D38: two critical sections** (/repo at 648a49f).  The locked block of makeDeadline
    refreshed `current` and released the mutex; `extendClock` took it again.  If the goroutine is
    descheduled between the two (50 ms here; no updater is alive, so nothing bounds the delay), the
    clock it then starts is `running` with a `current` that is 50 ms old and stays so until the first
    wake-up.  C, which begins right after, reads `clockEnd` (covers) and `current` (stale) and returns
    `221 = 125 + 96` lock-free (through the mutex it would get the same: `running` is true, no
    refresh).  Its deadline is reached 50 ms after the call began, with MatchTimeout 100 ms: earlier
    than `d - eps - 2 ticks` by 47 ms - the bound of `conc_no_early_deadline` fails for this variant,
    and `fresh_when_running` fails in the state after A's extendClock. -/
theorem split_sections_stale_after_restart :
    ∃ s, ClockConc.run .split pConc ClockConc.CState.init splitEvs = some s ∧
      ClockConc.Reachable .split pConc s ∧
      s.gs[1]? = some { t0 := 182000000, d := 100000000, pc := .done, ce := 1174, e := 221, s0 := 1, tMade := 182000000 } ∧
      reached s.clk 221 = true ∧ s.clk.now - 182000000 = 50000000 ∧
      ¬ (100000000 - pConc.eps - 2097150 ≤ s.clk.now - 182000000) :=
  ⟨_, rfl, Lemmas.ClockConc.reachable_of_run .split pConc splitEvs _ _ .init rfl, by decide⟩

/-- the state right after A's late extendClock: running, and `current` (125 ticks = 131.07 ms) is
    older than `period + eps` - `conc_clock_invariants` does not hold for the split variant -/
example : ∃ s, ClockConc.run .split pConc ClockConc.CState.init (splitEvs.take 16) = some s ∧
    s.clk.running = true ∧ s.clk.current = 125 ∧ s.clk.now = 182000000 ∧
    ¬ (s.clk.now - (s.clk.startNs + 1048576 * (s.clk.current + 1)) ≤ pConc.period + pConc.eps) :=
  ⟨_, rfl, by decide⟩

/-- in the new code the schedule does not exist: after A's single locked section (third step) an
    updater is alive, so 50 ms cannot pass without its wake-ups … -/
example : ClockConc.run .new pConc ClockConc.CState.init
    (warmEvs 3 ++ [.begin 100000000, .stepG 0, .stepG 0, .stepG 0, .idle 50000000]) = none := rfl
/-- … and with them C's deadline is computed from a time at most one period old: 269 = 173 + 96, which
    is reached 101 ms after C began -/
example : ∃ s, ClockConc.run .new pConc ClockConc.CState.init
    (warmEvs 3 ++ [.begin 100000000, .stepG 0, .stepG 0, .stepG 0] ++ List.replicate 50 (.tick 1000000) ++
      [.begin 100000000, .stepG 1, .stepG 1] ++ List.replicate 101 (.tick 1000000)) = some s ∧
    s.gs[1]? = some { t0 := 182000000, d := 100000000, pc := .done, ce := 1174, e := 269, s0 := 1, tMade := 182000000 } ∧
    reached s.clk 269 = true ∧ s.clk.now - 182000000 = 101000000 :=
  ⟨_, rfl, by decide⟩

/-- non-vacuity of `conc_no_early_deadline` / `conc_clock_covers_deadline`: a state reachable in the
    new variant with two finished calls - the first through the mutex (first use of the clock), the
    second, begun 3 ms later, lock-free - after 101 wake-ups: the first deadline (96) is reached 101 ms
    after its call began, not before the bound `100 ms - 1 ms - 2.1 ms`; the second (98) is not reached,
    is `≤ clockEnd`, and the updater is running. -/
def twoCallsEvs : List ClockConc.Event :=
  [.begin 100000000, .stepG 0, .stepG 0, .stepG 0, .tick 1000000, .tick 1000000, .tick 1000000,
    .begin 100000000, .stepG 1, .stepG 1] ++ List.replicate 98 (.tick 1000000)

example : ∃ s, ClockConc.run .new pConc ClockConc.CState.init twoCallsEvs = some s ∧
    ClockConc.Reachable .new pConc s ∧
    s.gs = [{ t0 := 0, d := 100000000, pc := .done, ce := 0, e := 96, s0 := 0, tMade := 0 },
            { t0 := 3000000, d := 100000000, pc := .done, ce := 1049, e := 98, s0 := 0, tMade := 3000000 }] ∧
    reached s.clk 96 = true ∧ 100000000 - pConc.eps - 2097150 ≤ s.clk.now - 0 ∧ s.clk.now = 101000000 ∧
    reached s.clk 98 = false ∧ 98 ≤ s.clk.clockEnd ∧ s.clk.running = true ∧ s.stops = 0 :=
  ⟨_, rfl, Lemmas.ClockConc.reachable_of_run .new pConc twoCallsEvs _ _ .init rfl, by decide⟩

/-- `conc_sequential_eq` instantiated: a call alone on the stale stopped clock, each variant -/
example : ∀ v ∈ [ClockConc.Variant.old, .split, .new], ∃ s k s', k ≤ 4 ∧
    ClockConc.run .new pConc ClockConc.CState.init (warmEvs 3) = some s ∧
    ClockConc.run v pConc s (ClockConc.soloEvents s 100000000 k) = some s' ∧
    s'.clk.current = 125 ∧ s'.gs = [{ t0 := 132000000, d := 100000000, pc := .done, ce := 0, e := 221, s0 := 1, tMade := 132000000 }] ∧
    (makeDeadline pConc s.clk 100000000).2 = 221 := by
  intro v hv
  simp only [List.mem_cons, List.mem_nil_iff, or_false] at hv
  rcases hv with rfl | rfl | rfl
  · exact ⟨_, 4, _, by decide, rfl, rfl, by decide⟩
  · exact ⟨_, 4, _, by decide, rfl, rfl, by decide⟩
  · exact ⟨_, 3, _, by decide, rfl, rfl, by decide⟩

/-! ### liveness under interleaving (new variant)

The deadline of a call is `current + deadlineTicks d` for the `current` read in the step that computed
the returned `end` - the lock-free read, or the locked section.  That step happens at or after the
call (`t0`), but arbitrarily later if the goroutine is descheduled between `begin` and its steps:
nothing in the model (and nothing in Go) bounds that delay.  So the firing time is bounded from the
real time `tMade` at which the deadline was made (ghost field of `G`, written by the step that writes
`e`), and from `t0` only under an explicit bound `lat` on the duration of the call's own steps. -/

/-- **The deadline is made during the call**: `t0 ≤ tMade ≤ now` in every reachable state, for every
    call in flight or returned.  (`tMade = t0` when the steps of the call run without delay - see
    `conc_sequential_eq`.) -/
theorem conc_made_during_call (p : Params) (hp : p.Valid) (s : ClockConc.CState)
    (h : ClockConc.Reachable .new p s) (g : ClockConc.G) (hg : g ∈ s.gs) :
    g.t0 ≤ g.tMade ∧ g.tMade ≤ s.clk.now := by
  have hd := (Lemmas.ClockConc.inv_of_reachable p hp s h).gs g hg
  exact ⟨hd.made_ge, hd.made_le⟩

/-- **Timeouts fire, whatever the interleaving.**  New variant, every reachable state.  A returned
    deadline `e` of a call with MatchTimeout `d`, made at real time `tMade`, with no StopTimeoutClock
    since the call began, is `reached()` as soon as real time is
    `≥ tMade + min(d+period, MaxInt64) + period + eps` - for `d ≤ MaxInt64 - period` that is
    `tMade + d + 2·period + eps`, the bound of `timeout_within` with `tMade` in the place of `t0`.
    Why: `2^20·e ≤ (tMade - start) + effDur` because `current` never runs ahead of real time
    (`conc_clock_invariants`); as long as `e` is not reached an updater is alive
    (`conc_clock_covers_deadline`), its wake-ups are at most `period + eps` apart, and the first one at
    or after `tMade + effDur` stores a time `≥ e` (`conc_timeout_at_tick`).  The runner then sees it
    at its next CheckTimeout. -/
theorem conc_timeout_within (p : Params) (hp : p.Valid) (s : ClockConc.CState)
    (h : ClockConc.Reachable .new p s) (g : ClockConc.G) (hg : g ∈ s.gs) (hpc : g.pc = .done)
    (hstop : g.s0 = s.stops)
    (hn : g.tMade + effDur p.period g.d + p.period + p.eps ≤ s.clk.now) :
    reached s.clk g.e = true := by
  have hi := Lemmas.ClockConc.inv_of_reachable p hp s h
  have hd := hi.gs g hg
  have hc := hi.clk
  simp only [reached, decide_eq_true_eq]
  rcases (hd.covDone hstop hpc).2 with hr | h1
  · have hpr := hc.progress hr
    have hcur := hc.cur_eq hpr.1
    rcases hd.within hpc hpr.1 with h2 | h2
    · exact h2
    · omega
  · exact h1

/-- … measured from the call: if the steps of the call took at most `lat` ns in total (the deadline
    was made at most `lat` after the call began - an assumption about the scheduler, like `eps`), the
    deadline is reached once real time is `≥ t0 + lat + d + 2·period + eps`.  With `lat = 0` this is
    `timeout_within` of the atomic model. -/
theorem conc_timeout_within_from_call (p : Params) (hp : p.Valid) (s : ClockConc.CState)
    (h : ClockConc.Reachable .new p s) (g : ClockConc.G) (hg : g ∈ s.gs) (hpc : g.pc = .done)
    (hstop : g.s0 = s.stops) (lat : Int) (hlat : g.tMade ≤ g.t0 + lat)
    (hn : g.t0 + lat + g.d + 2 * p.period + p.eps ≤ s.clk.now) :
    reached s.clk g.e = true := by
  have hd := (Lemmas.ClockConc.inv_of_reachable p hp s h).gs g hg
  obtain ⟨_, _, heff1, _⟩ := dt_facts p.period g.d hp.1 hp.2.1 hd.d_nonneg hd.d_le
  exact conc_timeout_within p hp s h g hg hpc hstop (by omega)

/-- the step form: the wake-up of the updater that happens at a real time `≥ tMade + effDur` makes the
    deadline `reached()` (no hypothesis about StopTimeoutClock: the wake-up is given) -/
theorem conc_timeout_at_tick (p : Params) (hp : p.Valid) (s s' : ClockConc.CState)
    (h : ClockConc.Reachable .new p s) (dt : Int) (hs : ClockConc.step .new p s (.tick dt) = some s')
    (g : ClockConc.G) (hg : g ∈ s.gs) (hpc : g.pc = .done)
    (hn : g.tMade + effDur p.period g.d ≤ s'.clk.now) : reached s'.clk g.e = true := by
  have hi' := Lemmas.ClockConc.inv_of_reachable p hp s' (ClockConc.Reachable.step _ h hs)
  have hst := fun hr => ((Lemmas.ClockConc.inv_of_reachable p hp s h).clk.progress hr).1
  simp only [ClockConc.step, step] at hs
  split at hs
  · next c hc =>
    cases hs
    split at hc
    · next hcond =>
      cases hc
      have hd := hi'.gs g hg
      have hw := hd.within hpc (by simpa [tick] using hst hcond.1)
      simp only [reached, decide_eq_true_eq]
      simp only [tick, ticks_eq] at hw hn ⊢
      omega
    · cases hc
  · cases hs

/-- **The clock goroutine exits, and exits safely.**  New variant, every reachable state: a wake-up
    of the updater at a real time `≥ start + 2^20·(clockEnd+1)` leaves the loop (`running = false`);
    no call is touched; and at that moment every returned deadline of a call with no
    StopTimeoutClock since it began is `reached()` - the updater never goes away under a deadline that
    is still waiting.  (Calls still in flight re-read `current`: a stopped clock has passed the
    `clockEnd` they may have read, `conc_clock_invariants`, so they take the mutex and restart it.) -/
theorem conc_clock_exits (p : Params) (hp : p.Valid) (s s' : ClockConc.CState)
    (h : ClockConc.Reachable .new p s) (dt : Int) (hs : ClockConc.step .new p s (.tick dt) = some s')
    (hn : s.clk.startNs + 1048576 * (s.clk.clockEnd + 1) ≤ s.clk.now + dt) :
    s'.clk.running = false ∧ s'.gs = s.gs ∧ s'.stops = s.stops ∧
    ∀ g ∈ s'.gs, g.pc = .done → g.s0 = s'.stops → reached s'.clk g.e = true := by
  have hi' := Lemmas.ClockConc.inv_of_reachable p hp s' (ClockConc.Reachable.step _ h hs)
  have hrun : s'.clk.running = false ∧ s'.gs = s.gs ∧ s'.stops = s.stops := by
    simp only [ClockConc.step, step] at hs
    split at hs
    · next c hc =>
      cases hs
      split at hc
      · cases hc
        refine ⟨?_, rfl, rfl⟩
        simp only [tick, ticks_eq, decide_eq_false_iff_not]
        omega
      · cases hc
    · cases hs
  refine ⟨hrun.1, hrun.2.1, hrun.2.2, fun g hg hpc hst => ?_⟩
  simp only [reached, decide_eq_true_eq]
  rcases ((hi'.gs g hg).covDone hst hpc).2 with hr | h1
  · rw [hrun.1] at hr; cases hr
  · exact h1

/-- … and that wake-up comes in time: while an updater is running whose loop condition held at its
    last wake-up, real time is `< start + 2^20·(clockEnd+1) + period + eps`.  So once no call extends
    `clockEnd` any more - every returned deadline reached, no call in flight - the goroutine is gone
    `period + eps` after the end of the slop. -/
theorem conc_clock_exit_bound (p : Params) (hp : p.Valid) (s : ClockConc.CState)
    (h : ClockConc.Reachable .new p s) (hr : s.clk.running = true) (hc : s.clk.current ≤ s.clk.clockEnd) :
    s.clk.now < s.clk.startNs + 1048576 * (s.clk.clockEnd + 1) + p.period + p.eps := by
  have hi := (Lemmas.ClockConc.inv_of_reachable p hp s h).clk
  have hpr := hi.progress hr
  have hcur := hi.cur_eq hpr.1
  omega

/-- **Restart on demand, in steps.**  New variant, a reachable state with no updater running (never
    started / exited / stopped), whatever calls are in flight.  A new call (`0 ≤ d ≤ MaxInt64`; on
    the very first use also `d + period ≥ 1 tick`) whose steps run next - `begin d` and `k ≤ 4` steps
    of the new goroutine, by `conc_sequential_eq` the atomic `Clock.makeDeadline` - ends with an
    updater running, `current` the exact tick count of real time (the refresh under the mutex: no
    stale value enters the deadline), the returned deadline `current + deadlineTicks d`, made at the
    time of the call (`tMade = t0 = now`), and `clockEnd` covering it plus the slop. -/
theorem conc_restart_on_demand (p : Params) (hp : p.Valid) (s : ClockConc.CState)
    (h : ClockConc.Reachable .new p s) (hr : s.clk.running = false) (d : Int) (hd0 : 0 ≤ d)
    (hd1 : d ≤ maxInt64) (hfirst : s.clk.started = true ∨ 1048576 ≤ d + p.period) :
    ∃ k s' g, k ≤ 4 ∧ ClockConc.run .new p s (ClockConc.soloEvents s d k) = some s' ∧
      ClockConc.Reachable .new p s' ∧ s'.gs = s.gs ++ [g] ∧
      s'.clk.running = true ∧ s'.clk.started = true ∧ s'.clk.now = s.clk.now ∧
      s'.clk.current = ticks (s'.clk.now - s'.clk.startNs) ∧
      g.pc = .done ∧ g.d = d ∧ g.t0 = s.clk.now ∧ g.tMade = s.clk.now ∧ g.s0 = s'.stops ∧
      g.e = s'.clk.current + deadlineTicks p.period d ∧ g.e + ticks p.slop ≤ s'.clk.clockEnd := by
  obtain ⟨k, hk, hrun⟩ := conc_sequential_eq .new p s d hd0 hd1
  have hc := (Lemmas.ClockConc.inv_of_reachable p hp s h).clk
  obtain ⟨h1, h2, h3, _, h5, h6, h7⟩ :=
    Lemmas.ClockConc.makeDeadline_restart p hp s.clk hc hr d hd0 hd1 hfirst
  refine ⟨k, _, _, hk, hrun, Lemmas.ClockConc.reachable_of_run .new p _ s _ h hrun, rfl, h1, h2, h3, ?_,
    rfl, rfl, rfl, rfl, rfl, h6, h7⟩
  rw [h5]; simp only [h3]

/-! #### the hypotheses are satisfiable: a call that is descheduled after `begin`

period 1 ms, eps 1 ms (`pConc`).  A (index 0, 100 ms) is the first use of the clock at t = 0 and runs
through the mutex.  B (index 1, 100 ms) begins at t0 = 3 ms and is descheduled for 20 ms before its
first step; its two lock-free reads happen at tMade = 23 ms: `e = ticks(23 ms) + 96 = 117`. -/

def lateEvs (n : Nat) : List ClockConc.Event :=
  [.begin 100000000, .stepG 0, .stepG 0, .stepG 0, .tick 1000000, .tick 1000000, .tick 1000000,
    .begin 100000000] ++ List.replicate 20 (.tick 1000000) ++ [.stepG 1, .stepG 1] ++
    List.replicate n (.tick 1000000)

/-- B's record; `conc_made_during_call`: t0 = 3 ms < tMade = 23 ms ≤ now -/
example : ∃ s, ClockConc.run .new pConc ClockConc.CState.init (lateEvs 0) = some s ∧
    ClockConc.Reachable .new pConc s ∧
    s.gs[1]? = some { t0 := 3000000, d := 100000000, pc := .done, ce := 1049, e := 117, s0 := 0, tMade := 23000000 } ∧
    s.clk.now = 23000000 :=
  ⟨_, rfl, Lemmas.ClockConc.reachable_of_run .new pConc (lateEvs 0) _ _ .init rfl, by decide⟩

/-- measured from `t0` the bound of `timeout_within` is false under interleaving: at
    t0 + d + 2·period + eps = 106 ms B's deadline is not reached (it is 14 ms later than that of a
    call that ran at once) - this is why `conc_timeout_within` is stated from `tMade` -/
example : ∃ s g, ClockConc.run .new pConc ClockConc.CState.init (lateEvs 83) = some s ∧ s.gs[1]? = some g ∧
    g.t0 + g.d + 2 * pConc.period + pConc.eps ≤ s.clk.now ∧ g.s0 = s.stops ∧ reached s.clk g.e = false :=
  ⟨_, _, rfl, rfl, by decide⟩

/-- hypotheses of `conc_timeout_within` (and of `conc_timeout_within_from_call` with `lat` = 20 ms):
    reachable, returned, no stop, now = 126 ms = tMade + effDur + period + eps; and the conclusion -/
example : ∃ s g, ClockConc.run .new pConc ClockConc.CState.init (lateEvs 103) = some s ∧
    ClockConc.Reachable .new pConc s ∧ g ∈ s.gs ∧ g.pc = .done ∧ g.s0 = s.stops ∧ g.t0 < g.tMade ∧
    g.tMade + effDur pConc.period g.d + pConc.period + pConc.eps ≤ s.clk.now ∧
    g.tMade ≤ g.t0 + 20000000 ∧ g.t0 + 20000000 + g.d + 2 * pConc.period + pConc.eps ≤ s.clk.now ∧
    s.clk.now = 126000000 ∧ reached s.clk g.e = true :=
  ⟨_, { t0 := 3000000, d := 100000000, pc := .done, ce := 1049, e := 117, s0 := 0, tMade := 23000000 }, rfl,
    Lemmas.ClockConc.reachable_of_run .new pConc (lateEvs 103) _ _ .init rfl, by decide⟩

/-- the bound is not slack by more than the two roundings and one period: one wake-up before the
    first that satisfies `conc_timeout_at_tick` (122 ms) the deadline is not reached; the wake-up at
    124 ms = tMade + effDur satisfies its hypothesis -/
example : ∃ s s' g, ClockConc.run .new pConc ClockConc.CState.init (lateEvs 99) = some s ∧ s.gs[1]? = some g ∧
    reached s.clk g.e = false ∧ s.clk.now = 122000000 ∧
    ClockConc.run .new pConc s [.tick 1000000, .tick 1000000] = some s' ∧
    g.tMade + effDur pConc.period g.d ≤ s'.clk.now ∧ reached s'.clk g.e = true :=
  ⟨_, _, _, rfl, rfl, by decide, by decide, rfl, by decide⟩

/-! #### exit and restart (period 400 ms, eps 1 ms: `pEx`; MatchTimeout 1 s, first use at t = 5 µs) -/

def exitEvs (n : Nat) : List ClockConc.Event :=
  [.idle 5000, .begin 1000000000, .stepG 0, .stepG 0, .stepG 0] ++ List.replicate n (.tick 400000000)

/-- hypotheses of `conc_clock_exit_bound` and `conc_clock_exits`: after six wake-ups (2.4 s) the
    updater runs with `current = clockEnd = 2288`; the seventh comes at 2.8 s
    `≥ start + 2^20·(clockEnd+1)` = 2.40019 s and leaves the loop; the deadline 1335 of the returned
    call is reached -/
example : ∃ s s', ClockConc.run .new pEx ClockConc.CState.init (exitEvs 6) = some s ∧
    ClockConc.Reachable .new pEx s ∧ s.clk.running = true ∧ s.clk.current = 2288 ∧ s.clk.clockEnd = 2288 ∧
    s.clk.now < s.clk.startNs + 1048576 * (s.clk.clockEnd + 1) + pEx.period + pEx.eps ∧
    ClockConc.step .new pEx s (.tick 400000000) = some s' ∧
    s.clk.startNs + 1048576 * (s.clk.clockEnd + 1) ≤ s.clk.now + 400000000 ∧
    s'.clk.running = false ∧
    s'.gs = [{ t0 := 5000, d := 1000000000, pc := .done, ce := 0, e := 1335, s0 := 0, tMade := 5000 }] ∧
    reached s'.clk 1335 = true :=
  ⟨_, _, rfl, Lemmas.ClockConc.reachable_of_run .new pEx (exitEvs 6) _ _ .init rfl, by decide, by decide,
    by decide, by decide, rfl, by decide, by decide, by decide, by decide⟩

/-- hypotheses of `conc_restart_on_demand`: the runner returns, an idle minute passes on the exited
    clock (`current` = 2670 is 57 s stale); a call with MatchTimeout 50 ms, run in three steps, restarts
    the updater with the exact time 57029 ticks = 59.8 s and gets 57029 + 429 -/
example : ∃ s s', ClockConc.run .new pEx ClockConc.CState.init (exitEvs 7 ++ [.retire 0, .idle 57000000000]) = some s ∧
    ClockConc.Reachable .new pEx s ∧ s.clk.running = false ∧ s.clk.started = true ∧ s.clk.current = 2670 ∧
    ClockConc.run .new pEx s (ClockConc.soloEvents s 50000000 3) = some s' ∧
    s'.clk.running = true ∧ s'.clk.current = 57029 ∧
    s'.gs = [{ t0 := 59800005000, d := 50000000, pc := .done, ce := 2288, e := 57458, s0 := 0, tMade := 59800005000 }] ∧
    57458 + ticks pEx.slop ≤ s'.clk.clockEnd :=
  ⟨_, _, rfl, Lemmas.ClockConc.reachable_of_run .new pEx (exitEvs 7 ++ [.retire 0, .idle 57000000000]) _ _ .init rfl,
    by decide, by decide, by decide, rfl, by decide, by decide, by decide, by decide⟩

/-- … and on the very first use of the clock (`started = false`, the second disjunct of `hfirst`) -/
example : ClockConc.Reachable .new pEx ClockConc.CState.init ∧ ClockConc.CState.init.clk.running = false ∧
    (1048576 : Int) ≤ 50000000 + pEx.period ∧
    ∃ s', ClockConc.run .new pEx ClockConc.CState.init (ClockConc.soloEvents ClockConc.CState.init 50000000 3) = some s' ∧
      s'.clk.running = true ∧ s'.clk.current = 0 ∧ s'.clk.startNs = 0 :=
  ⟨.init, rfl, by decide, _, rfl, by decide⟩

end RegexVerif.Props.C14
