/-
C14 — Timeouts fire, only when due, and the clock cleans up.

*Partial* property: the wall clock and the scheduler are assumptions.  What is proved is the logic of
the clock state machine `RegexVerif.Clock` (Model/Clock.lean), a line-by-line model of fastclock.go,
under the timing assumption that one iteration of runClock takes between `period` and `period + eps`
(`eps` is a parameter) and that makeDeadline executes atomically.  The model is tied to the source by
the regenerated facts `Generated.Clock` (constants and the statement skeleton of every function that
is modelled) and to the running code by leg H.
-/
import RegexVerif.Lemmas.Clock
import RegexVerif.Generated.Clock

namespace RegexVerif.Props.C14
open RegexVerif RegexVerif.Clock RegexVerif.Lemmas.Clock

/-! ### obligations regenerated from the Go source (`Generated.Clock`) -/

/-- The constants of fastclock.go are the ones the model uses: `durationToTicks` shifts right by 20,
    `extendClock` keeps the clock alive one second (`time.Second`) beyond the largest deadline, and the
    default period is 100 ms. -/
theorem source_constants :
    Generated.Clock.tickShift = 20 ∧ (2 : Int) ^ Generated.Clock.tickShift = tickNs ∧
    Generated.Clock.slopNs = goSlop ∧ Generated.Clock.defaultClockPeriodNs = goDefaultPeriod ∧
    Generated.Clock.clockPeriodInit = "DefaultClockPeriod" := by decide

/-- `makeDeadline`, `extendClock` and `deadlineTicks` are, statement for statement, what
    `Clock.makeDeadline`, `Clock.extendClock` and `Clock.deadlineTicks` model: the order of the reads of
    `current`/`clockEnd`, the refresh of `current` under `!running && !start.IsZero()`, the recomputed
    `end`, the `time.Second` slop, `running = true; go runClock()`. -/
theorem source_makeDeadline :
    Generated.Clock.makeDeadlineSrc =
      ["{",
       "end := fast.current.read() + deadlineTicks(d)",
       "if end > fast.clockEnd.read() {",
       "fast.mu.Lock()",
       "if !fast.running && !fast.start.IsZero() {",
       "fast.current.write(durationToTicks(time.Since(fast.start)))",
       "end = fast.current.read() + deadlineTicks(d)",
       "}",
       "fast.mu.Unlock()",
       "extendClock(end)",
       "}",
       "return end",
       "}"] ∧
    Generated.Clock.extendClockSrc =
      ["{",
       "fast.mu.Lock()",
       "defer fast.mu.Unlock()",
       "if fast.start.IsZero() {",
       "fast.start = time.Now()",
       "}",
       "if shutdown := end + durationToTicks(time.Second); shutdown > fast.clockEnd.read() {",
       "fast.clockEnd.write(shutdown)",
       "}",
       "if !fast.running {",
       "fast.running = true",
       "go runClock()",
       "}",
       "}"] ∧
    Generated.Clock.deadlineTicksSrc =
      ["{",
       "if d > math.MaxInt64-clockPeriod {",
       "return durationToTicks(math.MaxInt64)",
       "}",
       "return durationToTicks(d + clockPeriod)",
       "}"] ∧
    Generated.Clock.durationToTicksSrc = ["{", "return fasttime(d) >> 20", "}"] ∧
    Generated.Clock.reachedSrc = ["{", "return fast.current.read() >= t", "}"] := by decide

/-- `runClock` and `stopClock` are what `Clock.tick` and `Clock.stop` model: the loop condition
    `current <= clockEnd` evaluated right after `current` is written, `running = false` on exit; stop
    writes `clockEnd = 0` only when a clock is running. -/
theorem source_runClock :
    Generated.Clock.runClockSrc =
      ["{",
       "fast.mu.Lock()",
       "defer fast.mu.Unlock()",
       "for fast.current.read() <= fast.clockEnd.read() {",
       "fast.mu.Unlock()",
       "time.Sleep(clockPeriod)",
       "fast.mu.Lock()",
       "newTime := durationToTicks(time.Since(fast.start))",
       "fast.current.write(newTime)",
       "}",
       "fast.running = false",
       "}"] ∧
    Generated.Clock.stopClockSrc =
      ["{",
       "fast.mu.Lock()",
       "if fast.running {",
       "fast.clockEnd.write(fasttime(0))",
       "}",
       "fast.mu.Unlock()",
       "isRunning := true",
       "for isRunning {",
       "time.Sleep(clockPeriod / 2)",
       "fast.mu.Lock()",
       "isRunning = fast.running",
       "fast.mu.Unlock()",
       "}",
       "}"] ∧
    Generated.Clock.stopTimeoutClockSrc = ["{", "stopClock()", "}"] ∧
    Generated.Clock.setTimeoutCheckPeriodSrc = ["{", "clockPeriod = d", "}"] := by decide

/-- The runner side is what `Clock.startWatch` and `Clock.reached` model: MatchTimeout = MaxInt64
    switches checking off, otherwise one `makeDeadline(timeout)` per scan, and a timeout error is
    returned exactly when `deadline.reached()`; the scan loop checks once per candidate and the
    interpreter loop has one check per step. -/
theorem source_runner :
    Generated.Clock.scanTimeoutSrc =
      ["r.timeout = timeout",
       "r.ignoreTimeout = (time.Duration(math.MaxInt64) == timeout)",
       "call startTimeoutWatch",
       "call CheckTimeout"] ∧
    Generated.Clock.startTimeoutWatchSrc =
      ["{", "if r.ignoreTimeout {", "return", "}", "r.deadline = makeDeadline(r.timeout)", "}"] ∧
    Generated.Clock.checkTimeoutSrc =
      ["{",
       "if r.ignoreTimeout || !r.deadline.reached() {",
       "return nil",
       "}",
       "return fmt.Errorf(\"match timeout after %v on input `%v`\", r.timeout, string(r.Runtext))",
       "}"] ∧
    Generated.Clock.executeCheckTimeoutCalls = 1 := by decide

/-! ### the deadline arithmetic (fix 45a1777) -/

/-- **No wrap-around.** For every clock period `0 ≤ period ≤ MaxInt64` and all timeouts
    `0 ≤ d ≤ d' ≤ MaxInt64`: the argument handed to `durationToTicks` stays within int64
    (`effDur ≤ MaxInt64`, so the Go addition `d + clockPeriod` is only evaluated when it cannot
    overflow), the tick count is non-negative, monotone in `d`, at least the tick count of `d` itself
    and at most `durationToTicks(MaxInt64)`.  (Go: `deadlineTicks`.) -/
theorem deadline_no_wrap (period d d' : Int) (hp : 0 ≤ period) (hp' : period ≤ maxInt64)
    (hd : 0 ≤ d) (hdd : d ≤ d') (hd' : d' ≤ maxInt64) :
    deadlineTicks period d = ticks (effDur period d) ∧ d ≤ effDur period d ∧ effDur period d ≤ maxInt64 ∧
    0 ≤ deadlineTicks period d ∧ ticks d ≤ deadlineTicks period d ∧
    deadlineTicks period d ≤ deadlineTicks period d' ∧ deadlineTicks period d' ≤ ticks maxInt64 := by
  unfold deadlineTicks effDur
  simp only [ticks_eq]
  unfold maxInt64 at *
  refine ⟨?_, ?_, ?_, ?_, ?_, ?_, ?_⟩ <;> (repeat' split) <;> omega

/-- the hypotheses are satisfiable and the saturating branch is exercised: period 1 ms, d = MaxInt64-1 -/
example : deadlineTicks 1000000 (maxInt64 - 1) = 8796093022207 ∧ deadlineTicks 1000000 50000000 = 48 := by decide

/-- **The defect before 45a1777**, documented: with the old formula
    `durationToTicks(d + clockPeriod)` (int64 addition) a timeout within one period of MaxInt64 gives a
    *negative* tick count, so the deadline lies in the past and the match times out at once; the tick
    count is not monotone in `d`. -/
example : oldDeadlineTicks 1000000 (maxInt64 - 1) = -8796093022208 := by decide
example : ¬ (∀ d, 0 ≤ d → d ≤ maxInt64 → 0 ≤ oldDeadlineTicks 100000000 d) := by
  intro h; exact absurd (h (maxInt64 - 1) (by decide) (by decide)) (by decide)
example : ¬ (∀ d d', 0 ≤ d → d ≤ d' → d' ≤ maxInt64 → oldDeadlineTicks 1000000 d ≤ oldDeadlineTicks 1000000 d') := by
  intro h; exact absurd (h 0 (maxInt64 - 1) (by decide) (by decide) (by decide)) (by decide)
/-- where no wrap occurs the old and the new formula agree -/
example : ∀ d ∈ [0, 1, 20000000, 3600000000000, maxInt64 - 1000000], oldDeadlineTicks 1000000 d = deadlineTicks 1000000 d := by decide

end RegexVerif.Props.C14
