/-
C14 — property theorems (stub: not built yet).
-/
namespace RegexVerif.Props.C14
end RegexVerif.Props.C14
