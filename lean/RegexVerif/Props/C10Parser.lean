/-
C10 for the pattern parser — totality of the Lean model of `syntax/parser.go`
(`Model/Parser.lean`: `countCaptures` + `scanRegex` and everything they call, tied to the Go code by
leg Pr: exact equality of the raw tree, the capture tables and the ErrorCode with
`syntax.VerifParseRaw` on every generated pattern and option set).

The model makes every Go run-time panic of the parser explicit (`Res.fault`: pattern index out of
range, `moveLeft` below 0, pop of an empty options / group stack, nil unit, slice bounds) and every
loop carries explicit fuel (`Res.fuel`).  `wp m Q R s` says: started in `s`, `m` returns normally into
`Q` or with a Go `ErrorCode` into `R` — never a fault, never out of fuel.

PROVED IN FULL (`parse_total`): for every pattern, option set and oracle, `Parse` (with the fuel
`length + 1` the model gives its two outer loops, or any larger fuel) returns a tree or an `ErrorCode`:
the model never faults (no pattern index out of range, no `moveLeft` below 0, no pop of an empty
options / group stack, no nil unit, no bad slice, no `capnamelist[0]` on an empty list) and no loop
runs out of fuel.  The proof: every scanner is specified by symbolic execution (`Scans`, `ScansF`:
position inside the pattern and not behind a floor, only position / options / capture tables
touched); the class scanner by an induction over its fuel (`2·(length − pos) + 1`); the two outer loops
by the loop rule with the invariants "capnames ≠ nil → capnamelist ≠ []" (pre-scan) and "unit = nil
at the head of a turn, depth of the options stack = depth of the group stack" (main scan), each turn
consuming at least one rune; the `{`-fallback of the quantifier scan (`textto(startpos-1)`, which would
not consume) is proved dead after `isTrueQuantifier`.
-/
import RegexVerif.Lemmas.ParserRoot

namespace RegexVerif.Props.C10
open RegexVerif.Parser

/-- **Loops of the parser terminate when every turn consumes input.**  If from every state
    satisfying the invariant one turn either leaves the loop or goes on in a state that is strictly
    closer to the end of the pattern (and satisfies the invariant again), then `fuel > remaining
    runes` is enough: the loop never runs out of fuel and never faults.  (`iter` is the model's one
    loop combinator: `countCaptures`, `scanRegex`, `skipOrdinary`, `scanECMACapname` are instances; for
    the two outer loops `parse` passes `length + 1`.) -/
theorem loop_fuel_sufficient {β γ : Type} (E : Env) (f : β → M (Sum β γ)) (Inv : β → PS → Prop)
    (Q : γ → PS → Prop) (R : PS → Prop)
    (hstep : ∀ b s, Inv b s → wp (f b) (fun r s' => match r with
        | .inl b' => Inv b' s' ∧ E.pat.length - s'.pos < E.pat.length - s.pos
        | .inr c => Q c s') R s)
    (b : β) (s : PS) (hinv : Inv b s) :
    wp (iter f (E.pat.length + 1) b) Q R s :=
  wp_iter E f Inv Q R hstep _ b s (by omega) hinv

/-- non-vacuity: the name loop of `scanECMACapname` is such a loop (its proof instantiates the rule) -/
example (E : Env) : Scans E (scanECMACapname E) := scans_scanECMACapname E

/-- **The scanner layer is total (the first part; `scanners_total` has the large scanners).**  From every position
    inside the pattern each of these scanners returns — normally or with a Go `ErrorCode` — in a state
    whose position is not behind the start, is still inside the pattern, and which differs from the
    start state only in position / options / ignoreNextParen / capture tables (`Adv`); no pattern index
    is ever out of range, no loop runs out of fuel.  `scanCharEscape` needs (and its callers give it)
    one rune to the right. -/
theorem scanners_total_partial (E : Env) :
    Scans E (scanBlank E) ∧ Scans E (scanDecimal E) ∧ Scans E (scanOptions E) ∧ Scans E (scanWord E) ∧
    (∀ c, Scans E (scanHex E c)) ∧ Scans E (scanHexUntilBrace E) ∧ Scans E (scanControl E) ∧
    ScansLt E (scanCharEscape E) ∧ Scans E (scanECMACapname E) ∧ Scans E (scanCapname E) ∧
    Scans E (parseProperty E) ∧ (∀ i, Scans E (noteCaptureSlot i)) ∧ (∀ n, Scans E (noteCaptureName E n)) ∧
    (∀ c, Scans E (consumeCaptureSlot E c)) :=
  ⟨scans_scanBlank E, scans_scanDecimal E, scans_scanOptions E, scans_scanWord E, scans_scanHex E,
   scans_scanHexUntilBrace E, scans_scanControl E, wp_scanCharEscape E, scans_scanECMACapname E,
   scans_scanCapname E, scans_parseProperty E, scans_noteCaptureSlot E, scans_noteCaptureName E,
   scans_consumeCaptureSlot E⟩

/-- non-vacuity: a state inside a concrete pattern, `\x4` (too few hex digits): the scanner returns an
    error, not a fault, and the position is inside the pattern -/
example : ∃ s', scanCharEscape
    { pat := [92, 120, 52], opts := {}, mco := false,
      orc := { isWord := fun _ => false, ecmaStart := fun _ => false, ecmaPart := fun _ => false, toLower := id,
               isLower := fun _ => false, isUpper := fun _ => false, orbit := fun _ => [], participates := fun _ => false,
               cat := fun _ _ => false, catName := fun _ => none } }
    { pos := 1 } = .err .tooFewHex s' ∧ s'.pos ≤ 3 := ⟨_, rfl, by decide⟩

/-- **`scanBlank` consumes exactly the blanks and comments.**  The position after `scanBlank` is the
    start plus what `blankGo` counts, which is between 0 and the number of runes left. -/
theorem scanBlank_bounds (x : Bool) (r : List Nat) :
    (blankGo x .normal r 0).1 ≤ r.length := by
  have := blankGo_bounds x r .normal 0
  omega

example : blankGo true .normal [32, 35, 99, 10, 40, 63, 35, 120, 41, 97] 0 = (9, false) := by decide
example : blankGo false .normal [40, 63, 35, 120] 0 = (4, true) := by decide

/-- **The rest of the scanner layer is total.**  The same specification as in
    `scanners_total_partial` for the large scanners: `scanBasicBackslash`, `scanBackslash` (both modes),
    `scanCharSet` with the fuel the parser gives it (both modes; nested classes included),
    `scanGroupOpen` (every `(?…` construct: names, numbers, balancing groups, conditions, inline options,
    `(?P<…>`), `scanPythonNamedBackref` (given the three runes `?P=` its caller has seen), and the
    pre-scan helpers.  `scanCondition` may end one rune to the left of its start (the inner `(` of
    `(?(`), never further (`ScansBack`). -/
theorem scanners_total (E : Env) :
    (∀ so, Scans E (scanBasicBackslash E so)) ∧ (∀ so, Scans E (scanBackslash E so)) ∧
    (∀ ci so, Scans E (scanCharSet E (2 * E.pat.length + 4) ci so)) ∧
    Scans E (scanGroupOpen E) ∧ ScansBack E (scanCondition E) ∧
    (∀ start close, ScansF E start 1 start (scanGroupName E start close)) ∧
    ScansK E 3 (scanPythonNamedBackref E) :=
  ⟨scans_scanBasicBackslash E, scans_scanBackslash E, scans_scanCharSet E, scans_scanGroupOpen E,
   scans_scanCondition E, scansF_scanGroupName E, scans_scanPythonNamedBackref E⟩

/-- non-vacuity: `[a` — the class scanner started after the `[` returns `unterminatedBracket` at the end
    of the pattern; `(?<` at the end of the pattern: `scanGroupOpen` returns `unrecognizedGrouping` -/
def orc0 : Oracles where
  isWord := fun _ => false
  ecmaStart := fun _ => false
  ecmaPart := fun _ => false
  toLower := fun r => r
  isLower := fun _ => false
  isUpper := fun _ => false
  orbit := fun _ => []
  participates := fun _ => false
  cat := fun _ _ => false
  catName := fun _ => none
def env0 (p : List Nat) : Env := { pat := p, opts := {}, mco := false, orc := orc0 }

example : ∃ s', scanCharSet (env0 [91, 97]) 8 false false { pos := 1 } = .err .unterminatedBracket s' ∧ s'.pos = 2 :=
  ⟨_, rfl, rfl⟩
example : ∃ s', scanGroupOpen (env0 [40, 63, 60]) { pos := 1 } = .err .unrecognizedGrouping s' ∧ s'.pos = 3 :=
  ⟨_, rfl, rfl⟩

/-- **One turn of the capture pre-scan consumes at least one rune** and keeps "capnames ≠ nil →
    capnamelist ≠ []"; it never pops an empty options stack (the `)` case tests it, the `(?i)` case
    pops what the same turn pushed).  So `countCaptures` terminates within `length` turns. -/
theorem countStep_progress (E : Env) (s : PS) (hs : s.pos < E.pat.length) :
    wp (countStep E) (fun _ s' => AdvC E (s.pos + 1) s s') (AdvC E (s.pos + 1) s) s :=
  wp_countStep E s hs

/-- non-vacuity: the pre-scan of `(` from position 0: one rune consumed, the options pushed -/
example : ∃ s', countStep (env0 [40]) {} = .ok () s' ∧ s'.pos = 1 ∧ s'.optionsStack.length = 1 := ⟨_, rfl, rfl, rfl⟩

/-- **The capture pre-scan is total**: from any position inside the pattern, with any fuel above the
    number of runes left, `countCaptures` returns its tables or an `ErrorCode` (`duplicateGroupName`,
    `captureGroupOutOfRange`, …) — no fault (in particular `assignNameSlots` never indexes an empty
    `capnamelist`), no fuel exhaustion. -/
theorem countCaptures_total (E : Env) (s : PS) (hs : s.pos ≤ E.pat.length) (n : Nat)
    (hn : E.pat.length - s.pos < n) :
    wp (countCaptures E n) (fun _ s' => s'.pos ≤ E.pat.length) (fun _ => True) s :=
  wp_countCaptures E s hs n hn

example : ∃ t s', countCaptures (env0 [40, 97, 41]) 4 {} = .ok t s' ∧ t.captop = 2 := ⟨_, _, rfl, rfl⟩

/-- **One turn of `scanRegex` leaves the loop or consumes at least one rune**, and re-establishes the
    invariant of the loop head: position inside the pattern, unit = nil, depth of the options stack =
    depth of the group stack.  In particular `)` never pops an empty options or group stack,
    `addConcatenate` never meets a nil unit, `addToConcatenate` never slices outside the pattern, and
    the quantifier scan never takes its `{`-fallback (which would move the position back to the `{`). -/
theorem scanStep_progress (E : Env) (b : Bool) (s : PS) (hs : s.pos < E.pat.length) (hu : s.unit = none)
    (hl : s.optionsStack.length = s.stack.length) :
    wp (scanStep E b)
      (fun r s' => match r with
        | .inl _ => TurnInv E s' ∧ E.pat.length - s'.pos < E.pat.length - s.pos
        | .inr _ => True)
      (fun _ => True) s :=
  wp_scanStep E b s hs hu hl

/-- non-vacuity: the state `Parse` starts the main scan in satisfies the hypotheses -/
example (E : Env) (t : Groups.Tables) (h : 0 < E.pat.length) :
    (resetState E t).pos < E.pat.length ∧ (resetState E t).unit = none ∧
    (resetState E t).optionsStack.length = (resetState E t).stack.length := ⟨h, rfl, rfl⟩

/-- **`isTrueQuantifier` guarantees the quantifier syntax**: at a `{` that `isTrueQuantifier` accepted,
    `{n}` / `{n,}` / `{n,m}` is read to its closing brace — the "not a quantifier after all" branch of
    `scanRegex` (add the unit, go back to the `{`) is dead code.  An overflowing number is the error
    `captureGroupOutOfRange`. -/
theorem quantifier_fallback_dead (E : Env) (s : PS) (hb : EscapeParse.isTrueBrace (E.pat.drop s.pos) = true) :
    wp (quantBrace E) (fun r s' => r.isSome = true ∧ s.pos ≤ s'.pos ∧ s'.pos ≤ E.pat.length) (fun _ => True) s :=
  wp_quantBrace E s hb _ (fun _ _ _ h1 h2 => ⟨rfl, h1, h2⟩)

example : EscapeParse.isTrueBrace ((env0 [97, 123, 50, 44, 125]).pat.drop 2) = true := by decide

/-- **The main scan is total**: started at the head of a turn (unit = nil, stacks of equal depth) with
    any fuel above the number of runes left, `scanRegex` returns the root node or an `ErrorCode`. -/
theorem scanRegex_total (E : Env) (s : PS) (hs : s.pos ≤ E.pat.length) (hu : s.unit = none)
    (hl : s.optionsStack.length = s.stack.length) (n : Nat) (hn : E.pat.length - s.pos < n) :
    wp (scanRegex E n) (fun _ _ => True) (fun _ => True) s :=
  wp_scanRegex E s hs hu hl n hn

/-- non-vacuity: the main scan of `a|b` from the state `Parse` starts it in returns the root Capture -/
example : ∃ r s', scanRegex (env0 [97, 124, 98]) 4 { g := { caps := [0], captop := 1, autocap := 1 } } = .ok r s' ∧
    r.t = .capture ∧ s'.pos = 3 := ⟨_, _, rfl, rfl, rfl⟩

/-- **C10 for the parser: `Parse` is total.**  For every pattern (any list of runes), every option
    set, `MaintainCaptureOrder` flag and every oracle, the parser model with the fuel `length + 1` that
    `parse` gives its two outer loops (or any larger fuel) returns a raw tree with its capture tables
    or a Go `ErrorCode`; never `fault` (a Go run-time panic: pattern index out of range, `moveLeft`
    below 0, pop of an empty options / group stack, nil unit, slice bounds, empty `capnamelist`),
    never `fuel`.  Leg Pr ties the model to `syntax.VerifParseRaw` by exact equality of trees, tables
    and ErrorCodes. -/
theorem parse_total (pat : List Nat) (opts : Opts) (mco : Bool) (orc : Oracles) (fuel : Nat)
    (hf : pat.length < fuel) :
    let E : Env := { pat := pat, opts := opts, mco := mco, orc := orc }
    (∃ t, parseFuel E fuel = .ok t) ∨ (∃ c, parseFuel E fuel = .error c) :=
  parseFuel_total { pat := pat, opts := opts, mco := mco, orc := orc } fuel hf

/-- `parse` itself (fuel `length + 1`) -/
theorem parse_total' (E : Env) : (∃ t, parse E = .ok t) ∨ (∃ c, parse E = .error c) :=
  parseFuel_total E _ (Nat.lt_succ_self _)

/-- both outcomes occur: the empty pattern, `a`, `)`, `a{2,1}` -/
example : ∃ t, parse (env0 []) = .ok t := ⟨_, by rfl⟩
set_option maxRecDepth 8000 in
example : ∃ t, parse (env0 [97]) = .ok t := ⟨_, by rfl⟩
example : parse (env0 [41]) = .error .unexpectedParen := by rfl
set_option maxRecDepth 8000 in
example : parse (env0 [97, 123, 50, 44, 49, 125]) = .error .invalidRepeatSize := by rfl

/-- **The root of the raw tree (partial `parse_wf`).**  Whenever `Parse` returns a tree, its root is
    the Capture node number 0 with exactly one child (the Alternate node of the whole pattern): the
    first two conjuncts of `wfTree` and the child count of the root.  Invariant: the group at the bottom
    of the group stack is the Capture 0 that `scanRegex` starts with, without children until the final
    `addGroup`.

    FULL STATEMENT (not proved): `parse_wf : parseFuel E fuel = .ok t → wfTree t = true` — every node
    locally well-formed (child count per node type, a set exactly on the set family, `0 ≤ M ≤ N`, Multi of
    at least two runes) and every Ref / BackRefCond / Capture number registered in `caps`.  The last
    part needs a simulation between the capture pre-scan and the main scan (they must agree on which
    parentheses capture); the driver evaluates `wfTree` on every answer of leg Pr instead. -/
theorem parse_wf_partial (pat : List Nat) (opts : Opts) (mco : Bool) (orc : Oracles) (fuel : Nat)
    (hf : pat.length < fuel) (t : RawTree)
    (h : parseFuel { pat := pat, opts := opts, mco := mco, orc := orc } fuel = .ok t) :
    t.root.t = .capture ∧ t.root.m = 0 ∧ t.root.kids.length = 1 :=
  parseFuel_root { pat := pat, opts := opts, mco := mco, orc := orc } fuel hf t h

set_option maxRecDepth 8000 in
/-- non-vacuity: `a` parses (so the hypothesis holds for its tree) -/
example : ∃ t, parseFuel (env0 [97]) 2 = .ok t ∧ t.root.kids.length = 1 := ⟨_, by rfl, by rfl⟩

end RegexVerif.Props.C10
