/-
C10 for the pattern parser — totality of the Lean model of `syntax/parser.go`
(`Model/Parser.lean`: `countCaptures` + `scanRegex` and everything they call, tied to the Go code by
leg Pr: exact equality of the raw tree, the capture tables and the ErrorCode with
`syntax.VerifParseRaw` on every generated pattern and option set).

The model makes every Go run-time panic of the parser explicit (`Res.fault`: pattern index out of
range, `moveLeft` below 0, pop of an empty options / group stack, nil unit, slice bounds) and every
loop carries explicit fuel (`Res.fuel`).  `wp m Q R s` says: started in `s`, `m` returns normally into
`Q` or with a Go `ErrorCode` into `R` — never a fault, never out of fuel.

FULL STATEMENT (not yet proved as a whole; see `design.d/C10-parser.md`):

    theorem parse_total (E : Env) : (∃ t, parse E = .ok t) ∨ (∃ c, parse E = .error c)

What is proved here: the loop rule that reduces it to per-turn progress (`loop_fuel_sufficient`), and
the scanner layer (`scanners_total_partial`): every leaf scanner and `scanCharEscape`,
`scanECMACapname`, `scanCapname`, `parseProperty`, the capture-table operations are total, stay inside
the pattern, never move the position back and touch nothing but position / options / capture tables.
Missing for the full statement: the same specification for `scanBasicBackslash`, `scanBackslash`,
`scanGroupOpen` (+ `scanGroupName`, `scanCondition`, `scanPythonNamedBackref`), `scanCharSet`, and the
progress of `countStep` / `scanStep` (each turn consumes at least one rune) — the symbolic execution
(`wp_auto`) works on them but needs the bodies split into smaller definitions first (it times out on
the duplicated continuations).  Until then leg Pr observes it: a `(fault …)` or `(fuel)` answer of the
model never equals a Go answer, and none occurred in 170 000 generated cases.
-/
import RegexVerif.Lemmas.ParserScan2

namespace RegexVerif.Props.C10
open RegexVerif.Parser

/-- **Loops of the parser terminate when every turn consumes input.**  If from every state
    satisfying the invariant one turn either leaves the loop or goes on in a state that is strictly
    closer to the end of the pattern (and satisfies the invariant again), then `fuel > remaining
    runes` is enough: the loop never runs out of fuel and never faults.  (`iter` is the model's one
    loop combinator: `countCaptures`, `scanRegex`, `skipOrdinary`, `scanECMACapname` are instances; for
    the two outer loops `parse` passes `length + 1`.) -/
theorem loop_fuel_sufficient {β γ : Type} (E : Env) (f : β → M (Sum β γ)) (Inv : β → PS → Prop)
    (Q : γ → PS → Prop) (R : PS → Prop)
    (hstep : ∀ b s, Inv b s → wp (f b) (fun r s' => match r with
        | .inl b' => Inv b' s' ∧ E.pat.length - s'.pos < E.pat.length - s.pos
        | .inr c => Q c s') R s)
    (b : β) (s : PS) (hinv : Inv b s) :
    wp (iter f (E.pat.length + 1) b) Q R s :=
  wp_iter E f Inv Q R hstep _ b s (by omega) hinv

/-- non-vacuity: the name loop of `scanECMACapname` is such a loop (its proof instantiates the rule) -/
example (E : Env) : Scans E (scanECMACapname E) := scans_scanECMACapname E

/-- **The scanner layer is total (partial result towards `parse_total`).**  From every position
    inside the pattern each of these scanners returns — normally or with a Go `ErrorCode` — in a state
    whose position is not behind the start, is still inside the pattern, and which differs from the
    start state only in position / options / ignoreNextParen / capture tables (`Adv`); no pattern index
    is ever out of range, no loop runs out of fuel.  `scanCharEscape` needs (and its callers give it)
    one rune to the right. -/
theorem scanners_total_partial (E : Env) :
    Scans E (scanBlank E) ∧ Scans E (scanDecimal E) ∧ Scans E (scanOptions E) ∧ Scans E (scanWord E) ∧
    (∀ c, Scans E (scanHex E c)) ∧ Scans E (scanHexUntilBrace E) ∧ Scans E (scanControl E) ∧
    ScansLt E (scanCharEscape E) ∧ Scans E (scanECMACapname E) ∧ Scans E (scanCapname E) ∧
    Scans E (parseProperty E) ∧ (∀ i, Scans E (noteCaptureSlot i)) ∧ (∀ n, Scans E (noteCaptureName E n)) ∧
    (∀ c, Scans E (consumeCaptureSlot E c)) :=
  ⟨scans_scanBlank E, scans_scanDecimal E, scans_scanOptions E, scans_scanWord E, scans_scanHex E,
   scans_scanHexUntilBrace E, scans_scanControl E, wp_scanCharEscape E, scans_scanECMACapname E,
   scans_scanCapname E, scans_parseProperty E, scans_noteCaptureSlot E, scans_noteCaptureName E,
   scans_consumeCaptureSlot E⟩

/-- non-vacuity: a state inside a concrete pattern, `\x4` (too few hex digits): the scanner returns an
    error, not a fault, and the position is inside the pattern -/
example : ∃ s', scanCharEscape
    { pat := [92, 120, 52], opts := {}, mco := false,
      orc := { isWord := fun _ => false, ecmaStart := fun _ => false, ecmaPart := fun _ => false, toLower := id,
               isLower := fun _ => false, isUpper := fun _ => false, orbit := fun _ => [], participates := fun _ => false,
               cat := fun _ _ => false, catName := fun _ => none } }
    { pos := 1 } = .err .tooFewHex s' ∧ s'.pos ≤ 3 := ⟨_, rfl, by decide⟩

/-- **`scanBlank` consumes exactly the blanks and comments.**  The position after `scanBlank` is the
    start plus what `blankGo` counts, which is between 0 and the number of runes left. -/
theorem scanBlank_bounds (x : Bool) (r : List Nat) :
    (blankGo x .normal r 0).1 ≤ r.length := by
  have := blankGo_bounds x r .normal 0
  omega

example : blankGo true .normal [32, 35, 99, 10, 40, 63, 35, 120, 41, 97] 0 = (9, false) := by decide
example : blankGo false .normal [40, 63, 35, 120] 0 = (4, true) := by decide

end RegexVerif.Props.C10
