/-
C02 — property theorems (stub: not built yet).
-/
namespace RegexVerif.Props.C02
end RegexVerif.Props.C02
