/-
C02 — Every public entry point reports the same matches; a boolean call returns true exactly when the
corresponding find call returns a match.

Two things make the entry points of regexp2 differ internally, and the theorems below are about
exactly these two:

A. **The bool-only program.**  `MatchString`, `MatchRunes` and `FindAll*Index` execute a second
   program (`re.quickCode`) from which `syntax/writer.go` has dropped the `Setmark`/`Capturemark` pair
   of every capture group whose slot `captureSlotsInUse` (syntax/code.go) found unobserved.  On the
   specification semantics (`Spec.m`, the ordered list of all successes of a pattern) dropping that
   pair is removing the `cap g ·` constructor (`Spec.stripCaps`, Model/Quick.lean).  `quick_agrees`
   says that this changes nothing but the capture log: same successes, same order, same positions,
   same captures of every kept group.

B. **Start position and program selection.**  Over the scan model of C03/C07 (`Model/Scan.lean`,
   tied to `Runner.scan` by the legs of C07) `Model/Api.lean` writes each entry point as "which
   program, first scan from where, iterated how".  `api_agree` says all of them perform the same
   scans, given that the two programs agree on single attempts (which part A provides,
   `spec_programs_agree`) and that the raw-string prefix filter is a sound accelerator.

What is *not* a theorem here: that the interpreter executes a program according to `Spec.m` (legs of
C01/C17 and the quick-vs-full oracle of leg A in harness/internal/legs/c02.go), captures other than
group 0 at the API level (C08, C13), the byte/rune index conversion (C08), balancing groups (outside
the specification's fragment; `captureSlotsInUse` keeps both of their slots).
-/
import RegexVerif.Lemmas.Quick
import RegexVerif.Lemmas.Api
import RegexVerif.Lemmas.StringFilter
import RegexVerif.Lemmas.QuickCompile

namespace RegexVerif.Props.C02
open RegexVerif RegexVerif.Spec RegexVerif.Scan RegexVerif.Api RegexVerif.Lemmas.Scan

/-! ## A. the bool-only program -/

/-- "aba" -/
def abaEnv : Env := { text := [97, 98, 97], textstart := 0, named := [], word := [], fold := [] }
/-- `(a)(b)\1` -/
def abaPat : Pat := .seq (.cap 1 (.chr (.one 97 false))) (.seq (.cap 2 (.chr (.one 98 false))) (.ref 1 false))
/-- keep group 1 only (and group 0, always) -/
def keep1 (g : Nat) : Bool := g == 1

/-- **The bool-only program agrees with the full one.**  Let `keep` select capture groups such that
    every group the pattern reads back (`\1`, `\k<n>`, `(?(1)…)`) is selected.  Then matching the
    pattern with the capturing effect of all other groups removed, from a state whose capture log
    has the other groups' entries removed, yields — for every sub-pattern context, direction and
    state — the list of successes of the original pattern with those entries removed: the same number
    of successes in the same priority order, each at the same position and with the same captures
    of the kept groups.  In particular the bool-only program succeeds exactly when the full one
    does. -/
theorem quick_agrees (e : Env) (keep : Nat → Bool) (p : Pat) (h : ∀ g ∈ refsOf p, keep g = true)
    (rtl : Bool) (st : St) :
    m e (stripCaps keep p) rtl (eraseCaps keep st) = (m e p rtl st).map (eraseCaps keep) :=
  m_strip e keep p (fun g hg => kept_of_keep (h g hg)) rtl st

example : (∀ g ∈ refsOf abaPat, keep1 g = true) ∧
    stripCaps keep1 abaPat = .seq (.cap 1 (.chr (.one 97 false))) (.seq (.chr (.one 98 false)) (.ref 1 false)) ∧
    m abaEnv abaPat false { pos := 0, caps := [] } = [{ pos := 3, caps := [(1, 0, 1), (2, 1, 1)] }] ∧
    m abaEnv (stripCaps keep1 abaPat) false { pos := 0, caps := [] } = [{ pos := 3, caps := [(1, 0, 1)] }] :=
  ⟨by decide, rfl, by decide, by decide⟩

/-- **What erasing preserves.**  A state and its erased image have the same position, and for every
    kept group (group 0 always is) the same last capture and the same "has captured" flag — i.e.
    everything a later `\g`, `(?(g)…)` or the reported overall match can observe. -/
theorem erase_observations (keep : Nat → Bool) (st : St) (g : Nat) (hg : g = 0 ∨ keep g = true) :
    (eraseCaps keep st).pos = st.pos ∧
    lastCap (eraseCaps keep st).caps g = lastCap st.caps g ∧
    hasCap (eraseCaps keep st).caps g = hasCap st.caps g := by
  have hk : kept keep g = true := by
    rcases hg with h | h
    · subst h; rfl
    · exact kept_of_keep h
  exact ⟨rfl, lastCap_filter keep st.caps g hk, hasCap_filter keep st.caps g hk⟩

example : eraseCaps keep1 { pos := 3, caps := [(1, 0, 1), (2, 1, 1), (0, 0, 3)] } = { pos := 3, caps := [(1, 0, 1), (0, 0, 3)] } := by
  decide

/-- **One attempt.**  At every position the bool-only program's attempt (group 0 wrapped around the
    stripped pattern, as the compiler does) succeeds exactly when the full program's does, ends at the
    same position and reports the same overall match `(index, length)` — and the same last capture
    for every other kept group. -/
theorem quick_attempt_agrees (e : Env) (keep : Nat → Bool) (p : Pat) (h : ∀ g ∈ refsOf p, keep g = true)
    (rtl : Bool) (i : Nat) :
    (attempt e (stripCaps keep p) rtl i).isSome = (attempt e p rtl i).isSome ∧
    (attempt e (stripCaps keep p) rtl i).map (fun st => (st.pos, lastCap st.caps 0)) =
      (attempt e p rtl i).map (fun st => (st.pos, lastCap st.caps 0)) ∧
    ∀ g, keep g = true →
      (attempt e (stripCaps keep p) rtl i).map (fun st => lastCap st.caps g) =
        (attempt e p rtl i).map (fun st => lastCap st.caps g) := by
  rw [attempt_strip e keep p (fun g hg => kept_of_keep (h g hg)) rtl i]
  cases attempt e p rtl i with
  | none => exact ⟨rfl, rfl, fun _ _ => rfl⟩
  | some st =>
    refine ⟨rfl, ?_, ?_⟩
    · simp only [Option.map_some, eraseCaps_pos, eraseCaps_caps, lastCap_filter keep st.caps 0 (kept_zero keep)]
    · intro g hg
      simp only [Option.map_some, eraseCaps_caps, lastCap_filter keep st.caps g (kept_of_keep hg)]

example : attempt abaEnv abaPat false 0 = some { pos := 3, caps := [(1, 0, 1), (2, 1, 1), (0, 0, 3)] } ∧
    attempt abaEnv (stripCaps keep1 abaPat) false 0 = some { pos := 3, caps := [(1, 0, 1), (0, 0, 3)] } ∧
    attempt abaEnv abaPat false 1 = none ∧ attempt abaEnv (stripCaps keep1 abaPat) false 1 = none :=
  ⟨by decide, by decide, by decide, by decide⟩

/-- **A whole search.**  `find` (the attempt at the first position in scan order where one succeeds)
    of the bool-only program is `find` of the full program with the unkept captures erased: both
    succeed or both fail, at the same attempt position, with the same end position and the same
    overall match. -/
theorem quick_find_agrees (e : Env) (keep : Nat → Bool) (p : Pat) (h : ∀ g ∈ refsOf p, keep g = true)
    (rtl : Bool) (start : Nat) :
    find e (stripCaps keep p) rtl start = (find e p rtl start).map (eraseCaps keep) ∧
    (find e (stripCaps keep p) rtl start).isSome = (find e p rtl start).isSome ∧
    (find e (stripCaps keep p) rtl start).map (fun st => (st.pos, lastCap st.caps 0)) =
      (find e p rtl start).map (fun st => (st.pos, lastCap st.caps 0)) := by
  have hf := find_strip e keep p (fun g hg => kept_of_keep (h g hg)) rtl start
  refine ⟨hf, ?_, ?_⟩
  · rw [hf]; cases find e p rtl start <;> rfl
  · rw [hf]
    cases find e p rtl start with
    | none => rfl
    | some st =>
      simp only [Option.map_some, eraseCaps_pos, eraseCaps_caps, lastCap_filter keep st.caps 0 (kept_zero keep)]

/-- "xaba": the search skips position 0 -/
def xabaEnv : Env := { abaEnv with text := [120, 97, 98, 97] }

example : find xabaEnv abaPat false 0 = some { pos := 4, caps := [(1, 1, 1), (2, 2, 1), (0, 1, 3)] } ∧
    find xabaEnv (stripCaps keep1 abaPat) false 0 = some { pos := 4, caps := [(1, 1, 1), (0, 1, 3)] } ∧
    find xabaEnv abaPat true 4 = none ∧ find xabaEnv (stripCaps keep1 abaPat) true 4 = none :=
  ⟨by decide, by decide, by decide, by decide⟩

/-- **`captureSlotsInUse` selects enough.**  The slots the compiler keeps for the bool-only program —
    slot 0 and every slot named by a `Ref` or `Testref` instruction (balancing groups, whose slots it
    also keeps, are outside the specification's fragment) — contain every group the pattern reads
    back; hence the program `Write` generates from them (`quickPat`) agrees with the full program in
    the sense of `quick_agrees`, for every pattern. -/
theorem slotsInUse_sound (e : Env) (p : Pat) :
    (∀ g ∈ refsOf p, inUse (slotsInUse p) g = true) ∧
    ∀ (rtl : Bool) (st : St),
      m e (quickPat p) rtl (eraseCaps (inUse (slotsInUse p)) st) = (m e p rtl st).map (eraseCaps (inUse (slotsInUse p))) := by
  have h : ∀ g ∈ refsOf p, inUse (slotsInUse p) g = true := by
    intro g hg; simp [inUse, slotsInUse, hg]
  exact ⟨h, fun rtl st => quick_agrees e _ p h rtl st⟩

example : slotsInUse abaPat = [0, 1] ∧ hasQuick abaPat = true ∧ quickPat abaPat = stripCaps keep1 abaPat :=
  ⟨by decide, by decide, rfl⟩

/-- **The hypothesis is needed**: stripping a group that IS read back changes the result.
    `(a)(b)\1` on "aba" matches; with group 1 stripped the back-reference has nothing to compare with
    and the pattern fails. -/
theorem referenced_group_needed :
    (find abaEnv abaPat false 0).isSome = true ∧
    (find abaEnv (stripCaps (fun _ => false) abaPat) false 0).isSome = false := by decide

/-- **No second program, no difference**: when every capturing group of the pattern is in use,
    `Write` emits no bool-only program (`slices.Contains(code.CaptureSlotInUse, false)` is false) and
    the stripped pattern is the pattern itself. -/
theorem no_quick_program (p : Pat) (h : hasQuick p = false) : quickPat p = p := by
  apply stripCaps_id
  intro g hg
  apply kept_of_keep
  unfold hasQuick at h
  rw [List.any_eq_false] at h
  have := h g hg
  simpa using this

example : hasQuick (.seq (.cap 1 (.chr (.one 97 false))) (.ref 1 false)) = false := by decide

/-! ## B. the entry points over one scan -/

/-- **Part A feeds part B**: the specification of a pattern and of its bool-only program, taken as
    engines without accelerators, satisfy `Programs.Agree` — both are well-shaped and they report
    the same overall span at every position for every `\G` origin.  A pattern without `\G` is
    `OriginFree`. -/
theorem spec_programs_agree (e : Env) (p : Pat) (rtl : Bool) :
    (specPrograms e p rtl).Agree rtl e.n ∧
    (usesStart p = false → OriginFree (specPrograms e p rtl).full e.n) :=
  ⟨specPrograms_agree e p rtl, fun h => specEngine_originFree e p rtl h⟩

/-- the two programs of `(a)(b)\1` on "xaba", and a prefix filter that proposes position 1 -/
def xabaPrograms : Programs := specPrograms xabaEnv abaPat false
def xabaFilter : Nat → Option Nat := fun _ => some 1

theorem xaba_filter_sound : FilterSound (xabaPrograms.full.attempt 0) 4 xabaFilter := by
  constructor
  · intro h; simp [xabaFilter] at h
  · intro c hc p hp _
    simp only [xabaFilter, Option.some.injEq] at hc
    have : p = 0 := by omega
    subst this; decide

/-- **A boolean call returns true exactly when the find call returns a match** (rune input):
    `MatchRunes` runs the bool-only program, `FindRunesMatch` the full one, both from the beginning
    in scan direction. -/
theorem matchRunes_iff_find (P : Programs) (rtl : Bool) (n : Nat) (hP : P.Agree rtl n) :
    matchRunes P rtl n = (findRunesMatch P rtl n).isSome := by
  unfold matchRunes findRunesMatch
  rw [firstMatch_congr P rtl n hP]

/-- **`FindStringMatch` finds what `FindRunesMatch` finds** (up to the byte/rune conversion of C08):
    right-to-left the filter is not consulted; left-to-right, for a pattern without `\G` and a sound
    filter, restarting the search at the filter's candidate — which also moves the `\G` origin
    there — returns the same match, and the filter's "no" is returned only when there is none. -/
theorem findStringMatch_eq (P : Programs) (filter : Nat → Option Nat) (rtl : Bool) (n : Nat) (hP : P.Agree rtl n)
    (hO : rtl = false → OriginFree P.full n) (hF : rtl = false → FilterSound (P.full.attempt 0) n filter) :
    findStringMatch P filter rtl n = findRunesMatch P rtl n := by
  unfold findStringMatch findRunesMatch
  cases rtl with
  | true => rw [stringStart_rtl]; rfl
  | false => exact stringStart_scan P.full n hP.full (hO rfl) filter (hF rfl)

/-- **`MatchString` answers what `MatchRunes` answers**, hence (previous two theorems) true exactly
    when `FindStringMatch` returns a match. -/
theorem matchString_eq (P : Programs) (filter : Nat → Option Nat) (rtl : Bool) (n : Nat) (hP : P.Agree rtl n)
    (hO : rtl = false → OriginFree P.full n) (hF : rtl = false → FilterSound (P.full.attempt 0) n filter) :
    matchString P filter rtl n = matchRunes P rtl n ∧
    matchString P filter rtl n = (findStringMatch P filter rtl n).isSome := by
  have h1 : matchString P filter rtl n = (findStringMatch P filter rtl n).isSome := by
    unfold matchString findStringMatch
    cases hs : stringStart filter rtl n with
    | none => rfl
    | some c =>
      have hc : c ≤ n := by
        unfold stringStart at hs
        cases rtl with
        | true => simp at hs; omega
        | false =>
          simp only [Bool.false_eq_true, if_false] at hs
          cases hf : filter 0 with
          | none => simp [hf] at hs
          | some c' =>
            simp only [hf, Option.map_some, Option.some.injEq] at hs
            rw [← hs]; unfold clampStart; split <;> omega
      simp only
      rw [scanAt_congr P.quick P.full rtl n hP.quick hP.full c (-1) hc (fun p hp => hP.same c p hc hp)]
  refine ⟨?_, h1⟩
  rw [h1, findStringMatch_eq P filter rtl n hP hO hF, matchRunes_iff_find P rtl n hP]

/-- **The find-all calls enumerate the `FindNextMatch` sequence of the full program.**
    `FindAllRunesIndex(r, k)` — which runs the bool-only program — returns the sequence
    `FindRunesMatch, FindNextMatch, …` of the full program minus the empty matches adjacent to the
    previous match, truncated to `k`, `nil` when empty (the rule of C07, `findAllSpec`);
    `FindAllStringIndex(s, k)` returns the same list (up to the byte mapping of C08). -/
theorem findAll_eq (P : Programs) (filter : Nat → Option Nat) (rtl : Bool) (n : Nat) (k : Int) (hP : P.Agree rtl n)
    (hO : rtl = false → OriginFree P.full n) (hF : rtl = false → FilterSound (P.full.attempt 0) n filter) :
    findAllRunes P rtl n k = findAllSpec rtl k (iterate P.full rtl n) ∧
    findAllString P filter rtl n k = findAllRunes P rtl n k := by
  constructor
  · unfold findAllRunes
    rw [findAll_eq_spec, iterate_congr P rtl n hP]   -- `Props.C07.findAll_eq`
  · unfold findAllString findAllRunes findAll
    by_cases hk : k = 0
    · simp [hk]
    · simp only [hk, if_false]
      -- the first scan of the loop is the scan of `findStringMatch`/`findRunesMatch` on the bool-only program
      have hQO : rtl = false → OriginFree P.quick n := by
        intro hr ts ts' p h1 h2 h3
        rw [hP.same ts p h1 h3, hP.same ts' p h2 h3]; exact hO hr ts ts' p h1 h2 h3
      have hQF : rtl = false → FilterSound (P.quick.attempt 0) n filter := by
        intro hr
        have := hF hr
        exact ⟨fun h p hp => by rw [hP.same 0 p (Nat.zero_le n) hp]; exact this.1 h p hp,
          fun c h p hpc hp => by rw [hP.same 0 p (Nat.zero_le n) hp]; exact this.2 c h p hpc hp⟩
      have hfirst : (match stringStart filter rtl n with
          | none => none
          | some c => scanAt P.quick rtl n c (-1)) = scanAt P.quick rtl n (firstStart rtl n) (-1) := by
        cases rtl with
        | true => rw [stringStart_rtl]
        | false => exact stringStart_scan P.quick n hP.quick (hQO rfl) filter (hQF rfl)
      have hloop : ∀ c, scanAt P.quick rtl n c (-1) = scanAt P.quick rtl n (firstStart rtl n) (-1) →
          findAllLoop P.quick rtl n (n + 2) c (-1) (-1) k = findAllLoop P.quick rtl n (n + 2) (firstStart rtl n) (-1) (-1) k := by
        intro c hc
        simp only [findAllLoop, hc]
      cases hs : stringStart filter rtl n with
      | none =>
        rw [hs] at hfirst
        simp only [findAllLoop, hk, if_false, ← hfirst]
        rfl
      | some c =>
        rw [hs] at hfirst
        simp only [hloop c hfirst]

/-- **The enumeration inside `Replace`, `ReplaceFunc`, `Split` and the adapter is the same sequence.**
    The three drivers of replace.go substitute the first `count` matches (`count < 0`: all) of the
    sequence `FindRunesMatch, FindNextMatch, …`; `Split` and the adapter's `forEachStringMatch`, which
    start from `FindStringMatch`, walk that same sequence. -/
theorem replaceEnum_eq (P : Programs) (filter : Nat → Option Nat) (rtl : Bool) (n : Nat) (count : Int) (hP : P.Agree rtl n)
    (hO : rtl = false → OriginFree P.full n) (hF : rtl = false → FilterSound (P.full.attempt 0) n filter) :
    replaceEnum P rtl n count = takeK count (iterate P.full rtl n) ∧
    enumString P filter rtl n = iterate P.full rtl n := by
  constructor
  · unfold replaceEnum iterate
    by_cases hc : count = 0
    · simp [hc, takeK_zero]
    · simp only [hc, if_false]
      exact replaceLoop_eq P.full rtl n _ _ count hc
  · unfold enumString iterate
    rw [findStringMatch_eq P filter rtl n hP hO hF]
    rfl

/-- **All entry points agree** (the statements above, together). -/
theorem api_agree (P : Programs) (filter : Nat → Option Nat) (rtl : Bool) (n : Nat) (hP : P.Agree rtl n)
    (hO : rtl = false → OriginFree P.full n) (hF : rtl = false → FilterSound (P.full.attempt 0) n filter) :
    matchRunes P rtl n = (findRunesMatch P rtl n).isSome ∧
    matchString P filter rtl n = matchRunes P rtl n ∧
    findStringMatch P filter rtl n = findRunesMatch P rtl n ∧
    (∀ k, findAllRunes P rtl n k = findAllSpec rtl k (iterate P.full rtl n)) ∧
    (∀ k, findAllString P filter rtl n k = findAllRunes P rtl n k) ∧
    (∀ count, replaceEnum P rtl n count = takeK count (iterate P.full rtl n)) ∧
    enumString P filter rtl n = iterate P.full rtl n :=
  ⟨matchRunes_iff_find P rtl n hP, (matchString_eq P filter rtl n hP hO hF).1,
    findStringMatch_eq P filter rtl n hP hO hF,
    fun k => (findAll_eq P filter rtl n k hP hO hF).1, fun k => (findAll_eq P filter rtl n k hP hO hF).2,
    fun c => (replaceEnum_eq P filter rtl n c hP hO hF).1, (replaceEnum_eq P filter rtl n 1 hP hO hF).2⟩

-- the hypotheses are satisfiable by a non-trivial instance: `(a)(b)\1` on "xaba" with its bool-only
-- program `(a)b\1` and a filter that skips position 0 …
example : xabaPrograms.Agree false 4 ∧ OriginFree xabaPrograms.full 4 ∧ FilterSound (xabaPrograms.full.attempt 0) 4 xabaFilter :=
  ⟨specPrograms_agree xabaEnv abaPat false, specEngine_originFree xabaEnv abaPat false (by decide), xaba_filter_sound⟩
-- … and every entry point reports the match "aba" at 1
example : findRunesMatch xabaPrograms false 4 = some ⟨1, 3, 4⟩ ∧ findStringMatch xabaPrograms xabaFilter false 4 = some ⟨1, 3, 4⟩ ∧
    matchRunes xabaPrograms false 4 = true ∧ matchString xabaPrograms xabaFilter false 4 = true :=
  ⟨by decide, by decide, by decide, by decide⟩
example : findAllRunes xabaPrograms false 4 (-1) = some [(1, 4)] ∧ findAllString xabaPrograms xabaFilter false 4 (-1) = some [(1, 4)] ∧
    replaceEnum xabaPrograms false 4 (-1) = [⟨1, 3, 4⟩] ∧ enumString xabaPrograms xabaFilter false 4 = [⟨1, 3, 4⟩] :=
  ⟨by decide, by decide, by decide, by decide⟩
-- an unsound filter (it proposes position 2, beyond the match) makes the string calls miss the match:
-- `FilterSound` is needed
example : findStringMatch xabaPrograms (fun _ => some 2) false 4 = none ∧ matchString xabaPrograms (fun _ => some 2) false 4 = false :=
  ⟨by decide, by decide⟩
-- and so is `OriginFree`: `(?<=\Ga)b` on "ab" matches "b" at 1 when `\G` is bound to 0; position 0
-- fails, so a filter proposing candidate 1 is sound — but restarting there rebinds `\G` to 1 and the
-- match is lost.  /repo therefore builds no filter for patterns that use `\G` (`Code.UsesStartAnchor`).
def gPat : Pat := .seq (.look true false (.seq (.anchor .start) (.chr (.one 97 false)))) (.chr (.one 98 false))
def gPrograms : Programs := specPrograms { abaEnv with text := [97, 98] } gPat false

example : gPrograms.Agree false 2 ∧ FilterSound (gPrograms.full.attempt 0) 2 (fun _ => some 1) ∧
    findRunesMatch gPrograms false 2 = some ⟨1, 1, 2⟩ ∧ findStringMatch gPrograms (fun _ => some 1) false 2 = none := by
  refine ⟨specPrograms_agree _ gPat false, ⟨fun h => by simp at h, ?_⟩, by decide, by decide⟩
  intro c hc p hp _
  simp only [Option.some.injEq] at hc
  have : p = 0 := by omega
  subst this; decide

/-! ## ─── C. the entry points with the CONCRETE raw-string prefix filter (slice "strfilter") ───

Part B takes the filter as an abstract function with the hypothesis `FilterSound`.  Here the filter is the
model of `stringprefixfilter.go` (`Model/StringFilter.lean`): `newStringPrefixFilter` on the record the compiled
program publishes, run on the BYTES of the input, its candidate mapped to a rune index as the entry points do
(`StringFilter.runeFilter`: `findStringMatchStart(s, -1)`, then `decodeStringWithStart` / `getRunesAndStart`).
The hypothesis left is about the pattern, not about the filter: the facts of the find mode hold at every match
(`StrFactsSound` — C04's side; leg H of C04 per case). -/
section ConcreteFilter
open RegexVerif.Utf8 RegexVerif.StringFilter RegexVerif.Lemmas.StringFilter

/-- **The concrete filter satisfies `FilterSound`.**  For every input (bytes) and every record: if the facts of
    the record's find mode hold at every successful attempt on the decoded runes, then the filter
    `newStringPrefixFilter` installs — or the absence of one — seen from the rune side, only skips rune positions at
    which the program fails and says "no" only when it fails everywhere. -/
theorem concrete_filter_sound (code : CodeB) (input : List Nat) (attempt : Nat → Option (Nat × Nat))
    (hF : ∀ o, code.opts = some o → StrFactsSound o input attempt) :
    FilterSound attempt (decodeB input).length (runeFilter ((newStringPrefixFilter code).map (·.2)) input) := by
  apply runeFilter_sound
  intro f hf
  cases hn : newStringPrefixFilter code with
  | none => rw [hn] at hf; simp at hf
  | some kf =>
    rw [hn] at hf
    simp only [Option.map_some, Option.some.injEq] at hf
    subst hf
    obtain ⟨o, ho⟩ := installed_has_opts code kf hn
    exact dispatch_sound code o kf.1 kf.2 input attempt ho hn (hF o ho)

/-- **All entry points agree, with the concrete filter**: `api_agree` with the hypothesis `FilterSound` discharged.
    `input` is the string as bytes, `n` the number of runes it decodes to (one per invalid byte), the programs
    run on those runes; the string entry points (`MatchString`, `FindStringMatch`, `FindAllStringIndex`, the
    `Split` / adapter / `ReplaceFunc` enumeration) start from the candidate of the byte-level filter and report
    the matches of the rune entry points (byte offsets through the mappers of C08). -/
theorem api_agree_concrete (P : Programs) (code : CodeB) (input : List Nat) (rtl : Bool)
    (hP : P.Agree rtl (decodeB input).length)
    (hO : rtl = false → OriginFree P.full (decodeB input).length)
    (hF : rtl = false → ∀ o, code.opts = some o → StrFactsSound o input (P.full.attempt 0)) :
    let n := (decodeB input).length
    let filter := runeFilter ((newStringPrefixFilter code).map (·.2)) input
    matchRunes P rtl n = (findRunesMatch P rtl n).isSome ∧
    matchString P filter rtl n = matchRunes P rtl n ∧
    findStringMatch P filter rtl n = findRunesMatch P rtl n ∧
    (∀ k, findAllRunes P rtl n k = findAllSpec rtl k (iterate P.full rtl n)) ∧
    (∀ k, findAllString P filter rtl n k = findAllRunes P rtl n k) ∧
    (∀ count, replaceEnum P rtl n count = takeK count (iterate P.full rtl n)) ∧
    enumString P filter rtl n = iterate P.full rtl n :=
  api_agree P _ rtl _ hP hO (fun hr => concrete_filter_sound code input (P.full.attempt 0) (hF hr))

/-- the string "xaba" as bytes (the programs `xabaPrograms` of part B run on its four runes), and the record of a
    pattern whose matches all start with "ab" and are at least 3 runes long -/
def cfInput : List Nat := [120, 97, 98, 97]
def cfCode : CodeB := { opts := some { mode := .leadingStringLtr, minLen := 3, leadingPrefix := [97, 98] } }

example : (decodeB cfInput).length = 4 ∧ runesOf cfInput = [120, 97, 98, 97] := by decide
-- the filter `newStringPrefixFilter` installs proposes byte 1 = rune 1
example : runeFilter ((newStringPrefixFilter cfCode).map (·.2)) cfInput 0 = some 1 := by decide
-- the facts of the record hold for `(a)(b)\1` on "xaba" (the only successful attempt is at 1) …
theorem cf_facts : StrFactsSound { mode := .leadingStringLtr, minLen := 3, leadingPrefix := [97, 98] } cfInput (xabaPrograms.full.attempt 0) := by
  have honly : ∀ p, p ≤ 4 → xabaPrograms.full.attempt 0 p ≠ none → p = 1 := by
    intro p hp h
    have : p = 0 ∨ p = 1 ∨ p = 2 ∨ p = 3 ∨ p = 4 := by omega
    rcases this with rfl | rfl | rfl | rfl | rfl
    · exact absurd (by decide) h
    · rfl
    · exact absurd (by decide) h
    · exact absurd (by decide) h
    · exact absurd (by decide) h
  have hlen : (decodeB cfInput).length = 4 := by decide
  refine ⟨?_, ?_⟩
  · intro p i l hp h
    rw [hlen] at hp ⊢
    have := honly p hp (by rw [h]; simp)
    subst this; simp
  · intro p hp h
    rw [hlen] at hp
    have := honly p hp h
    subst this
    unfold runeOcc; decide
-- … so every string entry point reports the match "aba" at 1 through the concrete filter
example : findStringMatch xabaPrograms (runeFilter ((newStringPrefixFilter cfCode).map (·.2)) cfInput) false 4 = some ⟨1, 3, 4⟩ ∧
    matchString xabaPrograms (runeFilter ((newStringPrefixFilter cfCode).map (·.2)) cfInput) false 4 = true := ⟨by decide, by decide⟩

end ConcreteFilter

/-! ## ─── D. the bool-only program at INTERPRETER level (slice "quick") ───

Part A is about the specification (`Spec.m` on `stripCaps`), `Props.C01.emitQuick_eq_emit_strip` about the writer
(`QuickCodes` = the main writer's code for `Writer.stripTree`), `Props.C01.compile_correct_T4e` about the interpreter
running the MAIN program.  Here they are composed: on the fragment of the compiler-correctness theorem (`Compile.InFrag 8`)
the interpreter model running the bool-only program `Writer.emitQuick ti t` — what `MatchString` / `MatchRunes` /
`FindAll*Index` execute — halts without fault and decides exactly what the main program decides, at every position,
and ends at the same text position (the match end, from which the scan loop of `FindAll*Index` continues).

Spine: `toPat_stripTree` (the tree the second writer effectively compiles translates to `stripCaps` of the translation,
for the `keep` set `Compile.quickKeep` = "`emitCapture` of the second writer says yes", which contains every group the
pattern reads back because `captureSlotsInUse` marks the operand of every `Ref`/`Testref` of the emitted code) →
`stripTree_keeps_fragment` → `Compile.compile_correct_prog` (the whole-attempt theorem for any program sharing code words,
tables and `Capsize` with `emit`) on the stripped tree → `quick_agrees` (part A). -/
section QuickCompile
open RegexVerif.Compile RegexVerif.Writer RegexVerif.Generated.Opcodes

/-- **(D1) The specification pattern of the stripped tree is the stripped specification pattern.**  `t` a well-formed
    tree whose group 0 has slot 0 (part of `InFrag`), `pat` its translation (`gen.FromGoTree`) in direction `d`.  Then
    the tree the second writer effectively compiles (`stripTree (quickCfg ti t) t`: a `Capture` whose `Setmark` /
    `Capturemark` pair `emitCapture` drops is a plain group) translates to `stripCaps keep pat` for
    `keep = quickKeep ti t` (`keep g` ⇔ `emitCapture` of the second writer keeps an ordinary capture of group `g`, i.e.
    ⇔ the slot of `g` is marked in `CaptureSlotInUse` or lies outside it), and this `keep` satisfies the hypothesis of
    `quick_agrees`: every group `pat` reads back (`\g`, `(?(g)…)`) is kept — so is every group in
    `Spec.slotsInUse pat = 0 :: refsOf pat`.

    Relation of the two "in use" analyses: `Spec.slotsInUse pat ⊆ {g | kept (quickKeep ti t) g}` is what is proved and is
    the direction soundness needs (`stripCaps` for a LARGER keep set strips fewer groups).  The converse — the writer
    keeps no other group, i.e. `stripCaps (quickKeep ti t) pat = Spec.quickPat pat` — is not proved (it needs: slots are
    in bijection with the groups of the tree, and no other instruction marks a slot); leg Cc compares the two patterns
    on every covered tree (`Cc:quickpat`). -/
theorem toPat_stripTree (ti : TreeInfo) (t : GoNode) (TPx : TP) (d : Bool) (pat : Pat) (hwf : treeWf ti t = true)
    (h0 : mapCapnum (mainCfg ti) 0 = 0) (hpat : toPatRoot TPx d t = some pat) :
    toPatRoot TPx d (stripTree (quickCfg ti t) t) = some (stripCaps (quickKeep ti t) pat) ∧
    (∀ g ∈ refsOf pat, quickKeep ti t g = true) ∧
    (∀ g, inUse (Spec.slotsInUse pat) g = true → kept (quickKeep ti t) g = true) ∧
    (∀ g : Nat, quickKeep ti t g = emitCapture (quickCfg ti t) (g : Int) (-1)) := by
  simp only [treeWf, Bool.and_eq_true] at hwf
  obtain ⟨⟨hok, hcaps⟩, _⟩ := hwf
  have hz := quickKeep_zero ti t hok hcaps h0
  obtain ⟨body, ht, hb⟩ := toPatRoot_some hpat
  have hrefs : ∀ g ∈ refsOf pat, quickKeep ti t g = true := by
    have hp : toPat TPx d t = some (.cap 0 pat) := by rw [ht]; simp [toPat, hb]
    intro g hg
    exact quickKeep_refs ti t TPx d _ hok hcaps hp g (by simpa [refsOf] using hg)
  refine ⟨toPatRoot_strip _ hz TPx d t pat hpat, hrefs, ?_, fun _ => rfl⟩
  intro g hg
  simp only [inUse, Spec.slotsInUse, List.contains_cons, Bool.or_eq_true, beq_iff_eq] at hg
  rcases hg with rfl | hg
  · rfl
  · exact kept_of_keep (hrefs g (by simpa using hg))

-- `(a)(b)\1`: the second writer keeps group 1 (read back by `\1`) and drops group 2 …
example : quickKeep (ccInfo 3) qkT1 1 = true ∧ quickKeep (ccInfo 3) qkT1 2 = false ∧ Writer.slotsInUse (ccInfo 3) qkT1 = [true, true, false] := by
  decide
-- … the stripped tree translates to `(a)b\1` = `stripCaps` of the translation = `quickPat` of the translation
example : toPatRoot ccTP false qkT1 = some abaPat ∧
    toPatRoot ccTP false (stripTree (quickCfg (ccInfo 3) qkT1) qkT1) = some (stripCaps keep1 abaPat) ∧
    stripCaps (quickKeep (ccInfo 3) qkT1) abaPat = stripCaps keep1 abaPat ∧ quickPat abaPat = stripCaps keep1 abaPat :=
  ⟨by rfl, by rfl, by rfl, by rfl⟩
-- `(x)y`: group 1 is dropped, the stripped tree translates to `xy`
example : toPatRoot ccTP false (stripTree (quickCfg (ccInfo 2) qkT2) qkT2) =
    some (.seq (.chr (.one 120 false)) (.chr (.one 121 false))) ∧ quickKeep (ccInfo 2) qkT2 1 = false := ⟨by rfl, by decide⟩
example : treeWf (ccInfo 3) qkT1 = true ∧ mapCapnum (mainCfg (ccInfo 3)) 0 = 0 ∧ treeWf (ccInfo 2) qkT2 = true := by decide

/-- **(D2) `stripTree` preserves the fragment and well-formedness**: the tree the second writer effectively compiles
    is again a tree of `InFrag k` (same tier bound, same direction, translation succeeds) with `treeWf` — so every
    theorem about `emit` on the fragment applies to it. -/
theorem stripTree_keeps_fragment (k : Nat) (ti : TreeInfo) (t : GoNode) (TPx : TP) (hfrag : InFrag k TPx ti t = true)
    (hwf : treeWf ti t = true) :
    InFrag k TPx ti (stripTree (quickCfg ti t) t) = true ∧ treeWf ti (stripTree (quickCfg ti t) t) = true := by
  have hwf' := hwf
  simp only [treeWf, Bool.and_eq_true] at hwf'
  have hz := quickKeep_zero ti t hwf'.1.1 hwf'.1.2 (inFrag_spec hfrag).2.2.2.1
  exact ⟨inFrag_strip _ hz k TPx ti t hfrag, treeWf_strip _ ti t hwf⟩

example : InFrag 6 ccTP (ccInfo 3) qkT1 = true ∧ InFrag 5 ccTP (ccInfo 3) qkT1 = false ∧
    InFrag 6 ccTP (ccInfo 3) (stripTree (quickCfg (ccInfo 3) qkT1) qkT1) = true ∧
    treeWf (ccInfo 3) (stripTree (quickCfg (ccInfo 3) qkT1) qkT1) = true := by decide
example : InFrag 1 ccTP (ccInfo 2) qkT2 = true ∧ InFrag 1 ccTP (ccInfo 2) (stripTree (quickCfg (ccInfo 2) qkT2) qkT2) = true := by decide

/-- **(D3) `compile_correct_quick` — the bool-only program decides exactly what the main program decides.**  Under the
    hypotheses of `Props.C01.compile_correct_T4e` (tree in `InFrag 8` — every node type the specification has a pattern
    for, both directions —, `treeWf`, related oracles, text shorter than `MaxInt32`, ECMAScript backreference rule off),
    for every start position `i` and the bool-only program `qp` that `Write` / `makeQuickCode` build (`emitQuick ti t =
    some qp`; there is none when every slot is in use):
     * BOTH programs start and halt at `Stop` for every sufficient fuel — no fault of any kind, no fuel exhaustion;
     * `matched` of the bool-only program's final state (`runmatch.matchcount[0] > 0`, the value `MatchString` /
       `MatchRunes` return) = `(Spec.attempt se pat ti.rtl i).isSome` = `matched` of the main program's final state;
     * on success both stand at the same text position, the end of the specification's match (what the scan loop of
       `FindAll*Index` reads from the bool-only run);
     * on success the bool-only program's capture arrays denote the specification's capture log with the dropped
       groups erased (`eraseCaps (quickKeep ti t)`): group 0 and every kept group have exactly the main program's
       captures, the dropped groups none. -/
theorem compile_correct_quick (ti : TreeInfo) (t : GoNode) (TPx : TP) (env : VM.Env) (se : Spec.Env) (pat : Pat) (i : Nat)
    (qp : Code.Prog) (hfrag : InFrag 8 TPx ti t = true) (hwf : treeWf ti t = true)
    (hpat : toPatRoot TPx ti.rtl t = some pat) (hrel : EnvRel TPx (codeFromTree (mainCfg ti) t).2.sets env se)
    (hi : i ≤ se.n) (hlen : se.n < 2147483647) (henv : env.ecma = false) (hq : emitQuick ti t = some qp) :
    ∃ s0 s n q0 qs qn,
      VM.init (emit ti t) (i : Int) = .ok s0 ∧ (∀ fuel, n ≤ fuel → (VM.run (emit ti t) env fuel s0).1 = .done s) ∧
      VM.init qp (i : Int) = .ok q0 ∧ (∀ fuel, qn ≤ fuel → (VM.run qp env fuel q0).1 = .done qs) ∧
      VM.matched qs = (Spec.attempt se pat ti.rtl i).isSome ∧
      VM.matched qs = VM.matched s ∧
      (VM.matched s = true → qs.textpos = s.textpos) ∧
      ∀ st, Spec.attempt se pat ti.rtl i = some st →
        qs.textpos = (st.pos : Int) ∧ s.textpos = (st.pos : Int) ∧
        CapRep (slotOf ti) (capsize ti) qs.cap (eraseCaps (quickKeep ti t) st).caps ∧
        CapRep (slotOf ti) (capsize ti) s.cap st.caps := by
  obtain ⟨s0, s, n, h1, h2, hag⟩ :=
    compile_correct_upto 8 (by decide) ti t TPx env se pat i hfrag hwf hpat hrel hi (by omega) (fun _ => hlen) (fun _ => henv)
  obtain ⟨hfrag', hwf'⟩ := stripTree_keeps_fragment 8 ti t TPx hfrag hwf
  obtain ⟨hpat', hrefs, _, _⟩ := toPat_stripTree ti t TPx ti.rtl pat hwf (inFrag_spec hfrag).2.2.2.1 hpat
  obtain ⟨hc1, hc2, hc3, hc4⟩ := emitQuick_prog ti t qp hq
  have htab : (codeFromTree (mainCfg ti) (stripTree (quickCfg ti t) t)).2 = (codeFromTree (mainCfg ti) t).2 := by
    simp only [emitQuick] at hq
    cases hqc : quickCodes ti t with
    | none => simp [hqc] at hq
    | some q => exact (quickCodes_strip ti t q hqc).2
  obtain ⟨q0, qs, qn, g1, g2, gag⟩ :=
    compile_correct_prog 8 (by decide) ti (stripTree (quickCfg ti t) t) TPx env se (stripCaps (quickKeep ti t) pat) i qp
      hc1 hc2 hc3 hc4 hfrag' hwf' hpat' (by rw [htab]; exact hrel) hi (by omega) (fun _ => hlen) (fun _ => henv)
  have hatt : Spec.attempt se (stripCaps (quickKeep ti t) pat) ti.rtl i =
      (Spec.attempt se pat ti.rtl i).map (eraseCaps (quickKeep ti t)) :=
    attempt_strip se _ pat (fun g hg => kept_of_keep (hrefs g hg)) ti.rtl i
  have hv : VM.matched qs = (Spec.attempt se pat ti.rtl i).isSome := by
    rw [gag.verdict, hatt]; cases Spec.attempt se pat ti.rtl i <;> rfl
  have hst : ∀ st, Spec.attempt se pat ti.rtl i = some st →
      qs.textpos = (st.pos : Int) ∧ s.textpos = (st.pos : Int) ∧
      CapRep (slotOf ti) (capsize ti) qs.cap (eraseCaps (quickKeep ti t) st).caps ∧
      CapRep (slotOf ti) (capsize ti) s.cap st.caps := by
    intro st h
    have h' : Spec.attempt se (stripCaps (quickKeep ti t) pat) ti.rtl i = some (eraseCaps (quickKeep ti t) st) := by
      rw [hatt, h]; rfl
    exact ⟨gag.pos (eraseCaps (quickKeep ti t) st) h', hag.pos st h, gag.caps (eraseCaps (quickKeep ti t) st) h', hag.caps st h⟩
  refine ⟨s0, s, n, q0, qs, qn, h1, h2, g1, g2, hv, by rw [hv, hag.verdict], ?_, hst⟩
  intro hm
  rw [hag.verdict] at hm
  cases h : Spec.attempt se pat ti.rtl i with
  | none => rw [h] at hm; cases hm
  | some st => obtain ⟨a, b, _, _⟩ := hst st h; rw [a, b]

-- `(a)(b)\1` on "aba": the bool-only program `Lazybranch; Setmark; Setmark; One a; Capturemark 1; One b; Ref 1;
-- Capturemark 0; Stop` (no marks for group 2) and the main program both match at 0 and end at 3; at 1 both fail
example : (emitQuick (ccInfo 3) qkT1).map (·.codes.toList) =
    some [23, 16, 31, 31, 9, 97, 32, 1, -1, 9, 98, 13, 1, 32, 0, -1, 40] := by decide
example : qkRun (ccInfo 3) qkT1 (ccEnv [] (ccSe [97, 98, 97])) 0 60 = some (true, 3, [[0, 3], [0, 1], []]) ∧
    ccRun (ccInfo 3) qkT1 (ccEnv [] (ccSe [97, 98, 97])) 0 60 = some (true, 3, [[0, 3], [0, 1], [1, 1]]) := by decide
example : (qkRun (ccInfo 3) qkT1 (ccEnv [] (ccSe [97, 98, 97])) 1 60).map (·.1) = some false ∧
    (ccRun (ccInfo 3) qkT1 (ccEnv [] (ccSe [97, 98, 97])) 1 60).map (·.1) = some false := by decide
-- `(x)y` on "xy": group 1 leaves no trace in the bool-only run
example : qkRun (ccInfo 2) qkT2 (ccEnv [] (ccSe [120, 121])) 0 60 = some (true, 2, [[0, 2], []]) ∧
    ccRun (ccInfo 2) qkT2 (ccEnv [] (ccSe [120, 121])) 0 60 = some (true, 2, [[0, 2], [0, 1]]) := by decide
/-- the hypotheses of `compile_correct_quick` hold for `(a)(b)\1` on "aba" at 0, so its conclusion does: the bool-only
    program exists, halts, and says "matched" -/
example : ∃ qp q0 qs qn, emitQuick (ccInfo 3) qkT1 = some qp ∧ VM.init qp (0 : Nat) = .ok q0 ∧
    (∀ fuel, qn ≤ fuel → (VM.run qp (ccEnv [] (ccSe [97, 98, 97])) fuel q0).1 = .done qs) ∧ VM.matched qs = true :=
  match hq : emitQuick (ccInfo 3) qkT1 with
  | some qp =>
    let ⟨_, _, _, q0, qs, qn, _, _, g1, g2, hv, _⟩ :=
      compile_correct_quick (ccInfo 3) qkT1 ccTP (ccEnv [] (ccSe [97, 98, 97])) (ccSe [97, 98, 97]) abaPat 0 qp (by decide)
        (by decide) (by rfl) (ccRel _ _) (by decide) (by decide) rfl hq
    ⟨qp, q0, qs, qn, rfl, g1, g2, by rw [hv]; decide⟩
  | none => absurd hq (by decide)

/-- **(D4) `compile_correct_find_quick` — the scan.**  Under the hypotheses of `compile_correct_quick`, for every start
    of the scan: `Spec.find` (in the direction of the tree) returns `st` exactly when the scan order splits as
    `before ++ i :: after` such that at `i` BOTH programs halt matched at the text position `st.pos` — the bool-only
    program with the kept captures of `st`, the main program with all of them, `st` being the specification's attempt
    at `i` — and at every earlier position both programs halt unmatched.  So the first position in scan order at which
    the bool-only attempt succeeds is the first at which the main program's does, is the position `Spec.find`
    reports, and the end positions agree.  (The engine's `scan` is this naive scan up to the accelerations of C03.) -/
theorem compile_correct_find_quick (ti : TreeInfo) (t : GoNode) (TPx : TP) (env : VM.Env) (se : Spec.Env) (pat : Pat)
    (start : Nat) (qp : Code.Prog) (hstart : start ≤ se.n) (hfrag : InFrag 8 TPx ti t = true) (hwf : treeWf ti t = true)
    (hpat : toPatRoot TPx ti.rtl t = some pat) (hrel : EnvRel TPx (codeFromTree (mainCfg ti) t).2.sets env se)
    (hlen : se.n < 2147483647) (henv : env.ecma = false) (hq : emitQuick ti t = some qp) (st : St) :
    Spec.find se pat ti.rtl start = some st ↔
      ∃ (before : List Nat) (i : Nat) (after : List Nat), Spec.scanOrder ti.rtl start se.n = before ++ i :: after ∧
        (∃ s0 s n q0 qs qn,
          VM.init (emit ti t) (i : Int) = .ok s0 ∧ (∀ fuel, n ≤ fuel → (VM.run (emit ti t) env fuel s0).1 = .done s) ∧
          VM.init qp (i : Int) = .ok q0 ∧ (∀ fuel, qn ≤ fuel → (VM.run qp env fuel q0).1 = .done qs) ∧
          VM.matched qs = true ∧ VM.matched s = true ∧ qs.textpos = (st.pos : Int) ∧ s.textpos = (st.pos : Int) ∧
          CapRep (slotOf ti) (capsize ti) qs.cap (eraseCaps (quickKeep ti t) st).caps ∧
          CapRep (slotOf ti) (capsize ti) s.cap st.caps ∧ Spec.attempt se pat ti.rtl i = some st) ∧
        ∀ j ∈ before, ∃ s0 s n q0 qs qn,
          VM.init (emit ti t) (j : Int) = .ok s0 ∧ (∀ fuel, n ≤ fuel → (VM.run (emit ti t) env fuel s0).1 = .done s) ∧
          VM.init qp (j : Int) = .ok q0 ∧ (∀ fuel, qn ≤ fuel → (VM.run qp env fuel q0).1 = .done qs) ∧
          VM.matched qs = false ∧ VM.matched s = false := by
  have hatt := fun j (hj : j ≤ se.n) =>
    compile_correct_quick ti t TPx env se pat j qp hfrag hwf hpat hrel hj hlen henv hq
  have hpos : ∀ j ∈ Spec.scanOrder ti.rtl start se.n, j ≤ se.n := fun j hj => mem_scanOrder_le ti.rtl start se.n j hstart hj
  unfold find
  rw [List.findSome?_eq_some_iff]
  constructor
  · rintro ⟨before, i, after, hso, hat, hbef⟩
    refine ⟨before, i, after, hso, ?_, ?_⟩
    · obtain ⟨s0, s, n, q0, qs, qn, h1, h2, g1, g2, hv, hvs, _, hst⟩ := hatt i (hpos i (by rw [hso]; simp))
      obtain ⟨a, b, c, d⟩ := hst st hat
      have hqm : VM.matched qs = true := by rw [hv, hat]; rfl
      exact ⟨s0, s, n, q0, qs, qn, h1, h2, g1, g2, hqm, by rw [← hvs]; exact hqm, a, b, c, d, hat⟩
    · intro j hj
      obtain ⟨s0, s, n, q0, qs, qn, h1, h2, g1, g2, hv, hvs, _, _⟩ := hatt j (hpos j (by rw [hso]; simp [hj]))
      have hqm : VM.matched qs = false := by rw [hv, hbef j hj]; rfl
      exact ⟨s0, s, n, q0, qs, qn, h1, h2, g1, g2, hqm, by rw [← hvs]; exact hqm⟩
  · rintro ⟨before, i, after, hso, ⟨_, _, _, _, _, _, _, _, _, _, _, _, _, _, _, _, hat⟩, hbef⟩
    refine ⟨before, i, after, hso, hat, ?_⟩
    intro j hj
    obtain ⟨_, _, _, q0, qs, qn, _, _, g1, g2, hm, _⟩ := hbef j hj
    obtain ⟨_, _, _, q0', qs', qn', _, _, g1', g2', hv, _⟩ := hatt j (hpos j (by rw [hso]; simp [hj]))
    have hq0 : q0 = q0' := by rw [g1] at g1'; exact Except.ok.inj g1'
    subst hq0
    have hss : qs = qs' := run_done_unique' _ env q0 qs qs' _ _ (g2 (max qn qn') (by omega)) (g2' (max qn qn') (by omega))
    subst hss
    rw [hv] at hm
    cases hatt' : Spec.attempt se pat ti.rtl j with
    | none => rfl
    | some x => rw [hatt'] at hm; simp at hm

-- `(a)(b)\1` on "xaba" from 0: the specification finds the match at 1 ending at 4 (`xabaEnv`, part A); position 0 is the
-- only earlier one, there both programs fail, at 1 both match and stand at 4
example : Spec.find (ccSe [120, 97, 98, 97]) abaPat false 0 = some { pos := 4, caps := [(1, 1, 1), (2, 2, 1), (0, 1, 3)] } := by decide
example : Spec.scanOrder false 0 4 = [0] ++ 1 :: [2, 3, 4] := by decide
example : (qkRun (ccInfo 3) qkT1 (ccEnv [] (ccSe [120, 97, 98, 97])) 0 60).map (·.1) = some false ∧
    (ccRun (ccInfo 3) qkT1 (ccEnv [] (ccSe [120, 97, 98, 97])) 0 60).map (·.1) = some false ∧
    qkRun (ccInfo 3) qkT1 (ccEnv [] (ccSe [120, 97, 98, 97])) 1 60 = some (true, 4, [[1, 3], [1, 1], []]) ∧
    ccRun (ccInfo 3) qkT1 (ccEnv [] (ccSe [120, 97, 98, 97])) 1 60 = some (true, 4, [[1, 3], [1, 1], [2, 1]]) := by decide
/-- the hypotheses of `compile_correct_find_quick` hold for this instance, so the right-hand side does: some position of
    the scan order has the bool-only program matched and standing at 4 -/
example : ∃ qp i q0 qs qn, emitQuick (ccInfo 3) qkT1 = some qp ∧ i ∈ Spec.scanOrder false 0 4 ∧ VM.init qp (i : Int) = .ok q0 ∧
    (∀ fuel, qn ≤ fuel → (VM.run qp (ccEnv [] (ccSe [120, 97, 98, 97])) fuel q0).1 = .done qs) ∧
    VM.matched qs = true ∧ qs.textpos = 4 :=
  match hq : emitQuick (ccInfo 3) qkT1 with
  | some qp =>
    let ⟨before, i, after, hso, ⟨_, _, _, q0, qs, qn, _, _, g1, g2, hm, _, hp, _⟩, _⟩ :=
      (compile_correct_find_quick (ccInfo 3) qkT1 ccTP (ccEnv [] (ccSe [120, 97, 98, 97])) (ccSe [120, 97, 98, 97]) abaPat 0 qp
        (by decide) (by decide) (by decide) (by rfl) (ccRel _ _) (by decide) rfl hq
        { pos := 4, caps := [(1, 1, 1), (2, 2, 1), (0, 1, 3)] }).mp (by decide)
    ⟨qp, i, q0, qs, qn, rfl, by
      have : Spec.scanOrder false 0 4 = before ++ i :: after := hso
      rw [this]; simp, g1, g2, hm, hp⟩
  | none => absurd hq (by decide)

end QuickCompile

end RegexVerif.Props.C02
