/-
C17 — property theorems (stub: not built yet).
-/
namespace RegexVerif.Props.C17
end RegexVerif.Props.C17
