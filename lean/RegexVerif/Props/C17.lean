/-
C17 — Group numbers and names form one consistent map.

Theorems about `Groups.assign`, the model of the capture bookkeeping of `syntax/parser.go`
(pre-scan, `assignNameSlots`, `assignOrderedNameSlots`, main parse), `syntax/writer.go` (dense
remap) and of the lookup functions of `regexp.go`, `match.go`, `scanDollar`/`replacerdata.go`.
Leg G of the harness checks on every run that `assign` computes exactly Go's tables
(`GetGroupNumbers`, `GetGroupNames`, `Code.Caps`, `Capsize`, the number every group captures into)
for patterns printed from random event lists.

Hypotheses used below:
* `GoodNames evs`: a name written in the pattern is not empty and not all digits (the Go parser
  reads an all-digit name as a number), so no written name equals `strconv.Itoa k`;
* `NoOrdNumbered cfg evs`, only for `name_number_inverse`: no explicitly numbered group under
  MaintainCaptureOrder / ECMAScript.  There `(?<k>…)` is booked in pattern order under the *name*
  "k" (fix 4579bd8), which may coincide with the automatic name of another slot — `(a)(?<1>b)`
  lists the names 0, 1, 1 — so names and numbers cannot be inverse to each other; everything else
  (numbering, alignment, remap, references) holds there too.

The model follows /repo after the fixes 2bf8733, 9af4686, 4181360, 14b4ba0, 4579bd8; the `example`s at
the end show the fixed behaviour of the former findings F1–F6 (design.d/C17.md).
-/
import RegexVerif.Lemmas.Groups

namespace RegexVerif.Props.C17
open RegexVerif.Groups

/-! ### the numbering rule -/

/-- **C17, numbering rule (default order).** Without MaintainCaptureOrder / ECMAScript:
    * the `j`-th unnamed group (by opening parenthesis) captures into number `j` — or into nothing
      under ExplicitCapture;
    * an explicitly numbered group `(?<k>…)` captures into `k`;
    * a named group captures into the number `GroupNumberFromName` gives for its name, so groups
      with the same name share one number;
    * a non-capturing group captures into nothing. -/
theorem numbering_rule {evs : List Event} {cfg : Cfg} {m : Maps} (h : assign evs cfg = some m)
    (ho : cfg.ord = false) (hg : GoodNames evs) (i : Nat) (e : Event) (he : evs[i]? = some e) :
    match e with
    | .unnamed => m.evNums[i]? =
        some (if cfg.explicitCapture then none else some (1 + countUnnamed (evs.take i)))
    | .numbered k => m.evNums[i]? = some (some k)
    | .numbered0 k => m.evNums[i]? = some (some k)
    | .named nm => ∃ k, groupNumberFromName m nm = some k ∧ m.evNums[i]? = some (some k)
    | .noncap => m.evNums[i]? = some none := by
  obtain ⟨t, ht, hmt, _, hgn, _⟩ := assign_tables h
  have hs := (groupNumbers_spec ho evs 1 m.evNums hgn).2 i e he
  have hcn : m.capnames = t.capnames := by rw [← hmt]; rfl
  cases e with
  | unnamed => exact hs
  | numbered k => exact hs.1
  | numbered0 k => exact hs.1
  | noncap => exact hs
  | named nm =>
    obtain ⟨k, hk1, hk2⟩ := hs
    refine ⟨k, ?_, hk2⟩
    unfold groupNumberFromName
    rw [hcn]
    cases hc : t.capnames with
    | none => simp [hc] at hk1
    | some cn => simpa [hc] using hk1

/-- `(a)(?<x>b)(?<7>c)(?<x>d)(?:e)`: 1, x ↦ 2, 7, x again, nothing -/
example : (assign [.unnamed, .named "x", .numbered 7, .named "x", .noncap] {}).map (·.evNums) =
    some [some 1, some 2, some 7, some 2, none] := by decide

/-- **C17, numbering rule, named groups (default order).** The distinct names of the pattern, in
    order of first appearance, get ascending numbers: the first name the least number above the
    count of unnamed groups (0 under ExplicitCapture) that no group claims explicitly, every further
    name the least such number above its predecessor's (`ChainRule`: `prev < k`, `k` is not an
    explicit number, every number strictly between is one). -/
theorem named_numbers_rule {evs : List Event} {cfg : Cfg} {m : Maps} (h : assign evs cfg = some m)
    (ho : cfg.ord = false) (hg : GoodNames evs) :
    ChainRule (groupNumberFromName m) (fun c => c ∈ explicitNumbers evs)
      (if cfg.explicitCapture then 0 else countUnnamed evs) (namesInOrder evs) :=
  assign_named_rule h ho hg

/-- `(?<y>a)(b)(?<3>c)(?<x>d)(e)(?<y>f)(?<2>g)`: the unnamed groups are 1 and 2, the numbers 2 and 3
    are also claimed explicitly, so y ↦ 4 and x ↦ 5 -/
example : (assign [.named "y", .unnamed, .numbered 3, .named "x", .unnamed, .named "y", .numbered 2] {}).map
    (fun m => (namesInOrder [.named "y", .unnamed, .numbered 3, .named "x", .unnamed, .named "y", .numbered 2],
               groupNumberFromName m "y", groupNumberFromName m "x", m.evNums)) =
    some (["y", "x"], some 4, some 5, [some 4, some 1, some 3, some 5, some 2, some 4, some 2]) := by decide

/-- **C17, numbering rule (pattern order).** With MaintainCaptureOrder or ECMAScript the numbers
    are handed out in one pass over the pattern: every unnamed group and every first occurrence of
    a name takes the next number, a repeated name shares the number of its first occurrence; an
    explicitly numbered group `(?<k>…)` counts as a group named "k" (`orderSpec`).  The parser's
    two passes (pre-scan, main parse) agree on this, for every pattern that parses. -/
theorem order_numbering_rule {evs : List Event} {cfg : Cfg} {m : Maps} (h : assign evs cfg = some m)
    (ho : cfg.ord = true) :
    m.evNums = orderSpec cfg.explicitCapture evs [] 1 :=
  (assign_ord_spec h ho).1

/-- `(a)(?<x>b)(c)(?<x>d)(?<y>e)` under MaintainCaptureOrder: 1 2 3 2 4 -/
example : (assign [.unnamed, .named "x", .unnamed, .named "x", .named "y"] { mco := true }).map (·.evNums) =
    some [some 1, some 2, some 3, some 2, some 4] := by decide

/-- `(?<7>a)(b)(?<07>c)(?<x>d)` under MaintainCaptureOrder: 1 2 1 3 -/
example : (assign [.numbered 7, .unnamed, .numbered0 7, .named "x"] { mco := true }).map
    (fun m => (m.evNums, getGroupNames m)) = some ([some 1, some 2, some 1, some 3], ["0", "7", "2", "x"]) := by
  decide

/-! ### names ↔ numbers -/

/-- **C17, the two lists are aligned.** `GetGroupNames()` and `GetGroupNumbers()` have the same
    length (`capsize`), the numbers are strictly ascending, and `GetGroupNames()[i]` is
    `GroupNameFromNumber(GetGroupNumbers()[i])`. -/
theorem names_numbers_aligned {evs : List Event} {cfg : Cfg} {m : Maps} (h : assign evs cfg = some m)
    (hg : GoodNames evs) :
    (getGroupNames m).length = m.capsize ∧ (getGroupNumbers m).length = m.capsize ∧
    (getGroupNumbers m).Pairwise (· < ·) ∧
    ∀ (i n : Nat), (getGroupNumbers m)[i]? = some n →
      (getGroupNames m)[i]? = some (groupNameFromNumber m n) := by
  have hm := (assign_inv h hg).1
  exact ⟨hm.names_len, hm.used.2.1, hm.used.1, fun i n hi => hm.aligned hi⟩

/-- **C17, the lookups are inverse.** For every listed number `n` whose name is not empty (outside
    ECMAScript no name is empty): `GroupNumberFromName(GroupNameFromNumber(n)) = n`; for every
    listed non-empty name `s`: `GroupNameFromNumber(GroupNumberFromName(s)) = s`. -/
theorem name_number_inverse {evs : List Event} {cfg : Cfg} {m : Maps} (h : assign evs cfg = some m)
    (hg : GoodNames evs) (hno : NoOrdNumbered cfg evs) :
    (∀ n ∈ getGroupNumbers m, groupNameFromNumber m n ≠ "" →
        groupNumberFromName m (groupNameFromNumber m n) = some n) ∧
    (∀ s ∈ getGroupNames m, s ≠ "" →
        ∃ n, groupNumberFromName m s = some n ∧ n ∈ getGroupNumbers m ∧ groupNameFromNumber m n = s) ∧
    (cfg.ecma = false → "" ∉ getGroupNames m) := by
  have hm := (assign_inv h hg).1
  have hecma : m.ecma = cfg.ecma := by obtain ⟨_, _, _, he, _⟩ := assign_tables h; exact he
  refine ⟨?_, ?_, ?_⟩
  · intro n hn hne
    obtain ⟨i, hi⟩ := List.mem_iff_getElem?.mp hn
    have ha := hm.aligned hi
    rw [hm.number_of_listed_name hno ha hne, hi]
  · intro s hs hne
    obtain ⟨i, hi⟩ := List.mem_iff_getElem?.mp hs
    have hlt : i < (getGroupNumbers m).length := by
      have := (List.getElem?_eq_some_iff.mp hi).1
      rw [hm.names_len] at this; rw [hm.used.2.1]; exact this
    have hn : (getGroupNumbers m)[i]? = some (getGroupNumbers m)[i] := List.getElem?_eq_getElem hlt
    refine ⟨(getGroupNumbers m)[i], ?_, List.getElem_mem hlt, ?_⟩
    · rw [hm.number_of_listed_name hno hi hne, hn]
    · have := hm.aligned hn
      rw [hi] at this; injection this with this; exact this.symm
  · intro he
    unfold getGroupNames
    cases hc : m.caplist with
    | none =>
      simp only [List.mem_map, not_exists, not_and]
      intro x _ hx; exact itoa_ne_empty x hx
    | some cl => exact hm.t.nonempty hno (by rw [hecma]; exact he) cl hc

/-- sparse numbers, a duplicate name, a digit-like name: `(a)(?<x1>b)(?<7>c)(?<x1>d)` -/
example : (assign [.unnamed, .named "x1", .numbered 7, .named "x1"] {}).map
    (fun m => (getGroupNumbers m, getGroupNames m, (getGroupNumbers m).map (groupNameFromNumber m),
               (getGroupNames m).map (groupNumberFromName m))) =
    some ([0, 1, 2, 7], ["0", "1", "x1", "7"], ["0", "1", "x1", "7"], [some 0, some 1, some 2, some 7]) := by
  decide

/-! ### the dense remap -/

/-- **C17, dense remap.** `writer.mapCapnum` is a bijection from the used numbers
    (`GetGroupNumbers`, which are exactly the numbers the parser's `isCaptureSlot` accepts) onto the
    slots `0 … capsize-1`, and it is monotone: the `i`-th number in ascending order gets slot `i`. -/
theorem dense_remap_bijective {evs : List Event} {cfg : Cfg} {m : Maps} (h : assign evs cfg = some m)
    (hg : GoodNames evs) :
    (∀ n, n ∈ getGroupNumbers m ↔ n ∈ m.caps) ∧
    (∀ n ∈ getGroupNumbers m, ∃ s, slotOf m n = some s ∧ s < m.capsize) ∧
    (∀ a ∈ getGroupNumbers m, ∀ b ∈ getGroupNumbers m, slotOf m a = slotOf m b → a = b) ∧
    (∀ s, s < m.capsize → ∃ n ∈ getGroupNumbers m, slotOf m n = some s) := by
  have hm := (assign_inv h hg).1
  have hlen := hm.used.2.1
  refine ⟨hm.used.2.2, ?_, ?_, ?_⟩
  · intro n hn
    obtain ⟨i, hi⟩ := List.mem_iff_getElem?.mp hn
    exact ⟨i, hm.slotOf_getElem hi, by have := (List.getElem?_eq_some_iff.mp hi).1; omega⟩
  · intro a ha b hb hab
    obtain ⟨i, hi⟩ := List.mem_iff_getElem?.mp ha
    obtain ⟨j, hj⟩ := List.mem_iff_getElem?.mp hb
    rw [hm.slotOf_getElem hi, hm.slotOf_getElem hj] at hab
    injection hab with hab; subst hab
    rw [hi] at hj; injection hj
  · intro s hs
    have hlt : s < (getGroupNumbers m).length := by omega
    exact ⟨(getGroupNumbers m)[s], List.getElem_mem hlt, hm.slotOf_getElem (List.getElem?_eq_getElem hlt)⟩

/-- **C17, order of `Match.Groups()`.** `Groups()[i]` is the dense slot `i`; the number whose captures
    live there is `GetGroupNumbers()[i]`, `GroupByNumber` of that number returns slot `i`, and
    `Groups()[i].Name` is `GetGroupNames()[i]` (for `i ≥ 1`; group 0 is named by `newMatch`). -/
theorem groups_order_eq_numbers {evs : List Event} {cfg : Cfg} {m : Maps} (h : assign evs cfg = some m)
    (hg : GoodNames evs) (i n : Nat) (hi : (getGroupNumbers m)[i]? = some n) :
    slotOf m n = some i ∧ groupByNumberSlot m n = some i ∧
    (1 ≤ i → (getGroupNames m)[i]? = some (groupsName m i)) := by
  have hm := (assign_inv h hg).1
  have hs := hm.slotOf_getElem hi
  have hlt : i < m.capsize := by
    have := (List.getElem?_eq_some_iff.mp hi).1; rw [hm.used.2.1] at this; exact this
  refine ⟨hs, ?_, ?_⟩
  · unfold groupByNumberSlot
    unfold slotOf at hs
    cases hc : m.codeCaps with
    | none => rw [hc] at hs; injection hs with hs; subst hs; simp [hlt]
    | some l => rw [hc] at hs; simpa using hs
  · intro h1
    have hne : ¬ i = 0 := by omega
    have hlen := hm.names_len
    unfold groupsName groupNameFromSlot
    simp only [hne, if_false]
    unfold getGroupNames at hlen ⊢
    cases hc : m.caplist with
    | none => simp [hlt]
    | some cl =>
      rw [hc] at hlen
      simp only at hlen ⊢
      rw [List.getD_eq_getElem?_getD, List.getElem?_eq_getElem (by omega)]; simp

/-- **C17, numbers that are no groups.** `GroupByNumber(n)` is nil for every `n` that is not one of
    `GetGroupNumbers()`, also when the numbers are sparse. -/
theorem group_by_unknown_number {evs : List Event} {cfg : Cfg} {m : Maps} (h : assign evs cfg = some m)
    (hg : GoodNames evs) (n : Nat) (hn : n ∉ getGroupNumbers m) : groupByNumberSlot m n = none := by
  have hm := (assign_inv h hg).1
  unfold groupByNumberSlot
  unfold getGroupNumbers at hn
  cases hc : m.codeCaps with
  | none => rw [hc] at hn; simp at hn; simp; omega
  | some l => rw [hc] at hn; simp only at hn ⊢; exact idxOf?_eq_none.mpr hn

example : (assign [.numbered 5, .unnamed, .numbered 3] {}).map
    (fun m => (getGroupNumbers m, (getGroupNumbers m).map (slotOf m), (getGroupNumbers m).map (groupByNumberSlot m), m.capsize)) =
    some ([0, 1, 3, 5], [some 0, some 1, some 2, some 3], [some 0, some 1, some 2, some 3], 4) := by decide

example : (assign [.numbered 5, .unnamed, .numbered 3] {}).map
    (fun m => ([2, 4, 6].map (groupByNumberSlot m), (List.range m.capsize).map (groupsName m), getGroupNames m)) =
    some ([none, none, none], ["0", "1", "3", "5"], ["0", "1", "3", "5"]) := by decide

/-! ### references -/

/-- every group of the pattern captures into a number the tables list (before fix 4579bd8 this failed
    for `(?<01>a)(b)` under MaintainCaptureOrder, where the engine then indexed past `capsize`) -/
theorem group_number_listed {evs : List Event} {cfg : Cfg} {m : Maps} (h : assign evs cfg = some m)
    (hg : GoodNames evs) (i n : Nat) (hi : m.evNums[i]? = some (some n)) :
    n ∈ m.caps := by
  cases ho : cfg.ord with
  | false => exact evNums_mem_caps h ho hg i n hi
  | true => exact (assign_ord_spec h ho).2 i n hi

/-- **C17, backreferences.** If the `i`-th group of the pattern captures into number `n`, then `\n`
    (and `\k<n>`) compiles to a reference to the very slot that group writes; if the group is written
    with the name `s`, so does `\k<s>` / `(?P=s)`; and `GroupByNumber(n)` / `GroupByName(s)` read
    that slot. -/
theorem backref_same_slot {evs : List Event} {cfg : Cfg} {m : Maps} (h : assign evs cfg = some m)
    (hg : GoodNames evs) (i n : Nat) (hi : m.evNums[i]? = some (some n)) :
    (∃ s, evSlot m i = some s ∧ s < m.capsize ∧ backrefSlot m n = some s ∧ groupByNumberSlot m n = some s) ∧
    (∀ nm, evs[i]? = some (.named nm) → backrefNameSlot m nm = evSlot m i ∧ groupByNameSlot m nm = evSlot m i) := by
  have hm := (assign_inv h hg).1
  have hmem : n ∈ m.caps := group_number_listed h hg i n hi
  have hn : n ∈ getGroupNumbers m := (hm.used.2.2 n).mpr hmem
  obtain ⟨j, hj⟩ := List.mem_iff_getElem?.mp hn
  obtain ⟨hs1, hs2, _⟩ := groups_order_eq_numbers h hg j n hj
  have hjlt : j < m.capsize := by
    have := (List.getElem?_eq_some_iff.mp hj).1; rw [hm.used.2.1] at this; exact this
  have hev : evSlot m i = some j := by unfold evSlot; simp [hi, hs1]
  refine ⟨⟨j, hev, hjlt, by unfold backrefSlot; simp [hmem, hs1], hs2⟩, ?_⟩
  intro nm he
  -- the number of a named group is what the name maps to
  have hk : (m.capnames.bind fun c => c.lookup nm) = some n := by
    obtain ⟨t, _, hmt, _, hgn, _⟩ := assign_tables h
    have hcn : m.capnames = t.capnames := by rw [← hmt]; rfl
    have := groupNumbers_named evs 1 m.evNums hgn i he
    rw [this] at hi; injection hi with hi
    rw [hcn]; exact hi
  constructor
  · unfold backrefNameSlot; rw [hk, hev]; simpa using hs1
  · unfold groupByNameSlot groupNumberFromName
    cases hc : m.capnames with
    | none => simp [hc] at hk
    | some cn => simp [hc] at hk; simp [hk, hs2, hev]

/-- **C17, replacement references.** `$n` / `${n}` for a listed number and `${s}` for a name written
    in the pattern resolve (`scanDollar`, then `caps[slot]` in `NewReplacerData`) to the same dense
    slot as the backreferences `\n` and `\k<s>`. -/
theorem repl_ref_same_slot {evs : List Event} {cfg : Cfg} {m : Maps} (h : assign evs cfg = some m)
    (hg : GoodNames evs) :
    (∀ n ∈ getGroupNumbers m, replSlot m n = backrefSlot m n ∧ (replSlot m n).isSome) ∧
    (∀ nm, Event.named nm ∈ evs → replNameSlot m nm = backrefNameSlot m nm ∧ (replNameSlot m nm).isSome) := by
  obtain ⟨hm, hnames⟩ := assign_inv h hg
  constructor
  · intro n hn
    have hmem : n ∈ m.caps := (hm.used.2.2 n).mp hn
    obtain ⟨j, hj⟩ := List.mem_iff_getElem?.mp hn
    have hs := hm.slotOf_getElem hj
    have hjlt : j < m.capsize := by
      have := (List.getElem?_eq_some_iff.mp hj).1; rw [hm.used.2.1] at this; exact this
    unfold replSlot backrefSlot
    simp only [hmem, if_true]
    unfold slotOf at hs ⊢
    cases hc : m.codeCaps with
    | none =>
      rw [hc] at hs; injection hs with hs; subst hs
      simp [hjlt]
    | some l => rw [hc] at hs; simp only at hs ⊢; simp [hs]
  · intro nm hnm
    obtain ⟨k, hk1, hk2⟩ := hnames nm hnm
    have hn : k ∈ getGroupNumbers m := (hm.used.2.2 k).mpr hk2
    obtain ⟨j, hj⟩ := List.mem_iff_getElem?.mp hn
    have hs := hm.slotOf_getElem hj
    unfold replNameSlot backrefNameSlot
    rw [hk1]
    simp only [Option.bind_some]
    unfold slotOf at hs ⊢
    cases hc : m.codeCaps with
    | none => simp
    | some l => rw [hc] at hs; simp only at hs ⊢; simp [hs]

/-- `(a)(?<x>b)(?<7>c)`: `\7`, `$7`, `${x}`, `\k<x>` and the groups themselves -/
example : (assign [.unnamed, .named "x", .numbered 7] {}).map
    (fun m => [evSlot m 2, backrefSlot m 7, replSlot m 7, groupByNumberSlot m 7,
               evSlot m 1, backrefNameSlot m "x", replNameSlot m "x", groupByNameSlot m "x"]) =
    some [some 3, some 3, some 3, some 3, some 2, some 2, some 2, some 2] := by decide

/-! ### the former findings F1–F6 (design.d/C17.md), now fixed in /repo -/

/-- F1 (2bf8733): with sparse numbers `Match.Groups()[i].Name` is `GetGroupNames()[i]`
    (was: `["0", "1", "x", ""]`, the dense slot was looked up as a group number) -/
example : (assign [.unnamed, .named "x", .numbered 7] {}).map
    (fun m => (getGroupNames m, (List.range m.capsize).map (groupsName m))) =
    some (["0", "1", "x", "7"], ["0", "1", "x", "7"]) := by decide

/-- F2 (9af4686): `GroupByNumber(3)` is nil when 3 is not a group number (was: the slot of group 7) -/
example : (assign [.unnamed, .named "x", .numbered 7] {}).map (fun m => (getGroupNumbers m, groupByNumberSlot m 3)) =
    some ([0, 1, 2, 7], none) := by decide

/-- F3 (4579bd8): `(a)(?<1>b)` under MaintainCaptureOrder: each group captures into its own slot, the
    second one is booked under the name "1" (was: both captured into 1, slot 2 never captured).
    The name "1" is now listed twice — automatic name of slot 1, written name of slot 2 — and
    `GroupNumberFromName("1")` answers 2: this is why `name_number_inverse` keeps `NoOrdNumbered`. -/
example : (assign [.unnamed, .numbered 1] { mco := true }).map
    (fun m => (m.evNums, getGroupNames m, groupNumberFromName m "1", evSlot m 0, evSlot m 1)) =
    some ([some 1, some 2], ["0", "1", "1"], some 2, some 1, some 2) := by decide

/-- F3 (4579bd8): `(?<5>a)` alone compiles under MaintainCaptureOrder: slot 1, named "5" (was: rejected) -/
example : (assign [.numbered 5] { mco := true }).map (fun m => (m.evNums, getGroupNames m)) =
    some ([some 1], ["0", "5"]) := by decide

/-- F4 (4181360): on a pattern without named groups only the canonical decimal strings of the group
    numbers are names (was: "" and "00" gave 0, "01" gave 1) -/
example : (assign [.unnamed, .unnamed] {}).map
    (fun m => ["", "00", "01", "0", "1", "2", "3", "1x"].map (groupNumberFromName m)) =
    some [none, none, none, some 0, some 1, some 2, none, none] := by decide

/-- F5 (14b4ba0): `(?<x>a)(?<01>b)`: the number written with a leading zero is reserved, `x` gets 2
    (was: both groups captured into 1) -/
example : (assign [.named "x", .numbered0 1] {}).map (fun m => (m.evNums, getGroupNames m)) =
    some ([some 2, some 1], ["0", "1", "x"]) := by decide

/-- F6 (14b4ba0 + 4579bd8): `(?<01>a)(b)` under MaintainCaptureOrder: slots 1 and 2, both listed
    (was: the second group captured into 2 with `capsize` 2 — an index out of range at match time) -/
example : (assign [.numbered0 1, .unnamed] { mco := true }).map (fun m => (m.evNums, getGroupNumbers m, m.capsize)) =
    some ([some 1, some 2], [0, 1, 2], 3) := by decide

end RegexVerif.Props.C17
