/-
C17 — Group numbers and names form one consistent map.

Theorems about `Groups.assign`, the model of the capture bookkeeping of `syntax/parser.go`
(pre-scan, `assignNameSlots`, `assignOrderedNameSlots`, main parse), `syntax/writer.go` (dense
remap) and of the lookup functions of `regexp.go`, `match.go`, `scanDollar`/`replacerdata.go`.
Leg G of the harness checks on every run that `assign` computes exactly Go's tables
(`GetGroupNumbers`, `GetGroupNames`, `Code.Caps`, `Capsize`, the number every group captures into)
for patterns printed from random event lists.

Hypotheses used below:
* `GoodNames evs`: a name written in the pattern is not empty and not all digits (the Go parser
  reads an all-digit name as a number), so no written name equals `strconv.Itoa k`;
* for MaintainCaptureOrder / ECMAScript: `OrdClean evs` / `NoOrdNumbered`: no explicitly numbered
  group.  Explicit numbers under MaintainCaptureOrder and numbers written with a leading zero are
  where the real code is inconsistent (design.d/C17.md, suspected defects); the `example`s at the end
  exhibit these inconsistencies in the model.
-/
import RegexVerif.Lemmas.Groups

namespace RegexVerif.Props.C17
open RegexVerif.Groups

/-! ### the numbering rule -/

/-- **C17, numbering rule (default order).** Without MaintainCaptureOrder / ECMAScript:
    * the `j`-th unnamed group (by opening parenthesis) captures into number `j` — or into nothing
      under ExplicitCapture;
    * an explicitly numbered group `(?<k>…)` captures into `k`;
    * a named group captures into the number `GroupNumberFromName` gives for its name, so groups
      with the same name share one number;
    * a non-capturing group captures into nothing. -/
theorem numbering_rule {evs : List Event} {cfg : Cfg} {m : Maps} (h : assign evs cfg = some m)
    (ho : cfg.ord = false) (hg : GoodNames evs) (i : Nat) (e : Event) (he : evs[i]? = some e) :
    match e with
    | .unnamed => m.evNums[i]? =
        some (if cfg.explicitCapture then none else some (1 + countUnnamed (evs.take i)))
    | .numbered k => m.evNums[i]? = some (some k)
    | .numbered0 k => m.evNums[i]? = some (some k)
    | .named nm => ∃ k, groupNumberFromName m nm = some k ∧ m.evNums[i]? = some (some k)
    | .noncap => m.evNums[i]? = some none := by
  obtain ⟨t, ht, hmt, _, hgn, _⟩ := assign_tables h
  have hs := (groupNumbers_spec ho evs 1 m.evNums hgn).2 i e he
  have hcn : m.capnames = t.capnames := by rw [← hmt]; rfl
  cases e with
  | unnamed => exact hs
  | numbered k => exact hs.1
  | numbered0 k => exact hs.1
  | noncap => exact hs
  | named nm =>
    obtain ⟨k, hk1, hk2⟩ := hs
    refine ⟨k, ?_, hk2⟩
    unfold groupNumberFromName
    rw [hcn]
    cases hc : t.capnames with
    | none => simp [hc] at hk1
    | some cn => simpa [hc] using hk1

/-- `(a)(?<x>b)(?<7>c)(?<x>d)(?:e)`: 1, x ↦ 2, 7, x again, nothing -/
example : (assign [.unnamed, .named "x", .numbered 7, .named "x", .noncap] {}).map (·.evNums) =
    some [some 1, some 2, some 7, some 2, none] := by decide

/-- **C17, numbering rule, named groups (default order).** The distinct names of the pattern, in
    order of first appearance, get ascending numbers: the first name the least number above the
    count of unnamed groups (0 under ExplicitCapture) that no group claims explicitly, every further
    name the least such number above its predecessor's (`ChainRule`: `prev < k`, `k` is not an
    explicit number, every number strictly between is one). -/
theorem named_numbers_rule {evs : List Event} {cfg : Cfg} {m : Maps} (h : assign evs cfg = some m)
    (ho : cfg.ord = false) (hg : GoodNames evs) :
    ChainRule (groupNumberFromName m) (fun c => c ∈ explicitNumbers evs)
      (if cfg.explicitCapture then 0 else countUnnamed evs) (namesInOrder evs) :=
  assign_named_rule h ho hg

/-- `(?<y>a)(b)(?<3>c)(?<x>d)(e)(?<y>f)(?<2>g)`: the unnamed groups are 1 and 2, the numbers 2 and 3
    are also claimed explicitly, so y ↦ 4 and x ↦ 5 -/
example : (assign [.named "y", .unnamed, .numbered 3, .named "x", .unnamed, .named "y", .numbered 2] {}).map
    (fun m => (namesInOrder [.named "y", .unnamed, .numbered 3, .named "x", .unnamed, .named "y", .numbered 2],
               groupNumberFromName m "y", groupNumberFromName m "x", m.evNums)) =
    some (["y", "x"], some 4, some 5, [some 4, some 1, some 3, some 5, some 2, some 4, some 2]) := by decide

/-- **C17, numbering rule (pattern order).** With MaintainCaptureOrder or ECMAScript the numbers
    are handed out in one pass over the pattern: every unnamed group and every first occurrence of
    a name takes the next number, a repeated name shares the number of its first occurrence
    (`orderSpec`).  The parser's two passes (pre-scan, main parse) agree on this. -/
theorem order_numbering_rule {evs : List Event} {cfg : Cfg} {m : Maps} (h : assign evs cfg = some m)
    (ho : cfg.ord = true) (hcl : OrdClean evs) (hg : GoodNames evs) :
    m.evNums = orderSpec cfg.explicitCapture evs [] 1 :=
  (assign_ord_spec h ho hcl hg).1

/-- `(a)(?<x>b)(c)(?<x>d)(?<y>e)` under MaintainCaptureOrder: 1 2 3 2 4 -/
example : (assign [.unnamed, .named "x", .unnamed, .named "x", .named "y"] { mco := true }).map (·.evNums) =
    some [some 1, some 2, some 3, some 2, some 4] := by decide

/-! ### names ↔ numbers -/

/-- **C17, the two lists are aligned.** `GetGroupNames()` and `GetGroupNumbers()` have the same
    length (`capsize`), the numbers are strictly ascending, and `GetGroupNames()[i]` is
    `GroupNameFromNumber(GetGroupNumbers()[i])`. -/
theorem names_numbers_aligned {evs : List Event} {cfg : Cfg} {m : Maps} (h : assign evs cfg = some m)
    (hg : GoodNames evs) (hno : NoOrdNumbered cfg evs) :
    (getGroupNames m).length = m.capsize ∧ (getGroupNumbers m).length = m.capsize ∧
    (getGroupNumbers m).Pairwise (· < ·) ∧
    ∀ (i n : Nat), (getGroupNumbers m)[i]? = some n →
      (getGroupNames m)[i]? = some (groupNameFromNumber m n) := by
  have hm := (assign_inv h hg hno).1
  exact ⟨hm.names_len, hm.used.2.1, hm.used.1, fun i n hi => hm.aligned hi⟩

/-- **C17, the lookups are inverse.** For every listed number `n` whose name is not empty (outside
    ECMAScript no name is empty): `GroupNumberFromName(GroupNameFromNumber(n)) = n`; for every
    listed non-empty name `s`: `GroupNameFromNumber(GroupNumberFromName(s)) = s`. -/
theorem name_number_inverse {evs : List Event} {cfg : Cfg} {m : Maps} (h : assign evs cfg = some m)
    (hg : GoodNames evs) (hno : NoOrdNumbered cfg evs) :
    (∀ n ∈ getGroupNumbers m, groupNameFromNumber m n ≠ "" →
        groupNumberFromName m (groupNameFromNumber m n) = some n) ∧
    (∀ s ∈ getGroupNames m, s ≠ "" →
        ∃ n, groupNumberFromName m s = some n ∧ n ∈ getGroupNumbers m ∧ groupNameFromNumber m n = s) ∧
    (cfg.ecma = false → "" ∉ getGroupNames m) := by
  have hm := (assign_inv h hg hno).1
  have hecma : m.ecma = cfg.ecma := by obtain ⟨_, _, _, he, _⟩ := assign_tables h; exact he
  refine ⟨?_, ?_, ?_⟩
  · intro n hn hne
    obtain ⟨i, hi⟩ := List.mem_iff_getElem?.mp hn
    have ha := hm.aligned hi
    rw [hm.number_of_listed_name ha hne, hi]
  · intro s hs hne
    obtain ⟨i, hi⟩ := List.mem_iff_getElem?.mp hs
    have hlt : i < (getGroupNumbers m).length := by
      have := (List.getElem?_eq_some_iff.mp hi).1
      rw [hm.names_len] at this; rw [hm.used.2.1]; exact this
    have hn : (getGroupNumbers m)[i]? = some (getGroupNumbers m)[i] := List.getElem?_eq_getElem hlt
    refine ⟨(getGroupNumbers m)[i], ?_, List.getElem_mem hlt, ?_⟩
    · rw [hm.number_of_listed_name hi hne, hn]
    · have := hm.aligned hn
      rw [hi] at this; injection this with this; exact this.symm
  · intro he
    unfold getGroupNames
    cases hc : m.caplist with
    | none =>
      simp only [List.mem_map, not_exists, not_and]
      intro x _ hx; exact itoa_ne_empty x hx
    | some cl => exact hm.t.nonempty (by rw [hecma]; exact he) cl hc

/-- sparse numbers, a duplicate name, a digit-like name: `(a)(?<x1>b)(?<7>c)(?<x1>d)` -/
example : (assign [.unnamed, .named "x1", .numbered 7, .named "x1"] {}).map
    (fun m => (getGroupNumbers m, getGroupNames m, (getGroupNumbers m).map (groupNameFromNumber m),
               (getGroupNames m).map (groupNumberFromName m))) =
    some ([0, 1, 2, 7], ["0", "1", "x1", "7"], ["0", "1", "x1", "7"], [some 0, some 1, some 2, some 7]) := by
  decide

/-! ### the dense remap -/

/-- **C17, dense remap.** `writer.mapCapnum` is a bijection from the used numbers
    (`GetGroupNumbers`, which are exactly the numbers the parser's `isCaptureSlot` accepts) onto the
    slots `0 … capsize-1`, and it is monotone: the `i`-th number in ascending order gets slot `i`. -/
theorem dense_remap_bijective {evs : List Event} {cfg : Cfg} {m : Maps} (h : assign evs cfg = some m)
    (hg : GoodNames evs) (hno : NoOrdNumbered cfg evs) :
    (∀ n, n ∈ getGroupNumbers m ↔ n ∈ m.caps) ∧
    (∀ n ∈ getGroupNumbers m, ∃ s, slotOf m n = some s ∧ s < m.capsize) ∧
    (∀ a ∈ getGroupNumbers m, ∀ b ∈ getGroupNumbers m, slotOf m a = slotOf m b → a = b) ∧
    (∀ s, s < m.capsize → ∃ n ∈ getGroupNumbers m, slotOf m n = some s) := by
  have hm := (assign_inv h hg hno).1
  have hlen := hm.used.2.1
  refine ⟨hm.used.2.2, ?_, ?_, ?_⟩
  · intro n hn
    obtain ⟨i, hi⟩ := List.mem_iff_getElem?.mp hn
    exact ⟨i, hm.slotOf_getElem hi, by have := (List.getElem?_eq_some_iff.mp hi).1; omega⟩
  · intro a ha b hb hab
    obtain ⟨i, hi⟩ := List.mem_iff_getElem?.mp ha
    obtain ⟨j, hj⟩ := List.mem_iff_getElem?.mp hb
    rw [hm.slotOf_getElem hi, hm.slotOf_getElem hj] at hab
    injection hab with hab; subst hab
    rw [hi] at hj; injection hj
  · intro s hs
    have hlt : s < (getGroupNumbers m).length := by omega
    exact ⟨(getGroupNumbers m)[s], List.getElem_mem hlt, hm.slotOf_getElem (List.getElem?_eq_getElem hlt)⟩

/-- **C17, order of `Match.Groups()`.** `Groups()[i]` is the dense slot `i`; the number whose captures
    live there is `GetGroupNumbers()[i]`, and `GroupByNumber` of that number returns slot `i`. -/
theorem groups_order_eq_numbers {evs : List Event} {cfg : Cfg} {m : Maps} (h : assign evs cfg = some m)
    (hg : GoodNames evs) (hno : NoOrdNumbered cfg evs) (i n : Nat) (hi : (getGroupNumbers m)[i]? = some n) :
    slotOf m n = some i ∧ groupByNumberSlot m n = some i := by
  have hm := (assign_inv h hg hno).1
  have hs := hm.slotOf_getElem hi
  have hlt : i < m.capsize := by
    have := (List.getElem?_eq_some_iff.mp hi).1; rw [hm.used.2.1] at this; exact this
  refine ⟨hs, ?_⟩
  unfold groupByNumberSlot
  unfold slotOf at hs
  cases hc : m.codeCaps with
  | none => rw [hc] at hs; injection hs with hs; subst hs; simp [hlt]
  | some l => rw [hc] at hs; simp only at hs; simp [hs, hlt]

example : (assign [.numbered 5, .unnamed, .numbered 3] {}).map
    (fun m => (getGroupNumbers m, (getGroupNumbers m).map (slotOf m), (getGroupNumbers m).map (groupByNumberSlot m), m.capsize)) =
    some ([0, 1, 3, 5], [some 0, some 1, some 2, some 3], [some 0, some 1, some 2, some 3], 4) := by decide

/-! ### references -/

/-- every group of the pattern captures into a number the tables list -/
theorem group_number_listed {evs : List Event} {cfg : Cfg} {m : Maps} (h : assign evs cfg = some m)
    (hg : GoodNames evs) (hcl : cfg.ord = true → OrdClean evs) (i n : Nat) (hi : m.evNums[i]? = some (some n)) :
    n ∈ m.caps := by
  cases ho : cfg.ord with
  | false => exact evNums_mem_caps h ho hg i n hi
  | true => exact (assign_ord_spec h ho (hcl ho) hg).2 i n hi

/-- **C17, backreferences.** If the `i`-th group of the pattern captures into number `n`, then `\n`
    (and `\k<n>`) compiles to a reference to the very slot that group writes; if the group is written
    with the name `s`, so does `\k<s>` / `(?P=s)`; and `GroupByNumber(n)` / `GroupByName(s)` read
    that slot. -/
theorem backref_same_slot {evs : List Event} {cfg : Cfg} {m : Maps} (h : assign evs cfg = some m)
    (hg : GoodNames evs) (hno : NoOrdNumbered cfg evs) (hcl : cfg.ord = true → OrdClean evs)
    (i n : Nat) (hi : m.evNums[i]? = some (some n)) :
    (∃ s, evSlot m i = some s ∧ s < m.capsize ∧ backrefSlot m n = some s ∧ groupByNumberSlot m n = some s) ∧
    (∀ nm, evs[i]? = some (.named nm) → backrefNameSlot m nm = evSlot m i ∧ groupByNameSlot m nm = evSlot m i) := by
  have hm := (assign_inv h hg hno).1
  have hmem : n ∈ m.caps := group_number_listed h hg hcl i n hi
  have hn : n ∈ getGroupNumbers m := (hm.used.2.2 n).mpr hmem
  obtain ⟨j, hj⟩ := List.mem_iff_getElem?.mp hn
  obtain ⟨hs1, hs2⟩ := groups_order_eq_numbers h hg hno j n hj
  have hjlt : j < m.capsize := by
    have := (List.getElem?_eq_some_iff.mp hj).1; rw [hm.used.2.1] at this; exact this
  have hev : evSlot m i = some j := by unfold evSlot; simp [hi, hs1]
  refine ⟨⟨j, hev, hjlt, by unfold backrefSlot; simp [hmem, hs1], hs2⟩, ?_⟩
  intro nm he
  -- the number of a named group is what the name maps to
  have hk : (m.capnames.bind fun c => c.lookup nm) = some n := by
    obtain ⟨t, _, hmt, _, hgn, _⟩ := assign_tables h
    have hcn : m.capnames = t.capnames := by rw [← hmt]; rfl
    have := groupNumbers_named evs 1 m.evNums hgn i he
    rw [this] at hi; injection hi with hi
    rw [hcn]; exact hi
  constructor
  · unfold backrefNameSlot; rw [hk, hev]; simpa using hs1
  · unfold groupByNameSlot groupNumberFromName
    cases hc : m.capnames with
    | none => simp [hc] at hk
    | some cn => simp [hc] at hk; simp [hk, hs2, hev]

/-- **C17, replacement references.** `$n` / `${n}` for a listed number and `${s}` for a name written
    in the pattern resolve (`scanDollar`, then `caps[slot]` in `NewReplacerData`) to the same dense
    slot as the backreferences `\n` and `\k<s>`. -/
theorem repl_ref_same_slot {evs : List Event} {cfg : Cfg} {m : Maps} (h : assign evs cfg = some m)
    (hg : GoodNames evs) (hno : NoOrdNumbered cfg evs) :
    (∀ n ∈ getGroupNumbers m, replSlot m n = backrefSlot m n ∧ (replSlot m n).isSome) ∧
    (∀ nm, Event.named nm ∈ evs → replNameSlot m nm = backrefNameSlot m nm ∧ (replNameSlot m nm).isSome) := by
  obtain ⟨hm, hnames⟩ := assign_inv h hg hno
  constructor
  · intro n hn
    have hmem : n ∈ m.caps := (hm.used.2.2 n).mp hn
    obtain ⟨j, hj⟩ := List.mem_iff_getElem?.mp hn
    have hs := hm.slotOf_getElem hj
    have hjlt : j < m.capsize := by
      have := (List.getElem?_eq_some_iff.mp hj).1; rw [hm.used.2.1] at this; exact this
    unfold replSlot backrefSlot
    simp only [hmem, if_true]
    unfold slotOf at hs ⊢
    cases hc : m.codeCaps with
    | none =>
      rw [hc] at hs; injection hs with hs; subst hs
      simp [hjlt]
    | some l => rw [hc] at hs; simp only at hs ⊢; simp [hs]
  · intro nm hnm
    obtain ⟨k, hk1, hk2⟩ := hnames nm hnm
    have hn : k ∈ getGroupNumbers m := (hm.used.2.2 k).mpr hk2
    obtain ⟨j, hj⟩ := List.mem_iff_getElem?.mp hn
    have hs := hm.slotOf_getElem hj
    unfold replNameSlot backrefNameSlot
    rw [hk1]
    simp only [Option.bind_some]
    unfold slotOf at hs ⊢
    cases hc : m.codeCaps with
    | none => simp
    | some l => rw [hc] at hs; simp only at hs ⊢; simp [hs]

/-- `(a)(?<x>b)(?<7>c)`: `\7`, `$7`, `${x}`, `\k<x>` and the groups themselves -/
example : (assign [.unnamed, .named "x", .numbered 7] {}).map
    (fun m => [evSlot m 2, backrefSlot m 7, replSlot m 7, groupByNumberSlot m 7,
               evSlot m 1, backrefNameSlot m "x", replNameSlot m "x", groupByNameSlot m "x"]) =
    some [some 3, some 3, some 3, some 3, some 2, some 2, some 2, some 2] := by decide

/-! ### the model exhibits the suspected defects of the real code (design.d/C17.md) -/

/-- F1: with sparse numbers `Match.Groups()[3].Name` is `""` although the group is named "7" -/
example : (assign [.unnamed, .named "x", .numbered 7] {}).map
    (fun m => (getGroupNames m, (List.range m.capsize).map (groupsName m))) =
    some (["0", "1", "x", "7"], ["0", "1", "x", ""]) := by decide

/-- F2: `GroupByNumber(3)` returns the slot of group 7 although 3 is not a group number -/
example : (assign [.unnamed, .named "x", .numbered 7] {}).map (fun m => (getGroupNumbers m, groupByNumberSlot m 3)) =
    some ([0, 1, 2, 7], some 3) := by decide

/-- F3: `(a)(?<1>b)` under MaintainCaptureOrder: both groups capture into number 1, the name "1" maps to 2 -/
example : (assign [.unnamed, .numbered 1] { mco := true }).map
    (fun m => (m.evNums, getGroupNames m, groupNumberFromName m (groupNameFromNumber m 1))) =
    some ([some 1, some 1], ["0", "1", "1"], some 2) := by decide

/-- F5: `(?<x>a)(?<01>b)`: the leading-zero number is not reserved, `x` gets number 1 as well -/
example : (assign [.named "x", .numbered0 1] {}).map (fun m => (m.evNums, getGroupNames m)) =
    some ([some 1, some 1], ["0", "x"]) := by decide

/-- F6: `(?<01>a)(b)` under MaintainCaptureOrder: the second group captures into number 2,
    which no table knows (the engine then indexes past `capsize`) -/
example : (assign [.numbered0 1, .unnamed] { mco := true }).map (fun m => (m.evNums, getGroupNumbers m, m.capsize)) =
    some ([some 1, some 2], [0, 1], 2) := by decide

end RegexVerif.Props.C17
