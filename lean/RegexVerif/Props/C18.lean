/-
C18 — Inline options equal compile-time options.

Theorems about `Options.resolve` (the option threading of `syntax/parser.go`: `p.options`, the
options stack, `scanOptions`) and about the list of option readers regenerated from the Go source.
Leg O of the harness ties `resolve` to the real parser: for every generated pattern and all 32
option sets it prints the fully explicit spelling from `resolve` and checks that Go parses it to
the same tree, tables and program as the original.
-/
import RegexVerif.Lemmas.Options
import RegexVerif.Generated.OptionReaders
import RegexVerif.Model.Parser

namespace RegexVerif.Props.C18
open RegexVerif.Options

/-- **C18, leading `(?O)`.** Parsing a pattern under compile options `O` stamps the same options on
    every leaf and decides the same capturing status for every group as parsing `(?O)` followed by the
    pattern without options: the token lists are identical. -/
theorem prefix_eq_compile (O : Opts) (p : List Pat) :
    resolve O p = resolve Opts.none (.opt (onSeq O) :: p) := by
  simp [resolve_cons, resolveOne, applySeq_none_onSeq]

example : resolve { i := true, x := true } [.leaf 0, .group 1 .unnamed [.opt [(.i, false)], .leaf 2], .leaf 3]
    = resolve Opts.none [.opt (onSeq { i := true, x := true }), .leaf 0,
        .group 1 .unnamed [.opt [(.i, false)], .leaf 2], .leaf 3] := by decide

/-- **C18, wrapping `(?O: … )`.** Wrapping the pattern in a scoped group adds one non-capturing
    group around exactly the token list of the pattern parsed under compile options `O`; in
    particular every leaf gets the same effective options. -/
theorem wrap_eq_compile (O : Opts) (id : Nat) (p : List Pat) :
    resolve Opts.none [.scoped id (onSeq O) p] = .gopen id false O :: resolve O p ++ [.gclose id] ∧
    leaves (resolve Opts.none [.scoped id (onSeq O) p]) = leaves (resolve O p) := by
  have h : resolve Opts.none [.scoped id (onSeq O) p] = .gopen id false O :: resolve O p ++ [.gclose id] := by
    simp [resolve_cons, resolve_nil, resolveOne, applySeq_none_onSeq]
  refine ⟨h, ?_⟩
  rw [h]
  simp [leaves, leaves_append]

example : leaves (resolve Opts.none [.scoped 9 (onSeq { n := true, s := true }) [.leaf 0, .opt [(.s, false)], .leaf 1]])
    = [(0, { n := true, s := true }), (1, { n := true })] := by decide

/-- **C18, scope of a group.** Whatever the body of a group does to the options — inline `(?O)`,
    `(?-O)`, nested groups — the items after its closing parenthesis are parsed under the options
    that were in force at its opening parenthesis (`pushOptions` / `popOptions`). The same holds
    for a scoped group `(?on-off: … )`, whose own options apply inside only. -/
theorem off_scoped (o : Opts) (id : Nat) (k : GroupKind) (seq : List (Flag × Bool)) (body rest : List Pat) :
    resolve o (.group id k body :: rest) =
      .gopen id (captures o k) o :: resolve o body ++ .gclose id :: resolve o rest ∧
    resolve o (.scoped id seq body :: rest) =
      .gopen id false (applySeq o seq) :: resolve (applySeq o seq) body ++ .gclose id :: resolve o rest := by
  constructor <;> simp [resolve_cons, resolveOne]

/-- **C18, `(?-O)`.** An inline `(?-O)` switches exactly the options of `O` off for the items that
    follow it in the same group (until another inline item changes them again). -/
theorem off_switches_rest_of_group (o O : Opts) (rest : List Pat) :
    resolve o (.opt (offSeq O) :: rest) =
      resolve { i := o.i && !O.i, m := o.m && !O.m, n := o.n && !O.n, s := o.s && !O.s, x := o.x && !O.x } rest := by
  simp [resolve_cons, resolveOne, applySeq_offSeq]

/-- non-vacuity of both: `(?i)` … `((?-i)b)c`: `b` is case-sensitive, `c` after the group is not. -/
example : leaves (resolve Opts.none [.opt (onSeq { i := true }), .leaf 0,
      .group 1 .unnamed [.opt (offSeq { i := true }), .leaf 2], .leaf 3])
    = [(0, { i := true }), (2, {}), (3, { i := true })] := by decide

/-- **C18, the parser's stack discipline.** `resolve` (recursion over the pattern tree) is what the
    parser's single left-to-right pass with an explicit options stack computes: push at `(`,
    `scanOptions`, keep for a bare `(?…)`, pop at `)`. -/
theorem stack_machine_eq_resolve (o : Opts) (p : List Pat) :
    run o [] (flatten p) = resolve o p := by
  have := run_flatten_aux o [] [] p
  simpa [run] using this

example : run { m := true } [] (flatten [.group 0 .unnamed [.opt [(.n, true)], .group 1 .unnamed [.leaf 2]], .group 3 .unnamed []])
    = [.gopen 0 true { m := true }, .gopen 1 false { m := true, n := true }, .leaf 2 { m := true, n := true },
       .gclose 1, .gclose 0, .gopen 3 true { m := true }, .gclose 3] := by decide

/-! ### who reads option bits after the parser -/

open RegexVerif.Generated in
/-- option bits that code outside the parser may look at -/
def postParserBits : List String := ["RightToLeft", "IgnoreCase", "ECMAScript", "RE2", "Unicode"]

open RegexVerif.Generated in
/-- functions of `syntax/tree.go` that compare two whole option words. They run inside `Parse`
    (`reduce`, `finalOptimize`), i.e. before the tree the certificate compares exists. -/
def parseTimeComparers : List String :=
  ["RegexNode.canBeMadeAtomic", "RegexNode.extractCommonPrefixOneNotoneSet",
   "RegexNode.extractCommonPrefixText", "RegexNode.reduceConcatenationWithAdjacentLoops"]

open RegexVerif.Generated in
/-- a use is harmless for the certificate when it tests/clears/sets only post-parser bits, moves the
    whole word on unchanged (into a new node, a variable, a callee that is itself listed), compares
    whole words at parse time, or is the debug printer `RegexNode.Description` -/
def harmless (u : OptionUse) : Bool :=
  if u.kind = "mask" ∨ u.kind = "clear" ∨ u.kind = "set" ∨ u.kind = "maskout" then
    u.mask.all (fun b => postParserBits.contains b) || (u.file = "syntax/tree.go" && u.fn = "RegexNode.Description")
  else if u.kind = "copy" ∨ u.kind = "pass" then true
  else if u.kind = "cmp" then u.file = "syntax/tree.go" && parseTimeComparers.contains u.fn
  else false

/-- **C18, certificate soundness fact.** Every use of a `.Options` / `.options` / `.RegexOptions`
    field outside `syntax/parser.go` — regenerated from the Go source on every run — is harmless in
    the sense above: after `Parse` nobody looks at the `m`, `s`, `n`, `x` bits, so two parses that
    agree up to these bits compile to the same program. -/
theorem options_readers_expected : Generated.optionReaders.all harmless = true := by
  decide

/-- the list is not empty and contains the readers one expects (writer, runner, match) -/
example : (Generated.optionReaders.map (·.file)).contains "syntax/writer.go" = true ∧
    (Generated.optionReaders.map (·.file)).contains "runner.go" = true ∧
    Generated.optionReaders.length ≥ 40 := by decide

/-- the run-time readers of `Regexp.options` (root package) look at RightToLeft, ECMAScript, RE2 only,
    apart from handing the word to the replacement parser -/
theorem regexp_options_runtime_readers :
    (Generated.optionReaders.filter (fun u => u.pkg = "regexp2")).all
      (fun u => u.kind = "pass" ∨ (u.kind = "mask" ∧ u.mask.all (fun b => ["RightToLeft", "ECMAScript", "RE2"].contains b))) = true := by
  decide

/-! ### the real parser model (`Model/Parser.lean`, tied to `syntax/parser.go` by leg Pr)

FULL STATEMENT wanted (not proved; the index-based model needs a shift lemma for every scanner —
`design.d/C10-parser.md`): for every pattern `p` and compile options `opts`, with `O ⊆ {i,m,n,s,x}`,

    Parser.parse {pat := "(?O)" ++ p, opts := opts, …}  and  Parser.parse {pat := p, opts := opts ∪ O, …}

both fail with the same `ErrorCode` or yield trees with the same tables that differ only in the option
word of the three nodes created before the prefix is read (root Capture, its Alternate and its
Concatenate).  Leg O of this property checks it on the Go side (tree + table + program equality), leg Pr
ties the Lean parser to the Go parser on the same generators.  What is proved below is the step
the statement rests on: how the real `scanOptions` reads the prefix. -/

/-- the letters of `(?imnsx` for an option set, in the order `i m n s x` -/
def onText (O : Opts) : List Nat :=
  (if O.i then [105] else []) ++ (if O.m then [109] else []) ++ (if O.n then [110] else []) ++
  (if O.s then [115] else []) ++ (if O.x then [120] else [])

/-- **C18 on the real parser model, partial (`scanOptions` only).**  Reading the text of `(?O)` after
    its `(?`, the parser's `scanOptions` (`Parser.optionsGo`, the loop of `syntax/parser.go`'s
    `scanOptions`) switches on exactly the flags of `O` in whatever option word `o` is in force, leaves
    the other seven bits (RightToLeft, ECMAScript, RE2, Unicode and the flags not in `O`) alone, and
    stops in front of the closing parenthesis having consumed exactly the letters. -/
theorem scanOptions_prefix_partial (O : Opts) (o : Parser.Opts) (rest : List Nat) :
    Parser.optionsGo (onText O ++ 41 :: rest) false o 0 =
      ({ o with i := o.i || O.i, m := o.m || O.m, n := o.n || O.n, s := o.s || O.s, x := o.x || O.x },
       (onText O).length) := by
  obtain ⟨i, m, n, s, x⟩ := O
  cases i <;> cases m <;> cases n <;> cases s <;> cases x <;>
    simp [onText, Parser.optionsGo, Parser.setLetter]

example : Parser.optionsGo ([105, 120] ++ 41 :: [97]) false { m := true, re2 := true } 0
    = ({ i := true, m := true, x := true, re2 := true }, 2) := by decide

end RegexVerif.Props.C18
