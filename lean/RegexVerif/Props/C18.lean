/-
C18 — Inline options equal compile-time options.

Theorems about `Options.resolve` (the option threading of `syntax/parser.go`: `p.options`, the
options stack, `scanOptions`) and about the list of option readers regenerated from the Go source.
Leg O of the harness ties `resolve` to the real parser: for every generated pattern and all 32
option sets it prints the fully explicit spelling from `resolve` and checks that Go parses it to
the same tree, tables and program as the original.
-/
import RegexVerif.Lemmas.Options
import RegexVerif.Generated.OptionReaders

namespace RegexVerif.Props.C18
open RegexVerif.Options

/-- **C18, leading `(?O)`.** Parsing a pattern under compile options `O` stamps the same options on
    every leaf and decides the same capturing status for every group as parsing `(?O)` followed by the
    pattern without options: the token lists are identical. -/
theorem prefix_eq_compile (O : Opts) (p : List Pat) :
    resolve O p = resolve Opts.none (.opt (onSeq O) :: p) := by
  simp [resolve_cons, resolveOne, applySeq_none_onSeq]

example : resolve { i := true, x := true } [.leaf 0, .group 1 .unnamed [.opt [(.i, false)], .leaf 2], .leaf 3]
    = resolve Opts.none [.opt (onSeq { i := true, x := true }), .leaf 0,
        .group 1 .unnamed [.opt [(.i, false)], .leaf 2], .leaf 3] := by decide

/-- **C18, wrapping `(?O: … )`.** Wrapping the pattern in a scoped group adds one non-capturing
    group around exactly the token list of the pattern parsed under compile options `O`; in
    particular every leaf gets the same effective options. -/
theorem wrap_eq_compile (O : Opts) (id : Nat) (p : List Pat) :
    resolve Opts.none [.scoped id (onSeq O) p] = .gopen id false O :: resolve O p ++ [.gclose id] ∧
    leaves (resolve Opts.none [.scoped id (onSeq O) p]) = leaves (resolve O p) := by
  have h : resolve Opts.none [.scoped id (onSeq O) p] = .gopen id false O :: resolve O p ++ [.gclose id] := by
    simp [resolve_cons, resolve_nil, resolveOne, applySeq_none_onSeq]
  refine ⟨h, ?_⟩
  rw [h]
  simp [leaves, leaves_append]

example : leaves (resolve Opts.none [.scoped 9 (onSeq { n := true, s := true }) [.leaf 0, .opt [(.s, false)], .leaf 1]])
    = [(0, { n := true, s := true }), (1, { n := true })] := by decide

/-- **C18, scope of a group.** Whatever the body of a group does to the options — inline `(?O)`,
    `(?-O)`, nested groups — the items after its closing parenthesis are parsed under the options
    that were in force at its opening parenthesis (`pushOptions` / `popOptions`). The same holds
    for a scoped group `(?on-off: … )`, whose own options apply inside only. -/
theorem off_scoped (o : Opts) (id : Nat) (k : GroupKind) (seq : List (Flag × Bool)) (body rest : List Pat) :
    resolve o (.group id k body :: rest) =
      .gopen id (captures o k) o :: resolve o body ++ .gclose id :: resolve o rest ∧
    resolve o (.scoped id seq body :: rest) =
      .gopen id false (applySeq o seq) :: resolve (applySeq o seq) body ++ .gclose id :: resolve o rest := by
  constructor <;> simp [resolve_cons, resolveOne]

/-- **C18, `(?-O)`.** An inline `(?-O)` switches exactly the options of `O` off for the items that
    follow it in the same group (until another inline item changes them again). -/
theorem off_switches_rest_of_group (o O : Opts) (rest : List Pat) :
    resolve o (.opt (offSeq O) :: rest) =
      resolve { i := o.i && !O.i, m := o.m && !O.m, n := o.n && !O.n, s := o.s && !O.s, x := o.x && !O.x } rest := by
  simp [resolve_cons, resolveOne, applySeq_offSeq]

/-- non-vacuity of both: `(?i)` … `((?-i)b)c`: `b` is case-sensitive, `c` after the group is not. -/
example : leaves (resolve Opts.none [.opt (onSeq { i := true }), .leaf 0,
      .group 1 .unnamed [.opt (offSeq { i := true }), .leaf 2], .leaf 3])
    = [(0, { i := true }), (2, {}), (3, { i := true })] := by decide

/-- **C18, the parser's stack discipline.** `resolve` (recursion over the pattern tree) is what the
    parser's single left-to-right pass with an explicit options stack computes: push at `(`,
    `scanOptions`, keep for a bare `(?…)`, pop at `)`. -/
theorem stack_machine_eq_resolve (o : Opts) (p : List Pat) :
    run o [] (flatten p) = resolve o p := by
  have := run_flatten_aux o [] [] p
  simpa [run] using this

example : run { m := true } [] (flatten [.group 0 .unnamed [.opt [(.n, true)], .group 1 .unnamed [.leaf 2]], .group 3 .unnamed []])
    = [.gopen 0 true { m := true }, .gopen 1 false { m := true, n := true }, .leaf 2 { m := true, n := true },
       .gclose 1, .gclose 0, .gopen 3 true { m := true }, .gclose 3] := by decide

/-! ### who reads option bits after the parser -/

open RegexVerif.Generated in
/-- option bits that code outside the parser may look at -/
def postParserBits : List String := ["RightToLeft", "IgnoreCase", "ECMAScript", "RE2", "Unicode"]

open RegexVerif.Generated in
/-- functions of `syntax/tree.go` that compare two whole option words. They run inside `Parse`
    (`reduce`, `finalOptimize`), i.e. before the tree the certificate compares exists. -/
def parseTimeComparers : List String :=
  ["RegexNode.canBeMadeAtomic", "RegexNode.extractCommonPrefixOneNotoneSet",
   "RegexNode.extractCommonPrefixText", "RegexNode.reduceConcatenationWithAdjacentLoops"]

open RegexVerif.Generated in
/-- a use is harmless for the certificate when it tests/clears/sets only post-parser bits, moves the
    whole word on unchanged (into a new node, a variable, a callee that is itself listed), compares
    whole words at parse time, or is the debug printer `RegexNode.Description` -/
def harmless (u : OptionUse) : Bool :=
  if u.kind = "mask" ∨ u.kind = "clear" ∨ u.kind = "set" ∨ u.kind = "maskout" then
    u.mask.all (fun b => postParserBits.contains b) || (u.file = "syntax/tree.go" && u.fn = "RegexNode.Description")
  else if u.kind = "copy" ∨ u.kind = "pass" then true
  else if u.kind = "cmp" then u.file = "syntax/tree.go" && parseTimeComparers.contains u.fn
  else false

/-- **C18, certificate soundness fact.** Every use of a `.Options` / `.options` / `.RegexOptions`
    field outside `syntax/parser.go` — regenerated from the Go source on every run — is harmless in
    the sense above: after `Parse` nobody looks at the `m`, `s`, `n`, `x` bits, so two parses that
    agree up to these bits compile to the same program. -/
theorem options_readers_expected : Generated.optionReaders.all harmless = true := by
  decide

/-- the list is not empty and contains the readers one expects (writer, runner, match) -/
example : (Generated.optionReaders.map (·.file)).contains "syntax/writer.go" = true ∧
    (Generated.optionReaders.map (·.file)).contains "runner.go" = true ∧
    Generated.optionReaders.length ≥ 40 := by decide

/-- the run-time readers of `Regexp.options` (root package) look at RightToLeft, ECMAScript, RE2 only,
    apart from handing the word to the replacement parser -/
theorem regexp_options_runtime_readers :
    (Generated.optionReaders.filter (fun u => u.pkg = "regexp2")).all
      (fun u => u.kind = "pass" ∨ (u.kind = "mask" ∧ u.mask.all (fun b => ["RightToLeft", "ECMAScript", "RE2"].contains b))) = true := by
  decide

end RegexVerif.Props.C18
