/-
C18 — property theorems (stub: not built yet).
-/
namespace RegexVerif.Props.C18
end RegexVerif.Props.C18
