/-
C07 — property theorems (stub: not built yet).
-/
namespace RegexVerif.Props.C07
end RegexVerif.Props.C07
