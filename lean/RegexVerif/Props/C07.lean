/-
C07 — Successive matches are ordered, disjoint and terminate.

Property theorems about the model `RegexVerif.Model.Scan` of `Runner.scan`, `FindNextMatch`,
`findAllRunesIndex` and the adapter's `forEachStringMatch`, over an abstract matcher (`Engine`: for
every `\G` origin a single-position `attempt`, a candidate `finder`, the bump-along `after`, and
`MinRequiredLength`). `E.Sound rtl n` says the attempts are well-shaped (left-to-right a match
begins at the attempt position, right-to-left it ends there) and the accelerators are sound; it is
what C03/C04 establish for the real program, and what leg A checks on every table it feeds the model.
The model is tied to the Go code by correspondence leg A.
-/
import RegexVerif.Lemmas.Scan

namespace RegexVerif.Props.C07
open RegexVerif RegexVerif.Scan RegexVerif.Lemmas.Scan

/-! ### one step: FindNextMatch -/

/-- **Strict order.** If `m` is a match returned on an input of `n` runes and `FindNextMatch(m)`
    returns `m'`, then `m'` starts strictly later in scan order: at a larger index left-to-right, with
    a smaller end (the position its attempt started at) right-to-left. -/
theorem next_strict (E : Engine) (rtl : Bool) (n : Nat) (hE : E.Sound rtl n) (m m' : Hit)
    (hv : m.Valid rtl n) (h : nextMatch E rtl n m = some m') :
    if rtl then scanStart rtl m'.span < scanStart rtl m.span else scanStart rtl m.span < scanStart rtl m'.span := by
  have hb := (nextMatch_spec E rtl n hE m m' hv h).2
  cases rtl <;> simp [Hit.Before, scanStart, Hit.span] at hb ⊢ <;> omega

/-- **Disjoint spans.** The next match does not overlap the previous one: it begins at or after its
    end left-to-right, it ends at or before its beginning right-to-left. -/
theorem next_disjoint (E : Engine) (rtl : Bool) (n : Nat) (hE : E.Sound rtl n) (m m' : Hit)
    (hv : m.Valid rtl n) (h : nextMatch E rtl n m = some m') :
    if rtl then m'.index + m'.len ≤ m.index else m.index + m.len ≤ m'.index := by
  have hb := (nextMatch_spec E rtl n hE m m' hv h).2
  cases rtl <;> simp [Hit.Before] at hb ⊢ <;> omega

/-- The next match is again a proper result (inside the input, resuming at its scan-direction end), so
    the two theorems above apply along the whole iteration. -/
theorem next_valid (E : Engine) (rtl : Bool) (n : Nat) (hE : E.Sound rtl n) (m m' : Hit)
    (hv : m.Valid rtl n) (h : nextMatch E rtl n m = some m') : m'.Valid rtl n :=
  (nextMatch_spec E rtl n hE m m' hv h).1

/-- the first match is a proper result too -/
theorem first_valid (E : Engine) (rtl : Bool) (n : Nat) (hE : E.Sound rtl n) (m : Hit)
    (h : firstMatch E rtl n = some m) : m.Valid rtl n :=
  firstMatch_valid E rtl n hE m h

/-- **Each next match is an independent search from the previous end.** `FindNextMatch(m)` equals
    the naive scan (an attempt at every position in scan order, no acceleration) that starts at `m`'s
    end in scan direction — one position further when `m` is empty — with `\G` bound to that end. -/
theorem next_eq_fresh_search (E : Engine) (rtl : Bool) (n : Nat) (hE : E.Sound rtl n) (m : Hit)
    (hv : m.Valid rtl n) :
    nextMatch E rtl n m =
      (naive (E.attempt (scanEnd rtl m.span)) (scanEnd rtl m.span) (m.len : Int) rtl n).map (Hit.ofSpan rtl) := by
  have htp : m.textpos = scanEnd rtl m.span := hv.2
  unfold nextMatch
  rw [htp]
  exact scanAt_eq_naive E rtl n hE _ _ (by rw [← htp]; exact valid_textpos_le hv)

/-- The first match is the naive scan from the beginning in scan direction, `\G` bound there. -/
theorem first_eq_fresh_search (E : Engine) (rtl : Bool) (n : Nat) (hE : E.Sound rtl n) :
    firstMatch E rtl n =
      (naive (E.attempt (firstStart rtl n)) (firstStart rtl n) (-1) rtl n).map (Hit.ofSpan rtl) :=
  scanAt_eq_naive E rtl n hE _ _ (firstStart_le rtl n)

example : (exEngine exL).Sound false 3 := exEngine_sound false 3 exL exL_shape
example : (exEngine exR).Sound true 3 := exEngine_sound true 3 exR exR_shape
-- "baa", a*: after the empty match at 0 the next match is "aa" at 1; after it the empty match at 3
example : nextMatch (exEngine exL) false 3 ⟨0, 0, 0⟩ = some ⟨1, 2, 3⟩ := by decide
example : nextMatch (exEngine exL) false 3 ⟨1, 2, 3⟩ = some ⟨3, 0, 3⟩ := by decide
example : nextMatch (exEngine exL) false 3 ⟨3, 0, 3⟩ = none := by decide
example : nextMatch (exEngine exR) true 3 ⟨1, 2, 1⟩ = some ⟨1, 0, 1⟩ := by decide
example : (⟨0, 0, 0⟩ : Hit).Valid false 3 := by simp [Hit.Valid, scanEnd]

/-! ### the whole iteration -/

/-- **Order along the whole iteration.** In the sequence produced by iterating `FindNextMatch` every
    later match starts strictly after, and does not overlap, every earlier one. -/
theorem iterate_ordered (E : Engine) (rtl : Bool) (n : Nat) (hE : E.Sound rtl n) :
    (iterate E rtl n).Pairwise (Hit.Before rtl) := by
  unfold iterate
  cases hf : firstMatch E rtl n with
  | none => rw [iterFrom_none]; exact List.Pairwise.nil
  | some m => exact (iterFrom_spec E rtl n hE (n + 2) m (firstMatch_valid E rtl n hE m hf)).2.1

/-- **No match is yielded twice** — in particular no empty match: the spans of the sequence are
    pairwise different. -/
theorem no_repeated_empty (E : Engine) (rtl : Bool) (n : Nat) (hE : E.Sound rtl n) :
    ((iterate E rtl n).map Hit.span).Nodup := by
  rw [List.Nodup, List.pairwise_map]
  exact (iterate_ordered E rtl n hE).imp fun h => before_span_ne h

/-- **At most length + 1 matches.** -/
theorem iter_length_le (E : Engine) (rtl : Bool) (n : Nat) (hE : E.Sound rtl n) :
    (iterate E rtl n).length ≤ n + 1 := by
  unfold iterate
  cases hf : firstMatch E rtl n with
  | none => rw [iterFrom_none]; simp
  | some m =>
    have hv := firstMatch_valid E rtl n hE m hf
    have := (iterFrom_spec E rtl n hE (n + 2) m hv).2.2
    have := ahead_le rtl n m hv
    omega

/-- **Termination.** The iteration reaches `nil` within `n + 2` calls: allowing more steps yields no
    further match, so `iterate` (which stops after `n + 2`) is the complete sequence. -/
theorem iterate_fuel_irrelevant (E : Engine) (rtl : Bool) (n : Nat) (hE : E.Sound rtl n) (fuel : Nat)
    (hfuel : n + 2 ≤ fuel) : iterFrom E rtl n fuel (firstMatch E rtl n) = iterate E rtl n := by
  unfold iterate
  cases hf : firstMatch E rtl n with
  | none => rw [iterFrom_none, iterFrom_none]
  | some m =>
    have hv := firstMatch_valid E rtl n hE m hf
    have := ahead_le rtl n m hv
    exact iterFrom_fuel E rtl n hE fuel (n + 2) m hv (by omega) (by omega)

example : iterate (exEngine exL) false 3 = [⟨0, 0, 0⟩, ⟨1, 2, 3⟩, ⟨3, 0, 3⟩] := by decide
example : iterate (exEngine exR) true 3 = [⟨1, 2, 1⟩, ⟨1, 0, 1⟩, ⟨0, 0, 0⟩] := by decide

/-! ### find-all -/

/-- **Find-all = the iteration minus adjacent empty matches, truncated.** `FindAllRunesIndex(r, k)`
    (and `FindAllStringIndex` up to the byte mapping) returns exactly the FindNextMatch sequence
    without the empty matches that lie where the match before them ended in scan direction,
    truncated to `k` results (`k < 0`: all), and `nil` when that is empty (in particular for
    `k = 0`). Holds for any matcher: the loop re-runs the very same scans. -/
theorem findAll_eq (E : Engine) (rtl : Bool) (n : Nat) (k : Int) :
    findAll E rtl n k = findAllSpec rtl k (iterate E rtl n) :=
  findAll_eq_spec E rtl n k

/-- The adapter's `forEachStringMatch` (behind `FindAllString`, `FindAllStringSubmatch`,
    `FindAllStringSubmatchIndex`) delivers the same sequence, with the same nil-ness. -/
theorem compatAll_eq (E : Engine) (rtl : Bool) (n : Nat) (k : Int) :
    compatAll E rtl n k = findAllSpec rtl k (iterate E rtl n) :=
  compatAll_eq_spec E rtl n k

-- "baa", a*: left-to-right the empty match at 3 follows "aa" directly and is dropped; right-to-left
-- the empty match at 1 is (the case commit b1f352b repaired)
example : findAll (exEngine exL) false 3 (-1) = some [(0, 0), (1, 3)] := by decide
example : findAll (exEngine exR) true 3 (-1) = some [(1, 3), (0, 0)] := by decide
example : findAll (exEngine exR) true 3 1 = some [(1, 3)] := by decide
example : findAll (exEngine exR) true 3 0 = none := by decide
example : findAll (exEngine (fun _ => none)) false 3 2 = none := by decide
example : compatAll (exEngine exR) true 3 2 = some [(1, 3), (0, 0)] := by decide
example : findAllSpec true (-1) [⟨1, 2, 1⟩, ⟨1, 0, 1⟩, ⟨0, 0, 0⟩] = some [(1, 3), (0, 0)] := by decide

end RegexVerif.Props.C07
