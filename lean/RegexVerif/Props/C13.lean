/-
C13 — property theorems (stub: not built yet).
-/
namespace RegexVerif.Props.C13
end RegexVerif.Props.C13
