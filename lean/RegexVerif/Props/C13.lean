/-
C13 — The backtracking stack limit is honoured and otherwise invisible.

Three layers (see design.d/C13.md):
 1. facts about runner.go / syntax/code.go regenerated on every run (`Generated/Opcodes.lean`): what every
    `case` of the interpreter switch does to the backtracking stack, which opcodes `opcodeBacktracks` counts;
 2. the abstract capacity system `RegexVerif.Capacity` (moves `go`/`pop` over `(pc, used, cap)` with a storage
    check on every backward or in-place jump): the invariant `used + Φ(pc) ≤ cap`;
 3. the allocation arithmetic `alloc0 / grow / ensure` mirroring initMatch / growTrack / ensureStorage.
The abstract system is not an interpreter model: that every concrete opcode case is one of its moves is
tied to the Go source by layer 1, and the arithmetic is tied to the running code by the correspondence legs.
-/
import RegexVerif.Lemmas.Capacity
import RegexVerif.Lemmas.VMCapacity
import RegexVerif.Lemmas.Compose
import RegexVerif.Lemmas.StackCapacity
import RegexVerif.Lemmas.StackTypingEmit
import RegexVerif.Lemmas.StackHeightEmit

namespace RegexVerif.Props.C13
open RegexVerif RegexVerif.Capacity RegexVerif.Lemmas.Capacity RegexVerif.Generated

/-! ### 1. obligations regenerated from the Go source -/

/-- No path through any `case` of `executeDefault` pushes more than 4 slots on the backtracking stack,
    and no push helper (`trackPush` … `trackPushNeg2`) writes more than 4 slots.  This is the `4` of
    `runtrackcount*4` in `ensureStorage`. -/
theorem push_le_four :
    Opcodes.cases.all (fun c => decide (c.maxPush ≤ 4)) = true ∧
    Opcodes.pushHelperSlots.all (fun h => decide (h.2 ≤ 4)) = true := by decide

/-- The per-opcode weights the proofs use, as they come out of the current runner.go: for every opcode
    that pushes, `(opcode, most slots pushed by one visit, largest net growth of the stack by one visit)`.
    (3–8: the six single-character loops; 23 Lazybranch … 29 Lazybranchcount = 4; 30 Nullmark … 36 Forejump.)
    A change of any case body that alters its stack effect breaks this obligation. -/
theorem net_push_table :
    ((List.range Opcodes.numOpcodes).filterMap fun op =>
      if weight op = 0 ∧ netOf op = 0 then none else some (op, weight op, netOf op)) =
    [(3, 3, 3), (4, 3, 3), (5, 3, 3), (6, 3, 3), (7, 3, 3), (8, 3, 3),
     (23, 2, 2), (24, 3, 3), (25, 3, 3), (26, 1, 1), (27, 1, 1), (28, 3, 3), (29, 4, 4),
     (30, 1, 1), (31, 1, 1), (32, 2, 2), (33, 2, 2), (34, 1, 1), (36, 2, 2)] := by decide

/-- The stack effect of every case of the interpreter switch that touches the backtracking stack, as read from
    the current runner.go: `(opcode, 0 forward / 1 Back / 2 Back2, most slots pushed, fewest and most slots popped
    explicitly)`.  Any edit of a case body that changes what it pushes or pops breaks this obligation, which
    forces the weights and the invariant to be re-examined. -/
theorem case_fingerprints :
    (Opcodes.cases.filter (fun c => c.maxPush != 0 || c.maxPop != 0)).map
      (fun c => (c.op, c.flag, c.maxPush, c.minPop, c.maxPop)) =
    [(3, 0, 3, 0, 0), (3, 1, 3, 2, 2), (4, 0, 3, 0, 0), (4, 1, 3, 2, 2), (5, 0, 3, 0, 0), (5, 1, 3, 2, 2),
     (6, 0, 3, 0, 0), (6, 1, 3, 2, 2), (7, 0, 3, 0, 0), (7, 1, 3, 2, 2), (8, 0, 3, 0, 0), (8, 1, 3, 2, 2),
     (23, 0, 2, 0, 0), (23, 1, 0, 1, 1), (24, 0, 3, 0, 0), (24, 1, 2, 2, 2), (24, 2, 0, 1, 1),
     (25, 0, 3, 0, 0), (25, 1, 3, 2, 2), (25, 2, 0, 2, 2), (26, 0, 1, 0, 0), (27, 0, 1, 0, 0),
     (28, 0, 3, 0, 0), (28, 1, 3, 1, 1), (28, 2, 0, 2, 2), (29, 0, 4, 0, 0), (29, 1, 2, 3, 3), (29, 2, 0, 1, 1),
     (30, 0, 1, 0, 0), (31, 0, 1, 0, 0), (32, 0, 2, 0, 0), (32, 1, 0, 1, 1), (33, 0, 2, 0, 0), (33, 1, 0, 1, 1),
     (34, 0, 1, 0, 0), (36, 0, 2, 0, 0), (36, 1, 0, 1, 1)] := by decide

/-- The literals of the allocation model are those of runner.go: `ensureStorage` loops while
    `Runtrackpos < runtrackcount*4` around `growTrack`, `initMatch` allocates `max(64, 8*runtrackcount)`, `goTo` checks
    storage when `newpos <= codepos`, `backtrack` when `newpos < codepos` (model: `ensure`, `alloc0`, `checks`). -/
theorem storage_constants :
    Opcodes.ensureFactor = 4 ∧ Opcodes.allocFactor = 8 ∧ Opcodes.allocMin = 64 ∧
    Opcodes.goToGuard = "<=" ∧ Opcodes.backtrackGuard = "<" := by decide

/-- Shape of the case bodies that lets a case be read as `go k p t` / `pop`: `backtrack()` pops exactly
    the saved code position; within a case all pops come before all pushes; a case that pushes never
    ends in `backtrack()`; only UpdateBumpalong touches `runtrack` directly and it pushes nothing; `trackto`
    (cut back to a saved level) occurs only in Backjump and Forejump; `| Back` / `| Back2` cases exist only
    for opcodes that push, and every opcode that pushes has a `| Back` case to come back to; every case
    label is an opcode below `Mask`; `Mask` is `0b111111`. -/
theorem case_shape :
    Opcodes.backtrackPops = 1 ∧
    Opcodes.cases.all (fun c =>
      !c.popAfterPush && !c.pushOnBack &&
      (!c.raw || (c.op == Opcodes.opUpdateBumpalong && c.maxPush == 0)) &&
      (!c.trackto || c.op == Opcodes.opBackjump || c.op == Opcodes.opForejump) &&
      (c.flag == 0 || decide (0 < weight c.op)) &&
      decide (c.op < Opcodes.numOpcodes) && decide (c.flag ≤ 2)) = true ∧
    (List.range Opcodes.numOpcodes).all (fun op =>
      weight op == 0 || Opcodes.cases.any (fun c => c.op == op && c.flag == 1)) = true ∧
    Opcodes.numOpcodes ≤ Opcodes.flagMask + 1 ∧ Opcodes.flagMask = 63 := by decide

/-- Every opcode whose case pushes is counted by `opcodeBacktracks` (so contributes 1 to `TrackCount`) —
    with the single exception of Nullmark, which pushes one slot and is not counted.  Goto is counted and
    pushes nothing; the writer emits `Nullmark` only directly followed by a `Goto` (loops with minimum 0), which
    is what pays for it (`potential_le_need`). -/
theorem backtracks_cover_pushes :
    (∀ op, op < Opcodes.numOpcodes → 0 < weight op → (backtracks op = true ∨ op = Opcodes.opNullmark)) ∧
    weight Opcodes.opNullmark = 1 ∧ backtracks Opcodes.opNullmark = false ∧
    weight Opcodes.opGoto = 0 ∧ backtracks Opcodes.opGoto = true := by decide

/-- The same as one inequality per opcode, the form the summation lemma uses:
    `weight op + 4·[op = Goto] ≤ 4·[opcodeBacktracks op] + [op = Nullmark]`. -/
theorem op_bound_table : OpBoundTable := by unfold OpBoundTable; decide

/-- For every program (list of the opcodes of its instructions, any numbers at all) that has at least as
    many Goto as Nullmark instructions: everything its positions can push, Φ(0) = Σ weight, is at most
    `4 * TrackCount` — the amount of free space every storage check establishes. -/
theorem potential_le_need (prog : List Nat)
    (hpair : count Opcodes.opNullmark prog ≤ count Opcodes.opGoto prog) :
    phi (weights prog) 0 ≤ trackCount prog * 4 := by
  have := weights_sum_bound op_bound_table prog
  rw [phi_zero]
  omega

/-- non-vacuity: `(?:ab?)*c`-like program  Lazybranch Nullmark Goto One Oneloop Branchmark One Stop:
    potential 2+1+0+0+3+3 = 9 ≤ 4·4 -/
example : phi (weights [23, 30, 38, 9, 3, 24, 9, 40]) 0 = 9 ∧ trackCount [23, 30, 38, 9, 3, 24, 9, 40] = 4 ∧
    count Opcodes.opNullmark [23, 30, 38, 9, 3, 24, 9, 40] ≤ count Opcodes.opGoto [23, 30, 38, 9, 3, 24, 9, 40] := by
  decide

/-! ### 2. the abstract capacity system -/

/-- **Invariant.**  If every storage check that succeeds leaves `used + need ≤ cap` (and never shrinks the
    stack) and `need` covers the whole potential Φ(0), then `used + Φ(pc) ≤ cap` is preserved by every legal
    move: a forward move spends the weight of the position it leaves, a backward or in-place move goes through
    a check, a pop only frees space. -/
theorem track_inv {ws : List Nat} {need : Nat} {ens : Nat → Nat → Option Nat}
    (hens : EnsSpec need ens) (hneed : phi ws 0 ≤ need)
    {s s' : St} {m : Move} (hinv : TrackInv ws s) (hl : legal ws s.l m) (h : step ens s m = some s') :
    TrackInv ws s' :=
  step_inv hens hneed hinv hl h

/-- **No overflow.**  Start as `executeDefault` does (a check with nothing used), make any legal moves that
    the checks let through: when the next legal move executes, the slots in use at its deepest point — after its
    pushes, before any check — fit in the capacity.  In Go terms `Runtrackpos = cap - used ≥ 0` at every store
    `runtrack[Runtrackpos] = …`, so the index −1 (the panic that commit 23c41f0 removed) is unreachable. -/
theorem track_no_overflow {ws : List Nat} {need : Nat} {ens : Nat → Nat → Option Nat}
    (hens : EnsSpec need ens) (hneed : phi ws 0 ≤ need)
    {cap0 : Nat} {s0 s : St} (ms : List Move) (m : Move)
    (hstart : start ens cap0 = some s0)
    (hlegal : LegalRun ws s0.l (ms ++ [m]))
    (hrun : run ens s0 ms = some s) :
    peak s.l m ≤ s.cap := by
  have h0 := start_inv (ws := ws) hens hneed hstart
  have hl := legalRun_append ms m s0.l hlegal
  have hinv := run_inv hens hneed ms s0 s h0.1 hl.1 hrun
  have hsl := run_l ms s0 s hrun
  exact peak_le hinv (by rw [hsl]; exact hl.2)

/-- The same for the real check and the real sizing: any program with Goto/Nullmark paired as the writer pairs
    them, its `TrackCount`, any limit `L` (negative = none). -/
theorem track_no_overflow_program (prog : List Nat)
    (hpair : count Opcodes.opNullmark prog ≤ count Opcodes.opGoto prog) (L : Int)
    {s0 s : St} (ms : List Move) (m : Move)
    (hstart : start (ensOf L (trackCount prog)) (alloc0 L (trackCount prog)) = some s0)
    (hlegal : LegalRun (weights prog) s0.l (ms ++ [m]))
    (hrun : run (ensOf L (trackCount prog)) s0 ms = some s) :
    peak s.l m ≤ s.cap :=
  track_no_overflow (ensOf_spec L _) (potential_le_need prog hpair) ms m hstart hlegal hrun

/-- non-vacuity: the program above under limit 80; Lazybranch pushes 2, Nullmark 1, Goto jumps forward to
    Branchmark, which pushes 3 and loops back (a check), One, Oneloop pushes 3, Branchmark again, One fails and
    backtracks into Branchmark|Back (pops 2, pushes 2, goes on), the last One fails and backtracks again (a check).  The run is legal, passes
    all checks, and the capacity stays 64. -/
example :
    let prog := [23, 30, 38, 9, 3, 24, 9, 40]
    let ms := [Move.go 0 2 1, .go 0 1 2, .go 0 0 5, .go 0 3 3, .go 0 0 4, .go 0 3 5, .go 0 3 3, .pop 1 5, .go 2 2 6, .pop 1 5]
    ∃ s0 s, start (ensOf 80 (trackCount prog)) (alloc0 80 (trackCount prog)) = some s0 ∧
      LegalRun (weights prog) s0.l ms ∧ run (ensOf 80 (trackCount prog)) s0 ms = some s ∧
      s = ⟨⟨5, 10⟩, 64⟩ := by
  refine ⟨⟨⟨0, 0⟩, 64⟩, ⟨⟨5, 10⟩, 64⟩, ?_⟩
  decide

/-! ### 3. allocation arithmetic -/

/-- **What a successful `ensureStorage` establishes**: at least `4 * TrackCount` free slots, and the stack was
    not shrunk (it is unchanged if there was room already).  This is `EnsSpec (4·tc)`, the hypothesis of
    `track_inv`.  It was false before commit 23c41f0 (next example). -/
theorem ensure_establishes (L : Int) (tc len used : Nat) (h : (ensure L tc len used).2 = true) :
    used + tc * 4 ≤ (ensure L tc len used).1 ∧ len ≤ (ensure L tc len used).1 ∧
    ((ensure L tc len used).1 = len ∨ len < used + tc * 4) := by
  have := ensure_spec L tc len used
  simp only at this
  exact ⟨(this.2.1 h).1, this.1, (this.2.1 h).2⟩

/-- the old single-growth formula at L = 257, len = 256 (tc = 13, 210 slots used): it reports success with
    only 47 free slots instead of 52; the present loop reports the failure. -/
example : (ensureOld 257 13 256 210).2 = true ∧ ¬ (210 + 13 * 4 ≤ (ensureOld 257 13 256 210).1) ∧
    (ensure 257 13 256 210) = (257, false) := by decide

/-- and a success that needs two growths under a limit: 64 → 128 → 200 -/
example : ensure 200 13 64 100 = (200, true) ∧ ensure (-1) 13 64 100 = (256, true) := by decide

/-- the instance of the abstract check built from `ensure` meets the specification `track_inv` needs -/
theorem ensure_is_check (L : Int) (tc : Nat) : EnsSpec (tc * 4) (ensOf L tc) := ensOf_spec L tc

/-- **The limit is honoured**: with `L ≥ 0` the initial allocation is at most `L`, a growth never goes beyond `L`,
    a storage check (successful or not) leaves the length at most `L`, and so does every state of a run of the
    abstract system started by `start` from the initial allocation. -/
theorem cap_le_limit (L : Int) (h0 : 0 ≤ L) (tc : Nat) :
    (alloc0 L tc : Int) ≤ L ∧
    (∀ (len n : Nat), grow L len = some n → (n : Int) ≤ L) ∧
    (∀ (len used : Nat), (len : Int) ≤ L → ((ensure L tc len used).1 : Int) ≤ L) ∧
    (∀ s0 s ms, start (ensOf L tc) (alloc0 L tc) = some s0 → run (ensOf L tc) s0 ms = some s → (s.cap : Int) ≤ L) := by
  refine ⟨alloc0_le L tc h0, ?_, ?_, ?_⟩
  · intro len n h; exact (grow_some h).2.2.1 h0
  · intro len used hl; exact (ensure_spec L tc len used).2.2.2 (fun _ => hl) h0
  · intro s0 s ms hs hr
    apply run_cap_le h0 ms s0 s _ hr
    unfold start at hs
    cases he : ensOf L tc (alloc0 L tc) 0 with
    | none => simp [he] at hs
    | some c => simp [he] at hs; subst hs; exact ensOf_le h0 (alloc0_le L tc h0) he

example : alloc0 100 20 = 100 ∧ alloc0 (-1) 20 = 160 ∧ alloc0 1000 3 = 64 ∧ alloc0 0 3 = 0 ∧
    grow 100 64 = some 100 ∧ grow 100 100 = none ∧ grow (-1) 100 = some 200 ∧ grow 5 0 = some 1 ∧ grow 0 0 = none := by
  decide

/-- **Exact failure criterion**: a storage check with `used` slots in use succeeds iff there is no limit or
    `used + 4·tc ≤ L` — whatever the current length (as long as it respects the limit).  So whether a call fails
    does not depend on how large the pooled stack already is, and the smallest limit under which a call succeeds
    is (largest `used` at a check) + 4·tc: the threshold leg O/A measures on the real code. -/
theorem ensure_ok_iff (L : Int) (tc len used : Nat) (hlen : 0 ≤ L → (len : Int) ≤ L) :
    (ensure L tc len used).2 = true ↔ (L < 0 ∨ ((used + tc * 4 : Nat) : Int) ≤ L) :=
  Lemmas.Capacity.ensure_ok_iff L tc len used hlen

/-- when the check fails the stack has been grown to exactly `L` (and `L ≥ 0`) -/
theorem ensure_fail_len (L : Int) (tc len used : Nat) (hlen : (len : Int) ≤ L)
    (h : (ensure L tc len used).2 = false) : 0 ≤ L ∧ ((ensure L tc len used).1 : Int) = L := by
  have := (ensure_spec L tc len used).2.2.1 h
  exact ⟨this.1, this.2.2 hlen⟩

/-- **Raising the limit never turns a success into an error** (arithmetic level): if the check succeeds under
    `L` for some demand, it succeeds for the same demand under any larger limit and under no limit, whatever
    the lengths the two stacks have at that moment. -/
theorem limit_monotone (L L' : Int) (tc len len' used : Nat)
    (hlen : 0 ≤ L → (len : Int) ≤ L) (hlen' : 0 ≤ L' → (len' : Int) ≤ L')
    (hLL : L' < 0 ∨ (0 ≤ L ∧ L ≤ L'))
    (h : (ensure L tc len used).2 = true) : (ensure L' tc len' used).2 = true := by
  rw [ensure_ok_iff L tc len used hlen] at h
  rw [ensure_ok_iff L' tc len' used hlen']
  omega

example : (ensure 150 13 64 90).2 = true ∧ (ensure 151 13 151 90).2 = true ∧ (ensure 141 13 64 90).2 = false := by
  decide

/-- **The limit is otherwise invisible** (abstract level): the logical run — code position and stack depth
    after each move — is a function of the moves alone (`lrun`), not of the capacity, the limit or the check;
    a check can only stop the run (`none` = ErrBacktrackingStackLimit).  Hence a run that gets through under a
    limit `L` goes through exactly the logical states of the unlimited run, which never stops. -/
theorem limit_invisible (L L' : Int) (hL' : L' < 0) (tc : Nat) (s s' : St) (cap' : Nat) (ms : List Move)
    (h : run (ensOf L tc) s ms = some s') :
    s'.l = lrun s.l ms ∧
    ∃ s'', run (ensOf L' tc) ⟨s.l, cap'⟩ ms = some s'' ∧ s''.l = s'.l := by
  have h1 := run_l ms s s' h
  obtain ⟨s'', h2⟩ := run_total (ens := ensOf L' tc) (fun c u => ensOf_unlimited L' hL' tc c u) ms ⟨s.l, cap'⟩
  refine ⟨h1, s'', h2, ?_⟩
  rw [run_l ms _ s'' h2, h1]

/-- the same moves under limit 100 and without limit: same logical state, different capacity; under limit 60
    the run is cut off -/
example :
    let ms := [Move.go 0 2 1, .go 0 1 2, .go 0 0 5, .go 0 3 3, .pop 1 5] ++
      (List.replicate 10 [Move.go 0 3 3, .go 0 3 5]).flatten
    run (ensOf 100 4) ⟨⟨0, 0⟩, 64⟩ ms = some ⟨⟨5, 65⟩, 100⟩ ∧
    run (ensOf (-1) 4) ⟨⟨0, 0⟩, 64⟩ ms = some ⟨⟨5, 65⟩, 128⟩ ∧
    run (ensOf 60 4) ⟨⟨0, 0⟩, 60⟩ ms = none := by decide

/-! ------------------------------------------------------------------------------------------------
### 4. VM slice: the interpreter model refines the abstract capacity system

`RegexVerif.VM.step` (Model/VM.lean; tied to `executeDefault` iteration by iteration by leg W) is an
interpreter: which move comes next is computed, not given.  The theorems of this section close the gap named
in sections 1–2: every iteration is a legal move, so the invariant `used + Φ(pc) ≤ cap` holds along every run.
------------------------------------------------------------------------------------------------ -/

section VMRefinement
open RegexVerif.VM RegexVerif.Lemmas.VM RegexVerif.Lemmas.VMCapacity

/-- states of the interpreter together with the capacity of its backtracking stack: reachable from `(s0, cap0)`
    when every iteration that passes through `ensureStorage` (as reported by `VM.step`) replaces the capacity
    by the result of the check `ens cap used` (`none` — ErrBacktrackingStackLimit — ends the run) -/
inductive VMReach (ens : Nat → Nat → Option Nat) (p : Code.Prog) (env : Env) (s0 : VMState) (cap0 : Nat) :
    VMState → Nat → Prop
  | start : VMReach ens p env s0 cap0 s0 cap0
  | next {s s' : VMState} {cap cap' : Nat} {chk : Bool} :
      VMReach ens p env s0 cap0 s cap → VM.step p env s = .next s' chk →
      (if chk then ens cap s'.track.length = some cap' else cap' = cap) → VMReach ens p env s0 cap0 s' cap'

/-- **Refinement (C13 for the interpreter model).**  For a well-formed program, from a state satisfying the frame
    invariant, every iteration of the interpreter that continues is a legal move of the abstract capacity system
    over the weights `wsOf p` (per code position: the weight of the opcode in the table computed from the per-case
    fingerprints regenerated from runner.go): it pushes at most that weight, it pops at most what is there, its
    target and new depth are the move's, and it passes through `ensureStorage` exactly when the move does —
    `goTo` when the target is ≤ the position, `backtrack` when it is <. -/
theorem vm_step_is_move (p : Code.Prog) (env : Env) (s s' : VMState) (chk : Bool) (bs : List Nat)
    (hwf : WF p bs) (hinv : Inv p bs env s) (h : VM.step p env s = .next s' chk) :
    ∃ m : Move, legal (wsOf p) ⟨s.codepos, s.track.length⟩ m ∧
      lstep ⟨s.codepos, s.track.length⟩ m = ⟨s'.codepos, s'.track.length⟩ ∧
      checks ⟨s.codepos, s.track.length⟩ m = chk :=
  step_refines hwf hinv h

/-- **The interpreter never writes below index 0 of the backtracking stack.**  Any program with `wf` whose
    potential `Φ(0) = Σ weight` is covered by what a successful check leaves free (`need`), any check meeting
    `EnsSpec need`, any text and start position: start as `executeDefault` does (a check with nothing used), run
    any number of iterations; in every reachable state the slots in use fit in the capacity, and so do the slots
    in use after the next iteration's pushes, before its own check — `Runtrackpos = cap − used ≥ 0` at every
    store. -/
theorem vm_track_no_overflow (p : Code.Prog) (env : Env) (need : Nat) (ens : Nat → Nat → Option Nat)
    (hens : EnsSpec need ens) (hpot : phi (wsOf p) 0 ≤ need) (hwf : p.wf = true)
    (pos : Int) (h0 : 0 ≤ pos) (hn : pos ≤ env.len) (s0 : VMState) (hinit : VM.init p pos = .ok s0)
    (capA cap0 : Nat) (hstart : ens capA 0 = some cap0)
    (s : VMState) (cap : Nat) (hr : VMReach ens p env s0 cap0 s cap) :
    s.track.length ≤ cap ∧ ∀ s' chk, VM.step p env s = .next s' chk → s'.track.length ≤ cap := by
  obtain ⟨bs, hWF⟩ := wf_spec hwf
  obtain ⟨s0', hi', hinv0, hc0, ht0⟩ := init_inv (env := env) hWF pos h0 hn
  rw [hinit] at hi'
  cases hi'
  have key : ∃ bs, WF p bs ∧ Inv p bs env s ∧ TrackInv (wsOf p) ⟨⟨s.codepos, s.track.length⟩, cap⟩ := by
    induction hr with
    | start =>
      refine ⟨bs, hWF, hinv0, ?_⟩
      have hst : start ens capA = some ⟨⟨0, 0⟩, cap0⟩ := by simp [start, hstart]
      have := (start_inv (ws := wsOf p) hens hpot hst).1
      rw [hc0, ht0]
      exact this
    | @next s1 s2 c1 c2 chk hprev hstep hcap ih =>
      obtain ⟨bs', hW', hI', hT⟩ := ih
      have hI2 := step_ok hW' hI'
      rw [hstep] at hI2
      obtain ⟨m, hl, hls, hck⟩ := step_refines hW' hI' hstep
      refine ⟨bs', hW', hI2, ?_⟩
      refine step_inv (m := m) hens hpot hT hl ?_
      unfold Capacity.step
      simp only [hls, hck]
      cases chk with
      | true => simp only [ite_true] at hcap ⊢; simp [hcap]
      | false => simp only [Bool.false_eq_true, ite_false] at hcap ⊢; rw [hcap]
  obtain ⟨bs', hW', hI', hT⟩ := key
  refine ⟨by unfold TrackInv at hT; simp only at hT; omega, ?_⟩
  intro s' chk hstep
  obtain ⟨m, hl, hls, _⟩ := step_refines hW' hI' hstep
  have := peak_le hT hl
  unfold peak at this
  simp only [hls] at this
  exact this

/-- The same with the real check and the real sizing: `ens = ensOf L TrackCount` (the loop of `ensureStorage` around
    `growTrack` under the limit `L`, negative = none), `need = 4·TrackCount`; the hypothesis on the potential is the
    decidable `potOk p`, which leg W evaluates on every compiled program (main and bool-only) — it follows from the
    Nullmark/Goto pairing that leg P checks (`potential_le_need`). -/
theorem vm_track_no_overflow_program (p : Code.Prog) (env : Env) (L : Int) (hwf : p.wf = true)
    (hpot : potOk p = true) (pos : Int) (h0 : 0 ≤ pos) (hn : pos ≤ env.len) (s0 : VMState)
    (hinit : VM.init p pos = .ok s0) (capA cap0 : Nat) (hstart : ensOf L p.trackcount capA 0 = some cap0)
    (s : VMState) (cap : Nat) (hr : VMReach (ensOf L p.trackcount) p env s0 cap0 s cap) :
    s.track.length ≤ cap ∧ ∀ s' chk, VM.step p env s = .next s' chk → s'.track.length ≤ cap :=
  vm_track_no_overflow p env (p.trackcount * 4) (ensOf L p.trackcount) (ensure_is_check L p.trackcount)
    (by unfold potOk at hpot; simp only [decide_eq_true_eq] at hpot; omega) hwf pos h0 hn s0 hinit capA cap0
    hstart s cap hr

/-- non-vacuity: the compiled program of `(?:ab?)*c` (TrackCount 5): well-formed, potential 2+1+1+3+2 = 9 ≤ 20,
    and the first check of an attempt succeeds from the initial allocation of 64 slots -/
example : demo.wf = true ∧ potOk demo = true ∧ phi (wsOf demo) 0 = 9 ∧
    ensOf (-1) 5 (alloc0 (-1) 5) 0 = some 64 := by decide

end VMRefinement

/-! ------------------------------------------------------------------------------------------------
### 5. Composition with the writer: the capacity theorem for every pattern tree

`Writer.emit` is the program `syntax.Write` produces (Model/Writer.lean, tied word for word by leg Wr).  Both
hypotheses of `vm_track_no_overflow_program` — the interpreter's `Prog.wf` and `potOk` — are discharged here
for every tree with the decidable `Writer.treeWf` (what the parser guarantees; evaluated by leg Wr on every
parsed tree), for the main and the bool-only program.
------------------------------------------------------------------------------------------------ -/

section Emitted
open RegexVerif.VM RegexVerif.Lemmas.VM RegexVerif.Lemmas.VMCapacity RegexVerif.Writer RegexVerif.Lemmas.Compose

/-- **The potential of every emitted program is covered.**  `Σ wsOf` over the code positions of the emitted
    program is the sum of the opcode weights of its instructions (`Lemmas.Compose.wsOf_sum_progOf`), the writer
    pairs every `Nullmark` with a `Goto` and `TrackCount` counts the backtracking instructions
    (`Props.C01.emit_trackcount`), so `potential_le_need` gives `Φ(0) ≤ 4·TrackCount`. -/
theorem emit_potOk (ti : TreeInfo) (root : GoNode) (h : treeWf ti root = true) : potOk (emit ti root) = true :=
  Lemmas.Compose.emit_potOk potential_le_need ti root h

/-- the same for the bool-only program, which keeps the first program's `TrackCount` and has a subset of its
    backtracking instructions -/
theorem emitQuick_potOk (ti : TreeInfo) (root : GoNode) (h : treeWf ti root = true) (qp : Code.Prog)
    (hq : emitQuick ti root = some qp) : potOk qp = true :=
  Lemmas.Compose.emitQuick_potOk potential_le_need ti root h qp hq

/-- **No overflow of the backtracking stack for any pattern.**  For every well-formed tree, every stack limit `L`
    (negative = none), every text, start position in the text, `\G` origin and oracles: start the attempt of the
    emitted program as `executeDefault` does — the check `ensureStorage` with nothing used, from any current
    length `capA` of `runtrack` (`alloc0 L TrackCount` after `initMatch`, or whatever a pooled runner kept) —
    and run any number of iterations, every storage check replacing the capacity by the result of the modelled
    `ensureStorage` loop; in every reachable state the slots in use fit in the capacity, and so do the slots in
    use after the next iteration's pushes, before its own check: `Runtrackpos ≥ 0` at every store. -/
theorem emitted_track_no_overflow (ti : TreeInfo) (root : GoNode) (h : treeWf ti root = true)
    (env : Env) (L : Int) (pos : Int) (h0 : 0 ≤ pos) (hn : pos ≤ env.len) (s0 : VMState)
    (hinit : VM.init (emit ti root) pos = .ok s0) (capA cap0 : Nat)
    (hstart : ensOf L (emit ti root).trackcount capA 0 = some cap0) (s : VMState) (cap : Nat)
    (hr : VMReach (ensOf L (emit ti root).trackcount) (emit ti root) env s0 cap0 s cap) :
    s.track.length ≤ cap ∧ ∀ s' chk, VM.step (emit ti root) env s = .next s' chk → s'.track.length ≤ cap :=
  vm_track_no_overflow_program (emit ti root) env L (Lemmas.Compose.emit_vm_wf ti root h) (emit_potOk ti root h)
    pos h0 hn s0 hinit capA cap0 hstart s cap hr

/-- the same for the bool-only program -/
theorem emittedQuick_track_no_overflow (ti : TreeInfo) (root : GoNode) (h : treeWf ti root = true) (qp : Code.Prog)
    (hq : emitQuick ti root = some qp)
    (env : Env) (L : Int) (pos : Int) (h0 : 0 ≤ pos) (hn : pos ≤ env.len) (s0 : VMState)
    (hinit : VM.init qp pos = .ok s0) (capA cap0 : Nat)
    (hstart : ensOf L qp.trackcount capA 0 = some cap0) (s : VMState) (cap : Nat)
    (hr : VMReach (ensOf L qp.trackcount) qp env s0 cap0 s cap) :
    s.track.length ≤ cap ∧ ∀ s' chk, VM.step qp env s = .next s' chk → s'.track.length ≤ cap :=
  vm_track_no_overflow_program qp env L (Lemmas.Compose.emitQuick_vm_wf ti root h qp hq)
    (emitQuick_potOk ti root h qp hq) pos h0 hn s0 hinit capA cap0 hstart s cap hr

/-! non-vacuity: the trees of `(?:ab?)*c` (potential 9 ≤ 4·5) and `(a)|b\1` (potential 13 ≤ 4·9); the first check
    of an attempt succeeds from the initial allocation; `(x)y` has a bool-only program with the first program's
    `TrackCount` 5 and potential 5 -/
example : treeWf info1 tree1 = true ∧ potOk (emit info1 tree1) = true ∧ phi (wsOf (emit info1 tree1)) 0 = 9 ∧
    treeWf info2 tree2 = true ∧ phi (wsOf (emit info2 tree2)) 0 = 13 ∧ (emit info2 tree2).trackcount = 9 ∧
    ensOf (-1) 9 (alloc0 (-1) 9) 0 = some 72 ∧ ensOf 50 9 (alloc0 50 9) 0 = some 50 ∧ ensOf 30 9 (alloc0 30 9) 0 = none := by
  decide
example : ∃ s0, VM.init (emit info2 tree2) 0 = .ok s0 ∧
    VMReach (ensOf 50 (emit info2 tree2).trackcount) (emit info2 tree2) demoEnv s0 50 s0 50 :=
  ⟨_, rfl, .start⟩
example : ∃ qp, emitQuick info2 tree3 = some qp ∧ qp.trackcount = 5 ∧ phi (wsOf qp) 0 = 5 :=
  ⟨_, rfl, by decide, by decide⟩

end Emitted

/-! ------------------------------------------------------------------------------------------------
### 6. The other two stacks: the grouping stack (`runstack`) and the crawl stack (`runcrawl`)

An overflow of either is a store at index −1.  The crawl stack re-checks at every push.  The grouping stack is
re-sized only inside `ensureStorage` (ONE doubling, when fewer than `4·TrackCount` slots are free), but the potential
argument of sections 2–5 does NOT carry over: the Back / Back2 cases push the grouping stack (they restore what the
forward case popped — `stack_case_shape`) and leave by `backtrack()`, which checks only when it lands on a smaller
code position; frames of one instruction can be resumed many times in a row without a check.  What bounds the grouping
stack is its typing (Props/C10): its height is a static function of the code position, up to the two slots a
Back / Back2 case holds before it restores.  Consequence: for a typed program the doubling in `ensureStorage` never
happens once the slice has `H + 2 + 4·TrackCount` slots (`H` = largest height of an assigned type).
------------------------------------------------------------------------------------------------ -/

section Stacks
open RegexVerif.VM RegexVerif.Lemmas.VM RegexVerif.Lemmas.StackCapacity RegexVerif.Lemmas.StackTypingSound
open RegexVerif.Writer RegexVerif.Lemmas.Compose

/-- The sizing of the two stacks as read from the current runner.go: `initMatch` allocates `runtrackcount*8` grouping
    slots, at least 32, and 32 crawl slots; `ensureStorage` doubles the grouping stack in an `if` (not a loop) when
    `Runstackpos < runtrackcount*4`, `ensureStack(plus)` when `Runstackpos-plus < runtrackcount*4`; `doubleIntSlice`
    allocates `oldLen*2`, copies the old contents to the upper half and moves the position up by `oldLen`; `crawl`
    is `if runcrawlpos == 0 { double }; runcrawlpos--; store`; `stackPush` writes 1 slot, `stackPush2` 2.  These are
    the literals of `Capacity.stackAlloc0`, `crawlAlloc0`, `stackEnsure`, `stackEnsurePlus`, `doubleLen`, `crawlPush`. -/
theorem stack_storage_constants :
    Opcodes.stackAllocFactor = 8 ∧ Opcodes.stackAllocMin = 32 ∧ Opcodes.crawlAlloc = 32 ∧
    Opcodes.stackEnsureFactor = 4 ∧ Opcodes.ensureStackFactor = 4 ∧ Opcodes.doubleFactor = 2 ∧
    Opcodes.crawlChecksEveryPush = true ∧
    Opcodes.stackPushHelperSlots = [("stackPush", 1), ("stackPush2", 2)] := by decide

/-- Shape of the cases with respect to the grouping stack, from the regenerated fingerprints: the same 69 case labels
    as the backtracking-stack table; no case touches `runstack`/`Runstackpos` directly; in every case the pops precede
    the pushes (so the depth inside a case never exceeds the larger of the depths before and after it); no case pushes
    more than 2 slots; and the cases that push are exactly: forward `Branchmark` `Nullcount` `Setcount` `Branchcount`
    `Lazybranchcount` `Nullmark` `Setmark` `Setjump`, and — restoring on the way back — `Branchmark|Back2`,
    `Lazybranchmark|Back`, `|Back2`, `Branchcount|Back`, `|Back2`, `Lazybranchcount|Back`, `|Back2`, `Capturemark|Back`,
    `Getmark|Back`: nine Back / Back2 cases push, which is why there is no potential argument for this stack. -/
theorem stack_case_shape :
    Opcodes.stackCases.map (fun c => (c.op, c.flag)) = Opcodes.cases.map (fun c => (c.op, c.flag)) ∧
    Opcodes.stackCases.all (fun c => !c.raw && !c.popAfterPush && decide (c.maxPush ≤ 2)) = true ∧
    (Opcodes.stackPushSlots.filter (fun e => e.2.2 != 0)) =
      [(24, 0, 1), (24, 2, 1), (25, 1, 1), (25, 2, 1), (26, 0, 2), (27, 0, 2), (28, 0, 2), (28, 1, 2), (28, 2, 2),
       (29, 0, 2), (29, 1, 2), (29, 2, 2), (30, 0, 1), (31, 0, 1), (32, 1, 1), (33, 1, 1), (34, 0, 2)] := by decide

/-- **The model's cases push what the Go cases push.**  For every opcode and mode the number of slots the case of
    `VM.body` pushes on the grouping stack (`spushMax`) is the regenerated fingerprint of the `case` of `executeDefault`,
    and an iteration of the model lets the grouping stack grow by at most that. -/
theorem vm_stack_push_table :
    (∀ (o : Op) (m : Mode), spushMax o m = genStackPush o.toNat m.flag) ∧
    ∀ (p : Code.Prog) (env : Env) (s s' : VMState) (chk : Bool) (o : Op) (m : Mode),
      Op.ofNat? s.oper.op = some o → modeOf s.oper = some m → VM.step p env s = .next s' chk →
      s'.stack.length ≤ s.stack.length + spushMax o m :=
  ⟨spushMax_eq_generated, fun _ _ _ _ _ _ _ hop hm h => step_slen hop hm h⟩

example : spushMax .setcount .fwd = 2 ∧ spushMax .getmark .back = 1 ∧ spushMax .getmark .fwd = 0 ∧
    genStackPush Opcodes.opLazybranchcount 2 = 2 := by decide

/-- **What the single doubling gives.**  `initMatch` allocates at least `8·tc` (and at least 32) slots; the length never
    shrinks; when the slice is at least `4·tc` long — always, by the first two facts — ONE doubling re-establishes
    `4·tc` free slots; and there is no doubling at all while `4·tc` slots are free.  (For a slice shorter than `4·tc`
    one doubling would not be enough: second example.) -/
theorem stack_ensure_establishes (tc len used : Nat) :
    32 ≤ stackAlloc0 tc ∧ tc * 8 ≤ stackAlloc0 tc ∧ len ≤ stackEnsure tc len used ∧
    (tc * 4 ≤ len → used ≤ len → used + tc * 4 ≤ stackEnsure tc len used) ∧
    (used + tc * 4 ≤ len → stackEnsure tc len used = len) ∧ len ≤ stackEnsurePlus tc len used 1 :=
  ⟨(stackAlloc0_ge tc).1, (stackAlloc0_ge tc).2, stackEnsure_ge tc len used, stackEnsure_spec, stackEnsure_idle,
    stackEnsurePlus_ge tc len used 1⟩

example : stackAlloc0 5 = 40 ∧ stackEnsure 5 40 20 = 40 ∧ stackEnsure 5 40 21 = 80 ∧ stackAlloc0 2 = 32 := by decide
example : stackEnsure 10 8 8 = 16 ∧ ¬ (8 + 10 * 4 ≤ 16) := by decide

/-- states reachable from `s0`, with the length of `runstack`: every iteration that passes through `ensureStorage`
    (`chk`) applies the modelled `if` to the length, with the slots in use after the iteration's pushes -/
inductive VMReachS (tc : Nat) (p : Code.Prog) (env : Env) (s0 : VMState) (cap0 : Nat) : VMState → Nat → Prop
  | start : VMReachS tc p env s0 cap0 s0 cap0
  | next {s s' : VMState} {cap : Nat} {chk : Bool} :
      VMReachS tc p env s0 cap0 s cap → VM.step p env s = .next s' chk →
      VMReachS tc p env s0 cap0 s' (if chk then stackEnsure tc cap s'.stack.length else cap)

/-- **The interpreter never writes below index 0 of the grouping stack.**  Any well-formed program with a grouping-stack
    typing whose types have height at most `H`, any text and start position, any `runtrackcount`: start as
    `executeDefault` does (the check of `goTo(0)` on the empty stack, from a slice of `capA ≥ H + 2` slots) and run any
    number of iterations.  In every reachable state the grouping stack holds at most `H + 2` slots — a bound that does
    not depend on the text —, which fit in the capacity, and so do the slots in use after the next iteration
    (`Runstackpos = cap − used ≥ 0` at every store; inside a case the pops come first, `stack_case_shape`). -/
theorem vm_stack_no_overflow (p : Code.Prog) (hwf : p.wf = true) (bs : List Nat) (hb : p.boundaries = some bs)
    (a : StackTyping.Assign) (hty : TypingW p bs a) (H : Nat) (hH : HBound a H)
    (env : Env) (pos : Int) (h0 : 0 ≤ pos) (hn : pos ≤ env.len) (s0 : VMState) (hinit : VM.init p pos = .ok s0)
    (tc capA : Nat) (hcap : H + 2 ≤ capA) (s : VMState) (cap : Nat)
    (hr : VMReachS tc p env s0 (stackEnsure tc capA 0) s cap) :
    s.stack.length ≤ H + 2 ∧ H + 2 ≤ cap ∧ s.stack.length ≤ cap ∧
      ∀ s' chk, VM.step p env s = .next s' chk → s'.stack.length ≤ cap := by
  obtain ⟨bs', hWF⟩ := wf_spec hwf
  have e : bs' = bs := by have := hWF.bnd; rw [hb] at this; cases this; rfl
  subst e
  obtain ⟨s0', hi', hinv0⟩ := tinit_inv (env := env) (a := a) hWF pos h0 hn
  rw [hinit] at hi'
  cases hi'
  have hs0 : s0.stack = [] := by
    unfold VM.init at hinit
    cases hf : fetch p 0 with
    | error f => rw [hf] at hinit; cases hinit
    | ok w0 => rw [hf] at hinit; simp only [Except.map] at hinit; cases hinit; rfl
  have key : TInv p bs' env a s ∧ s.stack.length ≤ H + 2 ∧ H + 2 ≤ cap := by
    induction hr with
    | start => exact ⟨hinv0, by rw [hs0]; simp, by have := stackEnsure_ge tc capA 0; omega⟩
    | @next s1 s2 c1 chk _ hstep ih =>
      obtain ⟨hI, hS, hC⟩ := ih
      have hI2 := tstep_ok hWF hty hI
      rw [hstep] at hI2
      refine ⟨hI2, tstep_height hty hH hI hS hstep, ?_⟩
      cases chk with
      | true => simp only [ite_true]; have := stackEnsure_ge tc c1 s2.stack.length; omega
      | false => simpa using hC
  obtain ⟨hI, hS, hC⟩ := key
  exact ⟨hS, hC, by omega, fun s' chk hstep => by have := tstep_height hty hH hI hS hstep; omega⟩

/-- **The doubling of the grouping stack in `ensureStorage` is dead code for typed programs.**  If the slice has room for
    `H + 2` slots plus the `4·tc` the check asks for — `initMatch` allocates `8·tc`, so `H + 2 ≤ 4·tc` is enough —
    then along every run the length of `runstack` never changes: no check ever doubles it. -/
theorem vm_stack_never_grows (p : Code.Prog) (hwf : p.wf = true) (bs : List Nat) (hb : p.boundaries = some bs)
    (a : StackTyping.Assign) (hty : TypingW p bs a) (H : Nat) (hH : HBound a H)
    (env : Env) (pos : Int) (h0 : 0 ≤ pos) (hn : pos ≤ env.len) (s0 : VMState) (hinit : VM.init p pos = .ok s0)
    (tc capA : Nat) (hcap : H + 2 + tc * 4 ≤ capA) (s : VMState) (cap : Nat)
    (hr : VMReachS tc p env s0 (stackEnsure tc capA 0) s cap) : cap = capA := by
  have hstart : stackEnsure tc capA 0 = capA := stackEnsure_idle (by omega)
  rw [hstart] at hr
  induction hr with
  | start => rfl
  | @next s1 s2 c1 chk hprev hstep ih =>
    subst ih
    cases chk with
    | false => rfl
    | true =>
      simp only [ite_true]
      have hprev' : VMReachS tc p env s0 (stackEnsure tc c1 0) s1 c1 := by rw [hstart]; exact hprev
      have hle : s2.stack.length ≤ H + 2 := by
        have hall := vm_stack_no_overflow p hwf bs hb a hty H hH env pos h0 hn s0 hinit tc c1 (by omega) s2
          (if true then stackEnsure tc c1 s2.stack.length else c1) (.next hprev' hstep)
        exact hall.1
      exact stackEnsure_idle (by omega)

/-- **Every emitted program has a text-independent bound on its grouping stack, and never overflows it.**  For every
    well-formed tree there is an `H` (the largest height of the explicit typing `tyAt` of section "typing" of Props/C10)
    such that for every text, start position, `\G` origin, oracles and `runtrackcount`, from any slice of at least
    `H + 2` slots: in every reachable state of the attempt of the emitted program the grouping stack holds at most
    `H + 2` slots, within the capacity, before and after each iteration; and from a slice of `H + 2 + 4·tc` slots the
    length of `runstack` never changes (the doubling in `ensureStorage` is dead code).
    PARTIAL in that `H` is not given in closed form here; kept because it is more general in `capA` and `tc` (any current
    length of a pooled runner's slice, any `runtrackcount`).  The closed form `H + 2 ≤ 2·TrackCount` is
    `emit_height_closed`, and the full statement from the real first allocation is `emitted_stack_no_overflow` below.
    Leg W still evaluates `maxHeight + 2 ≤ 4·TrackCount` on every compiled program and compares `len(runstack)` after the
    attempts with `stackAlloc0 TrackCount` (key `W:stackcap`) as a cross-check. -/
theorem emitted_stack_no_overflow_partial (ti : TreeInfo) (root : GoNode) (h : treeWf ti root = true) :
    ∃ H : Nat, ∀ (env : Env) (pos : Int), 0 ≤ pos → pos ≤ env.len → ∀ (s0 : VMState),
      VM.init (emit ti root) pos = .ok s0 → ∀ (tc capA : Nat), H + 2 ≤ capA → ∀ (s : VMState) (cap : Nat),
      VMReachS tc (emit ti root) env s0 (stackEnsure tc capA 0) s cap →
      (s.stack.length ≤ H + 2 ∧ s.stack.length ≤ cap ∧
        ∀ s' chk, VM.step (emit ti root) env s = .next s' chk → s'.stack.length ≤ cap) ∧
      (H + 2 + tc * 4 ≤ capA → cap = capA) := by
  obtain ⟨bs, a, hb, hty⟩ := Lemmas.StackTypingEmit.emit_typing ti root h
  refine ⟨maxH a, fun env pos h0 hn s0 hinit tc capA hcap s cap hr => ⟨?_, fun hc => ?_⟩⟩
  · have := vm_stack_no_overflow _ (emit_vm_wf ti root h) bs hb a hty _ (hbound_maxH a) env pos h0 hn s0 hinit tc capA
      hcap s cap hr
    exact ⟨this.1, this.2.2.1, this.2.2.2⟩
  · exact vm_stack_never_grows _ (emit_vm_wf ti root h) bs hb a hty _ (hbound_maxH a) env pos h0 hn s0 hinit tc capA
      hc s cap hr

/-- the same for the bool-only program -/
theorem emittedQuick_stack_no_overflow_partial (ti : TreeInfo) (root : GoNode) (h : treeWf ti root = true)
    (qp : Code.Prog) (hq : emitQuick ti root = some qp) :
    ∃ H : Nat, ∀ (env : Env) (pos : Int), 0 ≤ pos → pos ≤ env.len → ∀ (s0 : VMState),
      VM.init qp pos = .ok s0 → ∀ (tc capA : Nat), H + 2 ≤ capA → ∀ (s : VMState) (cap : Nat),
      VMReachS tc qp env s0 (stackEnsure tc capA 0) s cap →
      (s.stack.length ≤ H + 2 ∧ s.stack.length ≤ cap ∧
        ∀ s' chk, VM.step qp env s = .next s' chk → s'.stack.length ≤ cap) ∧
      (H + 2 + tc * 4 ≤ capA → cap = capA) := by
  obtain ⟨bs, a, hb, hty⟩ := Lemmas.StackTypingEmit.emitQuick_typing ti root h qp hq
  refine ⟨maxH a, fun env pos h0 hn s0 hinit tc capA hcap s cap hr => ⟨?_, fun hc => ?_⟩⟩
  · have := vm_stack_no_overflow _ (emitQuick_vm_wf ti root h qp hq) bs hb a hty _ (hbound_maxH a) env pos h0 hn s0
      hinit tc capA hcap s cap hr
    exact ⟨this.1, this.2.2.1, this.2.2.2⟩
  · exact vm_stack_never_grows _ (emitQuick_vm_wf ti root h qp hq) bs hb a hty _ (hbound_maxH a) env pos h0 hn s0
      hinit tc capA hc s cap hr

/-- non-vacuity: `demo` (`(?:ab?)*c`) and the program of `(a)|b\1` are well-formed and typed by the executable check
    (so `Typing.toW (typed_spec …)` provides the hypotheses), with `maxHeight` 2 and 4: well below the 40 resp. 72 slots of the first allocation -/
example : demo.wf = true ∧ StackTyping.typed demo = true ∧ StackTyping.maxHeight demo = 2 ∧
    StackTyping.maxHeight (emit info2 tree2) = 4 ∧ stackAlloc0 demo.trackcount = 40 := by decide
example : ∃ s0, VM.init (emit info2 tree2) 0 = .ok s0 ∧
    VMReachS 9 (emit info2 tree2) demoEnv s0 (stackEnsure 9 72 0) s0 72 := ⟨_, rfl, .start⟩

/-- **Closed-form height of the grouping-stack typing of every emitted program.**  The main program of every
    well-formed tree has a typing (the explicit `tyAt` of Props/C10) all of whose types have height at most `H` with
    `H + 2 ≤ 2·TrackCount`: every slot of a type is pushed by a frame of an enclosing node, and every frame has at least
    half as many instructions counted by `opcodeBacktracks` as it has slots (Capture 1 slot / 2 counted; Loop 1 / 2 —
    `Nullmark` is not counted, its `Goto` is —; Loop with counter 2 / ≥ 2; Atomic 2 / 2; NegLook 2 / 4; PosLook 3 / 4;
    ExprCond 3 / ≥ 5; the leading `Lazybranch` of the program accounts for the `+ 2`).  Hence the first allocation of
    `initMatch`, `max 32 (8·TrackCount)` slots, has room for the deepest grouping stack (`H + 2`, the two extra slots a
    Back / Back2 case holds before it restores) plus the `4·TrackCount` free slots every `ensureStorage` asks for.  The same
    for the bool-only program, which keeps the first program's `TrackCount`. -/
theorem emit_height_closed (ti : TreeInfo) (root : GoNode) (h : treeWf ti root = true) :
    (∃ bs a H, (emit ti root).boundaries = some bs ∧ TypingW (emit ti root) bs a ∧ HBound a H ∧
      H + 2 ≤ 2 * (emit ti root).trackcount ∧
      H + 2 + (emit ti root).trackcount * 4 ≤ stackAlloc0 (emit ti root).trackcount) ∧
    ∀ qp, emitQuick ti root = some qp →
      ∃ bs a H, qp.boundaries = some bs ∧ TypingW qp bs a ∧ HBound a H ∧ H + 2 ≤ 2 * qp.trackcount ∧
        H + 2 + qp.trackcount * 4 ≤ stackAlloc0 qp.trackcount := by
  refine ⟨?_, fun qp hq => ?_⟩
  · obtain ⟨bs, a, H, h1, h2, h3, h4⟩ := Lemmas.StackHeightEmit.emit_height_le ti root h
    exact ⟨bs, a, H, h1, h2, h3, h4, Lemmas.StackHeightEmit.stackAlloc0_room h4⟩
  · obtain ⟨bs, a, H, h1, h2, h3, h4⟩ := Lemmas.StackHeightEmit.emitQuick_height_le ti root h qp hq
    exact ⟨bs, a, H, h1, h2, h3, h4, Lemmas.StackHeightEmit.stackAlloc0_room h4⟩

/-- **From the real first allocation the grouping stack of a typed program neither overflows nor grows**, provided the
    height bound fits: any well-formed program with a typing of height at most `H`, `H + 2 ≤ 2·TrackCount`, run with
    `runtrackcount = TrackCount` from the slice of `stackAlloc0 TrackCount` slots `initMatch` allocates.  In every
    reachable state the length of `runstack` is the initial one, at most `2·TrackCount` slots are in use and `4·TrackCount`
    are free; after the next iteration the slots in use fit and a storage check would not double.
    (`emitted_stack_no_overflow` discharges the hypotheses for every emitted program.) -/
theorem vm_stack_real_alloc (p : Code.Prog) (hwf : p.wf = true) (bs : List Nat) (hb : p.boundaries = some bs)
    (a : StackTyping.Assign) (hty : TypingW p bs a) (H : Nat) (hH : HBound a H) (hc : H + 2 ≤ 2 * p.trackcount)
    (env : Env) (pos : Int) (h0 : 0 ≤ pos) (hn : pos ≤ env.len) (s0 : VMState) (hinit : VM.init p pos = .ok s0)
    (s : VMState) (cap : Nat)
    (hr : VMReachS p.trackcount p env s0 (stackEnsure p.trackcount (stackAlloc0 p.trackcount) 0) s cap) :
    cap = stackAlloc0 p.trackcount ∧ s.stack.length ≤ 2 * p.trackcount ∧
      s.stack.length + p.trackcount * 4 ≤ cap ∧
      ∀ s' chk, VM.step p env s = .next s' chk →
        s'.stack.length ≤ cap ∧ stackEnsure p.trackcount cap s'.stack.length = cap := by
  have hroom := Lemmas.StackHeightEmit.stackAlloc0_room hc
  have hcap := vm_stack_never_grows p hwf bs hb a hty H hH env pos h0 hn s0 hinit p.trackcount _ hroom s cap hr
  have hall := vm_stack_no_overflow p hwf bs hb a hty H hH env pos h0 hn s0 hinit p.trackcount _ (by omega) s cap hr
  subst hcap
  refine ⟨rfl, by omega, by omega, fun s' chk hstep => ?_⟩
  have hnext := vm_stack_no_overflow p hwf bs hb a hty H hH env pos h0 hn s0 hinit p.trackcount _ (by omega) s'
    _ (.next (chk := chk) hr hstep)
  exact ⟨hall.2.2.2 s' chk hstep, stackEnsure_idle (by omega)⟩

example : demo.wf = true ∧ StackTyping.typed demo = true ∧ StackTyping.maxHeight demo + 2 ≤ 2 * demo.trackcount ∧
    stackEnsure demo.trackcount (stackAlloc0 demo.trackcount) 0 = 40 ∧ stackEnsure 5 40 (2 + 2) = 40 := by decide

/-- **No overflow and no growth of the grouping stack for any pattern.**  For every well-formed tree, every text, start
    position in the text, `\G` origin and oracles: start the attempt of the emitted program as `executeDefault` does, from
    the slice `initMatch` really allocates (`stackAlloc0 TrackCount = max 32 (8·TrackCount)` slots, `runtrackcount =
    TrackCount`), and run any number of iterations, every storage check applying the modelled `if` of `ensureStorage` to
    the length.  In every reachable state: the length of `runstack` is still the initial one (the doubling is dead code
    for every compiled program); the grouping stack holds at most `2·TrackCount` slots — a bound independent of the
    text —, and `4·TrackCount` slots are free; after the next iteration, whatever its case, the slots in use fit
    (`Runstackpos ≥ 0` at every store) and a check at that point would not double. -/
theorem emitted_stack_no_overflow (ti : TreeInfo) (root : GoNode) (h : treeWf ti root = true)
    (env : Env) (pos : Int) (h0 : 0 ≤ pos) (hn : pos ≤ env.len) (s0 : VMState)
    (hinit : VM.init (emit ti root) pos = .ok s0) (s : VMState) (cap : Nat)
    (hr : VMReachS (emit ti root).trackcount (emit ti root) env s0
      (stackEnsure (emit ti root).trackcount (stackAlloc0 (emit ti root).trackcount) 0) s cap) :
    cap = stackAlloc0 (emit ti root).trackcount ∧ s.stack.length ≤ 2 * (emit ti root).trackcount ∧
      s.stack.length + (emit ti root).trackcount * 4 ≤ cap ∧
      ∀ s' chk, VM.step (emit ti root) env s = .next s' chk →
        s'.stack.length ≤ cap ∧ stackEnsure (emit ti root).trackcount cap s'.stack.length = cap := by
  obtain ⟨bs, a, H, hb, hty, hH, hc⟩ := Lemmas.StackHeightEmit.emit_height_le ti root h
  exact vm_stack_real_alloc _ (emit_vm_wf ti root h) bs hb a hty H hH hc env pos h0 hn s0 hinit s cap hr

/-- the same for the bool-only program (`runtrackcount` is the first program's `TrackCount`, which the bool-only `Code`
    keeps) -/
theorem emittedQuick_stack_no_overflow (ti : TreeInfo) (root : GoNode) (h : treeWf ti root = true)
    (qp : Code.Prog) (hq : emitQuick ti root = some qp)
    (env : Env) (pos : Int) (h0 : 0 ≤ pos) (hn : pos ≤ env.len) (s0 : VMState)
    (hinit : VM.init qp pos = .ok s0) (s : VMState) (cap : Nat)
    (hr : VMReachS qp.trackcount qp env s0 (stackEnsure qp.trackcount (stackAlloc0 qp.trackcount) 0) s cap) :
    cap = stackAlloc0 qp.trackcount ∧ s.stack.length ≤ 2 * qp.trackcount ∧
      s.stack.length + qp.trackcount * 4 ≤ cap ∧
      ∀ s' chk, VM.step qp env s = .next s' chk →
        s'.stack.length ≤ cap ∧ stackEnsure qp.trackcount cap s'.stack.length = cap := by
  obtain ⟨bs, a, H, hb, hty, hH, hc⟩ := Lemmas.StackHeightEmit.emitQuick_height_le ti root h qp hq
  exact vm_stack_real_alloc _ (emitQuick_vm_wf ti root h qp hq) bs hb a hty H hH hc env pos h0 hn s0 hinit s cap hr

/-- non-vacuity: the trees of `(a)|b\1` (TrackCount 9, first allocation 72 slots, largest type 4 ≤ 2·9 − 2),
    `(?:ab?)*c` (TrackCount 5, 40 slots, largest type 2) and the bool-only program of `(x)y` (TrackCount 5 kept from the
    first program, no grouping-stack slot left); and a state of the first one reached after five iterations from the
    real allocation in which the grouping stack holds 4 slots — the largest height of its typing is attained -/
example : treeWf info2 tree2 = true ∧ (emit info2 tree2).trackcount = 9 ∧ stackAlloc0 9 = 72 ∧
    StackTyping.maxHeight (emit info2 tree2) = 4 ∧ treeWf info1 tree1 = true ∧ (emit info1 tree1).trackcount = 5 ∧
    stackAlloc0 5 = 40 ∧ StackTyping.maxHeight (emit info1 tree1) = 2 ∧
    (emitQuick info2 tree3).map (fun q => (q.trackcount, StackTyping.maxHeight q)) = some (5, 1) := by decide
example : ∃ s0 s cap, VM.init (emit info2 tree2) 0 = .ok s0 ∧
    VMReachS 9 (emit info2 tree2) demoEnv s0 (stackEnsure 9 (stackAlloc0 9) 0) s cap ∧ s.stack.length = 4 ∧
    cap = 72 := by
  have reach : ∀ (s0 : VMState) (n : Nat) (s : VMState) (cap : Nat) (r : VMState × Nat),
      VMReachS 9 (emit info2 tree2) demoEnv s0 (stackEnsure 9 (stackAlloc0 9) 0) s cap →
      Lemmas.StackHeightEmit.stackRunN 9 (emit info2 tree2) demoEnv n s cap = some r →
      VMReachS 9 (emit info2 tree2) demoEnv s0 (stackEnsure 9 (stackAlloc0 9) 0) r.1 r.2 := by
    intro s0 n
    induction n with
    | zero => intro s cap r hr h; simp only [Lemmas.StackHeightEmit.stackRunN, Option.some.injEq] at h; subst h; exact hr
    | succ n ih =>
      intro s cap r hr h
      simp only [Lemmas.StackHeightEmit.stackRunN] at h
      split at h
      · next s' chk hs => exact ih _ _ r (.next hr hs) h
      · cases h
  have h : ∃ s0, VM.init (emit info2 tree2) 0 = .ok s0 ∧
      (Lemmas.StackHeightEmit.stackRunN 9 (emit info2 tree2) demoEnv 5 s0 (stackEnsure 9 (stackAlloc0 9) 0)).map
        (fun r => (r.1.stack.length, r.2)) = some (4, 72) := ⟨_, rfl, by decide⟩
  obtain ⟨s0, h1, h2⟩ := h
  cases hr : Lemmas.StackHeightEmit.stackRunN 9 (emit info2 tree2) demoEnv 5 s0 (stackEnsure 9 (stackAlloc0 9) 0) with
  | none => rw [hr] at h2; cases h2
  | some r =>
    rw [hr] at h2
    simp only [Option.map_some, Option.some.injEq, Prod.mk.injEq] at h2
    exact ⟨s0, r.1, r.2, h1, reach s0 5 _ _ r .start hr, h2.1, h2.2⟩
example : ∃ qp s0, emitQuick info2 tree3 = some qp ∧ VM.init qp 0 = .ok s0 ∧
    VMReachS qp.trackcount qp demoEnv s0 (stackEnsure qp.trackcount (stackAlloc0 qp.trackcount) 0) s0 40 :=
  ⟨_, _, rfl, rfl, .start⟩

/-- states reachable from `s0`, with the length of `runcrawl`: the pushes of an iteration (`Capturemark` calls `crawl`
    once or twice; every other case that touches the crawl stack only pops) go through `crawl`'s check one by one -/
inductive VMReachC (p : Code.Prog) (env : Env) (s0 : VMState) (cap0 : Nat) : VMState → Nat → Prop
  | start : VMReachC p env s0 cap0 s0 cap0
  | next {s s' : VMState} {cap cap' used' : Nat} {chk : Bool} :
      VMReachC p env s0 cap0 s cap → VM.step p env s = .next s' chk →
      crawlPushN (s'.cap.crawl.length - s.cap.crawl.length) cap s.cap.crawl.length = some (cap', used') →
      VMReachC p env s0 cap0 s' cap'

/-- **The crawl stack never overflows**, for any program and run whatsoever: `crawl` checks at every push, and
    `doubleIntSlice` of a FULL, NON-EMPTY slice (`runcrawlpos == 0`, length ≥ 1 — `initMatch` allocates 32) yields as many
    free slots as there were used ones.  From any slice of at least one slot holding the current entries: in every
    reachable state the entries fit, and the pushes of the next iteration all find a free slot (`crawlPushN … ≠ none`:
    no store at index −1).  An EMPTY slice would never grow (`0 * 2 = 0`): third example. -/
theorem vm_crawl_no_overflow (p : Code.Prog) (env : Env) (s0 : VMState) (cap0 : Nat) (h0 : 0 < cap0)
    (hs0 : s0.cap.crawl.length ≤ cap0) (s : VMState) (cap : Nat) (hr : VMReachC p env s0 cap0 s cap) :
    s.cap.crawl.length ≤ cap ∧ 0 < cap ∧
      ∀ s' chk, VM.step p env s = .next s' chk →
        ∃ cap', crawlPushN (s'.cap.crawl.length - s.cap.crawl.length) cap s.cap.crawl.length =
          some (cap', s.cap.crawl.length + (s'.cap.crawl.length - s.cap.crawl.length)) ∧
          s'.cap.crawl.length ≤ cap' := by
  have key : s.cap.crawl.length ≤ cap ∧ 0 < cap := by
    induction hr with
    | start => exact ⟨hs0, h0⟩
    | @next s1 s2 c1 c2 u2 chk _ hstep hpush ih =>
      obtain ⟨l', e, g1, g2⟩ := crawlPushN_spec (s2.cap.crawl.length - s1.cap.crawl.length) c1 s1.cap.crawl.length ih.2 ih.1
      rw [e] at hpush
      cases hpush
      exact ⟨by omega, by omega⟩
  refine ⟨key.1, key.2, fun s' chk _ => ?_⟩
  obtain ⟨l', e, g1, g2⟩ := crawlPushN_spec (s'.cap.crawl.length - s.cap.crawl.length) cap s.cap.crawl.length key.2 key.1
  exact ⟨l', e, by omega⟩

example : crawlAlloc0 = 32 ∧ crawlPush 32 31 = some (32, 32) ∧ crawlPush 32 32 = some (64, 33) ∧
    crawlPushN 2 32 31 = some (64, 33) := by decide
example : crawlPush 0 0 = none := by decide
example : ∃ s0, VM.init demo 0 = .ok s0 ∧ VMReachC demo demoEnv s0 crawlAlloc0 s0 32 := ⟨_, rfl, .start⟩

end Stacks

end RegexVerif.Props.C13
