/-
C10 — property theorems (stub: not built yet).
-/
namespace RegexVerif.Props.C10
end RegexVerif.Props.C10
