/-
C10 — arbitrary patterns and inputs never panic: the interpreter part (VM slice).

`RegexVerif.VM` (Model/VM.lean) is a small-step model of `executeDefault` in which every Go slice access
that can be out of range is an explicit fault.  Leg W ties it to the running code: for every compiled
program it explores (main and bool-only) and every start position, the Go interpreter and the model go
through the same states iteration by iteration, and `Prog.wf` is evaluated on every program.

The theorems below say: for a well-formed program, from the state in which `executeDefault` starts, no
iteration ever raises a *structural* fault — `Codes[…]`, `Strings[…]`, `Sets[…]`, `Runtext[…]` out of range,
a Back / Back2 case popping slots that are not there, `backtrack()` on an empty stack, a capture number
outside the capture arrays, an operator without a `case` — for every input, every start position and
any number of iterations.  They hold for all well-formed programs, not only for those the writer emits.

What the first two sections do not exclude (the faults with `Fault.structural = false`): `stackUnderflow`,
`crawlUnderflow`, `tracktoRange`, `textposRange`, `capRange`.  These depend on the discipline of the grouping stack
(what kind of value sits where), which is a property of the programs the writer emits, not of `wf`.  The last
section ("The grouping-stack typing is a guarantee") excludes them too: for every program with a stack typing —
hence (`emit_has_typing`) for every program the writer emits — no run ends in any fault (`emitted_no_fault`).
-/
import RegexVerif.Props.C10Parser
import RegexVerif.Props.C10Chain
import RegexVerif.Lemmas.VM
import RegexVerif.Lemmas.Compose
import RegexVerif.Lemmas.StackTyping
import RegexVerif.Lemmas.StackTypingStep
import RegexVerif.Lemmas.StackTypingEmit

namespace RegexVerif.Props.C10
open RegexVerif RegexVerif.VM RegexVerif.Code RegexVerif.Lemmas.VM

/-- a state of an attempt of a well-formed program that satisfies the frame invariant
    (`Lemmas.VM.Inv`): the code position is an instruction boundary and the operator is the instruction
    there; the text position is inside `[0, len]`; the backtracking stack is a sequence of whole frames,
    each with exactly the data slots its Back / Back2 case pops and with saved text positions from which
    that case reads only inside the text, on top of the frame of the `Lazybranch` at code position 0 -/
def Safe (p : Prog) (env : Env) (s : VMState) : Prop := ∃ bs, WF p bs ∧ Inv p bs env s

/-- **(a) what `Prog.wf` checks.**  If the decidable check `p.wf` succeeds (leg W evaluates it on every
    compiled program), then there is a list `bs` of instruction boundaries such that every instruction is a
    known opcode without Back/Back2 bits, lies inside the code array together with its operands, is followed by
    another instruction unless it is `Stop`, has its string / set / capture-slot operands in range and its jump
    target in `bs`; code position 0 is a `Lazybranch` whose target is a `Stop`. -/
theorem wf_sound (p : Prog) (h : p.wf = true) : ∃ bs, WF p bs := wf_spec h

/-- **The start state of an attempt satisfies the invariant** (`executeDefault` after its `goTo(0)`), for every
    start position inside the text. -/
theorem attempt_starts_safe (p : Prog) (env : Env) (pos : Int) (h : p.wf = true)
    (h0 : 0 ≤ pos) (hn : pos ≤ env.len) : ∃ s0, init p pos = .ok s0 ∧ Safe p env s0 := by
  obtain ⟨bs, hwf⟩ := wf_spec h
  obtain ⟨s0, hi, hinv, _, _⟩ := init_inv (env := env) hwf pos h0 hn
  exact ⟨s0, hi, bs, hwf, hinv⟩

/-- **(b) No structural fault, one step.**  From a safe state, an iteration of the interpreter loop never
    indexes `Codes`, `Strings`, `Sets` or the text out of range, never pops backtracking slots that are not
    there, never calls `backtrack()` on an empty stack, never uses a capture number outside the capture arrays
    and never meets an operator without a `case`. -/
theorem step_no_structural_fault (p : Prog) (env : Env) (s : VMState) (hs : Safe p env s) (f : Fault)
    (h : step p env s = .fault f) : f.structural = false := by
  obtain ⟨bs, hwf, hinv⟩ := hs
  have := step_ok hwf hinv
  rw [h] at this
  exact this

/-- **(b) The invariant is preserved.** -/
theorem step_preserves_safe (p : Prog) (env : Env) (s s' : VMState) (chk : Bool) (hs : Safe p env s)
    (h : step p env s = .next s' chk) : Safe p env s' := by
  obtain ⟨bs, hwf, hinv⟩ := hs
  have := step_ok hwf hinv
  rw [h] at this
  exact ⟨bs, hwf, this⟩

/-- **(b) No structural fault, ever.**  However long the interpreter runs from a safe state (any fuel), the
    run does not end in a structural fault: it returns, is still running when the fuel ends, or stops at one
    of the faults that depend on the grouping-stack discipline. -/
theorem run_no_structural_fault (p : Prog) (env : Env) : ∀ (fuel : Nat) (s : VMState), Safe p env s →
    ∀ f, (run p env fuel s).1 = .fault f → f.structural = false := by
  intro fuel
  induction fuel with
  | zero => intro s _ f h; simp [run] at h
  | succ fuel ih =>
    intro s hs f h
    unfold run at h
    cases hst : step p env s with
    | fault g =>
      rw [hst] at h
      simp only [Final.fault.injEq] at h
      subst h
      exact step_no_structural_fault p env s hs g hst
    | stop s' => rw [hst] at h; simp at h
    | next s' chk =>
      rw [hst] at h
      exact ih s' (step_preserves_safe p env s s' chk hs hst) f h

/-- **(b) An attempt of a well-formed program never faults structurally**: any program with `wf`, any text,
    any start position in the text, any `\G` origin, any oracles, any number of iterations. -/
theorem attempt_no_structural_fault (p : Prog) (env : Env) (pos : Int) (h : p.wf = true)
    (h0 : 0 ≤ pos) (hn : pos ≤ env.len) (fuel : Nat) :
    ∃ s0, init p pos = .ok s0 ∧ ∀ f, (run p env fuel s0).1 = .fault f → f.structural = false := by
  obtain ⟨s0, hi, hs⟩ := attempt_starts_safe p env pos h h0 hn
  exact ⟨s0, hi, run_no_structural_fault p env fuel s0 hs⟩

/-! ### non-vacuity: the compiled program of `(?:ab?)*c` on "ababc" -/

example : demo.wf = true := by decide
example : demo.boundaries = some [0, 2, 3, 4, 6, 8, 11, 13, 15, 18] := by decide

/-- the hypotheses of the theorems are met: the start state at position 0 is safe -/
example : ∃ s0, init demo 0 = .ok s0 ∧ Safe demo demoEnv s0 :=
  attempt_starts_safe demo demoEnv 0 (by decide) (by decide) (by decide)

/-- the attempt at 0: 16 iterations (as the Go trace shows), a match of `[0, 5)`, final text position 5 -/
example : (match init demo 0 with
    | .ok s0 => match run demo demoEnv 100 s0 with
      | (.done s, n) => (n, matched s, s.textpos, MatchBuilder.matchCapture s.cap.m)
      | _ => (0, false, 0, (0, 0))
    | .error _ => (0, false, 0, (0, 0))) = (16, true, 5, (0, 5)) := by decide

/-- the attempt at 1 fails after backtracking through the root frame: 13 iterations, empty stack at `Stop` -/
example : (match init demo 1 with
    | .ok s0 => match run demo demoEnv 100 s0 with
      | (.done s, n) => (n, matched s, s.track.length)
      | _ => (0, true, 0)
    | .error _ => (0, true, 0)) = (13, false, 0) := by decide

/-- a program without `Stop` -/
def broken : Prog := { demo with codes := #[9, 97] }

/-- the fault channel is real: a program that is not well-formed runs off the code array -/
example : broken.wf = false ∧
    (match init broken 0 with
     | .ok s0 => (match (run broken demoEnv 10 s0).1 with
        | .fault .codeIndex => true
        | _ => false)
     | .error _ => false) = true := by decide

/-! ------------------------------------------------------------------------------------------------
### Composition with the writer: no per-program hypothesis left

`Writer.emit ti root` (Model/Writer.lean) is the program `syntax.Write` produces for the reduced tree `root`
(tied to the Go writer word for word by leg Wr), `Writer.treeWf` the decidable tree well-formedness the parser
guarantees (leg Wr evaluates it on every parsed tree).  The theorems of this section discharge the hypothesis
`p.wf = true` of the theorems above for every program the writer emits, main and bool-only: the safety
statement holds for every pattern tree, not per compiled program.
------------------------------------------------------------------------------------------------ -/

section Emitted
open RegexVerif.Writer RegexVerif.Lemmas.Compose

/-- **The writer emits well-formed programs.**  For every tree with `treeWf` the emitted program passes the
    interpreter's own check `Prog.wf`: the code array splits into known instructions of the regenerated lengths,
    no opcode word has a Back/Back2 bit or is `Prune`, every instruction but `Stop` is followed by another one,
    string / set / capture operands are in range (`Capturemark`: slot or −1, not both −1), every jump lands on an
    instruction, position 0 is a `Lazybranch` whose target is the final `Stop`. -/
theorem emit_vm_wf (ti : TreeInfo) (root : GoNode) (h : treeWf ti root = true) : (emit ti root).wf = true :=
  Lemmas.Compose.emit_vm_wf ti root h

/-- the same for the bool-only program (`makeQuickCode`: the second writer's code with the first program's
    tables, `TrackCount` and `Capsize`), whenever it exists -/
theorem emitQuick_vm_wf (ti : TreeInfo) (root : GoNode) (h : treeWf ti root = true) (qp : Prog)
    (hq : emitQuick ti root = some qp) : qp.wf = true :=
  Lemmas.Compose.emitQuick_vm_wf ti root h qp hq

/-- **No structural fault for any pattern.**  For every well-formed tree, every text, every start position inside
    the text, every `\G` origin, every oracle set (`env`) and any number of iterations: the attempt of the emitted
    program starts, and its run never ends in `Codes[…]`, `Strings[…]`, `Sets[…]`, `Runtext[…]` out of range, a
    Back / Back2 case popping slots that are not there, `backtrack()` on an empty stack, a capture number outside
    the capture arrays or an operator without a `case`. -/
theorem emitted_no_structural_fault (ti : TreeInfo) (root : GoNode) (h : treeWf ti root = true)
    (env : Env) (pos : Int) (h0 : 0 ≤ pos) (hn : pos ≤ env.len) (fuel : Nat) :
    ∃ s0, init (emit ti root) pos = .ok s0 ∧
      ∀ f, (run (emit ti root) env fuel s0).1 = .fault f → f.structural = false :=
  attempt_no_structural_fault (emit ti root) env pos (emit_vm_wf ti root h) h0 hn fuel

/-- the same for the bool-only program -/
theorem emittedQuick_no_structural_fault (ti : TreeInfo) (root : GoNode) (h : treeWf ti root = true) (qp : Prog)
    (hq : emitQuick ti root = some qp) (env : Env) (pos : Int) (h0 : 0 ≤ pos) (hn : pos ≤ env.len) (fuel : Nat) :
    ∃ s0, init qp pos = .ok s0 ∧ ∀ f, (run qp env fuel s0).1 = .fault f → f.structural = false :=
  attempt_no_structural_fault qp env pos (emitQuick_vm_wf ti root h qp hq) h0 hn fuel

/-! non-vacuity: the trees of `(?:ab?)*c`, `(a)|b\1` and `(x)y` (Lemmas/Compose.lean; their emitted code is what
    `regexp2.MustCompile` produces) are well-formed; the first emits the program `demo` of the examples above; the
    third has a bool-only program -/
example : treeWf info1 tree1 = true ∧ treeWf info2 tree2 = true ∧ treeWf info2 tree3 = true := by decide
example : (emit info1 tree1).codes = demo.codes ∧ (emit info1 tree1).wf = true ∧ (emit info2 tree2).wf = true := by
  decide
example : ∃ s0, init (emit info2 tree2) 1 = .ok s0 ∧
    ∀ f, (run (emit info2 tree2) demoEnv 1000 s0).1 = .fault f → f.structural = false :=
  emitted_no_structural_fault info2 tree2 (by decide) demoEnv 1 (by decide) (by decide) 1000
example : ∃ qp, emitQuick info2 tree3 = some qp ∧ qp.wf = true ∧ qp.codes.toList = [23, 10, 31, 9, 120, 9, 121, 32, 0, -1, 40] :=
  ⟨_, rfl, by decide, by decide⟩

/-! ### the grouping-stack typing (Model/StackTyping.lean)

`StackTyping.typed p` — a height and a kind (text position / mark / counter / saved backtracking depth / saved
crawl depth) for every grouping-stack slot at every instruction boundary, consistent along fall-through, jumps and
the continuations of the Back cases — is decidable and leg W evaluates it on every compiled program
(`W:untyped:<opcode>`).  That a typed well-formed program never raises any fault is proved in the last section of
this file (`typed_no_discipline_fault`); the examples here show the check is not vacuous: the emitted programs are
typed, and a program that is `wf` and `potOk` but untyped runs into `stackUnderflow`. -/

example : StackTyping.typed demo = true ∧ StackTyping.typed (emit info2 tree2) = true ∧
    StackTyping.maxHeight (emit info2 tree2) = 4 ∧
    (emitQuick info2 tree3).map StackTyping.typed = some true := by decide

example : Lemmas.StackTyping.untypedDemo.wf = true ∧ potOk Lemmas.StackTyping.untypedDemo = true ∧
    StackTyping.typed Lemmas.StackTyping.untypedDemo = false ∧
    StackTyping.typeReport Lemmas.StackTyping.untypedDemo = 1 + Generated.Opcodes.opGetmark ∧
    (match init Lemmas.StackTyping.untypedDemo 0 with
     | .ok s0 => (match (run Lemmas.StackTyping.untypedDemo demoEnv 10 s0).1 with
        | .fault .stackUnderflow => true
        | _ => false)
     | .error _ => false) = true := by decide

end Emitted

/-! ------------------------------------------------------------------------------------------------
### The grouping-stack typing is a guarantee (slice-typing)

`Lemmas/StackTypingSound.lean`, `StackTypingCases.lean`, `StackTypingStep.lean`: an invariant over `step` that adds to
the frame invariant above — the grouping stack has, at every instruction boundary, a refined type below the one the
typing assigns there (text positions in `[0, len]`, marks in `[-1, len]`, the two slots of a `Setjump` holding exactly
the crawl depth and the backtracking depth at which it ran); the backtracking stack is a chain in which every frame
knows, through its saved code position and the typing there, the stack type its Back / Back2 case will find and the
type and crawl depth it leaves to the frame below.
------------------------------------------------------------------------------------------------ -/

section TypingSound
open RegexVerif.Lemmas.StackTyping RegexVerif.Lemmas.StackTypingSound

/-- **(A) Soundness of the typing, Prop-level.**  A well-formed program with ANY grouping-stack typing `a`
    (`TypingW`: `[]` at position 0, closed and consistent under the transfer function `flow`; `Lemmas.StackTyping.Typing`,
    what `StackTyping.typed` checks, implies it): for every text, start position in the text, `\G` origin, oracle set and
    number of iterations, the attempt starts and its run never ends in a fault of ANY kind — none of the eight structural
    faults, no `stackUnderflow`, `tracktoRange`, `textposRange`, `crawlUnderflow`, `capRange`: the run returns, or is still
    running when the fuel ends. -/
theorem typing_sound (p : Prog) (h : p.wf = true) (bs : List Nat) (hb : p.boundaries = some bs)
    (a : StackTyping.Assign) (hty : TypingW p bs a)
    (env : Env) (pos : Int) (h0 : 0 ≤ pos) (hn : pos ≤ env.len) (fuel : Nat) :
    ∃ s0, init p pos = .ok s0 ∧ ∀ f, (run p env fuel s0).1 ≠ .fault f := by
  obtain ⟨bs', hwf⟩ := wf_spec h
  have e : bs' = bs := by have := hwf.bnd; rw [hb] at this; cases this; rfl
  subst e
  obtain ⟨s0, hi, hinv⟩ := tinit_inv (env := env) (a := a) hwf pos h0 hn
  refine ⟨s0, hi, fun f hf => ?_⟩
  obtain ⟨h1, h2⟩ := trun_ok hwf hty fuel s0 hinv f hf
  exact no_fault_left f h1 h2

/-- **(A) Soundness of the evaluated check.**  `StackTyping.typed p = true` (what leg W evaluates on every compiled
    program) and `p.wf = true`: no run of any attempt ends in a fault.  (The task's `typed_no_discipline_fault` asked for
    `stackUnderflow`, `tracktoRange`, `textposRange`; this excludes all thirteen kinds.) -/
theorem typed_no_discipline_fault (p : Prog) (h : p.wf = true) (ht : StackTyping.typed p = true)
    (env : Env) (pos : Int) (h0 : 0 ≤ pos) (hn : pos ≤ env.len) (fuel : Nat) :
    ∃ s0, init p pos = .ok s0 ∧ ∀ f, (run p env fuel s0).1 ≠ .fault f := by
  obtain ⟨bs, hb, hty⟩ := typed_spec ht
  exact typing_sound p h bs hb _ (Typing.toW hty) env pos h0 hn fuel

/-- non-vacuity: `demo` (`(?:ab?)*c`) and the program of `(a)|b\1` are well-formed and typed — the theorem applies
    to them on any input —, and the hypothesis `typed` cannot be dropped: `untypedDemo` (`Lazybranch 3; Getmark; Stop`)
    is `wf`, not typed, and its attempt ends in `stackUnderflow` (example above) -/
example : ∃ s0, init demo 0 = .ok s0 ∧ ∀ f, (run demo demoEnv 1000 s0).1 ≠ .fault f :=
  typed_no_discipline_fault demo (by decide) (by decide) demoEnv 0 (by decide) (by decide) 1000
example : ∃ s0, init (Writer.emit Lemmas.Compose.info2 Lemmas.Compose.tree2) 1 = .ok s0 ∧
    ∀ f, (run (Writer.emit Lemmas.Compose.info2 Lemmas.Compose.tree2) demoEnv 1000 s0).1 ≠ .fault f :=
  typed_no_discipline_fault _ (by decide) (by decide) demoEnv 1 (by decide) (by decide) 1000

/-- **(B) Every emitted program has a grouping-stack typing.**  For every tree with `treeWf` an explicit assignment —
    the stack type as a structural function of the tree position (`Lemmas.StackTypingEmit.tyAt`: each node's code maps
    a stack of type `σ` at its start to `σ` at its end, with the intermediate shapes of the writer's frames) — satisfies
    `TypingW` for the program `syntax.Write` produces.
    NOT proved: `StackTyping.typed (emit ti root) = true` (that the executable inference finds a typing — completeness
    of `infer`); it is not needed for the guarantee below and stays evaluated by leg W. -/
theorem emit_has_typing (ti : Writer.TreeInfo) (root : Writer.GoNode) (h : Writer.treeWf ti root = true) :
    ∃ bs a, (Writer.emit ti root).boundaries = some bs ∧ TypingW (Writer.emit ti root) bs a :=
  Lemmas.StackTypingEmit.emit_typing ti root h

/-- the same for the bool-only program -/
theorem emitQuick_has_typing (ti : Writer.TreeInfo) (root : Writer.GoNode) (h : Writer.treeWf ti root = true)
    (qp : Prog) (hq : Writer.emitQuick ti root = some qp) : ∃ bs a, qp.boundaries = some bs ∧ TypingW qp bs a :=
  Lemmas.StackTypingEmit.emitQuick_typing ti root h qp hq

/-- **(C) No interpreter fault for any pattern.**  For every well-formed tree, every text, every start position inside
    the text, every `\G` origin, every oracle set and any number of iterations: the attempt of the emitted program
    starts and its run never ends in a fault — none of the thirteen kinds of `VM.Fault`: no `Codes` / `Strings` / `Sets`
    / `Runtext` access out of range, no pop below the bottom of the backtracking, grouping or crawl stack, no `trackto`
    to a depth that is not a frame boundary, no text position outside `[0, len]` taken from the grouping stack, no capture
    slot outside the arrays, no backreference reading outside the text, no operator without a `case`.
    No per-program hypothesis is left; what remains trusted is the tie model ↔ Go (legs Wr and W) and that the parser
    produces `treeWf` trees (evaluated by leg Wr). -/
theorem emitted_no_fault (ti : Writer.TreeInfo) (root : Writer.GoNode) (h : Writer.treeWf ti root = true)
    (env : Env) (pos : Int) (h0 : 0 ≤ pos) (hn : pos ≤ env.len) (fuel : Nat) :
    ∃ s0, init (Writer.emit ti root) pos = .ok s0 ∧ ∀ f, (run (Writer.emit ti root) env fuel s0).1 ≠ .fault f := by
  obtain ⟨bs, a, hb, hty⟩ := emit_has_typing ti root h
  exact typing_sound _ (emit_vm_wf ti root h) bs hb a hty env pos h0 hn fuel

/-- the same for the bool-only program -/
theorem emittedQuick_no_fault (ti : Writer.TreeInfo) (root : Writer.GoNode) (h : Writer.treeWf ti root = true)
    (qp : Prog) (hq : Writer.emitQuick ti root = some qp)
    (env : Env) (pos : Int) (h0 : 0 ≤ pos) (hn : pos ≤ env.len) (fuel : Nat) :
    ∃ s0, init qp pos = .ok s0 ∧ ∀ f, (run qp env fuel s0).1 ≠ .fault f := by
  obtain ⟨bs, a, hb, hty⟩ := emitQuick_has_typing ti root h qp hq
  exact typing_sound _ (emitQuick_vm_wf ti root h qp hq) bs hb a hty env pos h0 hn fuel

/-! non-vacuity of (B) and (C) -/

/-- the reduced tree of `(?=a)\w+(?<!b)` (the set payload is `CharSet.Hash()` of `\w`) -/
def tree4 : Writer.GoNode :=
  .capture 0 (-1) (.concat [.poslook (.char Generated.Opcodes.opOne false false 97),
    .setloop Generated.Opcodes.opSetloop false false [0, 0, 0, 0, 0, 1, 0, 0, 0, 1, 87] 1 Writer.maxInt32,
    .neglook (.char Generated.Opcodes.opOne true false 98)])

/-- its emitted code is what `regexp2.MustCompile` produces; it is well-formed, and the executable check finds it typed -/
example : (Writer.emit Lemmas.Compose.info1 tree4).codes.toList =
    [23, 25, 31, 34, 31, 9, 97, 33, 36, 2, 0, 1, 5, 0, 2147483647, 34, 23, 21, 73, 98, 35, 36, 32, 0, -1, 40] ∧
    (Writer.emit Lemmas.Compose.info1 tree4).trackcount = 12 ∧
    Writer.treeWf Lemmas.Compose.info1 tree4 = true ∧
    StackTyping.typed (Writer.emit Lemmas.Compose.info1 tree4) = true := by decide

/-- the hypotheses of (B) and (C) are met by the trees of `(?:ab?)*c`, `(a)|b\1` and `(?=a)\w+(?<!b)` -/
example : ∃ bs a, (Writer.emit Lemmas.Compose.info1 Lemmas.Compose.tree1).boundaries = some bs ∧
    TypingW (Writer.emit Lemmas.Compose.info1 Lemmas.Compose.tree1) bs a :=
  emit_has_typing _ _ (by decide)
example : ∃ s0, init (Writer.emit Lemmas.Compose.info2 Lemmas.Compose.tree2) 1 = .ok s0 ∧
    ∀ f, (run (Writer.emit Lemmas.Compose.info2 Lemmas.Compose.tree2) demoEnv 1000 s0).1 ≠ .fault f :=
  emitted_no_fault _ _ (by decide) demoEnv 1 (by decide) (by decide) 1000
example : ∃ s0, init (Writer.emit Lemmas.Compose.info1 tree4) 0 = .ok s0 ∧
    ∀ f, (run (Writer.emit Lemmas.Compose.info1 tree4) demoEnv 1000 s0).1 ≠ .fault f :=
  emitted_no_fault _ _ (by decide) demoEnv 0 (by decide) (by decide) 1000
example : ∃ qp, Writer.emitQuick Lemmas.Compose.info2 Lemmas.Compose.tree3 = some qp ∧
    ∃ s0, init qp 0 = .ok s0 ∧ ∀ f, (run qp demoEnv 1000 s0).1 ≠ .fault f :=
  ⟨_, rfl, emittedQuick_no_fault Lemmas.Compose.info2 Lemmas.Compose.tree3 (by decide) _ rfl demoEnv 0
    (by decide) (by decide) 1000⟩

/-- the typing hypothesis cannot be dropped: `untypedDemo` (`Lazybranch 3; Getmark; Stop`) is well-formed, its attempt
    ends in `stackUnderflow` (example in the section above), hence it has NO typing at all -/
example : Lemmas.StackTyping.untypedDemo.wf = true ∧
    ¬ ∃ bs a, Lemmas.StackTyping.untypedDemo.boundaries = some bs ∧ TypingW Lemmas.StackTyping.untypedDemo bs a := by
  refine ⟨by decide, ?_⟩
  rintro ⟨bs, a, hb, hty⟩
  obtain ⟨s0, hi, hf⟩ := typing_sound _ (by decide) bs hb a hty demoEnv 0 (by decide) (by decide) 10
  have hdec : (match init Lemmas.StackTyping.untypedDemo 0 with
     | .ok s0 => (match (run Lemmas.StackTyping.untypedDemo demoEnv 10 s0).1 with
        | .fault .stackUnderflow => true
        | _ => false)
     | .error _ => false) = true := by decide
  rw [hi] at hdec
  simp only at hdec
  split at hdec
  · next h => exact hf _ h
  · cases hdec

end TypingSound

end RegexVerif.Props.C10
