/-
C04 — compile-time facts published for a pattern hold at every real match.

`syntax.FindOptimizations` publishes, for a compiled pattern, a minimum and (sometimes) a maximum
match length, a leading and a trailing anchor and a leading literal prefix; the scan loop uses them to
skip positions and to give up early.  `Model/Facts.lean` mirrors the Go analyses
(`ComputeMinLength`, `computeMaxLength`, `findLeadingOrTrailingAnchor`, `tryFindPrefix`) on the
specification's pattern AST, i.e. on the image of the engine's own reduced tree (the harness converts
it, leg F compares the model's answers with what the engine publishes).  The theorems here say that
what the analyses compute is true of EVERY success of the pattern under the specification semantics
`Spec.m` — for every input, direction, start state, and not only of the highest-priority success —
and hence of every result of `Spec.find`.

Not modelled: first-character classes, fixed-distance sets and strings, literal-after-loop, landmark
chains, Boyer-Moore tables, the case-insensitive prefix, multi-prefix search, the right-to-left
prefix (not used by the engine), and the substitution of a leading positive lookahead's facts.
-/
import RegexVerif.Lemmas.Facts
import RegexVerif.Model.Scan

namespace RegexVerif.Props.C04
open RegexVerif RegexVerif.Spec RegexVerif.Facts

/-- **Positions only move in the direction of the match**: every success of every pattern ends at or
    after its start when matching left-to-right, at or before it when matching right-to-left
    (lookarounds and conditions restore the position).  Match lengths are therefore
    `st'.pos - st.pos` resp. `st.pos - st'.pos`, the `span` of the theorems below. -/
theorem m_monotone (e : Env) (p : Pat) (rtl : Bool) (st st' : St) (h : st' ∈ m e p rtl st) :
    if rtl then st'.pos ≤ st.pos else st.pos ≤ st'.pos :=
  m_fwd e p rtl st st' h

/-- **`ComputeMinLength` is a lower bound**: every success consumes at least `minLen p` characters.
    (`FindOptimizations.MinRequiredLength`; the scan loop does not attempt where fewer characters
    remain.) -/
theorem minLen_sound (e : Env) (p : Pat) (rtl : Bool) (st st' : St) (h : st' ∈ m e p rtl st) :
    minLen p ≤ (if rtl then st.pos - st'.pos else st'.pos - st.pos) :=
  minLen_span e p rtl st st' h

/-- **`computeMaxLength` is an upper bound**: when it yields a length (`≠ -1`), no success consumes
    more.  (`FindOptimizations.MaxPossibleLength`, used with a trailing `\z`/`\Z` to jump to the only
    possible start.) -/
theorem maxLen_sound (e : Env) (p : Pat) (rtl : Bool) (st st' : St) (h : st' ∈ m e p rtl st)
    (k : Nat) (hk : maxLen p = some k) :
    (if rtl then st.pos - st'.pos else st'.pos - st.pos) ≤ k :=
  maxLen_span e p rtl st st' h k hk

/-- the two bounds together: a pattern whose minimum and maximum coincide matches exactly that many
    characters (the `TrailingAnchor_FixedLength` find modes) -/
theorem fixedLength_sound (e : Env) (p : Pat) (rtl : Bool) (st st' : St) (h : st' ∈ m e p rtl st)
    (hk : maxLen p = some (minLen p)) :
    (if rtl then st.pos - st'.pos else st'.pos - st.pos) = minLen p :=
  Nat.le_antisymm (maxLen_sound e p rtl st st' h _ hk) (minLen_sound e p rtl st st' h)

/-- **The leading anchor holds where the attempt starts**: if `findLeadingOrTrailingAnchor(root, true)`
    finds an anchor (`Bol, Eol, Beginning, Start, EndZ, End, Boundary`), that anchor is true at the
    start position of every success — so the scan loop may skip every start position where it is
    false. -/
theorem leadingAnchor_sound (e : Env) (p : Pat) (rtl : Bool) (a : Anchor) (ha : leadingAnchor rtl p = some a)
    (st st' : St) (h : st' ∈ m e p rtl st) : anchorHolds e a st.pos = true := by
  have := edgeAnchor_holds e p rtl rtl a st ha st' h
  simpa [edgePos] using this

/-- the published `LeadingAnchor` (right-to-left `Bol` filtered out) is a leading anchor -/
theorem publishedLeadingAnchor_sound (e : Env) (p : Pat) (rtl : Bool) (a : Anchor)
    (ha : publishedLeadingAnchor rtl p = some a)
    (st st' : St) (h : st' ∈ m e p rtl st) : anchorHolds e a st.pos = true := by
  apply leadingAnchor_sound e p rtl a _ st st' h
  unfold publishedLeadingAnchor at ha
  split at ha
  · split at ha
    · simp at ha
    · rename_i hl _; simp at ha; subst ha; exact hl
  · exact ha

/-- **The trailing anchor holds where the match ends**: if `findLeadingOrTrailingAnchor(root, false)`
    finds an anchor, it is true at the end position of every success. -/
theorem trailingAnchor_sound (e : Env) (p : Pat) (rtl : Bool) (a : Anchor) (ha : trailingAnchor rtl p = some a)
    (st st' : St) (h : st' ∈ m e p rtl st) : anchorHolds e a st'.pos = true := by
  have := edgeAnchor_holds e p (!rtl) rtl a st ha st' h
  cases rtl <;> simpa [edgePos] using this

/-- **The leading prefix is a prefix of every match** (left-to-right).  `findPrefix` builds a BYTE
    string (`bytes.Buffer`; an alternation's branches are intersected byte-wise, which can cut a
    multi-byte character: `aéx|aèy` publishes `"a\xc3"`), so the statement is about the encoded text:
    for any encoder `utf8`, the encoding of the text from the start position of a success begins with
    the prefix.  With Go's encoder this is what the byte-wise string prefix filter relies on. -/
theorem leadingPrefix_sound (e : Env) (utf8 : Nat → List Nat) (p : Pat) (st st' : St) (h : st' ∈ m e p false st) :
    ((e.text.drop st.pos).flatMap utf8).take (leadingPrefix utf8 p).1.length = (leadingPrefix utf8 p).1 := by
  obtain ⟨t, ht, _⟩ := leadingPrefix_ok e utf8 p st st' h
  unfold bytesFrom at ht
  rw [ht]; simp

/-- when `tryFindPrefix` returns "continue" the prefix is the whole match: the text consumed by any
    success encodes to exactly the prefix (this is what lets a concatenation go on appending) -/
theorem leadingPrefix_exact (e : Env) (utf8 : Nat → List Nat) (p : Pat) (st st' : St) (h : st' ∈ m e p false st)
    (hc : (leadingPrefix utf8 p).2 = true) :
    ((e.text.drop st.pos).take (st'.pos - st.pos)).flatMap utf8 = (leadingPrefix utf8 p).1 := by
  obtain ⟨t, ht, hcont⟩ := leadingPrefix_ok e utf8 p st st' h
  have hle : st.pos ≤ st'.pos := by simpa [Fwd] using m_fwd e p false st st' h
  rw [hcont hc, bytesFrom_split e utf8 st.pos st'.pos hle] at ht
  exact List.append_cancel_right ht

/-- the rune view: with the identity encoding the analysis yields a list of runes, and the text at the
    start of every success begins with those runes -/
theorem leadingPrefix_sound_runes (e : Env) (p : Pat) (st st' : St) (h : st' ∈ m e p false st) :
    (e.text.drop st.pos).take (leadingPrefix (fun r => [r]) p).1.length = (leadingPrefix (fun r => [r]) p).1 := by
  have := leadingPrefix_sound e (fun r => [r]) p st st' h
  simpa using this

/-- … and for a pattern whose literals are ASCII the byte prefix Go computes IS that rune prefix -/
theorem leadingPrefix_sound_ascii (e : Env) (p : Pat) (hp : asciiOnly p = true) (st st' : St)
    (h : st' ∈ m e p false st) :
    (e.text.drop st.pos).take (leadingPrefix utf8enc p).1.length = (leadingPrefix utf8enc p).1 := by
  rw [leadingPrefix_ascii p hp]; exact leadingPrefix_sound_runes e p st st' h

/-! ### at the level of a find call -/

/-- **Every find result respects the published lengths**: group 0 of a result (index, length) has
    `minLen p ≤ length`, and `length ≤ k` when `maxLen p = some k`. -/
theorem find_length_bounds (e : Env) (p : Pat) (rtl : Bool) (start : Nat) (st : St)
    (h : find e p rtl start = some st) :
    ∃ idx len, lastCap st.caps 0 = some (idx, len) ∧ minLen p ≤ len ∧ ∀ k, maxLen p = some k → len ≤ k := by
  obtain ⟨i, _, hat⟩ := find_attempt e p rtl start st h
  obtain ⟨y, hy, _, hcap⟩ := attempt_success e p rtl i st hat
  refine ⟨_, _, hcap, ?_, ?_⟩
  · have h1 := minLen_span e p rtl _ y hy
    have h2 := m_fwd e p rtl _ y hy
    cases rtl <;> simp [span, Fwd] at h1 h2 <;> omega
  · intro k hk
    have h1 := maxLen_span e p rtl _ y hy k hk
    have h2 := m_fwd e p rtl _ y hy
    cases rtl <;> simp [span, Fwd] at h1 h2 <;> omega

/-- **Every find result respects the published anchors**: the leading anchor holds at the side of the
    match where the attempt started (its index left-to-right, its end right-to-left), the trailing
    anchor at the other side. -/
theorem find_anchors (e : Env) (p : Pat) (rtl : Bool) (start : Nat) (st : St)
    (h : find e p rtl start = some st) :
    ∃ idx len, lastCap st.caps 0 = some (idx, len) ∧
      (∀ a, leadingAnchor rtl p = some a → anchorHolds e a (if rtl then idx + len else idx) = true) ∧
      (∀ a, trailingAnchor rtl p = some a → anchorHolds e a (if rtl then idx else idx + len) = true) := by
  obtain ⟨i, _, hat⟩ := find_attempt e p rtl start st h
  obtain ⟨y, hy, _, hcap⟩ := attempt_success e p rtl i st hat
  have h2 := m_fwd e p rtl _ y hy
  refine ⟨_, _, hcap, ?_, ?_⟩
  · intro a ha
    have := leadingAnchor_sound e p rtl a ha _ y hy
    cases rtl
    · simp [Fwd] at h2; simpa [Nat.min_eq_left h2] using this
    · simp [Fwd] at h2
      have e1 : min i y.pos + (max i y.pos - min i y.pos) = i := by omega
      simpa [e1] using this
  · intro a ha
    have := trailingAnchor_sound e p rtl a ha _ y hy
    cases rtl
    · simp [Fwd] at h2
      have e1 : min i y.pos + (max i y.pos - min i y.pos) = y.pos := by omega
      simpa [e1] using this
    · simp [Fwd] at h2; simpa [Nat.min_eq_right h2] using this

/-- **Every left-to-right find result starts with the published prefix** (as bytes of the encoded
    text from the match index on). -/
theorem find_prefix (e : Env) (utf8 : Nat → List Nat) (p : Pat) (start : Nat) (st : St)
    (h : find e p false start = some st) :
    ∃ idx len, lastCap st.caps 0 = some (idx, len) ∧
      ((e.text.drop idx).flatMap utf8).take (leadingPrefix utf8 p).1.length = (leadingPrefix utf8 p).1 := by
  obtain ⟨i, _, hat⟩ := find_attempt e p false start st h
  obtain ⟨y, hy, _, hcap⟩ := attempt_success e p false i st hat
  have h2 : i ≤ y.pos := by simpa [Fwd] using m_fwd e p false _ y hy
  refine ⟨_, _, hcap, ?_⟩
  have := leadingPrefix_sound e utf8 p _ y hy
  simpa [Nat.min_eq_left h2] using this

/-- **`MinRequiredLength` as the scan loop consumes it**: an attempt can only succeed where at least
    `minLen p` characters remain in the direction of the scan — to the right of the attempt position
    left-to-right, to its left right-to-left. -/
theorem minLen_remaining (e : Env) (p : Pat) (rtl : Bool) (i : Nat) (hi : i ≤ e.n) (st : St)
    (h : attempt e p rtl i = some st) : if rtl then minLen p ≤ i else minLen p ≤ e.n - i := by
  obtain ⟨y, hy, _, _⟩ := attempt_success e p rtl i st h
  have h1 := minLen_span e p rtl _ y hy
  have h2 := m_fwd e p rtl _ y hy
  have h3 := (m_wf e p rtl { pos := i, caps := [] } ⟨hi, by simp⟩ y hy).1
  cases rtl <;> simp [span, Fwd] at h1 h2 ⊢ <;> omega

/-- … which is the hypothesis `MinLenSound` under which the scan-loop theorems of C03 are proved, here
    discharged for the specification's attempt (reported as group 0's index and length) -/
theorem minLenSound_spec (e : Env) (p : Pat) (rtl : Bool) :
    Scan.MinLenSound rtl e.n (minLen p) (fun i => (attempt e p rtl i).bind (fun st => lastCap st.caps 0)) := by
  intro pos i l hpos hat
  cases hst : attempt e p rtl pos with
  | none => simp [hst] at hat
  | some st => exact minLen_remaining e p rtl pos hpos st hst

/-! ### non-vacuity: concrete instances -/

/-- `^ab{1,3}(?:c|cd)$` (multiline) on "x\nabbc": Concatenate(Bol, One a, Oneloop b{1,3},
    Alternate(c, cd), Eol) -/
def demoPat : Pat :=
  .seq (.anchor .bol) (.seq (.chr (.one 97 false)) (.seq (.quant false 1 (some 3) (.chr (.one 98 false)))
    (.seq (.alt (.chr (.one 99 false)) (.seq (.chr (.one 99 false)) (.chr (.one 100 false)))) (.anchor .eol))))
def demoEnv : Env := { text := [120, 10, 97, 98, 98, 99], textstart := 0, named := [], word := [], fold := [] }
def demoStart : St := { pos := 2, caps := [] }
def demoEnd : St := { pos := 6, caps := [] }

theorem demo_success : demoEnd ∈ m demoEnv demoPat false demoStart := by decide

example : minLen demoPat = 3 ∧ maxLen demoPat = some 6 := by decide
example : leadingAnchor false demoPat = some .bol ∧ trailingAnchor false demoPat = some .eol := by decide
example : leadingPrefix utf8enc demoPat = ([97, 98], false) := by decide
example : find demoEnv demoPat false 0 = some { pos := 6, caps := [(0, 2, 4)] } := by decide
example : 3 ≤ 6 - 2 := minLen_sound demoEnv demoPat false demoStart demoEnd demo_success
example : 6 - 2 ≤ 6 := maxLen_sound demoEnv demoPat false demoStart demoEnd demo_success 6 (by decide)
example : anchorHolds demoEnv .bol 2 = true :=
  leadingAnchor_sound demoEnv demoPat false .bol (by decide) demoStart demoEnd demo_success
example : anchorHolds demoEnv .eol 6 = true :=
  trailingAnchor_sound demoEnv demoPat false .eol (by decide) demoStart demoEnd demo_success
example : (([97, 98, 98, 99] : List Nat).flatMap utf8enc).take 2 = [97, 98] :=
  leadingPrefix_sound demoEnv utf8enc demoPat demoStart demoEnd demo_success
example : asciiOnly demoPat = true := by decide
example : 3 ≤ demoEnv.n - 2 := minLen_remaining demoEnv demoPat false 2 (by decide) _ (by decide : attempt demoEnv demoPat false 2 = some { pos := 6, caps := [(0, 2, 4)] })

/-- right-to-left: `\bab$` matched leftwards from 5 on "x ab\n": the pattern-order LAST child leads -/
def demoRtl : Pat := .seq (.anchor .boundary) (.seq (.chr (.one 97 false)) (.seq (.chr (.one 98 false)) (.anchor .eol)))
def demoRtlEnv : Env := { text := [120, 32, 97, 98, 10], textstart := 5, named := [], word := [97, 98, 120], fold := [] }
example : leadingAnchor true demoRtl = some .eol ∧ trailingAnchor true demoRtl = some .boundary := by decide
example : find demoRtlEnv demoRtl true 5 = some { pos := 2, caps := [(0, 2, 2)] } := by decide
example : maxLen demoRtl = some (minLen demoRtl) := by decide

/-- a "continue" prefix: `(?>ab){2}` is exactly "abab" -/
example : leadingPrefix utf8enc (.quant false 2 (some 2) (.atomic (.seq (.chr (.one 97 false)) (.chr (.one 98 false)))))
    = ([97, 98, 97, 98], true) := by decide

/-- the byte-wise intersection cuts a character: `aéx|aèy` publishes `"a\xc3"` -/
example : leadingPrefix utf8enc (.seq (.chr (.one 97 false))
    (.alt (.seq (.chr (.one 233 false)) (.chr (.one 120 false))) (.seq (.chr (.one 232 false)) (.chr (.one 121 false)))))
    = ([97, 0xC3], false) := by decide

/-! ### the defect fixed by d917f9b, documented

Before the fix the `Alternate` case compared every later branch with the FIRST branch's whole prefix and
kept only the last comparison.  For `(a)bx|(a)cy|(a)bz` it published `"ab"`, which is not a prefix of
the match "acy" (the string-prefix filter then missed the match: `FindStringMatch("acy")` returned
nil).  The current code yields `"a"`. -/

def defectPat : Pat :=
  .alt (.seq (.cap 1 (.chr (.one 97 false))) (.seq (.chr (.one 98 false)) (.chr (.one 120 false))))
    (.alt (.seq (.cap 1 (.chr (.one 97 false))) (.seq (.chr (.one 99 false)) (.chr (.one 121 false))))
      (.seq (.cap 1 (.chr (.one 97 false))) (.seq (.chr (.one 98 false)) (.chr (.one 122 false)))))
def defectEnv : Env := { text := [97, 99, 121], textstart := 0, named := [], word := [], fold := [] }

example : leadingPrefixOldAlt utf8enc defectPat = [97, 98] := by decide
example : leadingPrefix utf8enc defectPat = ([97], false) := by decide
example : find defectEnv defectPat false 0 = some { pos := 3, caps := [(1, 0, 1), (0, 0, 3)] } := by decide
example : ¬ ((defectEnv.text.drop 0).flatMap utf8enc).take 2 = leadingPrefixOldAlt utf8enc defectPat := by decide

end RegexVerif.Props.C04
