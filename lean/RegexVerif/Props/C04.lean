/-
C04 — compile-time facts published for a pattern hold at every real match.

`syntax.FindOptimizations` publishes, for a compiled pattern, a minimum and (sometimes) a maximum
match length, a leading and a trailing anchor and a leading literal prefix; the scan loop uses them to
skip positions and to give up early.  `Model/Facts.lean` mirrors the Go analyses
(`ComputeMinLength`, `computeMaxLength`, `findLeadingOrTrailingAnchor`, `tryFindPrefix`) on the
specification's pattern AST, i.e. on the image of the engine's own reduced tree (the harness converts
it, leg F compares the model's answers with what the engine publishes).  The theorems here say that
what the analyses compute is true of EVERY success of the pattern under the specification semantics
`Spec.m` — for every input, direction, start state, and not only of the highest-priority success —
and hence of every result of `Spec.find`.

The SET-VALUED facts (first-character class, fixed-distance sets/characters/strings, the multi-prefix
and case-insensitive prefix lists, and the substitution of a leading positive lookahead's facts) are
not mirrored but VALIDATED: `Model/SetFacts.lean` computes, on the same tree, over-approximations of the
characters at and after a match start (`firstSet`, `setAt`, `prefixes`, `leadLook`), the theorems of
the second half of this file prove them sound against `Spec.m`, and the closing theorems
(`published_first_sound`, `published_set_sound`, `published_prefixes_sound`) say that a published set or
string list is sound as soon as it INCLUDES (covers) one of the over-approximations.  That inclusion is
what leg V of the harness checks, rune-exactly, with Go's `unicode` tables.

Not modelled: literal-after-loop, landmark chains, Boyer-Moore tables, the right-to-left prefix (not
used by the engine).
-/
import RegexVerif.Lemmas.Facts
import RegexVerif.Lemmas.SetFacts
import RegexVerif.Lemmas.LoopFacts
import RegexVerif.Model.Scan

namespace RegexVerif.Props.C04
open RegexVerif RegexVerif.Spec RegexVerif.Facts RegexVerif.SetFacts

/-- **Positions only move in the direction of the match**: every success of every pattern ends at or
    after its start when matching left-to-right, at or before it when matching right-to-left
    (lookarounds and conditions restore the position).  Match lengths are therefore
    `st'.pos - st.pos` resp. `st.pos - st'.pos`, the `span` of the theorems below. -/
theorem m_monotone (e : Env) (p : Pat) (rtl : Bool) (st st' : St) (h : st' ∈ m e p rtl st) :
    if rtl then st'.pos ≤ st.pos else st.pos ≤ st'.pos :=
  m_fwd e p rtl st st' h

/-- **`ComputeMinLength` is a lower bound**: every success consumes at least `minLen p` characters.
    (`FindOptimizations.MinRequiredLength`; the scan loop does not attempt where fewer characters
    remain.) -/
theorem minLen_sound (e : Env) (p : Pat) (rtl : Bool) (st st' : St) (h : st' ∈ m e p rtl st) :
    minLen p ≤ (if rtl then st.pos - st'.pos else st'.pos - st.pos) :=
  minLen_span e p rtl st st' h

/-- **`computeMaxLength` is an upper bound**: when it yields a length (`≠ -1`), no success consumes
    more.  (`FindOptimizations.MaxPossibleLength`, used with a trailing `\z`/`\Z` to jump to the only
    possible start.) -/
theorem maxLen_sound (e : Env) (p : Pat) (rtl : Bool) (st st' : St) (h : st' ∈ m e p rtl st)
    (k : Nat) (hk : maxLen p = some k) :
    (if rtl then st.pos - st'.pos else st'.pos - st.pos) ≤ k :=
  maxLen_span e p rtl st st' h k hk

/-- the two bounds together: a pattern whose minimum and maximum coincide matches exactly that many
    characters (the `TrailingAnchor_FixedLength` find modes) -/
theorem fixedLength_sound (e : Env) (p : Pat) (rtl : Bool) (st st' : St) (h : st' ∈ m e p rtl st)
    (hk : maxLen p = some (minLen p)) :
    (if rtl then st.pos - st'.pos else st'.pos - st.pos) = minLen p :=
  Nat.le_antisymm (maxLen_sound e p rtl st st' h _ hk) (minLen_sound e p rtl st st' h)

/-- **The leading anchor holds where the attempt starts**: if `findLeadingOrTrailingAnchor(root, true)`
    finds an anchor (`Bol, Eol, Beginning, Start, EndZ, End, Boundary`), that anchor is true at the
    start position of every success — so the scan loop may skip every start position where it is
    false. -/
theorem leadingAnchor_sound (e : Env) (p : Pat) (rtl : Bool) (a : Anchor) (ha : leadingAnchor rtl p = some a)
    (st st' : St) (h : st' ∈ m e p rtl st) : anchorHolds e a st.pos = true := by
  have := edgeAnchor_holds e p rtl rtl a st ha st' h
  simpa [edgePos] using this

/-- the published `LeadingAnchor` (right-to-left `Bol` filtered out) is a leading anchor -/
theorem publishedLeadingAnchor_sound (e : Env) (p : Pat) (rtl : Bool) (a : Anchor)
    (ha : publishedLeadingAnchor rtl p = some a)
    (st st' : St) (h : st' ∈ m e p rtl st) : anchorHolds e a st.pos = true := by
  apply leadingAnchor_sound e p rtl a _ st st' h
  unfold publishedLeadingAnchor at ha
  split at ha
  · split at ha
    · simp at ha
    · rename_i hl _; simp at ha; subst ha; exact hl
  · exact ha

/-- **The trailing anchor holds where the match ends**: if `findLeadingOrTrailingAnchor(root, false)`
    finds an anchor, it is true at the end position of every success. -/
theorem trailingAnchor_sound (e : Env) (p : Pat) (rtl : Bool) (a : Anchor) (ha : trailingAnchor rtl p = some a)
    (st st' : St) (h : st' ∈ m e p rtl st) : anchorHolds e a st'.pos = true := by
  have := edgeAnchor_holds e p (!rtl) rtl a st ha st' h
  cases rtl <;> simpa [edgePos] using this

/-- **The leading prefix is a prefix of every match** (left-to-right).  `findPrefix` builds a BYTE
    string (`bytes.Buffer`; an alternation's branches are intersected byte-wise, which can cut a
    multi-byte character: `aéx|aèy` publishes `"a\xc3"`), so the statement is about the encoded text:
    for any encoder `utf8`, the encoding of the text from the start position of a success begins with
    the prefix.  With Go's encoder this is what the byte-wise string prefix filter relies on. -/
theorem leadingPrefix_sound (e : Env) (utf8 : Nat → List Nat) (p : Pat) (st st' : St) (h : st' ∈ m e p false st) :
    ((e.text.drop st.pos).flatMap utf8).take (leadingPrefix utf8 p).1.length = (leadingPrefix utf8 p).1 := by
  obtain ⟨t, ht, _⟩ := leadingPrefix_ok e utf8 p st st' h
  unfold bytesFrom at ht
  rw [ht]; simp

/-- when `tryFindPrefix` returns "continue" the prefix is the whole match: the text consumed by any
    success encodes to exactly the prefix (this is what lets a concatenation go on appending) -/
theorem leadingPrefix_exact (e : Env) (utf8 : Nat → List Nat) (p : Pat) (st st' : St) (h : st' ∈ m e p false st)
    (hc : (leadingPrefix utf8 p).2 = true) :
    ((e.text.drop st.pos).take (st'.pos - st.pos)).flatMap utf8 = (leadingPrefix utf8 p).1 := by
  obtain ⟨t, ht, hcont⟩ := leadingPrefix_ok e utf8 p st st' h
  have hle : st.pos ≤ st'.pos := by simpa [Fwd] using m_fwd e p false st st' h
  rw [hcont hc, bytesFrom_split e utf8 st.pos st'.pos hle] at ht
  exact List.append_cancel_right ht

/-- the rune view: with the identity encoding the analysis yields a list of runes, and the text at the
    start of every success begins with those runes -/
theorem leadingPrefix_sound_runes (e : Env) (p : Pat) (st st' : St) (h : st' ∈ m e p false st) :
    (e.text.drop st.pos).take (leadingPrefix (fun r => [r]) p).1.length = (leadingPrefix (fun r => [r]) p).1 := by
  have := leadingPrefix_sound e (fun r => [r]) p st st' h
  simpa using this

/-- … and for a pattern whose literals are ASCII the byte prefix Go computes IS that rune prefix -/
theorem leadingPrefix_sound_ascii (e : Env) (p : Pat) (hp : asciiOnly p = true) (st st' : St)
    (h : st' ∈ m e p false st) :
    (e.text.drop st.pos).take (leadingPrefix utf8enc p).1.length = (leadingPrefix utf8enc p).1 := by
  rw [leadingPrefix_ascii p hp]; exact leadingPrefix_sound_runes e p st st' h

/-! ### at the level of a find call -/

/-- **Every find result respects the published lengths**: group 0 of a result (index, length) has
    `minLen p ≤ length`, and `length ≤ k` when `maxLen p = some k`. -/
theorem find_length_bounds (e : Env) (p : Pat) (rtl : Bool) (start : Nat) (st : St)
    (h : find e p rtl start = some st) :
    ∃ idx len, lastCap st.caps 0 = some (idx, len) ∧ minLen p ≤ len ∧ ∀ k, maxLen p = some k → len ≤ k := by
  obtain ⟨i, _, hat⟩ := find_attempt e p rtl start st h
  obtain ⟨y, hy, _, hcap⟩ := attempt_success e p rtl i st hat
  refine ⟨_, _, hcap, ?_, ?_⟩
  · have h1 := minLen_span e p rtl _ y hy
    have h2 := m_fwd e p rtl _ y hy
    cases rtl <;> simp [span, Fwd] at h1 h2 <;> omega
  · intro k hk
    have h1 := maxLen_span e p rtl _ y hy k hk
    have h2 := m_fwd e p rtl _ y hy
    cases rtl <;> simp [span, Fwd] at h1 h2 <;> omega

/-- **Every find result respects the published anchors**: the leading anchor holds at the side of the
    match where the attempt started (its index left-to-right, its end right-to-left), the trailing
    anchor at the other side. -/
theorem find_anchors (e : Env) (p : Pat) (rtl : Bool) (start : Nat) (st : St)
    (h : find e p rtl start = some st) :
    ∃ idx len, lastCap st.caps 0 = some (idx, len) ∧
      (∀ a, leadingAnchor rtl p = some a → anchorHolds e a (if rtl then idx + len else idx) = true) ∧
      (∀ a, trailingAnchor rtl p = some a → anchorHolds e a (if rtl then idx else idx + len) = true) := by
  obtain ⟨i, _, hat⟩ := find_attempt e p rtl start st h
  obtain ⟨y, hy, _, hcap⟩ := attempt_success e p rtl i st hat
  have h2 := m_fwd e p rtl _ y hy
  refine ⟨_, _, hcap, ?_, ?_⟩
  · intro a ha
    have := leadingAnchor_sound e p rtl a ha _ y hy
    cases rtl
    · simp [Fwd] at h2; simpa [Nat.min_eq_left h2] using this
    · simp [Fwd] at h2
      have e1 : min i y.pos + (max i y.pos - min i y.pos) = i := by omega
      simpa [e1] using this
  · intro a ha
    have := trailingAnchor_sound e p rtl a ha _ y hy
    cases rtl
    · simp [Fwd] at h2
      have e1 : min i y.pos + (max i y.pos - min i y.pos) = y.pos := by omega
      simpa [e1] using this
    · simp [Fwd] at h2; simpa [Nat.min_eq_right h2] using this

/-- **Every left-to-right find result starts with the published prefix** (as bytes of the encoded
    text from the match index on). -/
theorem find_prefix (e : Env) (utf8 : Nat → List Nat) (p : Pat) (start : Nat) (st : St)
    (h : find e p false start = some st) :
    ∃ idx len, lastCap st.caps 0 = some (idx, len) ∧
      ((e.text.drop idx).flatMap utf8).take (leadingPrefix utf8 p).1.length = (leadingPrefix utf8 p).1 := by
  obtain ⟨i, _, hat⟩ := find_attempt e p false start st h
  obtain ⟨y, hy, _, hcap⟩ := attempt_success e p false i st hat
  have h2 : i ≤ y.pos := by simpa [Fwd] using m_fwd e p false _ y hy
  refine ⟨_, _, hcap, ?_⟩
  have := leadingPrefix_sound e utf8 p _ y hy
  simpa [Nat.min_eq_left h2] using this

/-- **`MinRequiredLength` as the scan loop consumes it**: an attempt can only succeed where at least
    `minLen p` characters remain in the direction of the scan — to the right of the attempt position
    left-to-right, to its left right-to-left. -/
theorem minLen_remaining (e : Env) (p : Pat) (rtl : Bool) (i : Nat) (hi : i ≤ e.n) (st : St)
    (h : attempt e p rtl i = some st) : if rtl then minLen p ≤ i else minLen p ≤ e.n - i := by
  obtain ⟨y, hy, _, _⟩ := attempt_success e p rtl i st h
  have h1 := minLen_span e p rtl _ y hy
  have h2 := m_fwd e p rtl _ y hy
  have h3 := (m_wf e p rtl { pos := i, caps := [] } ⟨hi, by simp⟩ y hy).1
  cases rtl <;> simp [span, Fwd] at h1 h2 ⊢ <;> omega

/-- … which is the hypothesis `MinLenSound` under which the scan-loop theorems of C03 are proved, here
    discharged for the specification's attempt (reported as group 0's index and length) -/
theorem minLenSound_spec (e : Env) (p : Pat) (rtl : Bool) :
    Scan.MinLenSound rtl e.n (minLen p) (fun i => (attempt e p rtl i).bind (fun st => lastCap st.caps 0)) := by
  intro pos i l hpos hat
  cases hst : attempt e p rtl pos with
  | none => simp [hst] at hat
  | some st => exact minLen_remaining e p rtl pos hpos st hst


/-! ## set-valued facts: proved over-approximations and the validator statements

`findFirstCharClass`, `findFixedDistanceSets` and `findPrefixes` are not mirrored.  `Model/SetFacts.lean`
computes over-approximations structurally; a published set `E` (a predicate on runes: "the engine's
`CharSet`/`Chars`/`Range` test accepts `r`") is sound if it includes one of them. -/

/-- **The first-character set is sound** (both directions): if `firstSet p rtl = some S`, every success
    of `p` is non-empty and the first character it consumes — `text[st.pos]` left-to-right,
    `text[st.pos-1]` right-to-left — satisfies one of the leaf tests of `S`.  This is the fact
    `findFirstCharClass` computes (`LeadingSet_LeftToRight` at distance 0, `LeadingSet_RightToLeft`,
    `LeadingChar_RightToLeft`, the legacy `FcPrefix`): the scan loop skips every position whose next
    character is outside the set. -/
theorem firstSet_sound (e : Env) (p : Pat) (rtl : Bool) (S : List Pred) (h : firstSet p rtl = some S)
    (st st' : St) (hm : st' ∈ m e p rtl st) :
    st'.pos ≠ st.pos ∧ ∃ r, charAt e rtl st.pos = some r ∧ memPreds e S r = true := by
  unfold firstSet at h
  split at h
  · rename_i s hf
    simp at h; subst h
    rcases first_ok e p rtl s false hf st st' hm with ⟨hn, _⟩ | hr
    · simp at hn
    · exact hr
  · simp at h

/-- **What the inclusion check of leg V gives** (first character): a published set `E` that includes
    the over-approximation `firstSet p rtl` holds at every success.  (Monotonicity; it is the statement
    that closes the argument: Lean proves `S` sound, the harness checks `S ⊆ E` rune-exactly.) -/
theorem firstSet_superset_sound (e : Env) (p : Pat) (rtl : Bool) (S : List Pred) (h : firstSet p rtl = some S)
    (E : Nat → Bool) (hsub : ∀ r, memPreds e S r = true → E r = true)
    (st st' : St) (hm : st' ∈ m e p rtl st) : ∃ r, charAt e rtl st.pos = some r ∧ E r = true := by
  obtain ⟨_, r, hr, hS⟩ := firstSet_sound e p rtl S h st st' hm
  exact ⟨r, hr, hsub r hS⟩

/-- **The fixed-offset set is sound** (left-to-right): if `setAt p k = some S`, the text has a character
    `k` positions after the start of every success and it satisfies `S`.  This is the fact
    `tryFindRawFixedSets` computes for each `FixedDistanceSet{Set, Distance}` (and for
    `FixedDistanceChar`/`FixedDistanceString`, whose sets are singletons). -/
theorem setAt_sound (e : Env) (p : Pat) (k : Nat) (S : List Pred) (h : setAt p k = some S)
    (st st' : St) (hm : st' ∈ m e p false st) :
    ∃ r, e.text[st.pos + k]? = some r ∧ memPreds e S r = true :=
  setAt_ok e p k S h st st' hm

/-- **Facts of a leading positive lookahead are facts of the pattern**: if `leadLook p` finds the
    lookahead `(?=b)`, any statement `F` about a text position that holds wherever `b` matches holds at
    the start of every success of `p`.  This is why `newFindOptimizations` may publish the
    `FindOptimizations` of the lookahead's body for the whole pattern. -/
theorem leadLook_transfer (e : Env) (p b : Pat) (k : Bool) (h : leadLook p = (some b, k)) (F : Nat → Prop)
    (hb : ∀ st0 st1 : St, st1 ∈ m e b false st0 → F st0.pos)
    (st st' : St) (hm : st' ∈ m e p false st) : F st.pos := by
  obtain ⟨st0, h0, hne⟩ := (leadLook_ok e p st st' hm).1 b k h
  cases hb0 : m e b false st0 with
  | nil => exact absurd hb0 hne
  | cons y ys => rw [← h0]; exact hb st0 y (by rw [hb0]; simp)

/-- **Every candidate set is sound**: each member of `setCandidates p k` — the fixed-offset set of `p`,
    at offset 0 its first-character set, and the same two for the body of a leading positive
    lookahead — contains the character `k` positions after the start of every left-to-right success.
    (With a lookahead candidate the success itself may be empty; the character exists all the same.) -/
theorem setCandidates_sound (e : Env) (p : Pat) (k : Nat) (S : List Pred) (hS : S ∈ setCandidates p k)
    (st st' : St) (hm : st' ∈ m e p false st) :
    ∃ r, e.text[st.pos + k]? = some r ∧ memPreds e S r = true := by
  have own : ∀ (q : Pat), S ∈ ownCandidates q k →
      ∀ (s s' : St), s' ∈ m e q false s → ∃ r, e.text[s.pos + k]? = some r ∧ memPreds e S r = true := by
    intro q hq s s' hs
    unfold ownCandidates at hq
    rw [List.mem_append] at hq
    rcases hq with hq | hq
    · exact setAt_sound e q k S (by simpa [Option.mem_toList] using hq) s s' hs
    · split at hq
      · rename_i hk
        subst hk
        obtain ⟨_, r, hr, hmem⟩ := firstSet_sound e q false S (by simpa [Option.mem_toList] using hq) s s' hs
        exact ⟨r, by simpa [charAt] using hr, hmem⟩
      · simp at hq
  unfold setCandidates at hS
  split at hS
  · rename_i b hb
    rw [List.mem_append] at hS
    rcases hS with hS | hS
    · exact own p hS st st' hm
    · exact leadLook_transfer e p b (leadLook p).2 (by rw [← hb]) (fun i => ∃ r, e.text[i + k]? = some r ∧ memPreds e S r = true)
        (fun s0 s1 h1 => own b hS s0 s1 h1) st st' hm
  · exact own p hS st st' hm

/-- **The leading strings are sound** (left-to-right): the text at the start of every success,
    normalised rune by rune with `norm`, begins with one of the strings of
    `prefixes norm maxLen maxCount p` (for any budget; `norm = id`: the text itself, the
    case-sensitive reading). -/
theorem prefixes_sound (e : Env) (norm : Nat → Nat) (maxLen maxCount : Nat) (p : Pat) (st st' : St)
    (hm : st' ∈ m e p false st) :
    ∃ l ∈ (prefixes norm maxLen maxCount p).1, l <+: (e.text.drop st.pos).map norm := by
  obtain ⟨l, hl, hp, _⟩ := prefixes_ok e norm maxLen p maxCount st st' hm
  exact ⟨l, hl, by simpa [ntext, List.map_drop] using hp⟩

/-- **The prefix validator is sound**: let `R x t` be the comparison the engine's search applies to a
    published rune `x` and a text rune `t` (equality for `LeadingStrings_LeftToRight`,
    `t == x || toLower t == x` for the ordinal-ignore-case modes) and `norm` a normalisation that `R`
    accepts (`R (norm t) t`: identity, resp. lower-casing).  If every string of a candidate list starts
    with a published string (`checkPrefixes`), then at the start of every success some published string
    matches the text under `R`.  So a `LeadingPrefixes` list that passes the check never makes the
    search skip a match; this is `findPrefixes`' obligation. -/
theorem checkPrefixes_sound (e : Env) (norm : Nat → Nat) (maxLen maxCount : Nat) (p : Pat)
    (R : Nat → Nat → Bool) (hR : ∀ t, R (norm t) t = true)
    (E : List (List Nat)) (L : List (List Nat)) (hL : L ∈ prefixCandidates norm maxLen maxCount p)
    (hc : checkPrefixes E L = true)
    (st st' : St) (hm : st' ∈ m e p false st) : ∃ x ∈ E, rPrefix R x (e.text.drop st.pos) = true := by
  have own : ∀ (q : Pat), L = (prefixes norm maxLen maxCount q).1 → ∀ (s s' : St), s' ∈ m e q false s →
      ∃ x ∈ E, rPrefix R x (e.text.drop s.pos) = true := by
    intro q hq s s' hs
    obtain ⟨l, hl, hp⟩ := prefixes_sound e norm maxLen maxCount q s s' hs
    rw [← hq] at hl
    unfold checkPrefixes at hc
    rw [List.all_eq_true] at hc
    have := hc l hl
    rw [List.any_eq_true] at this
    obtain ⟨x, hx, hr⟩ := this
    exact ⟨x, hx, rPrefix_norm R norm hR x _ (rPrefix_mono _ x l _ hr hp)⟩
  unfold prefixCandidates at hL
  split at hL
  · rename_i b hb
    simp at hL
    rcases hL with hL | hL
    · exact own p hL st st' hm
    · exact leadLook_transfer e p b (leadLook p).2 (by rw [← hb]) (fun i => ∃ x ∈ E, rPrefix R x (e.text.drop i) = true)
        (fun s0 s1 h1 => own b hL s0 s1 h1) st st' hm
  · simp at hL
    exact own p hL st st' hm

/-! ### the validator statements at the level of a find call -/

/-- **A published first-character set that includes `firstSet p rtl` holds at every find result**: the
    match is non-empty and the character at its scan-direction start — `text[idx]` left-to-right,
    `text[idx+len-1]` right-to-left — is accepted by the published test `E`. -/
theorem published_first_sound (e : Env) (p : Pat) (rtl : Bool) (S : List Pred) (h : firstSet p rtl = some S)
    (E : Nat → Bool) (hsub : ∀ r, memPreds e S r = true → E r = true)
    (start : Nat) (st : St) (hf : find e p rtl start = some st) :
    ∃ idx len, lastCap st.caps 0 = some (idx, len) ∧ 0 < len ∧
      ∃ r, e.text[if rtl then idx + len - 1 else idx]? = some r ∧ E r = true := by
  obtain ⟨i, _, hat⟩ := find_attempt e p rtl start st hf
  obtain ⟨y, hy, _, hcap⟩ := attempt_success e p rtl i st hat
  have h2 := m_fwd e p rtl _ y hy
  obtain ⟨hne, r, hr, hS⟩ := firstSet_sound e p rtl S h _ y hy
  refine ⟨_, _, hcap, ?_, r, ?_, hsub r hS⟩
  · cases rtl <;> simp [Fwd] at h2 hne ⊢ <;> omega
  · cases rtl
    · simp [Fwd] at h2
      simpa [charAt, Nat.min_eq_left h2] using hr
    · simp [Fwd] at h2
      simp only [charAt, if_true] at hr
      split at hr
      · simp at hr
      · rename_i hi0
        have e1 : min i y.pos + (max i y.pos - min i y.pos) - 1 = i - 1 := by omega
        simpa [e1] using hr

/-- **A published fixed-distance set that includes the intersection of the candidates holds at every
    find result** (left-to-right): if at least one over-approximation exists for offset `k` and the
    published test `E` accepts every rune that ALL candidates accept, then the text has a character `k`
    positions after the match index and `E` accepts it.  `E` is what the runner evaluates for a
    `FixedDistanceSet` at `Distance = k` (`Chars`/`Range` with `Negated`, else `Set.CharIn`), the single
    character of `FixedDistanceChar`, character `i` of a `FixedDistanceString` or of a `LeadingPrefix`
    at `Distance + i`, or `FcPrefix` at 0.  (Including ONE candidate is the special case.) -/
theorem published_set_sound (e : Env) (p : Pat) (k : Nat) (hne : setCandidates p k ≠ [])
    (E : Nat → Bool) (hsub : ∀ r, (∀ S ∈ setCandidates p k, memPreds e S r = true) → E r = true)
    (start : Nat) (st : St) (hf : find e p false start = some st) :
    ∃ idx len, lastCap st.caps 0 = some (idx, len) ∧ ∃ r, e.text[idx + k]? = some r ∧ E r = true := by
  obtain ⟨i, _, hat⟩ := find_attempt e p false start st hf
  obtain ⟨y, hy, _, hcap⟩ := attempt_success e p false i st hat
  have h2 : i ≤ y.pos := by simpa [Fwd] using m_fwd e p false _ y hy
  obtain ⟨S0, hS0⟩ := List.exists_mem_of_ne_nil _ hne
  obtain ⟨r, hr, _⟩ := setCandidates_sound e p k S0 hS0 _ y hy
  refine ⟨_, _, hcap, r, by simpa [Nat.min_eq_left h2] using hr, hsub r ?_⟩
  intro S hS
  obtain ⟨r', hr', hmem⟩ := setCandidates_sound e p k S hS _ y hy
  rw [hr] at hr'
  simp at hr'; subst hr'
  exact hmem

/-- **A published prefix list that passes the validator holds at every find result** (left-to-right):
    some published string matches the text at the match index under the search's comparison `R`. -/
theorem published_prefixes_sound (e : Env) (norm : Nat → Nat) (maxLen maxCount : Nat) (p : Pat)
    (R : Nat → Nat → Bool) (hR : ∀ t, R (norm t) t = true)
    (E : List (List Nat)) (L : List (List Nat)) (hL : L ∈ prefixCandidates norm maxLen maxCount p)
    (hc : checkPrefixes E L = true)
    (start : Nat) (st : St) (hf : find e p false start = some st) :
    ∃ idx len, lastCap st.caps 0 = some (idx, len) ∧ ∃ x ∈ E, rPrefix R x (e.text.drop idx) = true := by
  obtain ⟨i, _, hat⟩ := find_attempt e p false start st hf
  obtain ⟨y, hy, _, hcap⟩ := attempt_success e p false i st hat
  have h2 : i ≤ y.pos := by simpa [Fwd] using m_fwd e p false _ y hy
  obtain ⟨x, hx, hr⟩ := checkPrefixes_sound e norm maxLen maxCount p R hR E L hL hc _ y hy
  exact ⟨_, _, hcap, x, hx, by simpa [Nat.min_eq_left h2] using hr⟩

/-! ### non-vacuity: concrete instances -/

/-- `^ab{1,3}(?:c|cd)$` (multiline) on "x\nabbc": Concatenate(Bol, One a, Oneloop b{1,3},
    Alternate(c, cd), Eol) -/
def demoPat : Pat :=
  .seq (.anchor .bol) (.seq (.chr (.one 97 false)) (.seq (.quant false 1 (some 3) (.chr (.one 98 false)))
    (.seq (.alt (.chr (.one 99 false)) (.seq (.chr (.one 99 false)) (.chr (.one 100 false)))) (.anchor .eol))))
def demoEnv : Env := { text := [120, 10, 97, 98, 98, 99], textstart := 0, named := [], word := [], fold := [] }
def demoStart : St := { pos := 2, caps := [] }
def demoEnd : St := { pos := 6, caps := [] }

theorem demo_success : demoEnd ∈ m demoEnv demoPat false demoStart := by decide

example : minLen demoPat = 3 ∧ maxLen demoPat = some 6 := by decide
example : leadingAnchor false demoPat = some .bol ∧ trailingAnchor false demoPat = some .eol := by decide
example : leadingPrefix utf8enc demoPat = ([97, 98], false) := by decide
example : find demoEnv demoPat false 0 = some { pos := 6, caps := [(0, 2, 4)] } := by decide
example : 3 ≤ 6 - 2 := minLen_sound demoEnv demoPat false demoStart demoEnd demo_success
example : 6 - 2 ≤ 6 := maxLen_sound demoEnv demoPat false demoStart demoEnd demo_success 6 (by decide)
example : anchorHolds demoEnv .bol 2 = true :=
  leadingAnchor_sound demoEnv demoPat false .bol (by decide) demoStart demoEnd demo_success
example : anchorHolds demoEnv .eol 6 = true :=
  trailingAnchor_sound demoEnv demoPat false .eol (by decide) demoStart demoEnd demo_success
example : (([97, 98, 98, 99] : List Nat).flatMap utf8enc).take 2 = [97, 98] :=
  leadingPrefix_sound demoEnv utf8enc demoPat demoStart demoEnd demo_success
example : asciiOnly demoPat = true := by decide
example : 3 ≤ demoEnv.n - 2 := minLen_remaining demoEnv demoPat false 2 (by decide) _ (by decide : attempt demoEnv demoPat false 2 = some { pos := 6, caps := [(0, 2, 4)] })

/-- right-to-left: `\bab$` matched leftwards from 5 on "x ab\n": the pattern-order LAST child leads -/
def demoRtl : Pat := .seq (.anchor .boundary) (.seq (.chr (.one 97 false)) (.seq (.chr (.one 98 false)) (.anchor .eol)))
def demoRtlEnv : Env := { text := [120, 32, 97, 98, 10], textstart := 5, named := [], word := [97, 98, 120], fold := [] }
example : leadingAnchor true demoRtl = some .eol ∧ trailingAnchor true demoRtl = some .boundary := by decide
example : find demoRtlEnv demoRtl true 5 = some { pos := 2, caps := [(0, 2, 2)] } := by decide
example : maxLen demoRtl = some (minLen demoRtl) := by decide

/-- a "continue" prefix: `(?>ab){2}` is exactly "abab" -/
example : leadingPrefix utf8enc (.quant false 2 (some 2) (.atomic (.seq (.chr (.one 97 false)) (.chr (.one 98 false)))))
    = ([97, 98, 97, 98], true) := by decide

/-- the byte-wise intersection cuts a character: `aéx|aèy` publishes `"a\xc3"` -/
example : leadingPrefix utf8enc (.seq (.chr (.one 97 false))
    (.alt (.seq (.chr (.one 233 false)) (.chr (.one 120 false))) (.seq (.chr (.one 232 false)) (.chr (.one 121 false)))))
    = ([97, 0xC3], false) := by decide


/-! ### non-vacuity of the set-valued theorems -/

-- `^ab{1,3}(?:c|cd)$`: first character `a`; `b` at offset 1; `c` at offset... not fixed (b{1,3})
example : firstSet demoPat false = some [.one 97 false] := by decide
example : setAt demoPat 1 = some [.one 98 false] ∧ setAt demoPat 2 = none := by decide
example : (prefixes id 8 16 demoPat).1 = [[97, 98]] := by decide
example : demoEnd.pos ≠ demoStart.pos ∧ ∃ r, charAt demoEnv false 2 = some r ∧ memPreds demoEnv [.one 97 false] r = true :=
  firstSet_sound demoEnv demoPat false _ (by decide) demoStart demoEnd demo_success
example : ∃ r, demoEnv.text[2 + 1]? = some r ∧ memPreds demoEnv [.one 98 false] r = true :=
  setAt_sound demoEnv demoPat 1 _ (by decide) demoStart demoEnd demo_success
example : ∃ l ∈ [[97, 98]], l <+: (demoEnv.text.drop 2).map id :=
  prefixes_sound demoEnv id 8 16 demoPat demoStart demoEnd demo_success
example : ∃ r, charAt demoEnv false 2 = some r ∧ (fun r => decide (97 ≤ r ∧ r ≤ 122)) r = true :=
  firstSet_superset_sound demoEnv demoPat false [.one 97 false] (by decide) (fun r => decide (97 ≤ r ∧ r ≤ 122))
    (by intro r h; simp [memPreds, Pred.test] at h; subst h; decide) demoStart demoEnd demo_success
example : ∃ idx len, lastCap ({ pos := 6, caps := [(0, 2, 4)] } : St).caps 0 = some (idx, len) ∧ 0 < len ∧
    ∃ r, demoEnv.text[if false then idx + len - 1 else idx]? = some r ∧ (fun r => r == 97) r = true :=
  published_first_sound demoEnv demoPat false [.one 97 false] (by decide) (fun r => r == 97)
    (by intro r h; simp [memPreds, Pred.test] at h; subst h; decide) 0 _ (by decide)

-- right-to-left `\bab$`: the LAST character in pattern order is consumed first
example : firstSet demoRtl true = some [.one 98 false] := by decide
example : ∃ idx len, lastCap ({ pos := 2, caps := [(0, 2, 2)] } : St).caps 0 = some (idx, len) ∧ 0 < len ∧
    ∃ r, demoRtlEnv.text[if true then idx + len - 1 else idx]? = some r ∧ (fun r => r == 98) r = true :=
  published_first_sound demoRtlEnv demoRtl true [.one 98 false] (by decide) (fun r => r == 98)
    (by intro r h; simp [memPreds, Pred.test] at h; subst h; decide) 5 _ (by decide)

/-- `(?=[a-b]x)(?:a[x-y]|b[^\n])z*` on "zaxz": a leading positive lookahead (its facts are candidates),
    an alternation of equal-width branches (union at each offset), a nullable tail -/
def demoSets : Pat :=
  .seq (.look false false (.seq (.chr (.set (.base false [(97, 98)] []) false)) (.chr (.one 120 false))))
    (.seq (.alt (.seq (.chr (.one 97 false)) (.chr (.set (.base false [(120, 121)] []) false)))
                (.seq (.chr (.one 98 false)) (.chr (.notone 10 false))))
      (.quant false 0 none (.chr (.one 122 false))))
def demoSetsEnv : Env := { text := [122, 97, 120, 122], textstart := 0, named := [], word := [], fold := [] }

theorem demoSets_success : ({ pos := 4, caps := [] } : St) ∈ m demoSetsEnv demoSets false { pos := 1, caps := [] } := by decide

example : firstSet demoSets false = some [.one 97 false, .one 98 false] := by decide
example : setAt demoSets 1 = some [.set (.base false [(120, 121)] []) false, .notone 10 false] := by decide
example : (leadLook demoSets).1 = some (.seq (.chr (.set (.base false [(97, 98)] []) false)) (.chr (.one 120 false))) := by decide
example : setCandidates demoSets 1 =
    [[.set (.base false [(120, 121)] []) false, .notone 10 false], [.one 120 false]] := by decide
example : setCandidates demoSets 0 =
    [[.one 97 false, .one 98 false], [.one 97 false, .one 98 false],
     [.set (.base false [(97, 98)] []) false], [.set (.base false [(97, 98)] []) false]] := by decide
example : prefixCandidates id 8 16 demoSets = [[[97, 120], [97, 121], [98]], [[97, 120], [98, 120]]] := by decide
example : ∃ r, demoSetsEnv.text[1 + 1]? = some r ∧ memPreds demoSetsEnv [.one 120 false] r = true :=
  setCandidates_sound demoSetsEnv demoSets 1 _ (by decide) _ _ demoSets_success
example : ∃ r, demoSetsEnv.text[1]? = some r ∧ memPreds demoSetsEnv [.one 97 false, .one 98 false] r = true :=
  leadLook_transfer demoSetsEnv demoSets
    (.seq (.chr (.set (.base false [(97, 98)] []) false)) (.chr (.one 120 false))) false (by decide)
    (fun i => ∃ r, demoSetsEnv.text[i]? = some r ∧ memPreds demoSetsEnv [.one 97 false, .one 98 false] r = true)
    (fun s0 s1 h1 => by
      obtain ⟨_, r, hr, hm⟩ := firstSet_sound demoSetsEnv _ false [.set (.base false [(97, 98)] []) false] (by decide) s0 s1 h1
      refine ⟨r, by simpa [charAt] using hr, ?_⟩
      simp [memPreds, Pred.test, Cls.mem, inRanges, inNames] at hm ⊢
      omega)
    _ _ demoSets_success
-- a published case-sensitive list {"ax","bx"} (the lookahead's) covers the lookahead's candidate list
example : checkPrefixes [[97, 120], [98, 120]] [[97, 120], [98, 120]] = true := by decide
example : ∃ x ∈ [[97, 120], [98, 120]], rPrefix (fun x t => x == t) x (demoSetsEnv.text.drop 1) = true :=
  checkPrefixes_sound demoSetsEnv id 8 16 demoSets (fun x t => x == t) (by intro t; simp) _ [[97, 120], [98, 120]]
    (by decide) (by decide) _ _ demoSets_success
example : find demoSetsEnv demoSets false 0 = some { pos := 4, caps := [(0, 1, 3)] } := by decide
example : ∃ idx len, lastCap ({ pos := 4, caps := [(0, 1, 3)] } : St).caps 0 = some (idx, len) ∧
    ∃ r, demoSetsEnv.text[idx + 1]? = some r ∧ (fun r => decide (r ≠ 10)) r = true :=
  published_set_sound demoSetsEnv demoSets 1 (by decide) (fun r => decide (r ≠ 10))
    (by
      intro r h
      have := h [.one 120 false] (by decide)
      simp [memPreds, Pred.test] at this
      subst this; decide) 0 _ (by decide)
/-- an upper-case text "zAXz" and the normalisation "ASCII lower-casing": the ordinal-ignore-case reading -/
def demoLower (r : Nat) : Nat := if 65 ≤ r ∧ r ≤ 90 then r + 32 else r
def demoCi : Pat := .seq (.chr (.set (.base false [(65, 65), (97, 97)] []) false)) (.chr (.set (.base false [(88, 88), (120, 120)] []) false))
def demoCiEnv : Env := { text := [122, 65, 88, 122], textstart := 0, named := [], word := [], fold := [] }
example : prefixCandidates demoLower 8 16 demoCi = [[[97, 120]]] := by decide
example : prefixCandidates id 8 16 demoCi = [[[65, 88], [65, 120], [97, 88], [97, 120]]] := by decide
example : find demoCiEnv demoCi false 0 = some { pos := 3, caps := [(0, 1, 2)] } := by decide
example : ∃ idx len, lastCap ({ pos := 3, caps := [(0, 1, 2)] } : St).caps 0 = some (idx, len) ∧
    ∃ x ∈ [[97, 120]], rPrefix (fun x t => t == x || demoLower t == x) x (demoCiEnv.text.drop idx) = true :=
  published_prefixes_sound demoCiEnv demoLower 8 16 demoCi (fun x t => t == x || demoLower t == x)
    (by intro t; simp) [[97, 120]] [[97, 120]] (by decide) (by decide) 0 _ (by decide)

/-! ### the first-character defect D13 (fixed by 0ead94b + 0185758), documented

For `(?:xx|.a)` the analysis merged `[^\n]` into the already collected `{x}` by NEGATING the accumulator
and published `[^\nx]`-like sets that exclude `x`; the match "xx" was skipped.  The over-approximation
is `{x} ∪ [^\n]`; a published set must include it, and no set without `x` does. -/
def d13Pat : Pat := .alt (.seq (.chr (.one 120 false)) (.chr (.one 120 false))) (.seq (.chr (.notone 10 false)) (.chr (.one 97 false)))
example : firstSet d13Pat false = some [.one 120 false, .notone 10 false] := by decide
example : ¬ ∀ r, memPreds demoEnv [.one 120 false, .notone 10 false] r = true → (fun r => decide (r ≠ 10 ∧ r ≠ 120)) r = true := by
  intro h; have := h 120 (by decide); simp at this

/-! ### the defect fixed by d917f9b, documented

Before the fix the `Alternate` case compared every later branch with the FIRST branch's whole prefix and
kept only the last comparison.  For `(a)bx|(a)cy|(a)bz` it published `"ab"`, which is not a prefix of
the match "acy" (the string-prefix filter then missed the match: `FindStringMatch("acy")` returned
nil).  The current code yields `"a"`. -/

def defectPat : Pat :=
  .alt (.seq (.cap 1 (.chr (.one 97 false))) (.seq (.chr (.one 98 false)) (.chr (.one 120 false))))
    (.alt (.seq (.cap 1 (.chr (.one 97 false))) (.seq (.chr (.one 99 false)) (.chr (.one 121 false))))
      (.seq (.cap 1 (.chr (.one 97 false))) (.seq (.chr (.one 98 false)) (.chr (.one 122 false)))))
def defectEnv : Env := { text := [97, 99, 121], textstart := 0, named := [], word := [], fold := [] }

example : leadingPrefixOldAlt utf8enc defectPat = [97, 98] := by decide
example : leadingPrefix utf8enc defectPat = ([97], false) := by decide
example : find defectEnv defectPat false 0 = some { pos := 3, caps := [(1, 0, 1), (0, 0, 3)] } := by decide
example : ¬ ((defectEnv.text.drop 0).flatMap utf8enc).take 2 = leadingPrefixOldAlt utf8enc defectPat := by decide

/-! ## facts about a leading set loop: the required-landmark chain and the literal after the loop

`findRequiredLandmarkChain` and `findLiteralFollowingLeadingLoop` are validated, not mirrored
(Model/LoopFacts.lean): Lean computes from the converted tree a record of the same shape and the theorems
below prove it true of every left-to-right match, in exactly the form the finders of C03 consume
(`LandmarkFact`, `LitAfterLoopFact`).  Leg L checks per pattern that the published record is that record
(sets compared rune by rune; landmarks may be missing from the tail). -/

section LoopFacts
open RegexVerif.LoopFacts RegexVerif.Finders RegexVerif.Lemmas.Finders RegexVerif.Lemmas.LoopFacts

/-- the specification's attempt as C03's scan model sees it (group 0) -/
def attemptSpan (e : Env) (p : Pat) : Nat → Option (Nat × Nat) :=
  fun i => (attempt e p false i).bind (fun st => lastCap st.caps 0)

/-- **The required-landmark chain is a fact about every match.**  If `chainOf k p = some sc` (the top
    concatenation of `p` starts with an unbounded loop over one character test, followed by zero-width
    children and then landmarks), then at every position where the specification matches: a run of
    loop characters, then whitespace of the first landmark, then an alternative of the first landmark as
    `requiredLandmarkAlternativeMatch` tests it, then every later landmark in order, no earlier than the
    previous core start plus the shortest width of the alternative used.  This is `LandmarkFact`, the
    hypothesis of `C03.finder_landmarkChain_sound`, for the chain read under the matcher's own oracle. -/
theorem landmarkChain_sound (e : Env) (k : Nat) (p : Pat) (sc : SymChain) (h : chainOf k p = some sc) :
    ∃ l ls, sc.landmarks = l :: ls ∧
      LandmarkFact (sc.loop.test e) (l.map (SymAlt.toLm e)) (lmOf e ls) e.text (attemptSpan e p) :=
  chainOf_fact e k p sc h

/-- **A published chain that is Lean's chain, possibly without some later landmarks, is sound**: the same
    loop set (as a set of runes), the same first landmark, and the remaining landmarks a sublist of Lean's. -/
theorem published_landmarkChain_sound (e : Env) (k : Nat) (p : Pat) (sc : SymChain) (h : chainOf k p = some sc)
    (S : Nat → Bool) (first : List LmAlt) (rest : List (List LmAlt))
    (hS : ∀ r, S r = sc.loop.test e r)
    (hfirst : ∀ l ls, sc.landmarks = l :: ls → first = l.map (SymAlt.toLm e) ∧ List.Sublist rest (lmOf e ls)) :
    LandmarkFact S first rest e.text (attemptSpan e p) := by
  obtain ⟨l, ls, hl, hF⟩ := landmarkChain_sound e k p sc h
  obtain ⟨h1, h2⟩ := hfirst l ls hl
  have : S = sc.loop.test e := funext hS
  rw [this, h1]
  exact landmarkFact_sublist _ _ h2 _ _ hF

/-- the hypotheses of `published_landmarkChain_sound` are met by Lean's own chain with its second landmark
    dropped (any sublist of the later landmarks will do) -/
example (e : Env) (ls : List (List SymAlt)) : List.Sublist (lmOf e ls.tail) (lmOf e ls) := by
  unfold lmOf; exact (List.tail_sublist ls).map _

/-- `[xy]*\s*ab(?:cd|c)z` (4 children): loop over {x, y}; landmarks `\s*ab`, `cd | c`, `z` -/
def lmPat : Pat :=
  .seq (.quant false 0 none (.chr (.set (.base false [(120, 121)] []) false)))
    (.seq (.cap 1 (.seq (.quant false 0 none (.chr (.set (.base false [(32, 32)] []) false)))
                    (.seq (.chr (.one 97 false)) (.chr (.one 98 false)))))
      (.seq (.alt (.seq (.chr (.one 99 false)) (.chr (.one 100 false))) (.chr (.one 99 false)))
        (.chr (.one 122 false))))
def lmEnv : Env := { text := [120, 32, 97, 98, 99, 122], textstart := 0, named := [], word := [], fold := [] }

example : ∃ sc, chainOf 4 lmPat = some sc ∧ sc.landmarks.length = 3 ∧ (sc.landmarks.map List.length) = [1, 2, 1] :=
  ⟨_, rfl, by decide⟩
example : attemptSpan lmEnv lmPat 0 = some (0, 6) ∧ attemptSpan lmEnv lmPat 1 = some (1, 5) ∧
    attemptSpan lmEnv lmPat 3 = none := by decide

/-- **The literal after the leading loop is a fact about every match** (character tests): if `lalOf k p =
    some sl`, from every matching position a run of the loop's test leads to a position where the tests of
    `sl.lit` hold one after the other. -/
theorem literalAfterLoop_sound (e : Env) (k : Nat) (p : Pat) (sl : SymLal) (h : lalOf k p = some sl) :
    ∀ p0, p0 ≤ e.text.length → attemptSpan e p p0 ≠ none →
      ∃ kk, p0 ≤ kk ∧ (∀ j, p0 ≤ j → j < kk → memAt (sl.loop.test e) e.text j = true) ∧
        ∀ i (hi : i < sl.lit.length), memAt ((sl.lit[i]'hi).test e) e.text (kk + i) = true :=
  lalOf_fact e k p sl h

/-- **… and in the form of `tryFindPrefix`**: the rune prefix of what follows the loop (whatever its shape:
    alternation with a common prefix, loop with a minimum, capture) stands where the loop's run ends. -/
theorem literalAfterLoop_prefix_sound (e : Env) (p : Pat) (P : Pred) (w : List Nat) (h : lalPrefixOf p = some (P, w)) :
    w ≠ [] ∧ ∀ p0, p0 ≤ e.text.length → attemptSpan e p p0 ≠ none →
      ∃ kk, p0 ≤ kk ∧ (∀ j, p0 ≤ j → j < kk → memAt (P.test e) e.text j = true) ∧ ∃ t, e.text.drop kk = w ++ t := by
  obtain ⟨h1, h2⟩ := lalPrefixOf_at e p P w h
  exact ⟨h1, fun p0 _ hne => at_attempt e p _ h2 p0 hne⟩

/-- **The facts of the body of a leading positive lookahead are facts of the pattern's match starts**
    (`newFindOptimizations` publishes the body's `FindOptimizations` when the pattern itself yields
    nothing): the landmark chain, the literal after the loop (character tests) and its prefix form,
    computed from the body `b = leadLook p`, hold at every position where `p` matches. -/
theorem look_loopFacts_sound (e : Env) (p b : Pat) (kf : Bool) (hlook : leadLook p = (some b, kf)) (k : Nat) :
    (∀ sc, chainOf k b = some sc → ∃ l ls, sc.landmarks = l :: ls ∧
      LandmarkFact (sc.loop.test e) (l.map (SymAlt.toLm e)) (lmOf e ls) e.text (attemptSpan e p)) ∧
    (∀ sl, lalOf k b = some sl → ∀ p0, p0 ≤ e.text.length → attemptSpan e p p0 ≠ none → LalAt e sl p0) ∧
    (∀ P w, lalPrefixOf b = some (P, w) → ∀ p0, p0 ≤ e.text.length → attemptSpan e p p0 ≠ none → PrefAt e P w p0) := by
  refine ⟨?_, ?_, ?_⟩
  · intro sc h
    obtain ⟨l, ls, hl, hat⟩ := chainOf_at e k b sc h
    exact ⟨l, ls, hl, fun p0 _ hne => look_attempt e p b kf hlook _ hat p0 hne⟩
  · intro sl h p0 _ hne
    exact look_attempt e p b kf hlook _ (lalOf_at e k b sl h) p0 hne
  · intro P w h p0 _ hne
    exact look_attempt e p b kf hlook _ (lalPrefixOf_at e b P w h).2 p0 hne

/-- `(?=[xy]*ab)…`: the facts of the lookahead body `[xy]*ab` -/
example : leadLook (.seq (.look false false lalPat) (.chr (.one 120 false))) = (some lalPat, false) := rfl

/-- what leg L checks of a published `LiteralAfterLoop` against Lean's character tests: the string's
    characters (under the comparison the finder selects), or `Chars`, or `Char`, include the tests -/
def LalIncluded (e : Env) (lower : Nat → Nat) (l : LitAfterLoop) (lit : List Pred) : Prop :=
  if !l.str.isEmpty then
    l.str.length ≤ lit.length ∧
    ∀ i (h1 : i < l.str.length) (h2 : i < lit.length) r, (lit[i]'h2).test e r = true →
      stringEq lower l.strIgnoreCase l.str r (l.str[i]'h1) = true
  else if !l.chars.isEmpty then ∃ Q qs, lit = Q :: qs ∧ ∀ r, Q.test e r = true → l.chars.contains r = true
  else ∃ Q qs, lit = Q :: qs ∧ ∀ r, Q.test e r = true → r = l.char

/-- **A published `LiteralAfterLoop` that includes Lean's record is sound**: its loop set contains the
    loop's test and its literal (string / `Chars` / `Char`) includes the character tests — then
    `LitAfterLoopFact`, the hypothesis of `C03.finder_literalAfterLoop_sound`, holds. -/
theorem lalAt_included (e : Env) (sl : SymLal) (lower : Nat → Nat) (l : LitAfterLoop) (S : Nat → Bool)
    (hS : ∀ r, sl.loop.test e r = true → S r = true) (hinc : LalIncluded e lower l sl.lit)
    (p0 : Nat) (hat : LalAt e sl p0) :
    ∃ k, p0 ≤ k ∧ l.litAt lower e.text k = true ∧ ∀ j, p0 ≤ j → j < k → memAt S e.text j = true := by
  obtain ⟨kk, k1, k2, k3⟩ := hat
  refine ⟨kk, k1, ?_, ?_⟩
  · unfold LalIncluded at hinc
    unfold LitAfterLoop.litAt
    by_cases hs : (!l.str.isEmpty) = true
    · rw [if_pos hs] at hinc ⊢
      obtain ⟨hlen, hchar⟩ := hinc
      unfold occursAt
      rw [Lemmas.BoyerMoore.prefixOf_iff]
      intro j hj
      have hj2 : j < sl.lit.length := by omega
      have hm := k3 j hj2
      simp only [memAt] at hm
      cases ht : e.text[kk + j]? with
      | none => rw [ht] at hm; simp at hm
      | some t =>
        rw [ht] at hm
        exact ⟨t, l.str[j]'hj, by rw [List.getElem?_drop]; exact ht, by simp, hchar j hj hj2 t hm⟩
    · rw [if_neg hs] at hinc ⊢
      by_cases hc : (!l.chars.isEmpty) = true
      · rw [if_pos hc] at hinc ⊢
        obtain ⟨Q, qs, hq, hsub⟩ := hinc
        have hm := k3 0 (by rw [hq]; simp)
        simp only [hq, List.getElem_cons_zero, Nat.add_zero, memAt] at hm ⊢
        cases ht : e.text[kk]? with
        | none => rw [ht] at hm; simp at hm
        | some t => rw [ht] at hm; simp only []; exact hsub t hm
      · rw [if_neg hc] at hinc ⊢
        obtain ⟨Q, qs, hq, hsub⟩ := hinc
        have hm := k3 0 (by rw [hq]; simp)
        simp only [hq, List.getElem_cons_zero, Nat.add_zero, memAt] at hm
        cases ht : e.text[kk]? with
        | none => rw [ht] at hm; simp at hm
        | some t => rw [ht] at hm; simp [hsub t hm]
  · intro j j1 j2
    have := k2 j j1 j2
    simp only [memAt] at this ⊢
    cases ht : e.text[j]? with
    | none => rw [ht] at this; simp at this
    | some t => rw [ht] at this; simp only []; exact hS t this

theorem published_literalAfterLoop_sound (e : Env) (k : Nat) (p : Pat) (sl : SymLal) (h : lalOf k p = some sl)
    (lower : Nat → Nat) (l : LitAfterLoop) (S : Nat → Bool)
    (hS : ∀ r, sl.loop.test e r = true → S r = true) (hinc : LalIncluded e lower l sl.lit) :
    LitAfterLoopFact lower l S e.text (attemptSpan e p) :=
  fun p0 hp0 hne => lalAt_included e sl lower l S hS hinc p0 (lalOf_fact e k p sl h p0 hp0 hne)

/-- the same when the record comes from the body of a leading positive lookahead -/
theorem published_look_literalAfterLoop_sound (e : Env) (p b : Pat) (kf : Bool) (hlook : leadLook p = (some b, kf))
    (k : Nat) (sl : SymLal) (h : lalOf k b = some sl)
    (lower : Nat → Nat) (l : LitAfterLoop) (S : Nat → Bool)
    (hS : ∀ r, sl.loop.test e r = true → S r = true) (hinc : LalIncluded e lower l sl.lit) :
    LitAfterLoopFact lower l S e.text (attemptSpan e p) :=
  fun p0 hp0 hne => lalAt_included e sl lower l S hS hinc p0
    ((look_loopFacts_sound e p b kf hlook k).2.1 sl h p0 hp0 hne)

/-- `[xy]*ab…`: loop {x, y}, literal tests `a`, `b`; the published record `String = "ab"` includes them -/
def lalPat : Pat :=
  .seq (.quant false 0 none (.chr (.set (.base false [(120, 121)] []) false)))
    (.seq (.chr (.one 97 false)) (.seq (.chr (.one 98 false)) (.chr (.set (.base false [(99, 100)] []) false))))

example : lalOf 4 lalPat = some ⟨.set (.base false [(120, 121)] []) false,
    [.one 97 false, .one 98 false, .set (.base false [(99, 100)] []) false]⟩ := rfl
example : LalIncluded lmEnv id { str := [97, 98], loopSet := some (fun c => c == 120 || c == 121) }
    [.one 97 false, .one 98 false, .set (.base false [(99, 100)] []) false] := by
  unfold LalIncluded
  simp only [List.isEmpty_cons, Bool.not_false, if_true]
  refine ⟨by decide, ?_⟩
  intro i h1 h2 r hr
  have : i = 0 ∨ i = 1 := by simp at h1; omega
  rcases this with rfl | rfl <;> simp [Pred.test] at hr <;> subst hr <;> simp [stringEq, eqExact]
example : lalPrefixOf lalPat = some (.set (.base false [(120, 121)] []) false, [97, 98]) := rfl

/-- `(?i)[\d\-]+(?:aab){1,2}B\Z` as the parser delivers it: `[Aa]{2}[Bb]` inside the counted group (adjacent equal
    sets are coalesced into a fixed-count set loop).  `lalOf` reads the three tests `[Aa] [Aa] [Bb]` off the first
    iteration of the group; the published ignore-case string "aab" includes them (`LalIncluded`). -/
def ciLalPat : Pat :=
  .seq (.atomic (.quant false 1 none (.chr (.set (.base false [(45, 45), (48, 57)] []) false))))
    (.seq .empty
      (.seq (.quant false 1 (some 2)
              (.seq (.atomic (.quant false 2 (some 2) (.chr (.set (.base false [(65, 65), (97, 97)] []) false))))
                (.chr (.set (.base false [(66, 66), (98, 98)] []) false))))
        (.seq (.chr (.set (.base false [(66, 66), (98, 98)] []) false)) (.anchor .endz))))

example : lalOf 5 ciLalPat = some ⟨.set (.base false [(45, 45), (48, 57)] []) false,
    [.set (.base false [(65, 65), (97, 97)] []) false, .set (.base false [(65, 65), (97, 97)] []) false,
     .set (.base false [(66, 66), (98, 98)] []) false]⟩ := rfl
example : LalIncluded lmEnv id { str := [97, 97, 98], strIgnoreCase := true, loopSet := some (fun c => c == 45 || (48 ≤ c && c ≤ 57)) }
    [.set (.base false [(65, 65), (97, 97)] []) false, .set (.base false [(65, 65), (97, 97)] []) false,
     .set (.base false [(66, 66), (98, 98)] []) false] := by
  unfold LalIncluded
  simp only [List.isEmpty_cons, Bool.not_false, if_true]
  refine ⟨by decide, ?_⟩
  intro i h1 h2 r hr
  have : i = 0 ∨ i = 1 ∨ i = 2 := by simp at h1; omega
  rcases this with rfl | rfl | rfl <;>
    simp [Pred.test, Cls.mem, inRanges, inNames] at hr <;>
    rcases hr with ⟨ha, hb⟩ | ⟨ha, hb⟩ <;> (have hv := Nat.le_antisymm hb ha; subst hv; simp [stringEq, isAscii, eqAsciiFold, foldASCII])

end LoopFacts

end RegexVerif.Props.C04
