/-
C04 — property theorems (stub: not built yet).
-/
namespace RegexVerif.Props.C04
end RegexVerif.Props.C04
