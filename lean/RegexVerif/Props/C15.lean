/-
C15 — right-to-left mode is the mirror image of left-to-right.

`Spec.m` is direction-parametric; the theorems of C01 are stated for both directions.  This file
restates the direction-specific facts the property lists.
-/
import RegexVerif.Props.C01

namespace RegexVerif.Props.C15
open RegexVerif RegexVerif.Spec

/-- **Attempt positions descend from the start offset**: with `rtl = true` find returns the attempt
    at the *largest* position `≤ start` at which an attempt succeeds. -/
theorem find_rtl_descends (e : Env) (p : Pat) (start : Nat) (st : St) (i : Nat)
    (hfind : find e p true start = some st)
    (hi : i ≤ start) (hsucc : (attempt e p true i).isSome) :
    ∃ j, i ≤ j ∧ j ≤ start ∧ attempt e p true j = some st := by
  obtain ⟨before, j, after, hso, hat, hbefore⟩ := (C01.find_eq_some_iff e p true start st).mp hfind
  have hj : j ∈ scanOrder true start e.n := by rw [hso]; simp
  have hjs := (C01.mem_scanOrder_rtl start e.n j).mp hj
  refine ⟨j, ?_, hjs, hat⟩
  -- i is in the scan order; it is not in `before` (its attempt succeeds), so it is j or after j
  have himem : i ∈ scanOrder true start e.n := (C01.mem_scanOrder_rtl start e.n i).mpr hi
  rw [hso] at himem
  have hsorted := C01.scanOrder_sorted true start e.n
  rw [hso] at hsorted
  simp only [List.mem_append, List.mem_cons] at himem
  rcases himem with hb | rfl | ha
  · have := hbefore i hb; rw [this] at hsucc; simp at hsucc
  · exact Nat.le_refl _
  · have := (List.pairwise_append.mp hsorted).2.1
    have := (List.pairwise_cons.mp this).1 i ha
    simp at this; omega

/-- **Every construct consumes leftwards**: a single-character item matched right-to-left ends one
    position to the left and tested the rune before the position. -/
theorem chr_rtl (e : Env) (p : Pred) (st st' : St) (h : st' ∈ m e (.chr p) true st) :
    st'.pos + 1 = st.pos ∧ st'.caps = st.caps ∧ ∃ r, e.text[st'.pos]? = some r ∧ p.test e r = true := by
  simp only [m, stepChar, if_true] at h
  split at h
  · rename_i r pos' hstep
    split at hstep
    · simp at hstep
    · rename_i hne
      cases hget : e.text[st.pos - 1]? with
      | none => simp [hget] at hstep
      | some x =>
        simp [hget] at hstep
        obtain ⟨rfl, rfl⟩ := hstep
        split at h
        · rename_i ht
          simp at h; subst h
          exact ⟨by simp; omega, rfl, x, by simpa using hget, ht⟩
        · simp at h
  · simp at h

/-- **Concatenations are evaluated last-to-first** under right-to-left. -/
theorem seq_rtl (e : Env) (a b : Pat) (st : St) :
    m e (.seq a b) true st = (m e b true st).flatMap (m e a true) := by
  simp [m]

/-- **Lookahead still looks rightwards, lookbehind leftwards**, whatever the direction of the
    enclosing pattern. -/
theorem look_direction (e : Env) (behind neg : Bool) (body : Pat) (rtl : Bool) (st : St) :
    m e (.look behind neg body) rtl st = m e (.look behind neg body) (!rtl) st := by
  simp [m]

/-- **Captures are ordinary (start, length) spans** in both directions. -/
theorem cap_span (e : Env) (g : Nat) (body : Pat) (rtl : Bool) (st st' : St) (h : st' ∈ m e (.cap g body) rtl st) :
    ∃ caps, st'.caps = caps ++ [(g, min st.pos st'.pos, max st.pos st'.pos - min st.pos st'.pos)] := by
  simp only [m, List.mem_map] at h
  obtain ⟨y, _, rfl⟩ := h
  exact ⟨y.caps, rfl⟩

/-- non-vacuity: `a(b)` matched right-to-left on "xab" from the end -/
example : find { text := [120, 97, 98], textstart := 3, named := [], word := [], fold := [] }
    (.seq (.chr (.one 97 false)) (.cap 1 (.chr (.one 98 false)))) true 3
    = some { pos := 1, caps := [(1, 2, 1), (0, 1, 2)] } := by decide

end RegexVerif.Props.C15
