/-
C15 — property theorems (stub: not built yet).
-/
namespace RegexVerif.Props.C15
end RegexVerif.Props.C15
