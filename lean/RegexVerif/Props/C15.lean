/-
C15 — right-to-left mode is the mirror image of left-to-right.

`Spec.m` is direction-parametric; the theorems of C01 are stated for both directions.  This file
restates the direction-specific facts the property lists, and proves the mirror theorem: matching
right-to-left on a text is matching the mirrored pattern (`Spec.mirrorPat`: concatenations swapped,
`^`↔`$`, `\A`↔`\z`, lookahead↔lookbehind, `\Z` ↦ its mirror image `begz`) left-to-right on the
reversed text (`Spec.revEnv`), with positions and captures reflected (`Spec.mirrorSt`:
`p ↦ n - p`, `(s, len) ↦ (n - (s + len), len)`).  Definitions and the induction are in
`Lemmas/SpecMirror.lean`.
-/
import RegexVerif.Props.C01
import RegexVerif.Lemmas.SpecMirror

namespace RegexVerif.Props.C15
open RegexVerif RegexVerif.Spec

/-- **Attempt positions descend from the start offset**: with `rtl = true` find returns the attempt
    at the *largest* position `≤ start` at which an attempt succeeds. -/
theorem find_rtl_descends (e : Env) (p : Pat) (start : Nat) (st : St) (i : Nat)
    (hfind : find e p true start = some st)
    (hi : i ≤ start) (hsucc : (attempt e p true i).isSome) :
    ∃ j, i ≤ j ∧ j ≤ start ∧ attempt e p true j = some st := by
  obtain ⟨before, j, after, hso, hat, hbefore⟩ := (C01.find_eq_some_iff e p true start st).mp hfind
  have hj : j ∈ scanOrder true start e.n := by rw [hso]; simp
  have hjs := (C01.mem_scanOrder_rtl start e.n j).mp hj
  refine ⟨j, ?_, hjs, hat⟩
  -- i is in the scan order; it is not in `before` (its attempt succeeds), so it is j or after j
  have himem : i ∈ scanOrder true start e.n := (C01.mem_scanOrder_rtl start e.n i).mpr hi
  rw [hso] at himem
  have hsorted := C01.scanOrder_sorted true start e.n
  rw [hso] at hsorted
  simp only [List.mem_append, List.mem_cons] at himem
  rcases himem with hb | rfl | ha
  · have := hbefore i hb; rw [this] at hsucc; simp at hsucc
  · exact Nat.le_refl _
  · have := (List.pairwise_append.mp hsorted).2.1
    have := (List.pairwise_cons.mp this).1 i ha
    simp at this; omega

/-- **Every construct consumes leftwards**: a single-character item matched right-to-left ends one
    position to the left and tested the rune before the position. -/
theorem chr_rtl (e : Env) (p : Pred) (st st' : St) (h : st' ∈ m e (.chr p) true st) :
    st'.pos + 1 = st.pos ∧ st'.caps = st.caps ∧ ∃ r, e.text[st'.pos]? = some r ∧ p.test e r = true := by
  simp only [m, stepChar, if_true] at h
  split at h
  · rename_i r pos' hstep
    split at hstep
    · simp at hstep
    · rename_i hne
      cases hget : e.text[st.pos - 1]? with
      | none => simp [hget] at hstep
      | some x =>
        simp [hget] at hstep
        obtain ⟨rfl, rfl⟩ := hstep
        split at h
        · rename_i ht
          simp at h; subst h
          exact ⟨by simp; omega, rfl, x, by simpa using hget, ht⟩
        · simp at h
  · simp at h

/-- **Concatenations are evaluated last-to-first** under right-to-left. -/
theorem seq_rtl (e : Env) (a b : Pat) (st : St) :
    m e (.seq a b) true st = (m e b true st).flatMap (m e a true) := by
  simp [m]

/-- **Lookahead still looks rightwards, lookbehind leftwards**, whatever the direction of the
    enclosing pattern. -/
theorem look_direction (e : Env) (behind neg : Bool) (body : Pat) (rtl : Bool) (st : St) :
    m e (.look behind neg body) rtl st = m e (.look behind neg body) (!rtl) st := by
  simp [m]

/-- **Captures are ordinary (start, length) spans** in both directions. -/
theorem cap_span (e : Env) (g : Nat) (body : Pat) (rtl : Bool) (st st' : St) (h : st' ∈ m e (.cap g body) rtl st) :
    ∃ caps, st'.caps = caps ++ [(g, min st.pos st'.pos, max st.pos st'.pos - min st.pos st'.pos)] := by
  simp only [m, List.mem_map] at h
  obtain ⟨y, _, rfl⟩ := h
  exact ⟨y.caps, rfl⟩

/-- non-vacuity: `a(b)` matched right-to-left on "xab" from the end -/
example : find { text := [120, 97, 98], textstart := 3, named := [], word := [], fold := [] }
    (.seq (.chr (.one 97 false)) (.cap 1 (.chr (.one 98 false)))) true 3
    = some { pos := 1, caps := [(1, 2, 1), (0, 1, 2)] } := by decide

/-! ## the mirror theorem -/

/-- the text "xabc" searched right-to-left from its end -/
private def exEnv : Env := { text := [120, 97, 98, 99], textstart := 4, named := [], word := [], fold := [] }
/-- `a(b)(?=c)` -/
private def exPat : Pat :=
  .seq (.chr (.one 97 false)) (.seq (.cap 1 (.chr (.one 98 false))) (.look false false (.chr (.one 99 false))))

/-- **The mirror theorem, both directions**: all matches of `p` in direction `rtl` from a state
    inside the text, in priority order, are the reflected matches of the mirrored pattern in the
    opposite direction on the reversed text from the reflected state.  Hypotheses: the start offset
    and the state lie inside the text (reflection `p ↦ n - p` is only invertible there; the
    interpreter never leaves the text, `Spec.m_wf`). -/
theorem mirror (e : Env) (hts : e.textstart ≤ e.n) (p : Pat) (rtl : Bool) (st : St) (h : St.wf e.n st) :
    m e p rtl st = (m (revEnv e) (mirrorPat p) (!rtl) (mirrorSt e.n st)).map (mirrorSt e.n) :=
  m_mirror e hts p rtl st h

/-- **Right-to-left matching is the mirror image of left-to-right matching**: the ordered list of
    successes of `p` read right-to-left equals the reflected list of successes of the mirrored
    pattern read left-to-right on the reversed text. -/
theorem rtl_mirror (e : Env) (hts : e.textstart ≤ e.n) (p : Pat) (st : St) (h : St.wf e.n st) :
    m e p true st = (m (revEnv e) (mirrorPat p) false (mirrorSt e.n st)).map (mirrorSt e.n) :=
  m_mirror e hts p true st h

/-- non-vacuity: `a(b)(?=c)` read leftwards from position 3 of "xabc" is `(?<=c)(b)a` read
    rightwards from position 1 of "cbax" -/
example : mirrorPat exPat
    = .seq (.seq (.look true false (.chr (.one 99 false))) (.cap 1 (.chr (.one 98 false)))) (.chr (.one 97 false)) ∧
    m exEnv exPat true { pos := 3, caps := [] } = [{ pos := 1, caps := [(1, 2, 1)] }] ∧
    m (revEnv exEnv) (mirrorPat exPat) false { pos := 1, caps := [] } = [{ pos := 3, caps := [(1, 1, 1)] }] :=
  ⟨rfl, by decide, by decide⟩

/-- **A right-to-left find call is the mirror image of a left-to-right find call**: searching `p`
    right-to-left downwards from `start` returns the reflection of what searching the mirrored
    pattern left-to-right upwards from `n - start` in the reversed text returns (same attempt
    order, same winner, reflected group 0 and captures). -/
theorem find_rtl_mirror (e : Env) (hts : e.textstart ≤ e.n) (p : Pat) (start : Nat) (hs : start ≤ e.n) :
    find e p true start = (find (revEnv e) (mirrorPat p) false (e.n - start)).map (mirrorSt e.n) :=
  find_mirror e hts p true start hs

/-- … and conversely a left-to-right find call is the mirror image of a right-to-left one. -/
theorem find_ltr_mirror (e : Env) (hts : e.textstart ≤ e.n) (p : Pat) (start : Nat) (hs : start ≤ e.n) :
    find e p false start = (find (revEnv e) (mirrorPat p) true (e.n - start)).map (mirrorSt e.n) :=
  find_mirror e hts p false start hs

/-- non-vacuity: `a(b)(?=c)` on "xabc" right-to-left from 4 finds [1,3) with group 1 = [2,3);
    `(?<=c)(b)a` on "cbax" left-to-right from 0 finds [1,3) with group 1 = [1,2) -/
example : find exEnv exPat true 4 = some { pos := 1, caps := [(1, 2, 1), (0, 1, 2)] } ∧
    find (revEnv exEnv) (mirrorPat exPat) false (exEnv.n - 4) = some { pos := 3, caps := [(1, 1, 1), (0, 1, 2)] } ∧
    mirrorSt exEnv.n { pos := 3, caps := [(1, 1, 1), (0, 1, 2)] } = { pos := 1, caps := [(1, 2, 1), (0, 1, 2)] } := by
  decide

/-- non-vacuity for the asymmetric anchor: `b\Z` right-to-left on "ab\n" (matches before the final
    newline) is `begz b` left-to-right on "\nba" (matches after the initial newline) -/
example : let e : Env := { text := [97, 98, 10], textstart := 3, named := [], word := [], fold := [] }
    let p : Pat := .seq (.chr (.one 98 false)) (.anchor .endz)
    mirrorPat p = .seq (.anchor .begz) (.chr (.one 98 false)) ∧
    find e p true 3 = some { pos := 1, caps := [(0, 1, 1)] } ∧
    find (revEnv e) (mirrorPat p) false 0 = some { pos := 2, caps := [(0, 1, 1)] } :=
  ⟨rfl, by decide, by decide⟩

/-- **Reflection is an involution** on states inside the text (so the mirror theorem can be read in
    either direction), and it keeps states inside the text. -/
theorem mirrorSt_involutive (n : Nat) (st : St) (h : St.wf n st) :
    mirrorSt n (mirrorSt n st) = st ∧ St.wf n (mirrorSt n st) :=
  ⟨mirrorSt_mirrorSt n st h, mirrorSt_wf n st h⟩

example : mirrorSt 4 (mirrorSt 4 { pos := 1, caps := [(1, 2, 1), (0, 1, 2)] }) = { pos := 1, caps := [(1, 2, 1), (0, 1, 2)] } := by
  decide

/-- **Reversing the input twice gives the input back** (start offset inside the text). -/
theorem revEnv_involutive (e : Env) (h : e.textstart ≤ e.n) : revEnv (revEnv e) = e :=
  revEnv_revEnv e h

example : (revEnv (revEnv exEnv)).text = exEnv.text ∧ (revEnv (revEnv exEnv)).textstart = exEnv.textstart := by decide

/-- **Mirroring a pattern twice gives the pattern back.** -/
theorem mirrorPat_involutive (p : Pat) : mirrorPat (mirrorPat p) = p :=
  mirrorPat_mirrorPat p

/-- the mirror of `a(b)(?=c)` is a different pattern, `(?<=c)(b)a` -/
example : mirrorPat exPat ≠ exPat ∧ mirrorPat (mirrorPat exPat) = exPat :=
  ⟨by simp [mirrorPat, exPat], rfl⟩

end RegexVerif.Props.C15
