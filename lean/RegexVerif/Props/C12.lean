/-
C12 — property theorems (stub: not built yet).
-/
namespace RegexVerif.Props.C12
end RegexVerif.Props.C12
