/-
C12 — Results are independent of call history.

Property theorems about the models of the four reuse mechanisms of regexp2:
  * the replacement cache            (`Model/LRU.lean`         ← regexp.go `replacerDataCache`, `getReplacerData`)
  * the size-classed buffer pools    (`Model/Pool.lean`        ← bufferpool.go, `decodeString*` in runner.go)
  * the pooled interpreter state and its recycled result object
                                     (`Model/RunnerReuse.lean` ← runner.go `scan`/`initMatch`/`putRunner`, match.go)
and obligations over facts regenerated from the Go source on every run (`Generated/Fields.lean`): field
inventories, reset write lists, pool size classes.  The models are tied to the code by those facts,
by correspondence leg L (cache order) and by the model-free oracle leg Hs (call histories).
-/
import RegexVerif.Lemmas.LRU
import RegexVerif.Lemmas.Pool
import RegexVerif.Lemmas.RunnerReuse
import RegexVerif.Generated.Fields

namespace RegexVerif.Props.C12
open RegexVerif

/-! ## 1. the replacement cache -/
section cache
open RegexVerif.LRU RegexVerif.Lemmas.LRU
open RegexVerif.LRU (get)
variable {κ ν ε : Type} [DecidableEq κ]

/-- cache invariant: no key occurs twice (so the Go map and the list agree) and, when a bound is
    set, the list is no longer than `maxSize` -/
def CacheInv (c : Cache κ ν) : Prop :=
  (keys c.entries).Nodup ∧ (c.maxSize > 0 → c.entries.length ≤ c.maxSize)

/-- **The LRU refines a finite map.**  Read the cache as the partial map `k ↦ lookup k entries`.  Then,
    for every cache state satisfying the invariant:
    (1) `get k` returns exactly the map's value at `k` and leaves the map unchanged (a hit only
        reorders: the key moves to the front);
    (2) after `add k v` the map sends `k` to `v`, loses at most the single key `evicted c k` -- which
        is the *last* (least recently used) key and only when the cache was full and `k` new -- and is
        unchanged everywhere else; in particular it never acquires a value nobody added;
    (3) both operations preserve the invariant (no duplicate keys, size ≤ max).
    For the Go code: `replacerDataCache.get/add` behave like a map with LRU eviction; a hit can only
    return what was stored for that very key. -/
theorem lru_refines_map (c : Cache κ ν) (h : CacheInv c) (k : κ) :
    ((get c k).1 = lookup k c.entries ∧
     (∀ k', lookup k' (get c k).2.entries = lookup k' c.entries) ∧
     (∀ v, (get c k).1 = some v → (get c k).2.entries.head? = some (k, v)) ∧
     CacheInv (get c k).2) ∧
    ∀ v : ν,
    (lookup k (add c k v).entries = some v ∧
     (∀ k', k' ≠ k → lookup k' (add c k v).entries =
        if evicted c k = some k' then none else lookup k' c.entries) ∧
     (∀ k', evicted c k = some k' → (k :: keys c.entries).getLast? = some k' ∧ lookup k c.entries = none ∧
        c.entries.length = c.maxSize) ∧
     CacheInv (add c k v)) := by
  obtain ⟨hnd, hsz⟩ := h
  refine ⟨?_, ?_⟩
  · -- get
    cases hl : lookup k c.entries with
    | none =>
      rw [get_miss hl]
      exact ⟨rfl, fun _ => rfl, (by intro v h; cases h), hnd, hsz⟩
    | some w =>
      rw [get_hit hl]
      refine ⟨rfl, ?_, ?_, ?_, ?_⟩
      · intro k'
        by_cases hk : k' = k
        · subst hk; simp [lookup, hl]
        · have : ¬ k = k' := fun h' => hk h'.symm
          simp only [lookup, this, if_false]
          exact lookup_removeKey_ne hk _
      · intro v hv; simp only [Option.some.injEq] at hv; subst hv; rfl
      · simp only [keys, List.map_cons, List.nodup_cons]
        exact ⟨not_mem_removeKey k _ hnd, nodup_removeKey k _ hnd⟩
      · intro hm
        have := length_removeKey hl
        have := hsz hm
        simp only [List.length_cons]; omega
  · -- add
    intro v
    cases hl : lookup k c.entries with
    | some w =>
      rw [add_existing v hl, evicted_existing hl]
      refine ⟨by simp [lookup], ?_, (by intro k' h; cases h), ?_, ?_⟩
      · intro k' hk
        have : ¬ k = k' := fun h' => hk h'.symm
        simp only [lookup, this, if_false]
        rw [lookup_removeKey_ne hk]; simp
      · simp only [keys, List.map_cons, List.nodup_cons]
        exact ⟨not_mem_removeKey k _ hnd, nodup_removeKey k _ hnd⟩
      · intro hm
        have := length_removeKey hl
        have := hsz hm
        simp only [List.length_cons]; omega
    | none =>
      have hnk : k ∉ keys c.entries := (lookup_none_iff k _).mp hl
      have hnd' : (keys ((k, v) :: c.entries)).Nodup := by
        simp only [keys, List.map_cons, List.nodup_cons]; exact ⟨hnk, hnd⟩
      by_cases hfull : c.maxSize > 0 ∧ c.entries.length + 1 > c.maxSize
      · rw [add_new_full v hl hfull, evicted_new_full hl hfull]
        have hlen : c.entries.length = c.maxSize := by have := hsz hfull.1; omega
        have hne : c.entries ≠ [] := by intro h; rw [h] at hlen; simp at hlen; omega
        refine ⟨?_, ?_, ?_, ?_, ?_⟩
        · -- k itself survives: it is the head and the list has at least two elements
          rw [lookup_dropLast k _ hnd']
          have : ¬ (keys ((k, v) :: c.entries)).getLast? = some k := by
            intro hlast
            obtain ⟨e, es, he⟩ := List.exists_cons_of_ne_nil hne
            rw [he] at hlast hnk
            simp only [keys, List.map_cons, List.getLast?_cons_cons] at hlast
            have hm : k ∈ e.1 :: List.map (fun x => x.1) es := List.mem_of_getLast? hlast
            simp only [keys, List.map_cons] at hnk
            exact hnk hm
          simp [this, lookup]
        · intro k' hk
          rw [lookup_dropLast k' _ hnd']
          have : ¬ k = k' := fun h' => hk h'.symm
          simp only [keys, List.map_cons, lookup, this, if_false]
          by_cases he : (k :: List.map (fun x => x.fst) c.entries).getLast? = some k' <;> simp [he]
        · intro k' hk'
          exact ⟨hk', rfl, hlen⟩
        · show (keys (((k, v) :: c.entries).dropLast)).Nodup
          rw [keys_dropLast]; exact nodup_dropLast _ hnd'
        · intro _; simp only [List.length_dropLast, List.length_cons]; omega
      · rw [add_new_room v hl hfull, evicted_new_room hl hfull]
        refine ⟨by simp [lookup], ?_, (by intro k' h; cases h), hnd', ?_⟩
        · intro k' hk
          have : ¬ k = k' := fun h' => hk h'.symm
          simp [lookup, this]
        · intro hm
          have hm' : c.maxSize > 0 := hm
          show c.entries.length + 1 ≤ c.maxSize
          omega

/-- every cached value is what parsing its key yields -/
def Valid (parse : κ → Except ε ν) (c : Cache κ ν) : Prop :=
  ∀ k v, lookup k c.entries = some v → parse k = .ok v

/-- **The cache is transparent.**  Whatever the cache holds (any state satisfying the invariants, i.e.
    any state reachable by earlier `Replace` calls), `getReplacerData` returns exactly what parsing the
    replacement returns -- value or error -- and leaves a cache that again satisfies the invariants.
    For the Go code: `Regexp.Replace` cannot be influenced by which replacements were used before. -/
theorem cache_transparent (parse : κ → Except ε ν) (cacheable : κ → Bool) (cache : Option (Cache κ ν))
    (hinv : ∀ c, cache = some c → CacheInv c ∧ Valid parse c) (k : κ) :
    (getReplacerData parse cacheable cache k).1 = parse k ∧
    (∀ c', (getReplacerData parse cacheable cache k).2 = some c' → CacheInv c' ∧ Valid parse c') := by
  unfold getReplacerData
  cases cache with
  | none => exact ⟨rfl, by intro c' h; cases h⟩
  | some c =>
    obtain ⟨hci, hv⟩ := hinv c rfl
    by_cases hc : cacheable k = true
    · simp only [hc, if_true]
      obtain ⟨⟨hg1, hg2, _, hg4⟩, hadd⟩ := lru_refines_map c hci k
      cases hl : lookup k c.entries with
      | some v =>
        -- hit: the stored value is the parse of the key
        have hget := get_hit hl
        rw [hget] at hg2 hg4
        simp only [hget]
        refine ⟨(hv k v hl).symm, ?_⟩
        intro c' hc'
        simp only [Option.some.injEq] at hc'
        subst hc'
        exact ⟨hg4, fun k' v' h' => hv k' v' (by rw [← hg2 k']; exact h')⟩
      | none =>
        have hget := get_miss hl
        simp only [hget]
        cases hp : parse k with
        | error e => exact ⟨rfl, by intro c' h'; simp at h'; subst h'; exact ⟨hci, hv⟩⟩
        | ok v =>
          refine ⟨rfl, ?_⟩
          intro c' hc'
          simp only [Option.some.injEq] at hc'
          subst hc'
          obtain ⟨ha1, ha2, _, ha4⟩ := hadd v
          refine ⟨ha4, ?_⟩
          intro k' v' h'
          by_cases hk : k' = k
          · subst hk; rw [ha1] at h'; simp only [Option.some.injEq] at h'; subst h'; exact hp
          · rw [ha2 k' hk] at h'
            by_cases he : evicted c k = some k'
            · simp [he] at h'
            · simp only [he, if_false] at h'; exact hv k' v' h'
    · simp only [hc]
      exact ⟨rfl, by intro c' h; simp at h; subst h; exact ⟨hci, hv⟩⟩

/-- non-vacuity: a cache of size 2 over numeric keys with `parse k = k + 100`; after three distinct
    replacements the first one has been evicted, looking it up again re-parses, and every result equals
    the parse. -/
def exParse : Nat → Except Unit Nat := fun k => .ok (k + 100)
def exStep (st : Option (Cache Nat Nat)) (k : Nat) := getReplacerData exParse (fun _ => true) st k
def exRun : List Nat → Option (Cache Nat Nat) → List (Except Unit Nat) × Option (Cache Nat Nat)
  | [], st => ([], st)
  | k :: ks, st => let r := exStep st k; let rest := exRun ks r.2; (r.1 :: rest.1, rest.2)

example : (exRun [1, 2, 1, 3, 2] (some (empty 2))).1.map (·.toOption) = [some 101, some 102, some 101, some 103, some 102] := by decide
example : (exRun [1, 2, 1, 3] (some (empty 2))).2.map (fun c => keys c.entries) = some [3, 1] := by decide
example : (exRun [1, 2, 1, 3, 2] (some (empty 2))).2.map (fun c => keys c.entries) = some [2, 3] := by decide

example : CacheInv (empty 2 : Cache Nat Nat) ∧ Valid (fun k => (.ok (k + 100) : Except Unit Nat)) (empty 2) :=
  ⟨⟨by simp [empty, keys], by intro _; simp [empty]⟩, by intro k v h; simp [empty, lookup] at h⟩

end cache

/-! ## 2. the buffer pools -/
section pool
open RegexVerif.Pool RegexVerif.Lemmas.Pool
open RegexVerif.Pool (get)

/-- **What `get` hands out.**  Whatever the pools hold and whichever buffer `sync.Pool` picks (or none),
    the slice returned has exactly the requested length and its backing array is at least that long
    (so `(*bufp)[:neededSize]` cannot panic); a pooled result (`*[]T` non-nil) has the capacity of its
    size class once the pool invariant holds. -/
theorem pool_get_len (p : Pools) (needed : Nat) (max : Int) (pick : Option Nat) :
    (get p needed max pick).buf.len = needed ∧ needed ≤ (get p needed max pick).buf.cap ∧
    (get p needed max pick).buf.visible.length = needed := by
  have key : (get p needed max pick).buf.len = needed ∧ needed ≤ (get p needed max pick).buf.cap := by
    unfold Pool.get
    cases hi : poolIndex p.sizes needed max with
    | none => simp [Buf.make, Buf.cap]
    | some idx =>
      have hfit := (poolIndex_spec hi).2.2.1
      simp only [List.getD_eq_getElem?_getD] at hfit
      cases pick with
      | none => simp [Buf.make, Buf.cap, hfit]
      | some j =>
        simp only
        cases hb : (p.held.getD idx [])[j]? with
        | none => simp [Buf.make, Buf.cap, hfit]
        | some b =>
          simp only
          by_cases hc : b.cap ≥ needed
          · rw [if_pos hc]; exact ⟨rfl, hc⟩
          · rw [if_neg hc]; simp [Buf.make, Buf.cap, hfit]
  refine ⟨key.1, key.2, ?_⟩
  unfold Buf.visible
  rw [List.length_take, key.1]
  have := key.2
  unfold Buf.cap at this
  omega

/-- **Decoding overwrites.**  After the decode loop has written the `n` runes of the input into a slice
    of length ≥ `n`, the slice handed on (`buf[:n]`) holds exactly those runes -- whatever the backing
    array held before -- and two buffers of any stale contents give the same result. -/
theorem decode_overwrites (b : Buf) (runes : List Int) (hlen : runes.length ≤ b.len) (hcap : b.len ≤ b.cap) :
    (∃ b', decode b runes = some b' ∧ b'.visible = runes ∧ b'.cap = b.cap) ∧
    ∀ b2 : Buf, runes.length ≤ b2.len → (decode b runes).map Buf.visible = (decode b2 runes).map Buf.visible := by
  have vis : ∀ c : Buf, runes.length ≤ c.len → (decode c runes).map Buf.visible = some runes := by
    intro c hc
    simp [decode, hc, Buf.visible]
  refine ⟨⟨{ data := runes ++ b.data.drop runes.length, len := runes.length }, by simp [decode, hlen], ?_, ?_⟩, ?_⟩
  · simp [Buf.visible]
  · unfold Buf.cap at *; simp; omega
  · intro b2 h2; rw [vis b hlen, vis b2 h2]

/-- **Pooled decode is history independent.**  `decodeString`: get a buffer for `len(s)` bytes from the
    pools in *any* state with *any* pick, decode the `n ≤ len(s)` runes of `s` into it: the slice the
    matcher sees is exactly the runes of `s`. -/
theorem pool_decode_history_independent (p : Pools) (needed : Nat) (max : Int) (pick : Option Nat)
    (runes : List Int) (hn : runes.length ≤ needed) :
    (decode (get p needed max pick).buf runes).map Buf.visible = some runes := by
  obtain ⟨h1, _, _⟩ := pool_get_len p needed max pick
  simp [decode, h1, hn, Buf.visible]

/-- **Class discipline.**  With strictly ascending class sizes (see `pool_sizes_ascending`): the
    invariant "every buffer held for class `i` has capacity exactly `sizes[i]`" holds for new pools and
    is preserved by `get` (any pick) and by `put` of any buffer whatsoever; `put` files a buffer of
    capacity `sizes[i]` under class `i` and drops a buffer whose capacity is no class size; a pooled
    `get` result has the capacity of the class `poolIndex` chose. -/
theorem poolIndex_put_get_consistent (p : Pools) (hs : p.sizes.Pairwise (· < ·)) (h : Inv p) :
    (∀ needed max pick, Inv (get p needed max pick).pools) ∧
    (∀ b, Inv (put p b)) ∧
    (∀ b i, i < p.sizes.length → b.cap = p.sizes.getD i 0 →
        (put p b).held.getD i [] = { b with len := 0 } :: p.held.getD i []) ∧
    (∀ b, (∀ i, i < p.sizes.length → b.cap ≠ p.sizes.getD i 0) → put p b = p) ∧
    (∀ needed max pick idx, poolIndex p.sizes needed max = some idx →
        (get p needed max pick).pooled = true ∧ (get p needed max pick).buf.cap = p.sizes.getD idx 0) := by
  refine ⟨?_, ?_, ?_, ?_, ?_⟩
  · intro needed max pick
    unfold Pool.get
    cases hi : poolIndex p.sizes needed max with
    | none => exact h
    | some idx =>
      cases pick with
      | none => exact h
      | some j =>
        simp only
        cases hb : (p.held.getD idx [])[j]? with
        | none => exact h
        | some b =>
          have hidx : idx < p.held.length := by rw [h.1]; exact (poolIndex_spec hi).2.1
          have hrem : Inv { p with held := p.held.set idx (removeAt (p.held.getD idx []) j) } :=
            inv_set h idx _ (fun x hx => h.2 idx hidx x (mem_removeAt _ _ _ hx))
          simp only
          by_cases hc : b.cap ≥ needed
          · rw [if_pos hc]; exact hrem
          · rw [if_neg hc]; exact hrem
  · intro b
    unfold put
    cases hi : poolIndex p.sizes b.cap (-1) with
    | none => exact h
    | some idx =>
      simp only
      by_cases hne : b.cap ≠ p.sizes.getD idx 0
      · rw [if_pos hne]; exact h
      · rw [if_neg hne]
        have hidx : idx < p.held.length := by rw [h.1]; exact (poolIndex_spec hi).2.1
        apply inv_set h
        intro x hx
        simp only [List.mem_cons] at hx
        cases hx with
        | inl hx => subst hx; simp only [Buf.cap] at hne ⊢; omega
        | inr hx => exact h.2 idx hidx x hx
  · intro b i hi hcap
    unfold put
    rw [hcap, poolIndex_self hs hi]
    have hidx : i < p.held.length := by rw [h.1]; exact hi
    simp [List.getD, hidx]
  · intro b hno
    unfold put
    cases hi : poolIndex p.sizes b.cap (-1) with
    | none => rfl
    | some idx =>
      have := hno idx (poolIndex_spec hi).2.1
      simp only []
      rw [if_pos this]
  · intro needed max pick idx hi
    unfold Pool.get
    rw [hi]
    cases pick with
    | none => simp [Buf.make, Buf.cap]
    | some j =>
      simp only
      cases hb : (p.held.getD idx [])[j]? with
      | none => simp [Buf.make, Buf.cap]
      | some b =>
        have hidx : idx < p.held.length := by rw [h.1]; exact (poolIndex_spec hi).2.1
        have hbcap := h.2 idx hidx b (List.mem_of_getElem? hb)
        simp only
        by_cases hc : b.cap ≥ needed
        · rw [if_pos hc]; exact ⟨rfl, hbcap⟩
        · rw [if_neg hc]; simp [Buf.make, Buf.cap]

/-- **`poolIndex` picks the smallest class that fits** and respects a positive `max`; `max = 0`
    switches pooling off. -/
theorem poolIndex_smallest_fit (sizes : List Nat) (needed : Nat) (max : Int) (i : Nat)
    (h : poolIndex sizes needed max = some i) :
    max ≠ 0 ∧ i < sizes.length ∧ needed ≤ sizes.getD i 0 ∧ (max > 0 → (sizes.getD i 0 : Int) ≤ max) ∧
    ∀ j, j < i → sizes.getD j 0 < needed :=
  poolIndex_spec h

/-- the size classes of both global pools, as read from bufferpool.go, are strictly ascending -/
theorem pool_sizes_ascending :
    Generated.runePoolSizes.Pairwise (· < ·) ∧ Generated.bytePoolSizes.Pairwise (· < ·) := by decide

/-- non-vacuity (small classes 4 and 16 for the evaluation): a class-4 buffer full of stale 7s, put back
    and handed out again for a 3-byte input that decodes to 2 runes: the matcher sees exactly the 2
    runes.  With the real classes: a 2000-rune request is served from the 4K class, with `max = 1024`
    it is not pooled, and 300000 fits no class. -/
example :
    let p1 := put (Pools.new [4, 16]) { data := [7, 7, 7, 7], len := 4 }
    let g := get p1 3 (-1) (some 0)
    (g.pooled, g.buf.len, g.buf.cap, g.buf.visible, (decode g.buf [233, 26085]).map Buf.visible) =
      (true, 3, 4, [7, 7, 7], some [233, 26085]) := by
  decide

example :
    poolIndex Generated.runePoolSizes 2000 (-1) = some 1 ∧ poolIndex Generated.runePoolSizes 2000 1024 = none ∧
    poolIndex Generated.runePoolSizes 300000 (-1) = none ∧ poolIndex Generated.runePoolSizes 5 0 = none := by
  decide

example : Inv (Pools.new [4, 16]) ∧ ([4, 16] : List Nat).Pairwise (· < ·) := ⟨inv_new _, by decide⟩

end pool

/-! ## 3. the pooled interpreter state and its recycled result object -/
section runner
open RegexVerif.RunnerReuse RegexVerif.Lemmas.RunnerReuse

/-- **`scanInit` resets.**  Take any runner out of the pool (`PoolInv`: what `putRunner` establishes),
    optionally select the bool-only program, and run the initialisation part of `scan`: the state a
    scan can depend on (`observe`: selected program, text fields, the *used* parts of the three stacks,
    track count, the result object's counts / cells below `2*count` / balancing flag / text fields,
    timeout fields) is equal to the one obtained from a brand-new runner.  Positions are at the ends,
    all `matchcount` are 0, `balancing` is false, `textstart`/`text` are the call's. -/
theorem scanInit_resets (re : Re) (a : ScanArgs) (quick : Bool) (r : Runner) (h : PoolInv re r) :
    let sel := fun r => if quick then selectQuick re r else r
    observe (scanInit re a (sel r)) = observe (scanInit re a (sel Runner.fresh)) ∧
    (observe (scanInit re a (sel r))).trackUsed = [] ∧ (observe (scanInit re a (sel r))).stackUsed = [] ∧
    (observe (scanInit re a (sel r))).crawlUsed = [] ∧
    (observe (scanInit re a (sel r))).matchView = some (List.replicate re.capsize (0, []), false, a.textstart, a.textInfo) := by
  intro sel
  obtain ⟨hcode, _, _, hrun⟩ := h
  have hsel : ∀ r', RunInv re r' → RunInv re (sel r') ∧ (sel r').code = (if quick ∧ re.hasQuick then CodeSel.quick else r'.code) := by
    intro r' hr'
    cases quick <;> simp only [sel, selectQuick]
    · exact ⟨hr', by simp⟩
    · cases re.hasQuick <;> simp [hr']
      exact hr'
  obtain ⟨h1, c1⟩ := hsel r hrun
  obtain ⟨h2, c2⟩ := hsel Runner.fresh (runInv_fresh re)
  rw [observe_scanInit re a _ h1, observe_scanInit re a _ h2, c1, c2, hcode]
  exact ⟨rfl, rfl, rfl, rfl, rfl⟩

/-- **`putRunner` restores the pool invariant**: whatever a call did with the runner (bool-only program
    selected, stacks in any state, captures left behind by an aborted match, `balancing` set), after
    `putRunner` the main program is selected again and the references to the input are dropped; a new
    runner satisfies the invariant too; and `scanInit` re-establishes the facts `putRunner` relies on. -/
theorem put_resets_code (re : Re) (r : Runner) (h : RunInv re r) :
    PoolInv re (put r) ∧ (put r).code = .main ∧ (put r).runtext = none ∧ PoolInv re Runner.fresh ∧
    ∀ a, RunInv re (scanInit re a r) := by
  refine ⟨⟨rfl, rfl, ?_, ?_, ?_⟩, rfl, rfl, poolInv_fresh re, ?_⟩
  · intro m hm
    simp only [put, Option.map_eq_some_iff] at hm
    obtain ⟨m0, _, rfl⟩ := hm; rfl
  · intro hal; exact h.1 hal
  · intro m hm
    simp only [put, Option.map_eq_some_iff] at hm
    obtain ⟨m0, hm0, rfl⟩ := hm
    exact h.2 m0 hm0
  · intro a
    have hbuilder : ∀ m, (match r.runmatch with
        | none => Builder.new re.capsize a.textInfo a.textstart
        | some m => m.reset a.textInfo a.textstart) = m → m.slots.length = re.capsize := by
      intro m hm
      cases hr : r.runmatch with
      | none => rw [hr] at hm; subst hm; simp [Builder.new]
      | some m0 => rw [hr] at hm; subst hm; simp [Builder.reset, h.2 m0 hr]
    constructor
    · intro _
      cases hal : r.allocated <;> cases hto : a.noTimeout <;> simp [scanInit, initMatch, hal, hto]
      all_goals exact h.1 hal
    · intro m hm
      apply hbuilder m
      cases hal : r.allocated <;> cases hto : a.noTimeout <;>
        simp [scanInit, initMatch, hal, hto] at hm <;> exact hm

/-- **A call does not see the runner's history.**  Model a call as: take a runner from the pool, select
    the program, `scanInit`, then *any* interpreter `run` that is a function of the observable state.
    Its result is the same for every pooled runner as for a new one. -/
theorem call_history_independent {ρ : Type} (re : Re) (a : ScanArgs) (quick : Bool) (run : Obs → ρ)
    (r : Runner) (h : PoolInv re r) :
    run (observe (scanInit re a (if quick then selectQuick re r else r))) =
    run (observe (scanInit re a (if quick then selectQuick re Runner.fresh else Runner.fresh))) := by
  have := (scanInit_resets re a quick r h).1
  simp only at this
  rw [this]

/-- **The capacity of the recycled backtracking stack is not observable.**  `ensureStorage` (the only
    place the capacity matters) fails with `ErrBacktrackingStackLimit` exactly when
    `depth + 4*trackcount > limit` (`limit ≥ 0`), where `depth` is the number of used cells -- whatever
    the current capacity, i.e. however far earlier calls grew the stack -- and on success it keeps the
    depth.  Two runners with the same used depth therefore agree on error/no error. -/
theorem ensureStorage_capacity_independent (limit : Int) (tc len1 pos1 len2 pos2 : Nat)
    (h1 : TrackInv limit len1 pos1) (h2 : TrackInv limit len2 pos2) (hd : len1 - pos1 = len2 - pos2) :
    ((ensureTrack limit tc (tc * 4) len1 pos1).isNone = (ensureTrack limit tc (tc * 4) len2 pos2).isNone) ∧
    ((ensureTrack limit tc (tc * 4) len1 pos1).isNone = decide (limit ≥ 0 ∧ ((len1 - pos1 : Nat) : Int) + tc * 4 > limit)) ∧
    (∀ l1 p1 l2 p2, ensureTrack limit tc (tc * 4) len1 pos1 = some (l1, p1) →
        ensureTrack limit tc (tc * 4) len2 pos2 = some (l2, p2) → l1 - p1 = l2 - p2 ∧ l1 - p1 = len1 - pos1) := by
  have s1 := ensureTrack_spec limit tc (tc * 4) len1 pos1 h1 (by omega)
  have s2 := ensureTrack_spec limit tc (tc * 4) len2 pos2 h2 (by omega)
  rw [← hd] at s2
  by_cases hc : limit ≥ 0 ∧ ((len1 - pos1 : Nat) : Int) + tc * 4 > limit
  · simp only [hc, and_self, if_true] at s1 s2
    simp [s1, s2, hc]
  · simp only [hc, if_false] at s1 s2
    obtain ⟨l1, p1, e1, d1, _⟩ := s1
    obtain ⟨l2, p2, e2, d2, _⟩ := s2
    refine ⟨by simp [e1, e2], by simp [e1, hc], ?_⟩
    intro a b c d ha hb
    rw [e1] at ha; rw [e2] at hb
    simp only [Option.some.injEq, Prod.mk.injEq] at ha hb
    obtain ⟨rfl, rfl⟩ := ha
    obtain ⟨rfl, rfl⟩ := hb
    omega

/-- **The interpreter scratch fields are dead on entry.**  `executeDefault` starts with `goTo(0)`; its
    test `newpos <= r.codepos` is true for every left-over `codepos` (so storage is always ensured),
    and `operator`, `codepos`, `rightToLeft`, `caseInsensitive` are overwritten from the program. -/
theorem goToZero_ignores_scratch (op0 : Int) (rtl ci : Bool) (r r' : Runner)
    (h : { r with operator := 0, codepos := 0, rightToLeft := false, caseInsensitive := false } =
         { r' with operator := 0, codepos := 0, rightToLeft := false, caseInsensitive := false }) :
    goToZero op0 rtl ci r = goToZero op0 rtl ci r' ∧ (goToZero op0 rtl ci r).1 = true := by
  unfold goToZero
  simp only [Nat.zero_le, decide_true, Prod.mk.injEq, true_and, and_true]
  cases r; cases r'
  simp only [Runner.mk.injEq] at h ⊢
  simp_all

/-- **Builder operations respect `≈`.**  Two slots with equal counts and equal cells below
    `2*matchcount` (a fresh array and a recycled one with left-overs above) stay so under `addMatch`,
    `removeMatch`, `balanceMatch` and the compaction of `tidy`, and `isMatched` / `matchIndex` /
    `matchLength` return the same on both (read through `rdLive`; `builder_never_reads_stale` shows
    the Go reads are of that kind). -/
theorem builder_ops_respect_equiv (s t : Slot) (h : Slot.Equiv s t) (hs : s.lenOK) (ht : t.lenOK) :
    (∀ a b, Slot.Equiv (s.addMatch a b) (t.addMatch a b) ∧ (s.addMatch a b).lenOK ∧ (t.addMatch a b).lenOK) ∧
    (∀ s', s.removeMatch = some s' → ∃ t', t.removeMatch = some t' ∧ Slot.Equiv s' t' ∧ s'.lenOK ∧ t'.lenOK) ∧
    ((s.balanceMatchWith rdLive = none ∧ t.balanceMatchWith rdLive = none) ∨
       ∃ s' t', s.balanceMatchWith rdLive = some s' ∧ t.balanceMatchWith rdLive = some t' ∧ Slot.Equiv s' t') ∧
    ((s.compact = none ∧ t.compact = none) ∨
       ∃ s' t', s.compact = some s' ∧ t.compact = some t' ∧ Slot.Equiv s' t') ∧
    s.isMatchedWith rdLive = t.isMatchedWith rdLive ∧
    s.matchIndexWith rdLive = t.matchIndexWith rdLive ∧
    s.matchLengthWith rdLive = t.matchLengthWith rdLive := by
  refine ⟨?_, ?_, equiv_balanceMatch h hs ht, equiv_compact h, isMatched_congr h, matchIndex_congr h, matchLength_congr h⟩
  · intro a b
    exact ⟨equiv_addMatch h hs ht a b, (live_addMatch s a b hs).2, (live_addMatch t a b ht).2⟩
  · intro s' hs'
    obtain ⟨t', ht', he⟩ := equiv_removeMatch h hs'
    exact ⟨t', ht', he, (live_removeMatch hs').2.2 hs, (live_removeMatch ht').2.2 ht⟩

/-- **The builder never reads a cell at or above `2*matchcount`.**  For a well-formed slot (`WF`: lengths
    fit and every balancing reference points below its own position) the Go reads (`rdAny`: whatever
    the array holds, stale cells included) coincide with reads restricted to the live cells, for
    `isMatched`, `matchIndex`, `matchLength` and `balanceMatch`; and well-formedness holds after
    `reset` and is preserved by `Capture` (`addMatch` of non-negative values), `balanceMatch` and
    `removeMatch`.  Hence stale array contents are never observed. -/
theorem builder_never_reads_stale (s : Slot) (h : s.WF) :
    (s.isMatchedWith rdAny = s.isMatchedWith rdLive ∧
     s.matchIndexWith rdAny = s.matchIndexWith rdLive ∧
     s.matchLengthWith rdAny = s.matchLengthWith rdLive ∧
     s.balanceMatchWith rdAny = s.balanceMatchWith rdLive) ∧
    (∀ start len : Int, 0 ≤ start → 0 ≤ len → (s.addMatch start len).WF) ∧
    (∀ s', s.balanceMatchWith rdAny = some s' → s'.WF) ∧
    (∀ s', s.removeMatch = some s' → s'.WF) ∧
    (∀ t : Slot, t.arr.length ≠ 1 → ({ t with count := 0 } : Slot).WF) := by
  refine ⟨⟨isMatched_any_eq_live s, matchIndex_any_eq_live s h, matchLength_any_eq_live s h,
    balanceMatch_any_eq_live s h⟩, fun a b ha hb => wf_capture h a b ha hb, ?_, fun s' hs' => wf_removeMatch h hs', wf_reset⟩
  intro s' hs'
  rw [balanceMatch_any_eq_live s h] at hs'
  exact wf_balanceMatch h hs'

/-- **Captures are added with non-negative start and length.**  `Capture` orders its interval before
    calling `addMatch`; `transferCapture` (balancing groups) records one of three intervals derived from
    the group's text `[start, end)` and the cancelled capture `[start2, end2)`: in every case start and
    length are non-negative, which is what `builder_never_reads_stale` needs so that a capture is never
    mistaken for a balancing reference. -/
theorem transfer_interval_nonneg (start end_ start2 end2 : Int) (h1 : 0 ≤ start) (h2 : start ≤ end_)
    (h3 : 0 ≤ start2) (h4 : start2 ≤ end2) :
    0 ≤ (transferInterval start end_ start2 end2).1 ∧ 0 ≤ (transferInterval start end_ start2 end2).2 := by
  unfold transferInterval
  split
  · constructor <;> simp <;> omega
  · split
    · constructor <;> simp <;> omega
    · simp only
      constructor
      · split <;> omega
      · split <;> split <;> omega

example : transferInterval 5 7 1 3 = (3, 2) ∧ transferInterval 1 2 5 9 = (2, 3) ∧ transferInterval 2 8 4 6 = (4, 2) := by decide

/-- non-vacuity: a recycled slot (count 0, stale cells 5 9 -3 -4 from an earlier balancing match) and a
    fresh one agree after the same operations: capture (2,3), capture (7,1), balance, and then report
    the same index/length and compact to the same live cells; the stale cells are never visible. -/
def exFresh : Slot := { count := 0, arr := [] }
def exStale : Slot := { count := 0, arr := [5, 9, -3, -4, 8, 8, 8, 8] }
def exOps (s : Slot) : Option Slot := ((s.addMatch 2 3).addMatch 7 1).balanceMatchWith rdAny
structure ExView where
  count : Nat
  live : List Int
  index : Option Int
  length : Option Int
  matched : Option Bool
  compacted : Option (Nat × List Int)
  deriving DecidableEq
def exView (s : Slot) : ExView :=
  { count := s.count, live := s.live, index := s.matchIndexWith rdAny, length := s.matchLengthWith rdAny,
    matched := s.isMatchedWith rdAny, compacted := s.compact.map (fun c => (c.count, c.live)) }

example : (exOps exFresh).map exView = (exOps exStale).map exView := by decide
example : (exOps exStale).map exView = some ⟨3, [2, 3, 7, 1, -3, -4], some 2, some 3, some true, some (1, [2, 3])⟩ := by decide
example : Slot.Equiv exFresh exStale ∧ exFresh.WF ∧ exStale.WF :=
  ⟨⟨rfl, rfl⟩, ⟨⟨by decide, by decide⟩, by intro p v h; simp [exFresh, Slot.live] at h⟩,
   ⟨⟨by decide, by decide⟩, by intro p v h; simp [exStale, Slot.live] at h⟩⟩

/-- non-vacuity of `scanInit_resets`: a runner that ran a bool-only balancing match on a long input
    (quick program selected, stacks grown and partly full, a recycled result object with counts,
    left-over cells and `balancing` set), after `put`, is indistinguishable from a new runner once
    `scanInit` has run; before `put` it violates the pool invariant. -/
def exRe : Re := { capsize := 2, trackCount := 3, stackLimit := 1000, debug := false, hasQuick := true }
def exUsed : Runner :=
  { Runner.fresh with
      code := .quick, runtext := some 7, runtextend := 5000, runtextpos := 4711,
      runtrack := List.replicate 80 9, runtrackpos := 60, runstack := List.replicate 40 4, runstackpos := 10,
      runcrawl := List.replicate 32 1, runcrawlpos := 30, allocated := true, runtrackcount := 3,
      runmatch := some { slots := [{ count := 1, arr := [0, 4711] }, { count := 2, arr := [1, 2, -3, -4, 0, 0, 0, 0] }],
                         balancing := true, textstart := 0, text := some 7 },
      codepos := 17, operator := 9, deadline := 123 }
def exArgs : ScanArgs := { rt := 8, rtLen := 3, textInfo := some 8, textstart := 0, timeout := 5, noTimeout := false, newDeadline := 999 }

set_option maxRecDepth 8000 in
example : observe (scanInit exRe exArgs (put exUsed)) = observe (scanInit exRe exArgs Runner.fresh) ∧
    (put exUsed).code = .main ∧ exUsed.code ≠ .main ∧
    observe (scanInit exRe exArgs exUsed) ≠ observe (scanInit exRe exArgs Runner.fresh) := by decide

example : RunInv exRe exUsed := ⟨fun _ => by decide, by intro m h; simp [exUsed, Runner.fresh] at h; subst h; rfl⟩

/-- non-vacuity of `ensureStorage_capacity_independent`: limit 1000, 3 backtracking instructions
    (reserve 12): a fresh 64-cell stack and a recycled 1000-cell stack, both with 50 cells in use, both
    succeed keeping depth 50; with 990 cells in use both fail. -/
example :
    (ensureTrack 1000 3 12 64 14).map (fun p => p.1 - p.2) = some 50 ∧
    (ensureTrack 1000 3 12 1000 950).map (fun p => p.1 - p.2) = some 50 ∧
    ensureTrack 1000 3 12 1000 10 = none ∧ ensureTrack 1000 3 20 990 0 = none := by decide

end runner

/-! ## 4. obligations over facts regenerated from the Go source -/
section facts

/-- how a field of a recycled object gets its value before a call can read it -/
inductive ResetBy where
  | constant        -- set when the object is created for this Regexp, never assigned again
  | byPut           -- assigned by `putRunner` (and by the entry points that select the bool-only program)
  | byScan          -- assigned unconditionally at the top of `scan`
  | byInitMatch     -- assigned by `initMatch` (positions to the ends / new result object / `reset`)
  | capacityOnly    -- array whose cells above the position are dead; only its length survives
                    --   (`ensureStorage_capacity_independent`)
  | byWatch         -- assigned by `startTimeoutWatch` whenever timeouts are on; not read otherwise
  | byExecuteEntry  -- interpreter scratch, overwritten by `goTo(0)` / `setOperator` (`goToZero_ignores_scratch`)
  | byTidy          -- assigned by `tidy` / `tidyMatch` before the match is handed to anybody
  | staleAboveCount -- array whose cells at or above `2*matchcount` are dead (`builder_never_reads_stale`)
  | neverOnPooled   -- only assigned on matches that have left the runner (never on a recycled one)
  deriving DecidableEq, Repr

/-- every field of `Runner`, with the way the model accounts for it -/
def expectedRunnerFields : List (String × ResetBy) := [
  ("re", .constant), ("code", .byPut), ("debug", .byScan),
  ("Runtextstart", .byScan), ("Runtext", .byScan), ("Runtextpos", .byScan), ("Runtextend", .byScan),
  ("runtrack", .capacityOnly), ("Runtrackpos", .byInitMatch),
  ("runstack", .capacityOnly), ("Runstackpos", .byInitMatch),
  ("runcrawl", .capacityOnly), ("runcrawlpos", .byInitMatch),
  ("runtrackcount", .constant), ("runmatch", .byInitMatch),
  ("ignoreTimeout", .byScan), ("timeout", .byScan), ("deadline", .byWatch),
  ("operator", .byExecuteEntry), ("codepos", .byExecuteEntry), ("rightToLeft", .byExecuteEntry),
  ("caseInsensitive", .byExecuteEntry)]

/-- every field of `Match` (the embedded `Group` stands for `Capture{text, RuneIndex, RuneLength}`,
    `Name`, `Captures`) -/
def expectedMatchFields : List (String × ResetBy) := [
  ("Group", .byTidy), ("regex", .constant), ("otherGroups", .neverOnPooled), ("textpos", .byTidy),
  ("textstart", .byInitMatch), ("capcount", .byTidy), ("sparseCaps", .constant),
  ("matches", .staleAboveCount), ("matchcount", .byInitMatch), ("balancing", .byInitMatch)]

/-- **Every field of the recycled objects is accounted for.**  The field lists of `Runner`, `Match`,
    `Group`, `Capture`, `matchText` read from the Go source are exactly the ones the model was written
    against (each annotated above with how it is reset).  A new field breaks this obligation until the
    model says how it is reset. -/
theorem fields_accounted :
    Generated.runnerFields = expectedRunnerFields.map (·.1) ∧
    Generated.matchFields = expectedMatchFields.map (·.1) ∧
    Generated.groupFields = ["Capture", "Name", "Captures"] ∧
    Generated.captureFields = ["text", "RuneIndex", "RuneLength"] ∧
    Generated.matchTextFields = ["runes", "input", "hasStringInput", "byteOffsets", "byteOffsetsReady"] ∧
    Generated.replacerDataCacheFields = ["mu", "maxSize", "ll", "cache"] ∧
    Generated.replacerDataCacheEntryFields = ["key", "data"] ∧
    Generated.pooledSliceBuffersFields = ["sizes", "pools"] := by decide

def writersOf (tbl : List (String × List String)) (f : String) : List String :=
  (tbl.lookup f).getD []

/-- **The reset code assigns what the model says it assigns.**
    `(*Match).reset` assigns `text`, `textstart`, every `matchcount[i]` and `balancing`;
    `putRunner` assigns `Runtext`, `code` and the result object's `text`;
    `scan` starts with the seven unconditional assignments the model's `scanInit` performs and resets
    the three stack positions between attempts; `initMatch` assigns the result object and the six
    stack fields.  And the fields the invariants rely on have no other writers: `runtrackcount` is
    assigned only by `initTrackCount`, `runmatch` only by `initMatch`/`tidyMatch`, `Runtext` only by
    `scan`/`putRunner`, `code` only by the four entry points that select the bool-only program and by
    `putRunner`, `deadline` only by `startTimeoutWatch`, `Match.textstart` only by `reset`,
    `Match.balancing` only by `balanceMatch`/`reset`/`tidy`/`compactBalancedMatches`. -/
theorem reset_writes_expected :
    Generated.matchResetWrites = ["m.text", "m.textstart", "m.matchcount[i]", "m.balancing"] ∧
    Generated.putRunnerWrites = ["r.Runtext", "r.code", "r.runmatch.text"] ∧
    Generated.scanWrites =
      ["r.timeout", "r.ignoreTimeout", "r.debug", "r.Runtextstart", "r.Runtext", "r.Runtextend", "r.Runtextpos",
       "r.Runtextpos", "r.Runtrackpos", "r.Runstackpos", "r.runcrawlpos", "r.Runtextpos"] ∧
    Generated.initMatchWrites =
      ["r.runmatch", "r.runmatch", "r.Runtrackpos", "r.Runstackpos", "r.runcrawlpos",
       "r.runtrack", "r.Runtrackpos", "r.runstack", "r.Runstackpos", "r.runcrawl", "r.runcrawlpos"] ∧
    writersOf Generated.runnerFieldWriters "runtrackcount" = ["runner.go:Runner.initTrackCount"] ∧
    writersOf Generated.runnerFieldWriters "runmatch" = ["runner.go:Runner.initMatch", "runner.go:Runner.tidyMatch"] ∧
    writersOf Generated.runnerFieldWriters "Runtext" = ["runner.go:Regexp.putRunner", "runner.go:Runner.scan"] ∧
    writersOf Generated.runnerFieldWriters "code" =
      ["regexp.go:Regexp.FindAllRunesIndex", "regexp.go:Regexp.FindAllStringIndex", "regexp.go:Regexp.matchStringAt",
       "runner.go:Regexp.putRunner", "runner.go:Regexp.run"] ∧
    writersOf Generated.runnerFieldWriters "deadline" = ["runner.go:Runner.startTimeoutWatch"] ∧
    writersOf Generated.runnerFieldWriters "re" = [] ∧
    writersOf Generated.matchFieldWriters "textstart" = ["match.go:Match.reset"] ∧
    writersOf Generated.matchFieldWriters "balancing" =
      ["match.go:Match.balanceMatch", "match.go:Match.reset", "match.go:Match.tidy", "replace.go:compactBalancedMatches"] ∧
    writersOf Generated.matchFieldWriters "otherGroups" = ["match.go:Match.populateOtherGroups"] ∧
    writersOf Generated.matchFieldWriters "regex" = [] := by decide

end facts
end RegexVerif.Props.C12
