/-
C08 — Returned matches are well-formed and index conversion is exact.

Property theorems about the models `RegexVerif.Model.Utf8` (rune index → byte index: match.go
`stringByteOffsets`/`runeByteOffsets`/`byteRange`, regexp.go `newStringByteMapper`/`byteIndex`,
compat `bytesToRunesAndOffsets`/`readRunes`, the rune-start lookup) and
`RegexVerif.Model.MatchBuilder` (the capture arrays of match.go).  The models are tied to the Go
source by the correspondence legs of harness/internal/legs/c08.go.

A string is a list of segments `(rune, width)` as produced by Go's `for range` decoding; `WF` is the
unicode/utf8 decoding contract (invalid byte = U+FFFD of width 1, literal U+FFFD = width 3, otherwise
width = `utf8.RuneLen`).  `byteOffsetSpec segs i` = sum of the widths of the first `i` segments.
-/
import RegexVerif.Lemmas.Utf8

namespace RegexVerif.Props.C08
open RegexVerif RegexVerif.Utf8 RegexVerif.Lemmas.Utf8

/-- a string mixing 1–4 byte runes, a literal U+FFFD (3 bytes) and two invalid bytes (U+FFFD, 1 byte):
    `"a" "é" <0xff> "€" U+FFFD "😀" <0x80> "z"` -/
def sample : List (Int × Nat) :=
  [(97, 1), (0xE9, 2), (0xFFFD, 1), (0x20AC, 3), (0xFFFD, 3), (0x1F600, 4), (0xFFFD, 1), (122, 1)]

theorem sample_wf : WF sample := by decide

/-! ### the three string mappers and the two adapter tables are exact -/

/-- **`stringByteOffsets` is the prefix-sum table.**  For every string (valid UTF-8 or not) and every
    rune index `0 ≤ i ≤ n`, the table behind `Capture.ByteRange` for string input — including its
    "nil means identity" fast path — answers the byte offset of rune `i`. -/
theorem stringByteOffsets_eq_prefixSums (segs : List (Int × Nat)) (hwf : WF segs) (i : Nat) (hi : i ≤ segs.length) :
    offsetAt (stringByteOffsets segs) i = some (byteOffsetSpec segs i) := by
  unfold stringByteOffsets byteOffsetSpec widths
  exact offsetAt_lazy computedLen (·.2) true segs
    (by intro s hs h1; rw [← computedLen_eq_width s (hwf s hs)]; exact h1) i hi

example : (List.range 9).map (offsetAt (stringByteOffsets sample)) =
    [0, 1, 3, 4, 7, 10, 14, 15, 16].map some := by decide
example : stringByteOffsets [(97, 1), (98, 1)] = none := by decide

/-- **The delta table + binary search of `FindAllStringIndex` is exact.**  For every string and
    every rune index `0 ≤ i ≤ n`, `byteIndex i` on the table built by `newStringByteMapper` (or the
    identity when the mapper is nil) is the byte offset of rune `i`. -/
theorem stringByteMapper_eq (segs : List (Int × Nat)) (hwf : WF segs) (i : Nat) (hi : i ≤ segs.length) :
    mapIndex (newStringByteMapper segs) i = byteOffsetSpec segs i := by
  have hlin := linLookup_tbl segs 0 0 i hi
  simp only [Nat.zero_add] at hlin
  have hsum : byteOffsetSpec segs i = i + extra segs i := by
    unfold byteOffsetSpec extra
    rw [map_computedLen_eq segs hwf]
    have h1 : ∀ w ∈ (widths segs).take i, 1 ≤ w := by
      intro w hw
      obtain ⟨s, hs, rfl⟩ := List.mem_map.mp (List.mem_of_mem_take hw)
      exact (width_pos s (hwf s hs)).1
    rw [sum_eq_len_add_extra _ h1]
    have : i ≤ (widths segs).length := by simpa [widths] using hi
    simp [List.length_take, Nat.min_eq_left this]
  unfold newStringByteMapper
  rw [nsbmLoop_none]
  split
  · rename_i hnil
    rw [hnil] at hlin
    simp only [mapIndex, hsum]
    simp [linLookup] at hlin; omega
  · simp only [mapIndex]
    rw [byteIndex_eq_linLookup _ (tbl_sorted segs 0 0), hlin, hsum]

example : (List.range 9).map (mapIndex (newStringByteMapper sample)) = [0, 1, 3, 4, 7, 10, 14, 15, 16] := by decide
example : newStringByteMapper sample = some ⟨[2, 4, 5, 6], [1, 3, 5, 8]⟩ := by decide

/-- **compat `bytesToRunesAndOffsets` is exact** (no decoding contract needed: it uses the decoder's
    width directly): the runes are the decoded runes and the table answers the byte offset. -/
theorem bytesToRunes_offsets_eq (segs : List (Int × Nat)) (i : Nat) (hi : i ≤ segs.length) :
    (bytesToRunesAndOffsets segs).1 = runes segs ∧
    offsetAt (bytesToRunesAndOffsets segs).2 i = some (byteOffsetSpec segs i) := by
  refine ⟨rfl, ?_⟩
  unfold bytesToRunesAndOffsets byteOffsetSpec widths
  exact offsetAt_lazy (fun s : Int × Nat => s.2) (·.2) true segs (by intro s _ h; exact h) i hi

example : (List.range 9).map (offsetAt (bytesToRunesAndOffsets sample).2) = [0, 1, 3, 4, 7, 10, 14, 15, 16].map some := by decide

/-- **compat `readRunes` is exact**: the offsets of `FindReaderIndex`/`FindReaderSubmatchIndex`. -/
theorem readRunes_offsets_eq (segs : List (Int × Nat)) (i : Nat) (hi : i ≤ segs.length) :
    (readRunes segs).1 = runes segs ∧ (readRunes segs).2[i]? = some (byteOffsetSpec segs i) := by
  unfold readRunes
  rw [readRunesLoop_eq]
  refine ⟨by simp, ?_⟩
  have : [0] ++ (prefixSums (widths segs) 0).tail = prefixSums (widths segs) 0 := by
    conv => rhs; rw [prefixSums_eq_cons_tail]
    simp
  simp only [this]
  rw [prefixSums_get _ _ _ (by simpa [widths] using hi)]
  simp [byteOffsetSpec]

example : (readRunes sample).2 = [0, 1, 3, 4, 7, 10, 14, 15, 16] := by decide

/-- **`runeByteOffsets` is the prefix-sum table of the re-encoded text** — for every rune slice,
    including surrogates, negative values and values above U+10FFFF (each counted as the 3 bytes of
    U+FFFD, which is what `string(runes)` writes for them). -/
theorem runeByteOffsets_eq_encoded (rs : List Int) (i : Nat) (hi : i ≤ rs.length) :
    offsetAt (runeByteOffsets rs) i = some (((rs.map encLen).take i).sum) := by
  unfold runeByteOffsets
  exact offsetAt_lazy encLen encLen false rs (by intro s _ h; exact h) i hi

example : (List.range 6).map (offsetAt (runeByteOffsets [97, 0xD800, -5, 0x110000, 0x1F600])) =
    [0, 1, 4, 7, 10, 14].map some := by decide

/-- **`runeByteOffsets` agrees with the string tables on valid UTF-8**: if the string has no invalid
    byte (every U+FFFD segment is a literal one), the rune-input table for its runes gives the same
    byte offsets as the string. -/
theorem runeByteOffsets_eq (segs : List (Int × Nat)) (hwf : WF segs)
    (hvalid : ∀ s ∈ segs, s.1 = runeError → s.2 = 3) (i : Nat) (hi : i ≤ segs.length) :
    offsetAt (runeByteOffsets (runes segs)) i = some (byteOffsetSpec segs i) := by
  rw [runeByteOffsets_eq_encoded _ _ (by simpa [runes] using hi)]
  have : (runes segs).map encLen = widths segs := by
    unfold runes widths
    rw [List.map_map]
    apply List.map_congr_left
    intro s hs; exact encLen_eq_width s (hwf s hs) (hvalid s hs)
  rw [this]; rfl

example : (List.range 4).map (offsetAt (runeByteOffsets (runes [(0xFFFD, 3), (0x1F600, 4), (97, 1)]))) =
    (List.range 4).map (fun i => some (byteOffsetSpec [(0xFFFD, 3), (0x1F600, 4), (97, 1)] i)) := by decide

/-- **All mappers agree.**  For every string and every rune span `[i, i+len)` inside it, the
    byte span computed through `stringByteOffsets` (Match.ByteRange), through the delta table
    (`FindAllStringIndex`), through compat's `bytesToRunesAndOffsets` (`FindAllIndex`) and through
    `readRunes` (`FindReader*Index`) is one and the same pair of numbers. -/
theorem mappers_agree (segs : List (Int × Nat)) (hwf : WF segs) (i : Nat) (hi : i ≤ segs.length) :
    offsetAt (stringByteOffsets segs) i = some (mapIndex (newStringByteMapper segs) i) ∧
    offsetAt (bytesToRunesAndOffsets segs).2 i = some (mapIndex (newStringByteMapper segs) i) ∧
    (readRunes segs).2[i]? = some (mapIndex (newStringByteMapper segs) i) := by
  rw [stringByteMapper_eq segs hwf i hi]
  exact ⟨stringByteOffsets_eq_prefixSums segs hwf i hi, (bytesToRunes_offsets_eq segs i hi).2,
    (readRunes_offsets_eq segs i hi).2⟩

/-- **`ByteRange` is the byte span of exactly the addressed rune span**: index = bytes before rune
    `ri`, length = sum of the widths of segments `ri … ri+rl-1` (each invalid byte counting as one
    rune of one byte). -/
theorem byteRange_is_span (segs : List (Int × Nat)) (hwf : WF segs) (ri rl : Nat) (h : ri + rl ≤ segs.length) :
    byteRange (stringByteOffsets segs) ri rl =
      some (byteOffsetSpec segs ri, (((widths segs).drop ri).take rl).sum) := by
  have h1 := stringByteOffsets_eq_prefixSums segs hwf ri (by omega)
  have h2 := stringByteOffsets_eq_prefixSums segs hwf (ri + rl) h
  have hadd : byteOffsetSpec segs (ri + rl) = byteOffsetSpec segs ri + (((widths segs).drop ri).take rl).sum := by
    unfold byteOffsetSpec; exact sum_take_add _ _ _
  unfold byteRange
  cases hbo : stringByteOffsets segs with
  | none =>
    rw [hbo] at h1 h2
    simp only [offsetAt, Option.some.injEq] at h1 h2
    simp only [Option.some.injEq, Prod.mk.injEq]
    omega
  | some l =>
    rw [hbo] at h1 h2
    simp only [offsetAt] at h1 h2
    simp only [h1, h2, Option.some.injEq, Prod.mk.injEq, true_and]
    omega

example : byteRange (stringByteOffsets sample) 2 4 = some (3, 11) := by decide

/-- the same for rune input: `ByteRange` is the span in the UTF-8 encoding of the rune slice. -/
theorem byteRange_runes_is_span (rs : List Int) (ri rl : Nat) (h : ri + rl ≤ rs.length) :
    byteRange (runeByteOffsets rs) ri rl =
      some (((rs.map encLen).take ri).sum, (((rs.map encLen).drop ri).take rl).sum) := by
  have h1 := runeByteOffsets_eq_encoded rs ri (by omega)
  have h2 := runeByteOffsets_eq_encoded rs (ri + rl) h
  have hadd := sum_take_add (rs.map encLen) ri rl
  unfold byteRange
  cases hbo : runeByteOffsets rs with
  | none =>
    rw [hbo] at h1 h2
    simp only [offsetAt, Option.some.injEq] at h1 h2
    simp only [Option.some.injEq, Prod.mk.injEq]
    omega
  | some l =>
    rw [hbo] at h1 h2
    simp only [offsetAt] at h1 h2
    simp only [h1, h2, Option.some.injEq, Prod.mk.injEq, true_and]
    omega

/-- byte offsets are strictly increasing in the rune index: distinct rune positions have distinct
    byte positions, so a byte span determines its rune span. -/
theorem byteOffsetSpec_strictMono (segs : List (Int × Nat)) (hwf : WF segs) (i j : Nat) (hij : i < j)
    (hj : j ≤ segs.length) : byteOffsetSpec segs i < byteOffsetSpec segs j := by
  unfold byteOffsetSpec
  apply sum_take_lt _ _ i j hij (by simpa [widths] using hj)
  intro w hw
  obtain ⟨s, hs, rfl⟩ := List.mem_map.mp hw
  exact (width_pos s (hwf s hs)).1

/-! ### byte index → rune index (start offsets of the string entry points) -/

/-- **`decodeStringWithStart`/`getRunesAndStart` invert the mapping**: the byte offset of rune `i`
    is reported as rune index `i`. -/
theorem runeStart_of_offset (segs : List (Int × Nat)) (hwf : WF segs) (i : Nat) (hi : i ≤ segs.length) :
    runeStart segs (byteOffsetSpec segs i : Nat) = (i : Int) := by
  have := runeStartLoop_at segs (fun s hs => (width_pos s (hwf s hs)).1) 0 0 i (-1) hi
  simpa [runeStart, byteOffsetSpec] using this

/-- … and conversely a reported rune index `k ≥ 0` means the byte index given was exactly the
    offset of rune `k` (a rune boundary); every other byte index yields −1. -/
theorem offset_of_runeStart (segs : List (Int × Nat)) (b : Int) :
    runeStart segs b = -1 ∨
    ∃ k, k ≤ segs.length ∧ runeStart segs b = (k : Int) ∧ b = (byteOffsetSpec segs k : Nat) := by
  rcases runeStartLoop_found b segs 0 0 (-1) with h | ⟨m, hm, h1, h2⟩
  · left; exact h
  · right; exact ⟨m, hm, by simpa [runeStart] using h1, by simpa [byteOffsetSpec] using h2⟩

example : (List.range 17).map (fun b => runeStart sample (b : Nat)) =
    [0, 1, -1, 2, 3, -1, -1, 4, -1, -1, 5, -1, -1, -1, 6, 7, 8] := by decide

end RegexVerif.Props.C08
