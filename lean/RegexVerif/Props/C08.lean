/-
C08 — Returned matches are well-formed and index conversion is exact.

Property theorems about the models `RegexVerif.Model.Utf8` (rune index → byte index: match.go
`stringByteOffsets`/`runeByteOffsets`/`byteRange`, regexp.go `newStringByteMapper`/`byteIndex`,
compat `bytesToRunesAndOffsets`/`readRunes`, the rune-start lookup) and
`RegexVerif.Model.MatchBuilder` (the capture arrays of match.go).  The models are tied to the Go
source by the correspondence legs of harness/internal/legs/c08.go.

A string is a list of segments `(rune, width)` as produced by Go's `for range` decoding; `WF` is the
unicode/utf8 decoding contract (invalid byte = U+FFFD of width 1, literal U+FFFD = width 3, otherwise
width = `utf8.RuneLen`).  `byteOffsetSpec segs i` = sum of the widths of the first `i` segments.
-/
import RegexVerif.Lemmas.Utf8
import RegexVerif.Lemmas.MatchBuilder

namespace RegexVerif.Props.C08
open RegexVerif RegexVerif.Utf8 RegexVerif.Lemmas.Utf8

/-- a string mixing 1–4 byte runes, a literal U+FFFD (3 bytes) and two invalid bytes (U+FFFD, 1 byte):
    `"a" "é" <0xff> "€" U+FFFD "😀" <0x80> "z"` -/
def sample : List (Int × Nat) :=
  [(97, 1), (0xE9, 2), (0xFFFD, 1), (0x20AC, 3), (0xFFFD, 3), (0x1F600, 4), (0xFFFD, 1), (122, 1)]

theorem sample_wf : WF sample := by decide

/-! ### the three string mappers and the two adapter tables are exact -/

/-- **`stringByteOffsets` is the prefix-sum table.**  For every string (valid UTF-8 or not) and every
    rune index `0 ≤ i ≤ n`, the table behind `Capture.ByteRange` for string input — including its
    "nil means identity" fast path — answers the byte offset of rune `i`. -/
theorem stringByteOffsets_eq_prefixSums (segs : List (Int × Nat)) (hwf : WF segs) (i : Nat) (hi : i ≤ segs.length) :
    offsetAt (stringByteOffsets segs) i = some (byteOffsetSpec segs i) := by
  unfold stringByteOffsets byteOffsetSpec widths
  exact offsetAt_lazy computedLen (·.2) true segs
    (by intro s hs h1; rw [← computedLen_eq_width s (hwf s hs)]; exact h1) i hi

example : (List.range 9).map (offsetAt (stringByteOffsets sample)) =
    [0, 1, 3, 4, 7, 10, 14, 15, 16].map some := by decide
example : stringByteOffsets [(97, 1), (98, 1)] = none := by decide

/-- **The delta table + binary search of `FindAllStringIndex` is exact.**  For every string and
    every rune index `0 ≤ i ≤ n`, `byteIndex i` on the table built by `newStringByteMapper` (or the
    identity when the mapper is nil) is the byte offset of rune `i`. -/
theorem stringByteMapper_eq (segs : List (Int × Nat)) (hwf : WF segs) (i : Nat) (hi : i ≤ segs.length) :
    mapIndex (newStringByteMapper segs) i = byteOffsetSpec segs i := by
  have hlin := linLookup_tbl segs 0 0 i hi
  simp only [Nat.zero_add] at hlin
  have hsum : byteOffsetSpec segs i = i + extra segs i := by
    unfold byteOffsetSpec extra
    rw [map_computedLen_eq segs hwf]
    have h1 : ∀ w ∈ (widths segs).take i, 1 ≤ w := by
      intro w hw
      obtain ⟨s, hs, rfl⟩ := List.mem_map.mp (List.mem_of_mem_take hw)
      exact (width_pos s (hwf s hs)).1
    rw [sum_eq_len_add_extra _ h1]
    have : i ≤ (widths segs).length := by simpa [widths] using hi
    simp [List.length_take, Nat.min_eq_left this]
  unfold newStringByteMapper
  rw [nsbmLoop_none]
  split
  · rename_i hnil
    rw [hnil] at hlin
    simp only [mapIndex, hsum]
    simp [linLookup] at hlin; omega
  · simp only [mapIndex]
    rw [byteIndex_eq_linLookup _ (tbl_sorted segs 0 0), hlin, hsum]

example : (List.range 9).map (mapIndex (newStringByteMapper sample)) = [0, 1, 3, 4, 7, 10, 14, 15, 16] := by decide
example : newStringByteMapper sample = some ⟨[2, 4, 5, 6], [1, 3, 5, 8]⟩ := by decide

/-- **compat `bytesToRunesAndOffsets` is exact** (no decoding contract needed: it uses the decoder's
    width directly): the runes are the decoded runes and the table answers the byte offset. -/
theorem bytesToRunes_offsets_eq (segs : List (Int × Nat)) (i : Nat) (hi : i ≤ segs.length) :
    (bytesToRunesAndOffsets segs).1 = runes segs ∧
    offsetAt (bytesToRunesAndOffsets segs).2 i = some (byteOffsetSpec segs i) := by
  refine ⟨rfl, ?_⟩
  unfold bytesToRunesAndOffsets byteOffsetSpec widths
  exact offsetAt_lazy (fun s : Int × Nat => s.2) (·.2) true segs (by intro s _ h; exact h) i hi

example : (List.range 9).map (offsetAt (bytesToRunesAndOffsets sample).2) = [0, 1, 3, 4, 7, 10, 14, 15, 16].map some := by decide

/-- **compat `readRunes` is exact**: the offsets of `FindReaderIndex`/`FindReaderSubmatchIndex`. -/
theorem readRunes_offsets_eq (segs : List (Int × Nat)) (i : Nat) (hi : i ≤ segs.length) :
    (readRunes segs).1 = runes segs ∧ (readRunes segs).2[i]? = some (byteOffsetSpec segs i) := by
  unfold readRunes
  rw [readRunesLoop_eq]
  refine ⟨by simp, ?_⟩
  have : [0] ++ (prefixSums (widths segs) 0).tail = prefixSums (widths segs) 0 := by
    conv => rhs; rw [prefixSums_eq_cons_tail]
    simp
  simp only [this]
  rw [prefixSums_get _ _ _ (by simpa [widths] using hi)]
  simp [byteOffsetSpec]

example : (readRunes sample).2 = [0, 1, 3, 4, 7, 10, 14, 15, 16] := by decide

/-- **`runeByteOffsets` is the prefix-sum table of the re-encoded text** — for every rune slice,
    including surrogates, negative values and values above U+10FFFF (each counted as the 3 bytes of
    U+FFFD, which is what `string(runes)` writes for them). -/
theorem runeByteOffsets_eq_encoded (rs : List Int) (i : Nat) (hi : i ≤ rs.length) :
    offsetAt (runeByteOffsets rs) i = some (((rs.map encLen).take i).sum) := by
  unfold runeByteOffsets
  exact offsetAt_lazy encLen encLen false rs (by intro s _ h; exact h) i hi

example : (List.range 6).map (offsetAt (runeByteOffsets [97, 0xD800, -5, 0x110000, 0x1F600])) =
    [0, 1, 4, 7, 10, 14].map some := by decide

/-- **`runeByteOffsets` agrees with the string tables on valid UTF-8**: if the string has no invalid
    byte (every U+FFFD segment is a literal one), the rune-input table for its runes gives the same
    byte offsets as the string. -/
theorem runeByteOffsets_eq (segs : List (Int × Nat)) (hwf : WF segs)
    (hvalid : ∀ s ∈ segs, s.1 = runeError → s.2 = 3) (i : Nat) (hi : i ≤ segs.length) :
    offsetAt (runeByteOffsets (runes segs)) i = some (byteOffsetSpec segs i) := by
  rw [runeByteOffsets_eq_encoded _ _ (by simpa [runes] using hi)]
  have : (runes segs).map encLen = widths segs := by
    unfold runes widths
    rw [List.map_map]
    apply List.map_congr_left
    intro s hs; exact encLen_eq_width s (hwf s hs) (hvalid s hs)
  rw [this]; rfl

example : (List.range 4).map (offsetAt (runeByteOffsets (runes [(0xFFFD, 3), (0x1F600, 4), (97, 1)]))) =
    (List.range 4).map (fun i => some (byteOffsetSpec [(0xFFFD, 3), (0x1F600, 4), (97, 1)] i)) := by decide

/-- **All mappers agree.**  For every string and every rune span `[i, i+len)` inside it, the
    byte span computed through `stringByteOffsets` (Match.ByteRange), through the delta table
    (`FindAllStringIndex`), through compat's `bytesToRunesAndOffsets` (`FindAllIndex`) and through
    `readRunes` (`FindReader*Index`) is one and the same pair of numbers. -/
theorem mappers_agree (segs : List (Int × Nat)) (hwf : WF segs) (i : Nat) (hi : i ≤ segs.length) :
    offsetAt (stringByteOffsets segs) i = some (mapIndex (newStringByteMapper segs) i) ∧
    offsetAt (bytesToRunesAndOffsets segs).2 i = some (mapIndex (newStringByteMapper segs) i) ∧
    (readRunes segs).2[i]? = some (mapIndex (newStringByteMapper segs) i) := by
  rw [stringByteMapper_eq segs hwf i hi]
  exact ⟨stringByteOffsets_eq_prefixSums segs hwf i hi, (bytesToRunes_offsets_eq segs i hi).2,
    (readRunes_offsets_eq segs i hi).2⟩

/-- **`ByteRange` is the byte span of exactly the addressed rune span**: index = bytes before rune
    `ri`, length = sum of the widths of segments `ri … ri+rl-1` (each invalid byte counting as one
    rune of one byte). -/
theorem byteRange_is_span (segs : List (Int × Nat)) (hwf : WF segs) (ri rl : Nat) (h : ri + rl ≤ segs.length) :
    byteRange (stringByteOffsets segs) ri rl =
      some (byteOffsetSpec segs ri, (((widths segs).drop ri).take rl).sum) := by
  have h1 := stringByteOffsets_eq_prefixSums segs hwf ri (by omega)
  have h2 := stringByteOffsets_eq_prefixSums segs hwf (ri + rl) h
  have hadd : byteOffsetSpec segs (ri + rl) = byteOffsetSpec segs ri + (((widths segs).drop ri).take rl).sum := by
    unfold byteOffsetSpec; exact sum_take_add _ _ _
  unfold byteRange
  cases hbo : stringByteOffsets segs with
  | none =>
    rw [hbo] at h1 h2
    simp only [offsetAt, Option.some.injEq] at h1 h2
    simp only [Option.some.injEq, Prod.mk.injEq]
    omega
  | some l =>
    rw [hbo] at h1 h2
    simp only [offsetAt] at h1 h2
    simp only [h1, h2, Option.some.injEq, Prod.mk.injEq, true_and]
    omega

example : byteRange (stringByteOffsets sample) 2 4 = some (3, 11) := by decide

/-- the same for rune input: `ByteRange` is the span in the UTF-8 encoding of the rune slice. -/
theorem byteRange_runes_is_span (rs : List Int) (ri rl : Nat) (h : ri + rl ≤ rs.length) :
    byteRange (runeByteOffsets rs) ri rl =
      some (((rs.map encLen).take ri).sum, (((rs.map encLen).drop ri).take rl).sum) := by
  have h1 := runeByteOffsets_eq_encoded rs ri (by omega)
  have h2 := runeByteOffsets_eq_encoded rs (ri + rl) h
  have hadd := sum_take_add (rs.map encLen) ri rl
  unfold byteRange
  cases hbo : runeByteOffsets rs with
  | none =>
    rw [hbo] at h1 h2
    simp only [offsetAt, Option.some.injEq] at h1 h2
    simp only [Option.some.injEq, Prod.mk.injEq]
    omega
  | some l =>
    rw [hbo] at h1 h2
    simp only [offsetAt] at h1 h2
    simp only [h1, h2, Option.some.injEq, Prod.mk.injEq, true_and]
    omega

/-- byte offsets are strictly increasing in the rune index: distinct rune positions have distinct
    byte positions, so a byte span determines its rune span. -/
theorem byteOffsetSpec_strictMono (segs : List (Int × Nat)) (hwf : WF segs) (i j : Nat) (hij : i < j)
    (hj : j ≤ segs.length) : byteOffsetSpec segs i < byteOffsetSpec segs j := by
  unfold byteOffsetSpec
  apply sum_take_lt _ _ i j hij (by simpa [widths] using hj)
  intro w hw
  obtain ⟨s, hs, rfl⟩ := List.mem_map.mp hw
  exact (width_pos s (hwf s hs)).1

/-! ### byte index → rune index (start offsets of the string entry points) -/

/-- **`decodeStringWithStart`/`getRunesAndStart` invert the mapping**: the byte offset of rune `i`
    is reported as rune index `i`. -/
theorem runeStart_of_offset (segs : List (Int × Nat)) (hwf : WF segs) (i : Nat) (hi : i ≤ segs.length) :
    runeStart segs (byteOffsetSpec segs i : Nat) = (i : Int) := by
  have := runeStartLoop_at segs (fun s hs => (width_pos s (hwf s hs)).1) 0 0 i (-1) hi
  simpa [runeStart, byteOffsetSpec] using this

/-- … and conversely a reported rune index `k ≥ 0` means the byte index given was exactly the
    offset of rune `k` (a rune boundary); every other byte index yields −1. -/
theorem offset_of_runeStart (segs : List (Int × Nat)) (b : Int) :
    runeStart segs b = -1 ∨
    ∃ k, k ≤ segs.length ∧ runeStart segs b = (k : Int) ∧ b = (byteOffsetSpec segs k : Nat) := by
  rcases runeStartLoop_found b segs 0 0 (-1) with h | ⟨m, hm, h1, h2⟩
  · left; exact h
  · right; exact ⟨m, hm, by simpa [runeStart] using h1, by simpa [byteOffsetSpec] using h2⟩

example : (List.range 17).map (fun b => runeStart sample (b : Nat)) =
    [0, 1, -1, 2, 3, -1, -1, 4, -1, -1, 5, -1, -1, -1, 6, 7, 8] := by decide

/-! ### the capture arrays (match.go): `addMatch`, `balanceMatch`, `removeMatch`, `tidy`, `Groups()`

`Inv b` (Lemmas/MatchBuilder) is the representation invariant of the arrays: per slot the first
`2 * matchcount` entries were produced by pushes of well-formed intervals and by balancing entries
`(-3 - t, -4 - t)` whose `t` is the array position of the capture that is innermost after the
cancellation (−2 if none), the arrays are long enough, and `balancing = false` implies that no
entry is negative.  `absOf b c` is the abstract view: the live captures of group `c`, oldest first. -/

open RegexVerif.MatchBuilder RegexVerif.Lemmas.MatchBuilder

/-- a fresh match satisfies the invariant and has no capture in any group -/
theorem newMatch_abs (k c : Nat) : Inv (newMatch k) ∧ absOf (newMatch k) c = [] := by
  refine ⟨newMatch_inv k, ?_⟩
  have hcnt : cnt (newMatch k) c = 0 := by
    simp [cnt, newMatch, List.getD_eq_getElem?_getD, List.getElem?_replicate]; split <;> rfl
  simp [absOf, absSlot, hcnt, liveStack]

/-- **`addMatch` pushes.**  Adding a well-formed interval to group `c` appends it to the live
    captures of `c`, leaves every other group alone and keeps the invariant. -/
theorem addMatch_abs (b : Builder) (hb : Inv b) (c : Nat) (hc : c < b.matchcount.length) (s l : Int)
    (hs : 0 ≤ s) (hl : 0 ≤ l) :
    Inv (addMatch b c s l) ∧
    ∀ c', absOf (addMatch b c s l) c' = if c' = c then absOf b c ++ [(s, l)] else absOf b c' := by
  refine ⟨addMatch_inv b hb c hc s l hs hl, ?_⟩
  intro c'
  rw [absOf_eq, (live_addMatch b hb c hc s l c').1]
  by_cases h : c' = c
  · subst h
    obtain ⟨st, hst⟩ := (hb.slot c' hc).2
    have : ¬ s < 0 := by omega
    simp only [ite_true, liveStack_append_pair _ _ _ _ (rep_even hst), this, ite_false, List.reverse_cons, absOf_eq]
  · simp only [h, ite_false, absOf_eq]

/-- **`balanceMatch` cancels the innermost live capture.**  When group `c` is matched, the entry
    written by `balanceMatch` (back-pointer encoding included) removes exactly the last live capture
    of `c`, leaves every other group alone and keeps the invariant. -/
theorem balanceMatch_abs (b : Builder) (hb : Inv b) (c : Nat) (hc : c < b.matchcount.length)
    (hm : isMatched b c = true) :
    Inv (balanceMatch b c) ∧
    ∀ c', absOf (balanceMatch b c) c' = if c' = c then (absOf b c).dropLast else absOf b c' := by
  obtain ⟨st, hst⟩ := (hb.slot c hc).2
  have hne := (isMatched_iff b hb c hc st hst).mp hm
  match st, hst, hne with
  | (q, s, l) :: st', hst, _ =>
    refine ⟨balanceMatch_inv b hb c hc q s l st' hst, ?_⟩
    intro c'
    rw [absOf_eq, (live_balanceMatch b hb c hc q s l st' hst c').1]
    by_cases h : c' = c
    · subst h
      have : -3 - topPos st' < 0 := by have := topPos_ge st'; omega
      simp only [ite_true, liveStack_append_pair _ _ _ _ (rep_even hst), this, tail_reverse_eq, absOf_eq]
    · simp only [h, ite_false, absOf_eq]

/-- **`removeMatch` undoes the last `addMatch`** (what `uncapture` relies on when backtracking):
    counts and live captures of every group are as before, and the invariant holds again. -/
theorem removeMatch_undoes_addMatch (b : Builder) (hb : Inv b) (c : Nat) (hc : c < b.matchcount.length) (s l : Int)
    (hs : 0 ≤ s) (hl : 0 ≤ l) :
    Inv (removeMatch (addMatch b c s l) c) ∧
    ∀ c', absOf (removeMatch (addMatch b c s l) c) c' = absOf b c' ∧ cnt (removeMatch (addMatch b c s l) c) c' = cnt b c' := by
  have hb2 := addMatch_inv b hb c hc s l hs hl
  have key := live_addMatch b hb c hc s l
  have hc2 : c < (addMatch b c s l).matchcount.length := by rw [(key 0).2.2.1]; exact hc
  refine ⟨removeMatch_inv _ hb2 c hc2 (by rw [(key c).2.1]; simp), ?_⟩
  intro c'
  have := live_remove_after_append b _ hb hb2 c hc (key 0).2.2.1 s l (fun c' => (key c').1) (fun c' => (key c').2.1) c'
  exact ⟨by rw [absOf_eq, this.1, absOf_eq], this.2⟩

/-- **`removeMatch` undoes the last `balanceMatch`**: the cancelled capture is live again. -/
theorem removeMatch_undoes_balanceMatch (b : Builder) (hb : Inv b) (c : Nat) (hc : c < b.matchcount.length)
    (hm : isMatched b c = true) :
    Inv (removeMatch (balanceMatch b c) c) ∧
    ∀ c', absOf (removeMatch (balanceMatch b c) c) c' = absOf b c' ∧ cnt (removeMatch (balanceMatch b c) c) c' = cnt b c' := by
  obtain ⟨st, hst⟩ := (hb.slot c hc).2
  have hne := (isMatched_iff b hb c hc st hst).mp hm
  match st, hst, hne with
  | (q, s, l) :: st', hst, _ =>
    have hb2 := balanceMatch_inv b hb c hc q s l st' hst
    have key := live_balanceMatch b hb c hc q s l st' hst
    have hc2 : c < (balanceMatch b c).matchcount.length := by rw [(key 0).2.2.1]; exact hc
    refine ⟨removeMatch_inv _ hb2 c hc2 (by rw [(key c).2.1]; simp), ?_⟩
    intro c'
    have := live_remove_after_append b _ hb hb2 c hc (key 0).2.2.1 _ _ (fun c' => (key c').1) (fun c' => (key c').2.1) c'
    exact ⟨by rw [absOf_eq, this.1, absOf_eq], this.2⟩

/-- `removeMatch` of any group with a positive count keeps the invariant (it exposes an earlier
    state of the slot). -/
theorem removeMatch_keeps_inv (b : Builder) (hb : Inv b) (c : Nat) (hc : c < b.matchcount.length)
    (hpos : 0 < cnt b c) : Inv (removeMatch b c) := removeMatch_inv b hb c hc hpos

/-- **`isMatched` is "has a live capture"**: the `(-1, -2)` test on the last entry is exact. -/
theorem isMatched_iff_live (b : Builder) (hb : Inv b) (c : Nat) (hc : c < b.matchcount.length) :
    isMatched b c = true ↔ absOf b c ≠ [] := by
  obtain ⟨st, hst⟩ := (hb.slot c hc).2
  rw [isMatched_iff b hb c hc st hst, absOf_eq, rep_live hst]
  cases st <;> simp [vals]

/-- **`matchIndex`/`matchLength` read the innermost live capture** (through the back-pointer when the
    last entry is a balancing entry) — the interval `transferCapture` and back-references use. -/
theorem matchIndex_matchLength_top (b : Builder) (hb : Inv b) (c : Nat) (hc : c < b.matchcount.length)
    (xs : List (Int × Int)) (s l : Int) (h : absOf b c = xs ++ [(s, l)]) :
    matchIndex b c = s ∧ matchLength b c = l := by
  obtain ⟨st, hst⟩ := (hb.slot c hc).2
  rw [absOf_eq, rep_live hst] at h
  have h' : vals st = (s, l) :: xs.reverse := by
    have := congrArg List.reverse h; simpa using this
  match st, hst, h' with
  | (q, s', l') :: st', hst, h' =>
    simp only [vals, List.map_cons, List.cons.injEq, Prod.mk.injEq] at h'
    obtain ⟨⟨rfl, rfl⟩, _⟩ := h'
    exact matchIndex_matchLength b hb c hc q _ _ st' hst

/-- **`tidy` leaves exactly the live captures** (also `compactBalancedMatches` of replace.go, the same
    loops): afterwards the first `2 * matchcount[c]` entries of `matches[c]` are the live captures of
    group `c`, flattened, oldest first; no entry is negative; `balancing` is false; the abstract view
    is unchanged and the invariant holds. -/
theorem tidy_abs (b : Builder) (hb : Inv b) (c : Nat) (hc : c < b.matchcount.length) :
    (arr (tidy b) c).take (2 * cnt (tidy b) c) = (absOf b c).flatMap (fun p => [p.1, p.2]) ∧
    cnt (tidy b) c = (absOf b c).length ∧
    (∀ x ∈ (arr (tidy b) c).take (2 * cnt (tidy b) c), 0 ≤ x) ∧
    (tidy b).balancing = false ∧
    absOf (tidy b) c = absOf b c := by
  obtain ⟨st, hst⟩ := (hb.slot c hc).2
  obtain ⟨t1, t2, _⟩ := tidy_slot b hb c hc st hst
  have habs : absOf b c = (vals st).reverse := by rw [absOf_eq, rep_live hst]
  have hnn := vals_nonneg hst
  have t1' : (arr (tidy b) c).take (2 * cnt (tidy b) c) = flat (vals st).reverse := t1
  refine ⟨by rw [habs]; exact t1', by rw [t2, habs]; simp [vals], ?_, ?_, ?_⟩
  · intro x hx
    rw [t1'] at hx
    simp only [flat, List.mem_flatMap] at hx
    obtain ⟨p, hp, hx⟩ := hx
    have := hnn p hp
    simp only [List.mem_cons, List.mem_nil_iff, or_false] at hx
    rcases hx with rfl | rfl
    · exact this.1
    · exact this.2
  · unfold tidy; split
    · rfl
    · rename_i h; simpa using h
  · obtain ⟨st2, h1, h2⟩ := rep_of_pairs (vals st).reverse hnn [] [] Rep.nil
    simp only [List.nil_append] at h1
    have : absOf (tidy b) c = (liveStack (flat (vals st).reverse) []).reverse := by
      rw [absOf_eq]; show (liveStack ((arr (tidy b) c).take (2 * cnt (tidy b) c)) []).reverse = _; rw [t1']
    rw [this, rep_live h1, h2, habs]; simp [vals]

/-- the invariant survives `tidy` (a tidied match can be handed to `FindNextMatch`'s machinery or
    inspected again) -/
theorem tidy_keeps_inv (b : Builder) (hb : Inv b) : Inv (tidy b) := by
  unfold tidy
  by_cases hbal : b.balancing = true
  · simp only [hbal, ite_true]
    have hlen : (tidySlots b.arrays b.matchcount).length = b.arrays.length := by
      by_cases h0 : 0 < b.arrays.length
      · exact (tidySlots_getD b.arrays b.matchcount hb.len 0 h0).2.2
      · have h1 : b.arrays = [] := by cases hb' : b.arrays with
          | nil => rfl
          | cons _ _ => rw [hb'] at h0; simp at h0
        rw [h1]; simp [tidySlots]
    have hmc : b.matchcount.length = b.arrays.length := hb.len.symm
    refine ⟨by simp, ?_, ?_⟩
    · intro c hc
      have hc' : c < b.matchcount.length := by simp [hlen] at hc; omega
      obtain ⟨st, hst⟩ := (hb.slot c hc').2
      have ts := tidy_slot b hb c hc' st hst
      have hnn := vals_nonneg hst
      simp only [tidy, hbal, ite_true] at ts
      obtain ⟨st2, h1, _⟩ := rep_of_pairs (vals st).reverse hnn [] [] Rep.nil
      simp only [List.nil_append] at h1
      refine ⟨⟨?_, ?_⟩, ⟨st2, by rw [ts.1]; exact h1⟩⟩
      · have hl := congrArg List.length ts.1
        simp only [live, List.length_take] at hl
        have hfl : (flat (vals st).reverse).length = 2 * st.length := by rw [flat_length]; simp [vals]
        rw [hfl, ← ts.2.1] at hl
        omega
      · rcases (hb.slot c hc').1.2 with h0 | h2
        · left; apply List.eq_nil_of_length_eq_zero; rw [ts.2.2, h0]; rfl
        · right; rw [ts.2.2]; exact h2
    · intro _ c hc x hx
      have hc' : c < b.matchcount.length := by simp [hlen] at hc; omega
      have := (tidy_abs b hb c hc').2.2.1 x
      simp only [tidy, hbal, ite_true] at this
      exact this hx
  · have : b.balancing = false := by simpa using hbal
    simp only [this, Bool.false_eq_true, ite_false]; exact hb

/-- **`Groups()` after `tidy`**: the `Captures` of group `c` are its live captures in order, and the
    embedded `Capture` of the group is the last of them (`(0, 0)` when there is none). -/
theorem groups_after_tidy (b : Builder) (hb : Inv b) (c : Nat) (hc : c < b.matchcount.length) :
    newGroup (arr (tidy b) c) (cnt (tidy b) c) = ((absOf b c).getLast?.getD (0, 0), absOf b c) := by
  obtain ⟨t1, t2, _⟩ := tidy_abs b hb c hc
  rw [t2]
  apply newGroup_of_flat
  rw [← t2]; exact t1

/-- builders the interpreter can reach when every interval it adds lies inside `[0, N]`, balancing
    only matched groups and removing only what it added -/
inductive Reach (N : Int) (k : Nat) : Builder → Prop
  | init : Reach N k (newMatch k)
  | add (b : Builder) (c : Nat) (s l : Int) : Reach N k b → c < k → 0 ≤ s → 0 ≤ l → s + l ≤ N → Reach N k (addMatch b c s l)
  | bal (b : Builder) (c : Nat) : Reach N k b → c < k → isMatched b c = true → Reach N k (balanceMatch b c)
  | rem (b : Builder) (c : Nat) : Reach N k b → c < k → 0 < cnt b c → Reach N k (removeMatch b c)

/-- every reachable builder satisfies the representation invariant, keeps its number of slots, and
    all real (non-negative) entries of its arrays — live or cancelled, so that an `uncapture` that
    revives a cancelled capture is covered — are intervals inside `[0, N]` -/
theorem reach_inv (N : Int) (k : Nat) (b : Builder) (h : Reach N k b) :
    Inv b ∧ b.matchcount.length = k ∧ ∀ c, c < k → Bounded N ((arr b c).take (2 * cnt b c)) := by
  induction h with
  | init =>
    refine ⟨newMatch_inv k, by simp [newMatch], ?_⟩
    intro c _
    have hcnt : cnt (newMatch k) c = 0 := by
      simp [cnt, newMatch, List.getD_eq_getElem?_getD, List.getElem?_replicate]; split <;> rfl
    simp [hcnt, Bounded, pairsOf]
  | add b c s l _ hc hs hl hN ih =>
    obtain ⟨hb, hk, hB⟩ := ih
    have hc' : c < b.matchcount.length := by omega
    have key := live_addMatch b hb c hc' s l
    refine ⟨addMatch_inv b hb c hc' s l hs hl, by rw [(key 0).2.2.1]; exact hk, ?_⟩
    intro c' hck
    have h1 : (arr (addMatch b c s l) c').take (2 * cnt (addMatch b c s l) c') = _ := (key c').1
    rw [h1]
    by_cases h : c' = c
    · subst h
      obtain ⟨st, hst⟩ := (hb.slot c' hc').2
      simp only [ite_true]
      intro p hp hp0
      rw [pairsOf_append_pair _ _ _ (rep_even hst)] at hp
      rcases List.mem_append.mp hp with hp | hp
      · exact hB c' hck p hp hp0
      · simp only [List.mem_cons, List.mem_nil_iff, or_false] at hp; subst hp; exact ⟨hl, hN⟩
    · simp only [h, ite_false]; exact hB c' hck
  | bal b c _ hc hm ih =>
    obtain ⟨hb, hk, hB⟩ := ih
    have hc' : c < b.matchcount.length := by omega
    obtain ⟨st, hst⟩ := (hb.slot c hc').2
    have hne := (isMatched_iff b hb c hc' st hst).mp hm
    match st, hst, hne with
    | (q, s, l) :: st', hst, _ =>
      have key := live_balanceMatch b hb c hc' q s l st' hst
      refine ⟨balanceMatch_inv b hb c hc' q s l st' hst, by rw [(key 0).2.2.1]; exact hk, ?_⟩
      intro c' hck
      have h1 : (arr (balanceMatch b c) c').take (2 * cnt (balanceMatch b c) c') = _ := (key c').1
      rw [h1]
      by_cases h : c' = c
      · subst h
        simp only [ite_true]
        intro p hp hp0
        rw [pairsOf_append_pair _ _ _ (rep_even hst)] at hp
        rcases List.mem_append.mp hp with hp | hp
        · exact hB c' hck p hp hp0
        · simp only [List.mem_cons, List.mem_nil_iff, or_false] at hp; subst hp
          have := topPos_ge st'; simp only at hp0; omega
      · simp only [h, ite_false]; exact hB c' hck
  | rem b c _ hc hpos ih =>
    obtain ⟨hb, hk, hB⟩ := ih
    have hc' : c < b.matchcount.length := by omega
    have key := live_removeMatch b hb c hc'
    refine ⟨removeMatch_inv b hb c hc' hpos, by simp [removeMatch]; exact hk, ?_⟩
    intro c' hck
    have h1 : (arr (removeMatch b c) c').take (2 * cnt (removeMatch b c) c') = _ := (key c').1
    rw [h1]
    by_cases h : c' = c
    · subst h
      simp only [ite_true]
      obtain ⟨st, hst⟩ := (hb.slot c' hc').2
      rcases rep_last hst with ⟨h0, _⟩ | ⟨P', x, y, heq, _⟩
      · have := live_length b hb c' hc'; rw [h0] at this; simp at this; omega
      · have hP' : P'.length + 2 = 2 * cnt b c' := by
          have := congrArg List.length heq; rw [live_length b hb c' hc'] at this; simp at this; omega
        have hP'e : P'.length % 2 = 0 := by omega
        have : (live b c').take (2 * (cnt b c' - 1)) = P' := by
          rw [heq, List.take_append_of_le_length (by omega), List.take_of_length_le (by omega)]
        rw [this]
        intro p hp hp0
        have hB' := hB c' hck
        have hl : (arr b c').take (2 * cnt b c') = P' ++ [x, y] := heq
        rw [hl, Bounded, pairsOf_append_pair _ _ _ hP'e] at hB'
        exact hB' p (List.mem_append_left _ hp) hp0
    · simp only [h, ite_false]; exact hB c' hck

/-- **Captures stay inside the input.**  If every interval the interpreter adds lies inside `[0, N]`
    (N = number of runes), then whatever sequence of add / balance / remove it performs, every live
    capture of every group lies inside `[0, N]`, and after `tidy` these are exactly the captures in
    the arrays that `Groups()` reads. -/
theorem captures_in_bounds (N : Int) (k : Nat) (b : Builder) (h : Reach N k b) (c : Nat) (hc : c < k) :
    (∀ p ∈ absOf b c, 0 ≤ p.1 ∧ 0 ≤ p.2 ∧ p.1 + p.2 ≤ N) ∧
    (newGroup (arr (tidy b) c) (cnt (tidy b) c)).2 = absOf b c := by
  obtain ⟨hb, hk, hB⟩ := reach_inv N k b h
  have hc' : c < b.matchcount.length := by omega
  refine ⟨?_, by rw [groups_after_tidy b hb c hc']⟩
  obtain ⟨st, hst⟩ := (hb.slot c hc').2
  intro p hp
  rw [absOf_eq, rep_live hst, List.mem_reverse] at hp
  have hmem := rep_mem_pairs hst p hp
  have hnn := vals_nonneg hst p (by simpa using hp)
  have := hB c hc p hmem hnn.1
  exact ⟨hnn.1, hnn.2, this.2⟩

/-- **The interval of `(?<b-a>…)` is always well-formed.**  `transferCapture` computes the new
    capture from the interval just matched `[s, e]` and the cancelled capture `[s2, e2]`; when both
    lie in `[0, N]` the result is an interval inside `[0, N]` — including the case where the content
    ends before the cancelled capture starts (the interval between the two; before /repo commit
    9024ff6 that case produced a negative length, which the arrays read as a back-pointer). -/
theorem transferInterval_in_bounds (N s e s2 e2 : Int) (h1 : 0 ≤ s) (h2 : s ≤ e) (h3 : e ≤ N)
    (h4 : 0 ≤ s2) (h5 : s2 ≤ e2) (h6 : e2 ≤ N) :
    0 ≤ (transferInterval s e s2 e2).1 ∧ (transferInterval s e s2 e2).1 ≤ (transferInterval s e s2 e2).2 ∧
    (transferInterval s e s2 e2).2 ≤ N := by
  unfold transferInterval
  split
  · simp; omega
  · split
    · simp; omega
    · simp only; split <;> split <;> omega

/-- content `[0,1]` strictly before the cancelled capture `[2,3]` gives the interval between them -/
example : transferInterval 0 1 2 3 = (1, 2) := by decide

/-! ### the interpreter primitives stay inside `Reach` -/

/-- **`Runner.Capture` keeps the arrays reachable**: both orders of `start`/`end` (left-to-right and
    right-to-left matching) add a well-formed interval when both ends lie in `[0, N]`. -/
theorem capture_reach (N : Int) (k : Nat) (r : Runner) (h : Reach N k r.m) (c : Nat) (hc : c < k) (s e : Int)
    (hs : 0 ≤ s) (hsN : s ≤ N) (he : 0 ≤ e) (heN : e ≤ N) : Reach N k (capture r c s e).m := by
  unfold capture
  by_cases hlt : e < s
  · simp only [hlt, ite_true]
    exact Reach.add _ c e (s - e) h hc he (by omega) (by omega)
  · simp only [hlt, ite_false]
    exact Reach.add _ c s (e - s) h hc hs (by omega) (by omega)

/-- **`Runner.transferCapture` keeps the arrays reachable.**  For `(?<cap-uncap>…)` with `uncap`
    matched and content `[s, e]` inside `[0, N]`, the balance step and the added interval are within
    the hypotheses of `captures_in_bounds`. -/
theorem transferCapture_reach (N : Int) (k : Nat) (r : Runner) (h : Reach N k r.m) (capnum uncapnum : Nat)
    (hc : capnum < k) (hu : uncapnum < k) (hm : isMatched r.m uncapnum = true) (s e : Int)
    (hs : 0 ≤ s) (hse : s ≤ e) (he : e ≤ N) :
    Reach N k (transferCapture r (capnum : Int) uncapnum s e).m := by
  obtain ⟨hb, hk, _⟩ := reach_inv N k r.m h
  have hu' : uncapnum < r.m.matchcount.length := by omega
  -- the innermost live capture of `uncapnum` and its bounds
  have hne := (isMatched_iff_live r.m hb uncapnum hu').mp hm
  obtain ⟨xs, p, hxs⟩ : ∃ xs p, absOf r.m uncapnum = xs ++ [p] := by
    cases hrev : (absOf r.m uncapnum).reverse with
    | nil => simp at hrev; exact absurd hrev hne
    | cons p t => exact ⟨t.reverse, p, by have := congrArg List.reverse hrev; simpa using this⟩
  obtain ⟨s2, l2⟩ := p
  obtain ⟨hmi, hml⟩ := matchIndex_matchLength_top r.m hb uncapnum hu' xs s2 l2 hxs
  have hbd := (captures_in_bounds N k r.m h uncapnum hu).1 (s2, l2) (by rw [hxs]; simp)
  simp only at hbd
  have hiv := transferInterval_in_bounds N s e s2 (s2 + l2) hs hse he hbd.1 (by omega) hbd.2.2
  have hnlt : ¬ e < s := by omega
  have hcap : ((capnum : Int) ≠ -1) := by omega
  unfold transferCapture
  simp only [hnlt, ite_false, hmi, hml, hcap, ne_eq, not_false_eq_true, ite_true, Int.toNat_natCast]
  exact Reach.add _ capnum _ _ (Reach.bal _ uncapnum h hu hm) hc hiv.1 (by omega) (by omega)

/-- `(?<-uncap>…)`: only the balance step. -/
theorem transferCapture_pop_reach (N : Int) (k : Nat) (r : Runner) (h : Reach N k r.m) (uncapnum : Nat)
    (hu : uncapnum < k) (hm : isMatched r.m uncapnum = true) (s e : Int) :
    Reach N k (transferCapture r (-1) uncapnum s e).m := by
  unfold transferCapture
  simp only [ne_eq, not_true_eq_false, ite_false]
  exact Reach.bal _ uncapnum h hu hm

example : (transferCapture ⟨addMatch (newMatch 3) 1 0 1, [1]⟩ 2 1 1 2).m.arrays = [[0, 0], [0, 1, -1, -2, 0, 0, 0, 0], [1, 0]] := by decide

/-! non-vacuity: a concrete run with nested captures, a balancing group and an undone capture -/

/-- `(?<a>x)(?<a>x)(?<b-a>x)` then a failed `(?<-a>x)` attempt (balance, then backtracked), then group 0 -/
def demoOps : List Op :=
  [.cap 1 0 1, .cap 1 1 2, .transfer 2 1 2 3, .transfer (-1) 1 3 4, .uncap, .cap 0 0 3]

example : (run 3 demoOps).m.arrays = [[0, 3], [0, 1, 1, 1, -3, -4, -1, -2], [2, 0]] := by decide
example : (run 3 demoOps).m.matchcount = [1, 3, 1] := by decide
example : abs (run 3 demoOps).m = [[(0, 3)], [(0, 1)], [(2, 0)]] := by decide
example : (tidy (run 3 demoOps).m).arrays = [[0, 3], [0, 1, 1, 1, -3, -4, -1, -2], [2, 0]] ∧
    (tidy (run 3 demoOps).m).matchcount = [1, 1, 1] := by decide
example : groups (tidy (run 3 demoOps).m) = [((0, 3), [(0, 3)]), ((0, 1), [(0, 1)]), ((2, 0), [(2, 0)])] := by decide

/-- the hypotheses of the theorems above are met along that run (so they are not vacuous): the
    state before the balancing group is reachable, group 1 is matched there, and the balance step
    drops its innermost capture -/
example : Reach 4 3 (addMatch (addMatch (newMatch 3) 1 0 1) 1 1 1) :=
  Reach.add _ 1 1 1 (Reach.add _ 1 0 1 Reach.init (by decide) (by decide) (by decide) (by decide))
    (by decide) (by decide) (by decide) (by decide)
example : isMatched (addMatch (addMatch (newMatch 3) 1 0 1) 1 1 1) 1 = true := by decide
example : absOf (balanceMatch (addMatch (addMatch (newMatch 3) 1 0 1) 1 1 1) 1) 1 = [(0, 1)] := by decide

end RegexVerif.Props.C08
