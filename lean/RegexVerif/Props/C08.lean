/-
C08 — property theorems (stub: not built yet).
-/
namespace RegexVerif.Props.C08
end RegexVerif.Props.C08
