/-
Helper lemmas for `Model/RewriteDecisions.lean`: every step of the rewrite-decision model keeps
`Spec.m` of the denotation (`toPat`) — part 1: list algebra of n-ary concatenations and alternations.
-/
import RegexVerif.Model.RewriteDecisions
import RegexVerif.Lemmas.Rewrites
import RegexVerif.Lemmas.ClassCanon

namespace RegexVerif.RewriteDecisions
open RegexVerif.Spec

/-! ## `toPats` -/

theorem toPats_eq_map (rtl : Bool) : ∀ (cs : List RNode), toPats rtl cs = cs.map (toPat rtl)
  | [] => by simp [toPats]
  | x :: xs => by simp [toPats, toPats_eq_map rtl xs]

theorem toPats_append (rtl : Bool) (a b : List RNode) : toPats rtl (a ++ b) = toPats rtl a ++ toPats rtl b := by
  simp [toPats_eq_map]

/-! ## n-ary concatenation -/

/-- the successes of a list of factors evaluated in pattern order (`rtl`: last factor first) -/
def ms (e : Env) (rtl : Bool) (l : List Pat) (st : St) : List St := m e (seqOf l) rtl st

theorem ms_nil (e : Env) (rtl : Bool) (st : St) : ms e rtl [] st = [st] := by simp [ms, seqOf, m]

theorem ms_single (e : Env) (rtl : Bool) (a : Pat) (st : St) : ms e rtl [a] st = m e a rtl st := by simp [ms, seqOf]

theorem ms_cons (e : Env) (rtl : Bool) (a : Pat) (l : List Pat) (st : St) :
    ms e rtl (a :: l) st = m e (.seq a (seqOf l)) rtl st := by
  cases l with
  | nil => simp [ms, seqOf, seq_empty_right]
  | cons b rest => simp [ms, seqOf]

theorem ms_cons_ltr (e : Env) (a : Pat) (l : List Pat) (st : St) :
    ms e false (a :: l) st = (m e a false st).flatMap (ms e false l) := by
  rw [ms_cons]; simp only [m, Bool.false_eq_true, if_false]; rfl

theorem ms_cons_rtl (e : Env) (a : Pat) (l : List Pat) (st : St) :
    ms e true (a :: l) st = (ms e true l st).flatMap (m e a true) := by
  rw [ms_cons]; simp only [m, if_true]; rfl

theorem ms_append_ltr (e : Env) : ∀ (l1 l2 : List Pat) (st : St),
    ms e false (l1 ++ l2) st = (ms e false l1 st).flatMap (ms e false l2)
  | [], l2, st => by simp [ms_nil]
  | a :: l1, l2, st => by
    rw [List.cons_append, ms_cons_ltr, ms_cons_ltr, List.flatMap_assoc]
    congr 1; funext y; exact ms_append_ltr e l1 l2 y

theorem ms_append_rtl (e : Env) : ∀ (l1 l2 : List Pat) (st : St),
    ms e true (l1 ++ l2) st = (ms e true l2 st).flatMap (ms e true l1)
  | [], l2, st => by
    have : (fun y => ms e true [] y) = fun y => [y] := by funext y; exact ms_nil e true y
    simp [this]
  | a :: l1, l2, st => by
    rw [List.cons_append, ms_cons_rtl, ms_append_rtl e l1 l2 st, List.flatMap_assoc]
    congr 1; funext y; rw [ms_cons_rtl]

/-- two factor lists with the same successes from every state (direction `rtl`) -/
def SeqEq (e : Env) (rtl : Bool) (l l' : List Pat) : Prop := ∀ st, ms e rtl l st = ms e rtl l' st

theorem SeqEq.refl (e : Env) (rtl : Bool) (l : List Pat) : SeqEq e rtl l l := fun _ => rfl
theorem SeqEq.symm {e : Env} {rtl : Bool} {l l' : List Pat} (h : SeqEq e rtl l l') : SeqEq e rtl l' l := fun st => (h st).symm
theorem SeqEq.trans {e : Env} {rtl : Bool} {a b c : List Pat} (h1 : SeqEq e rtl a b) (h2 : SeqEq e rtl b c) :
    SeqEq e rtl a c := fun st => (h1 st).trans (h2 st)

theorem SeqEq.append {e : Env} {rtl : Bool} {a a' b b' : List Pat} (h1 : SeqEq e rtl a a') (h2 : SeqEq e rtl b b') :
    SeqEq e rtl (a ++ b) (a' ++ b') := by
  intro st
  cases rtl with
  | false =>
    rw [ms_append_ltr, ms_append_ltr, h1 st]
    congr 1; funext y; exact h2 y
  | true =>
    rw [ms_append_rtl, ms_append_rtl, h2 st]
    congr 1; funext y; exact h1 y

theorem SeqEq.of_m {e : Env} {rtl : Bool} {a a' : Pat} (h : ∀ st, m e a rtl st = m e a' rtl st) : SeqEq e rtl [a] [a'] := by
  intro st; rw [ms_single, ms_single, h st]

/-- a nested concatenation may be spliced -/
theorem seqEq_splice (e : Env) (rtl : Bool) (l : List Pat) : SeqEq e rtl [seqOf l] l := by
  intro st; rw [ms_single]; rfl

/-- Empty may be dropped -/
theorem seqEq_empty (e : Env) (rtl : Bool) : SeqEq e rtl [.empty] [] := by
  intro st; rw [ms_single, ms_nil]; simp [m]

theorem ms_reverse_dir (e : Env) (rtl : Bool) (l : List Pat) (st : St) :
    m e (seqOf (dir rtl l)) rtl st = ms e rtl (dir rtl l) st := rfl

/-! ## n-ary alternation -/

/-- the successes of a list of branches -/
def ma (e : Env) (rtl : Bool) (l : List Pat) (st : St) : List St := l.flatMap (fun a => m e a rtl st)

theorem m_altOf' (e : Env) (rtl : Bool) (l : List Pat) (st : St) : m e (altOf l) rtl st = ma e rtl l st :=
  m_altOf e rtl st l

theorem ma_append (e : Env) (rtl : Bool) (a b : List Pat) (st : St) : ma e rtl (a ++ b) st = ma e rtl a st ++ ma e rtl b st := by
  simp [ma]

theorem ma_cons (e : Env) (rtl : Bool) (a : Pat) (l : List Pat) (st : St) : ma e rtl (a :: l) st = m e a rtl st ++ ma e rtl l st := by
  simp [ma]

theorem ma_nil (e : Env) (rtl : Bool) (st : St) : ma e rtl [] st = [] := rfl

/-! ## concatenations of nodes (storage order) -/

/-- the successes of a Concatenate with children `cs` (stored in emission order) -/
def mc (e : Env) (rtl : Bool) (cs : List RNode) (st : St) : List St := ms e rtl (dir rtl (toPats rtl cs)) st

theorem m_cat (e : Env) (rtl : Bool) (o : Nat) (cs : List RNode) (st : St) :
    m e (toPat rtl (.cat o cs)) rtl st = mc e rtl cs st := by
  simp [toPat, mc, ms]

/-- two child lists with the same successes -/
def CatEq (e : Env) (rtl : Bool) (cs cs' : List RNode) : Prop := ∀ st, mc e rtl cs st = mc e rtl cs' st

theorem CatEq.refl (e : Env) (rtl : Bool) (cs : List RNode) : CatEq e rtl cs cs := fun _ => rfl
theorem CatEq.symm {e : Env} {rtl : Bool} {a b : List RNode} (h : CatEq e rtl a b) : CatEq e rtl b a := fun st => (h st).symm
theorem CatEq.trans {e : Env} {rtl : Bool} {a b c : List RNode} (h1 : CatEq e rtl a b) (h2 : CatEq e rtl b c) :
    CatEq e rtl a c := fun st => (h1 st).trans (h2 st)

theorem dir_append {α : Type} (rtl : Bool) (a b : List α) :
    dir rtl (a ++ b) = if rtl then dir rtl b ++ dir rtl a else dir rtl a ++ dir rtl b := by
  cases rtl <;> simp [dir]

theorem CatEq.append {e : Env} {rtl : Bool} {a a' b b' : List RNode} (h1 : CatEq e rtl a a') (h2 : CatEq e rtl b b') :
    CatEq e rtl (a ++ b) (a' ++ b') := by
  intro st
  unfold mc
  rw [toPats_append, toPats_append, dir_append, dir_append]
  cases rtl with
  | false => exact SeqEq.append (e := e) (rtl := false) h1 h2 st
  | true => exact SeqEq.append (e := e) (rtl := true) h2 h1 st

theorem CatEq.cons {e : Env} {rtl : Bool} (x : RNode) {b b' : List RNode} (h : CatEq e rtl b b') :
    CatEq e rtl (x :: b) (x :: b') := CatEq.append (CatEq.refl e rtl [x]) h

theorem mc_single (e : Env) (rtl : Bool) (x : RNode) (st : St) : mc e rtl [x] st = m e (toPat rtl x) rtl st := by
  cases rtl <;> simp [mc, toPats, dir, ms_single]

theorem mc_nil (e : Env) (rtl : Bool) (st : St) : mc e rtl [] st = [st] := by
  cases rtl <;> simp [mc, toPats, dir, ms_nil]

theorem CatEq.of_m {e : Env} {rtl : Bool} {x y : RNode} (h : ∀ st, m e (toPat rtl x) rtl st = m e (toPat rtl y) rtl st) :
    CatEq e rtl [x] [y] := by
  intro st; rw [mc_single, mc_single, h st]

theorem catEq_empty (e : Env) (rtl : Bool) : CatEq e rtl [.empty] [] := by
  intro st; rw [mc_single, mc_nil]; simp [toPat, m]

theorem catEq_splice (e : Env) (rtl : Bool) (o : Nat) (cs : List RNode) : CatEq e rtl [.cat o cs] cs := by
  intro st; rw [mc_single, m_cat]

/-- `mkCat` (`replaceNodeIfUnnecessary`) keeps the successes -/
theorem m_mkCat (e : Env) (rtl : Bool) (o : Nat) (cs : List RNode) (st : St) :
    m e (toPat rtl (mkCat o cs)) rtl st = mc e rtl cs st := by
  match cs with
  | [] => simp [mkCat, toPat, m, mc_nil]
  | [c] => simp [mkCat, mc_single]
  | a :: b :: rest => simp [mkCat, m_cat]

theorem m_strPat_append (e : Env) (rtl : Bool) (a b : List Nat) :
    SeqEq e rtl [strPat a, strPat b] [strPat (a ++ b)] := by
  have h1 : SeqEq e rtl ([strPat a] ++ [strPat b]) (a.map lit ++ b.map lit) :=
    SeqEq.append (seqEq_splice e rtl _) (seqEq_splice e rtl _)
  have h2 : SeqEq e rtl [strPat (a ++ b)] (a.map lit ++ b.map lit) := by
    have := seqEq_splice e rtl ((a ++ b).map lit)
    simpa [strPat, List.map_append] using this
  exact h1.trans h2.symm

theorem toPat_strOf {rtl : Bool} {x : RNode} {o : Nat} {s : List Nat} (h : strOf x = some (o, s)) :
    toPat rtl x = strPat s := by
  cases x <;> simp [strOf] at h
  case chr o' p =>
    cases p <;> simp [strOf] at h
    obtain ⟨_, rfl⟩ := h
    simp [toPat, CP.pred, strPat, seqOf, lit]
  case multi o' cs =>
    obtain ⟨_, rfl⟩ := h
    simp [toPat]

/-- joining two adjacent One/Multi children -/
theorem catEq_join (e : Env) (rtl : Bool) {a b : RNode} {oa ob po : Nat} {sa sb : List Nat}
    (ha : strOf a = some (oa, sa)) (hb : strOf b = some (ob, sb)) :
    CatEq e rtl [a, b] [.multi po (if rtl then sb ++ sa else sa ++ sb)] := by
  intro st
  unfold mc
  cases rtl with
  | false =>
    simp only [toPats, dir, Bool.false_eq_true, if_false, toPat_strOf ha, toPat_strOf hb, toPat]
    exact m_strPat_append e false sa sb st
  | true =>
    simp only [toPats, dir, if_true, toPat_strOf ha, toPat_strOf hb, toPat, List.reverse_cons, List.reverse_nil,
      List.nil_append, List.cons_append]
    exact m_strPat_append e true sb sa st

theorem dropLast_append_of_getLast? {α : Type} {l : List α} {a : α} (h : l.getLast? = some a) : l.dropLast ++ [a] = l := by
  have hne : l ≠ [] := by intro h0; simp [h0] at h
  have := List.dropLast_concat_getLast hne
  rw [List.getLast?_eq_getLast hne] at h
  simp only [Option.some.injEq] at h
  rw [← h]; exact this

mutual
theorem catEq_flatCat (e : Env) (rtl : Bool) : ∀ (n : RNode), CatEq e rtl (flatCat n) [n]
  | .cat o cs => by
    rw [flatCat]
    exact (catEq_flatCats e rtl cs).trans (catEq_splice e rtl o cs).symm
  | .chr .. | .cloop .. | .multi .. | .empty | .nothing | .bump | .anchor .. | .ref .. | .alt .. | .loop .. | .cap ..
  | .look .. | .atomic .. | .refCond .. | .exprCond .. => by simp only [flatCat]; exact CatEq.refl e rtl _
theorem catEq_flatCats (e : Env) (rtl : Bool) : ∀ (cs : List RNode), CatEq e rtl (flatCats cs) cs
  | [] => by rw [flatCats]; exact CatEq.refl e rtl _
  | x :: xs => by
    rw [flatCats]
    exact CatEq.append (catEq_flatCat e rtl x) (catEq_flatCats e rtl xs)
end

/-- one step of `joinGo` on a child that is not Empty -/
theorem joinGo_cons (rtl : Bool) (out : List RNode) (w : Bool) (nd : RNode) (rest : List RNode) (hne : isEmpty nd = false) :
    joinGo rtl out w (nd :: rest) =
      match strOf nd with
      | none => joinGo rtl (out ++ [nd]) false rest
      | some (_, s) =>
        if !w then joinGo rtl (out ++ [nd]) true rest
        else
          match out.getLast?.bind strOf, out.dropLast with
          | some (po, ps), front =>
            joinGo rtl (front ++ [.multi po (if rtl then s ++ ps else ps ++ s)]) true rest
          | none, _ => joinGo rtl (out ++ [nd]) true rest := by
  cases nd <;> simp [isEmpty] at hne <;> simp only [joinGo] <;> rfl

theorem catEq_joinGo (e : Env) (rtl : Bool) : ∀ (rest out : List RNode) (w : Bool),
    CatEq e rtl (joinGo rtl out w rest) (out ++ rest)
  | [], out, w => by simp [joinGo]; exact CatEq.refl e rtl _
  | nd :: rest, out, w => by
    have hdrop : CatEq e rtl (out ++ rest) (out ++ RNode.empty :: rest) :=
      CatEq.append (CatEq.refl e rtl out) (CatEq.append (a := []) (a' := [.empty]) (catEq_empty e rtl).symm (CatEq.refl e rtl rest))
    have hkeep : ∀ w', CatEq e rtl (joinGo rtl (out ++ [nd]) w' rest) (out ++ nd :: rest) := fun w' => by
      have := catEq_joinGo e rtl rest (out ++ [nd]) w'
      simpa [List.append_assoc] using this
    by_cases hne : isEmpty nd = true
    · have : nd = .empty := by cases nd <;> simp_all [isEmpty]
      subst this
      simp only [joinGo]
      exact (catEq_joinGo e rtl rest out w).trans hdrop
    · rw [joinGo_cons rtl out w nd rest (by simpa using hne)]
      cases hs : strOf nd with
      | none => exact hkeep false
      | some os =>
        obtain ⟨so, s⟩ := os
        simp only
        by_cases hw : w = true
        · simp only [hw, Bool.not_true, Bool.false_eq_true, if_false]
          cases hl : out.getLast? with
          | none => simp only [Option.bind_none]; exact hkeep true
          | some last =>
            cases hls : strOf last with
            | none => simp only [Option.bind_some, hls]; exact hkeep true
            | some pq =>
              obtain ⟨po, ps⟩ := pq
              simp only [Option.bind_some, hls]
              have hout : out.dropLast ++ [last] = out := dropLast_append_of_getLast? hl
              have h1 := catEq_joinGo e rtl rest (out.dropLast ++ [.multi po (if rtl then s ++ ps else ps ++ s)]) true
              refine h1.trans ?_
              rw [List.append_assoc]
              conv => rhs; rw [← hout, List.append_assoc]
              refine CatEq.append (CatEq.refl e rtl _) ?_
              exact CatEq.append (a' := [last, nd]) (catEq_join e rtl hls hs).symm (CatEq.refl e rtl rest)
        · have hw' : w = false := by cases w <;> simp_all
          simp only [hw', Bool.not_false, if_true]
          exact hkeep true

theorem catEq_joinStrings (e : Env) (rtl : Bool) (cs : List RNode) : CatEq e rtl (joinStrings rtl cs) cs := by
  unfold joinStrings
  have := catEq_joinGo e rtl (flatCats cs) [] false
  exact (by simpa using this : CatEq e rtl _ (flatCats cs)).trans (catEq_flatCats e rtl cs)

/-! ## adjacent loops: an individual item followed by a loop over the same test (`aa*` ⇒ `a+`) -/

theorem canGo_shift (hi : Option Nat) (cnt : Nat) : canGo (hi.map (· + 1)) (cnt + 1) = canGo hi cnt := by
  cases hi <;> simp [canGo]

theorem iter_shift (f : St → List St) (lzy : Bool) (lo : Nat) (hi : Option Nat) :
    ∀ (fuel cnt : Nat) (st : St),
      iter f lzy (lo + 1) (hi.map (· + 1)) fuel (cnt + 1) st = iter f lzy lo hi fuel cnt st := by
  intro fuel
  induction fuel with
  | zero => intro cnt st; simp [iter]
  | succ fuel ih =>
    intro cnt st
    simp only [iter, canGo_shift, Nat.add_le_add_iff_right]
    have : ∀ st', iter f lzy (lo + 1) (hi.map (· + 1)) fuel (cnt + 1 + 1) st' = iter f lzy lo hi fuel (cnt + 1) st' :=
      fun st' => ih (cnt + 1) st'
    simp only [this]

theorem m_seq_ltr (e : Env) (a b : Pat) (st : St) : m e (.seq a b) false st = (m e a false st).flatMap (m e b false) := by
  simp [m]

theorem chr_then_loop (e : Env) (q : Pred) (lzy : Bool) (lo : Nat) (hi : Option Nat) (st : St) :
    m e (.seq (.chr q) (.quant lzy lo hi (.chr q))) false st
      = m e (.quant lzy (lo + 1) (hi.map (· + 1)) (.chr q)) false st := by
  have hfuel : e.n + (lo + 1) + 1 = (e.n + lo + 1) + 1 := by omega
  have hcg : canGo (hi.map (· + 1)) 0 = true := by cases hi <;> simp [canGo]
  rw [m_quant e lzy (lo + 1), hfuel, iter_chr_succ, m_seq_ltr, m_chr_ltr]
  have hlo : ¬ (lo + 1 ≤ 0) := by omega
  simp only [hcg, true_and, hlo, if_false, List.nil_append, List.append_nil]
  by_cases ha : acc e q st.pos = true
  · simp only [ha, if_true, List.flatMap_cons, List.flatMap_nil, List.append_nil]
    rw [iter_shift, m_quant]
    cases lzy <;> simp
  · simp only [ha]
    cases lzy <;> simp

theorem addHi_one (hi : Option Nat) : addHi hi (some 1) = hi.map (· + 1) := by
  cases hi <;> simp [addHi]

/-- the node-level statement, any kind of loop -/
theorem chr_cloop_coalesce (e : Env) (p : CP) (k : LK) (lo : Nat) (hi : Option Nat) (st : St) :
    m e (.seq (.chr p.pred) (cloopPat k p lo hi)) false st = m e (cloopPat k p (lo + 1) (addHi hi (some 1))) false st := by
  rw [addHi_one]
  cases k with
  | greedy => exact chr_then_loop e p.pred false lo hi st
  | lzy => exact chr_then_loop e p.pred true lo hi st
  | atomic =>
    simp only [cloopPat]
    rw [m_atomic, ← chr_then_loop e p.pred false lo hi st, m_seq_ltr, m_seq_ltr, m_chr_ltr]
    by_cases ha : acc e p.pred st.pos = true <;> simp [ha, m_atomic]

theorem combine_sound (e : Env) {cur nx cur' : RNode} {r : Option RNode}
    (h : combine false false cur nx = some (cur', r)) :
    r = none ∧ CatEq e false [cur'] [cur, nx] := by
  unfold combine at h
  simp only [Bool.false_eq_true, if_false] at h
  cases cur <;> cases nx <;> simp at h
  case chr.cloop o p o' k p' lo hi =>
    simp only [combineFull] at h
    split at h
    · rename_i hc
      obtain ⟨rfl, rfl⟩ := hc
      split at h
      · simp only [Option.some.injEq, Prod.mk.injEq] at h
        obtain ⟨rfl, rfl⟩ := h
        refine ⟨rfl, ?_⟩
        intro st
        unfold mc
        simp only [toPats, dir, Bool.false_eq_true, if_false, toPat, ms, seqOf]
        exact (chr_cloop_coalesce e p k lo hi st).symm
      · cases h
    · cases h

theorem catEq_coalesceGo (e : Env) : ∀ (rest : List RNode) (cur : RNode),
    CatEq e false (coalesceGo false false cur rest) (cur :: rest)
  | [], cur => by simp [coalesceGo]; exact CatEq.refl e false _
  | nx :: rest, cur => by
    simp only [coalesceGo]
    cases hc : combine false false cur nx with
    | none => exact CatEq.cons cur (catEq_coalesceGo e rest nx)
    | some pr =>
      obtain ⟨cur', r⟩ := pr
      obtain ⟨rfl, hce⟩ := combine_sound e hc
      simp only
      refine (catEq_coalesceGo e rest cur').trans ?_
      exact CatEq.append (a := [cur']) (a' := [cur, nx]) hce (CatEq.refl e false rest)

/-- right-to-left nothing is coalesced in the proved variant -/
theorem coalesceGo_rtl : ∀ (rest : List RNode) (cur : RNode), coalesceGo false true cur rest = cur :: rest
  | [], cur => by simp [coalesceGo]
  | nx :: rest, cur => by
    have : combine false true cur nx = none := by
      unfold combine; cases cur <;> cases nx <;> simp
    simp [coalesceGo, this, coalesceGo_rtl rest nx]

theorem catEq_coalesce (e : Env) (rtl : Bool) (cs : List RNode) : CatEq e rtl (coalesce false rtl cs) cs := by
  cases cs with
  | nil => exact CatEq.refl e rtl _
  | cons c cs =>
    cases rtl with
    | false => exact catEq_coalesceGo e cs c
    | true => rw [coalesce, coalesceGo_rtl]; exact CatEq.refl e true _

/-- in storage (= evaluation) order a Concatenate is evaluated front to back in both directions -/
theorem mc_append (e : Env) (rtl : Bool) (a b : List RNode) (st : St) :
    mc e rtl (a ++ b) st = (mc e rtl a st).flatMap (mc e rtl b) := by
  unfold mc
  rw [toPats_append, dir_append]
  cases rtl with
  | false => exact ms_append_ltr e _ _ st
  | true => exact ms_append_rtl e _ _ st

theorem mc_of_nothing (e : Env) (rtl : Bool) (cs : List RNode) (h : cs.any isNothing = true) (st : St) :
    mc e rtl cs st = [] := by
  rw [List.any_eq_true] at h
  obtain ⟨x, hx, hn⟩ := h
  have : x = .nothing := by cases x <;> simp_all [isNothing]
  subst this
  obtain ⟨a, b, rfl⟩ := List.append_of_mem hx
  rw [mc_append, show RNode.nothing :: b = [RNode.nothing] ++ b from rfl]
  rw [List.flatMap_eq_nil_iff]
  intro y _
  rw [mc_append, mc_single]
  simp [toPat, m]

/-- **`reduceConcatenation` keeps the successes** (the proved variant: no loop·loop coalescing) -/
theorem reduceCat_sound (e : Env) (rtl : Bool) (o : Nat) (cs : List RNode) (st : St) :
    m e (toPat rtl (reduceCat false rtl o cs)) rtl st = m e (toPat rtl (.cat o cs)) rtl st := by
  rw [m_cat]
  unfold reduceCat
  match cs with
  | [] => simp [toPat, m, mc_nil]
  | [c] => simp [mc_single]
  | a :: b :: rest =>
    simp only
    split
    · -- some child is Nothing: no success at all
      rename_i hany
      simp only [toPat, m]
      exact (mc_of_nothing e rtl _ hany st).symm
    · rw [m_mkCat]
      exact ((catEq_joinStrings e rtl _).trans (catEq_coalesce e rtl _)) st

end RegexVerif.RewriteDecisions
